"""Evidence writer (schema: /root/.vp/EVIDENCE.schema.json). Rewritten on every run."""
import json
import os
import time

from .common import EVIDENCE


def write(ctx, result, n_violations):
    os.makedirs(EVIDENCE, exist_ok=True)
    cov = dict(result.coverage)
    ev = {
        "property_id": ctx.prop,
        "tier": ctx.tier,
        "seed": int(ctx.seed),
        "level": result.level,
        "coverage": cov,
        "assumptions": list(result.assumptions),
        "wall_s": round(time.time() - ctx.t0, 2),
        "violations": int(n_violations),
    }
    if result.notes:
        ev["coverage"]["notes"] = list(result.notes)
    path = os.path.join(EVIDENCE, "%s.json" % ctx.prop)
    tmp = path + ".tmp.%d" % os.getpid()
    with open(tmp, "w") as f:
        json.dump(ev, f, indent=1, sort_keys=True, default=str)
        f.write("\n")
    os.replace(tmp, path)
    return path


def validate_shape(result):
    """Cheap local check of the level-specific required keys so a bad evidence file is an exit-2 here,
    not a silent 'no evidence' later."""
    c = result.coverage
    lvl = result.level
    def need(keys):
        miss = [k for k in keys if k not in c]
        if miss:
            raise ValueError("evidence for level %s lacks keys %s" % (lvl, miss))
    if lvl in ("exploration", "fault_enumeration"):
        need(["evaluations", "distinct_nontrivial", "rule", "samples"])
        if c["evaluations"] < 1 or c["distinct_nontrivial"] < 2 or not c["samples"]:
            raise ValueError("exploration evidence too thin: %s" % {k: c[k] for k in ("evaluations", "distinct_nontrivial")})
    elif lvl == "model_checking":
        need(["states", "transitions", "traces_validated_against_impl", "samples"])
        if c["states"] < 1 or c["transitions"] < 1 or not c["samples"]:
            raise ValueError("model_checking evidence too thin")
    elif lvl == "proof":
        need(["obligations", "discharged", "checker_cmd", "trusted_base"])
    elif lvl == "translation_validation":
        need(["programs", "disagreements_checked", "samples"])
    elif lvl == "other":
        need(["explanation"])
