"""Build and run Go drivers against /repo's current working tree.

Two ways in (DESIGN.md 2.2):
 * external module /verif/harness/ext (module "verifext"): go.mod is regenerated from /repo/go.mod on every
   call (same require/replace blocks + `replace github.com/snapcore/snapd => /repo`), go.sum copied.
 * overlay tests: extra _test.go files compiled into a package of /repo with `go test -overlay`, nothing is
   written under /repo.
Both always build with `-tags verif` (the guard of our hooks) unless tags="" is passed.
A build failure raises InfraError (exit 2), never a violation.
"""
import json
import os
import re
import tempfile

from .common import GOENV, HARNESS, REPO, InfraError, sh, tail

EXT = os.path.join(HARNESS, "ext")
SHIM = os.path.join(HARNESS, "c", "shim")


def _atomic_write(path, data):
    if os.path.exists(path):
        with open(path) as f:
            if f.read() == data:
                return
    fd, tmp = tempfile.mkstemp(dir=os.path.dirname(path))
    with os.fdopen(fd, "w") as f:
        f.write(data)
    os.replace(tmp, path)


_ext_cache = {}


def ext_dir(ctx):
    """The external module directory to build in. With the default REPO it is /verif/harness/ext itself;
    with VERIF_REPO pointing at a scratch worktree (mutation testing) a private copy is used so that
    concurrent checks against different trees do not fight over go.mod."""
    if REPO == "/repo":
        ensure_extmod(EXT)
        return EXT
    if ctx.scratch not in _ext_cache:
        import shutil
        d = os.path.join(ctx.scratch, "ext")
        shutil.copytree(EXT, d, ignore=shutil.ignore_patterns("go.mod", "go.sum"))
        ensure_extmod(d)
        _ext_cache[ctx.scratch] = d
    return _ext_cache[ctx.scratch]


def ensure_extmod(ext=None):
    ext = ext or EXT
    with open(os.path.join(REPO, "go.mod")) as f:
        src = f.read()
    lines = src.split("\n")
    out = ["module verifext", "", "go 1.18", ""]
    for ln in lines:
        if ln.startswith("module ") or re.match(r'^go \d', ln) or ln.startswith("toolchain "):
            continue
        out.append(ln)
    out.append("")
    out.append("require github.com/snapcore/snapd v0.0.0")
    out.append("replace github.com/snapcore/snapd => %s" % REPO)
    out.append("")
    _atomic_write(os.path.join(ext, "go.mod"), "\n".join(out))
    with open(os.path.join(REPO, "go.sum")) as f:
        _atomic_write(os.path.join(ext, "go.sum"), f.read())


def _env(extra=None, cgo_shim=False):
    e = dict(GOENV)
    if REPO != "/repo" and not os.environ.get("VERIF_NO_TRIMPATH"):
        # mutation testing in a scratch worktree: -trimpath makes build-cache keys independent of the
        # checkout directory, so only the mutated package (and its dependents) are recompiled
        e["GOFLAGS"] = e["GOFLAGS"] + " -trimpath"
    if cgo_shim:
        e["CGO_CFLAGS"] = "-I" + SHIM
    if extra:
        e.update(extra)
    return e


def ext_test_build(ctx, pkg, tags="verif", timeout=1500):
    """go test -c for /verif/harness/ext/<pkg>; returns path of the test binary."""
    ext = ext_dir(ctx)
    # the path must look like a `go test` binary (.../go-build.../x.test): osutil.IsTestBinary keys the
    # fsync bypass and the Mock* guards (MustBeTestBinary) on it
    out = os.path.join(ctx.subdir("go-build"), pkg.replace("/", "_") + ".test")
    cmd = ["go", "test", "-c", "-vet=off", "-o", out]
    if tags:
        cmd += ["-tags", tags]
    cmd.append("./" + pkg)
    rc, o = sh(cmd, cwd=ext, env=_env(), timeout=timeout)
    if rc != 0 or not os.path.exists(out):
        raise InfraError("go build of harness %s failed (rc=%s):\n%s" % (pkg, rc, tail(o, 40)))
    return out


def ext_build(ctx, pkg, tags="verif", timeout=1500, name=None):
    """go build of a main package under /verif/harness/ext; returns binary path."""
    ext = ext_dir(ctx)
    out = os.path.join(ctx.subdir("gobuild"), name or pkg.replace("/", "_"))
    cmd = ["go", "build", "-o", out]
    if tags:
        cmd += ["-tags", tags]
    cmd.append("./" + pkg)
    rc, o = sh(cmd, cwd=ext, env=_env(), timeout=timeout)
    if rc != 0 or not os.path.exists(out):
        raise InfraError("go build of %s failed (rc=%s):\n%s" % (pkg, rc, tail(o, 40)))
    return out


def overlay_test_build(ctx, repo_pkg, files, tags="verif", cgo_shim=False, timeout=2400):
    """Compile the test binary of /repo/<repo_pkg> with extra files overlaid.

    files: list of paths (under /verif/harness/overlay/...) -> added to the package as
           /repo/<repo_pkg>/<basename>. Refuses to shadow an existing repo file.
    Returns path to the test binary.
    """
    repl = {}
    for src in files:
        dst = os.path.join(REPO, repo_pkg, os.path.basename(src))
        if os.path.exists(dst):
            raise InfraError("overlay would replace existing file %s" % dst)
        repl[dst] = os.path.abspath(src)
    d = ctx.subdir("go-build-overlay")   # see ext_test_build about the directory name
    ov = os.path.join(d, "overlay.json")
    with open(ov, "w") as f:
        json.dump({"Replace": repl}, f)
    out = os.path.join(d, repo_pkg.replace("/", "_") + ".test")
    cmd = ["go", "test", "-c", "-vet=off", "-overlay", ov, "-o", out]
    if tags:
        cmd += ["-tags", tags]
    cmd.append("./" + repo_pkg)
    rc, o = sh(cmd, cwd=REPO, env=_env(cgo_shim=cgo_shim), timeout=timeout)
    if rc != 0 or not os.path.exists(out):
        raise InfraError("go test -c -overlay for %s failed (rc=%s):\n%s" % (repo_pkg, rc, tail(o, 40)))
    return out


def run_test_bin(ctx, binary, run, env=None, cwd=None, timeout=1200, args=None, count=None):
    """Run a compiled Go test binary with -test.run; returns (rc, output).

    gocheck suites: pass args=["-check.f", "suiteOrTestRegex"].
    """
    cmd = [binary, "-test.run", run, "-test.timeout", "%ds" % timeout, "-test.v"]
    if count:
        cmd += ["-test.count", str(count)]
    cmd += (args or [])
    e = dict(GOENV)
    e["VERIF_SEED"] = str(ctx.seed)
    e["VERIF_TIER"] = ctx.tier
    if env:
        e.update({k: str(v) for k, v in env.items()})
    return sh(cmd, cwd=cwd, env=e, timeout=timeout + 30)


def check_driver(rc, out, what):
    """A driver must end with 'PASS' / 'ok'. Anything else (panic inside the harness itself, timeout)
    is infrastructure unless the caller has already extracted violations."""
    if rc == -9:
        raise InfraError("%s: driver timed out\n%s" % (what, tail(out, 20)))
    if rc != 0:
        raise InfraError("%s: driver failed rc=%s\n%s" % (what, rc, tail(out, 40)))
