"""Shared plumbing for /verif checks: context, scratch dirs, subprocesses.

Exit-code contract (see DESIGN.md 2.6):
  0  property held on everything explored (KNOWN-FINDING lines allowed)
  1  + "VIOLATION property=<id> replay=<path>"  a violation reproduced on the real code
  2  infrastructure trouble (build failure, TLC OOM/timeout, dead driver, vacuity guard)
"""
import atexit
import json
import os
import shutil
import subprocess
import sys
import time

VERIF = os.path.dirname(os.path.dirname(os.path.abspath(__file__)))
REPO = os.environ.get("VERIF_REPO", "/repo")
SPEC = os.path.join(VERIF, "spec")
HARNESS = os.path.join(VERIF, "harness")
EVIDENCE = os.path.join(VERIF, "evidence")
if os.environ.get("VERIF_REPO") and os.path.normpath(REPO) != "/repo" and not os.environ.get("VERIF_EVIDENCE_HERE"):
    # a run against a scratch tree (VERIF_REPO=<worktree with a seeded change>) must not overwrite the evidence
    # of the real tree
    EVIDENCE = os.path.join(os.environ.get("VERIF_SCRATCH", "/var/tmp"), "verif.evidence.alt")
REPLAY = os.path.join(VERIF, "replay")
SCRATCH_ROOT = os.environ.get("VERIF_SCRATCH", "/var/tmp")

GOENV = {
    "GOFLAGS": "-mod=mod",
    "GOPROXY": "off",
    "GOSUMDB": "off",
    "GOTOOLCHAIN": "local",
    "CGO_ENABLED": "1",
}


class InfraError(Exception):
    """Anything that prevents a verdict (never a violation)."""


class Violation:
    """A violation reproduced on the real code.

    key    -- stable identifier of the specific failing input / call site / history; matched
              against known_findings.json ("match" is a substring test on this key)
    desc   -- one-line human description
    replay -- dict/str written to /verif/replay/<id>-<n>.json so the failure can be re-run
    """

    def __init__(self, key, desc, replay=None):
        self.key = key
        self.desc = desc
        self.replay = replay

    def __repr__(self):
        return "Violation(%r, %r)" % (self.key, self.desc)


class Result:
    def __init__(self, level, coverage, assumptions=None, violations=None, notes=None):
        self.level = level
        self.coverage = coverage
        self.assumptions = assumptions or []
        self.violations = violations or []
        self.notes = notes or []


class Ctx:
    def __init__(self, prop, tier, seed, replay=None, selftest=False):
        self.prop = prop
        self.tier = tier
        self.seed = seed
        self.replay = replay
        self.selftest = selftest
        self.t0 = time.time()
        self.scratch = os.path.join(SCRATCH_ROOT, "verif.%s.%d" % (prop, os.getpid()))
        shutil.rmtree(self.scratch, ignore_errors=True)
        os.makedirs(self.scratch)
        if not os.environ.get("VERIF_KEEP"):
            atexit.register(shutil.rmtree, self.scratch, True)
        self._n = 0
        self._lock = __import__("threading").Lock()

    @property
    def quick(self):
        return self.tier == "quick"

    def pick(self, quick, thorough):
        return quick if self.tier == "quick" else thorough

    def subdir(self, name):
        with self._lock:        # checks start TLC runs / builds from thread pools
            self._n += 1
            n = self._n
        d = os.path.join(self.scratch, "%02d_%s" % (n, name))
        os.makedirs(d)
        return d

    def log(self, *a):
        print("[%s %6.1fs]" % (self.prop, time.time() - self.t0), *a, flush=True)


def sh(cmd, cwd=None, env=None, timeout=None, stdin=None):
    """Run cmd (list), return (rc, combined output). rc=-9 on timeout."""
    e = dict(os.environ)
    if env:
        e.update(env)
    try:
        p = subprocess.run(cmd, cwd=cwd, env=e, stdout=subprocess.PIPE, stderr=subprocess.STDOUT,
                           timeout=timeout, input=stdin)
        return p.returncode, p.stdout.decode("utf-8", "replace")
    except subprocess.TimeoutExpired as ex:
        out = ex.stdout.decode("utf-8", "replace") if ex.stdout else ""
        return -9, out + "\n[verif] TIMEOUT after %ss: %s\n" % (timeout, " ".join(cmd[:4]))


def read_ndjson(path):
    out = []
    with open(path) as f:
        for line in f:
            line = line.strip()
            if line:
                out.append(json.loads(line))
    return out


def write_ndjson(path, rows):
    with open(path, "w") as f:
        for r in rows:
            f.write(json.dumps(r, sort_keys=True, separators=(",", ":")) + "\n")


def tail(s, n=40):
    lines = s.rstrip().split("\n")
    return "\n".join(lines[-n:])


def ncpu():
    try:
        return len(os.sched_getaffinity(0))
    except Exception:
        return os.cpu_count() or 4
