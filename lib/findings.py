"""known_findings.json: committed, never written at run time.

{"known": [ {"property": "C33", "match": "<substring of Violation.key>", "what": "..."} ],
 "fixed": [ {"property": "C10", "commit": "<sha>", "what": "..."} ]}
A 'fixed' entry suppresses nothing.
"""
import json
import os

from .common import VERIF

PATH = os.path.join(VERIF, "known_findings.json")


def load():
    if not os.path.exists(PATH):
        return {"known": [], "fixed": []}
    with open(PATH) as f:
        return json.load(f)


def classify(prop, violations):
    """-> (known: list[(entry, [violations])], new: list[violations])"""
    kf = [e for e in load().get("known", []) if e.get("property") == prop]
    known = {}
    new = []
    for v in violations:
        hit = None
        for i, e in enumerate(kf):
            if e["match"] in v.key:
                hit = i
                break
        if hit is None:
            new.append(v)
        else:
            known.setdefault(hit, []).append(v)
    return [(kf[i], vs) for i, vs in sorted(known.items())], new
