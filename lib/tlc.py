"""Run TLC (exhaustive, simulate, trace validation) in a scratch copy and parse its output."""
import glob
import os
import re
import shutil

from .common import SPEC, InfraError, ncpu, sh, tail
from . import tlaparse

JAR = "/opt/veriftools/tla/tla2tools.jar"
DEPS = "/opt/veriftools/tla/CommunityModules-deps.jar"


class TLCResult:
    def __init__(self):
        self.rc = None
        self.out = ""
        self.generated = 0
        self.distinct = 0
        self.depth = 0
        self.ok = False            # finished, no error of any kind
        self.kind = None           # None | invariant | property | postcondition | assumption | deadlock | error | timeout
        self.name = None           # violated invariant/property/postcondition name
        self.trace = []            # parsed counterexample states
        self.coverage = {}         # action name -> (distinct, total) from -coverage 1
        self.traces_generated = 0  # simulate mode
        self.wall = 0.0
        self.dir = None

    def summary(self):
        return "rc=%s kind=%s name=%s generated=%d distinct=%d depth=%d" % (
            self.rc, self.kind, self.name, self.generated, self.distinct, self.depth)


def _parse(out, res):
    m = None
    for m in re.finditer(r'(\d+) states generated, (\d+) distinct states found', out):
        pass
    if m:
        res.generated, res.distinct = int(m.group(1)), int(m.group(2))
    m = re.search(r'depth of the complete state graph search is (\d+)', out)
    if m:
        res.depth = int(m.group(1))
    m = re.search(r'Progress: (\d+) states checked, (\d+) traces generated', out)
    if m:
        res.generated = max(res.generated, int(m.group(1)))
        res.traces_generated = int(m.group(2))
    for m in re.finditer(r'^<(\w+) line \d+, col \d+ to line \d+, col \d+ of module (\w+)(?: \([\d ]+\))?>: (\d+):(\d+)', out, re.M):
        name = m.group(1)
        d, t = int(m.group(3)), int(m.group(4))
        od, ot = res.coverage.get(name, (0, 0))
        res.coverage[name] = (od + d, ot + t)

    if re.search(r'Error: Invariant (\S+) is violated', out):
        res.kind = "invariant"
        res.name = re.search(r'Error: Invariant (\S+) is violated', out).group(1)
    elif re.search(r'Error: Action property (\S+)', out):
        res.kind = "property"
        res.name = re.search(r'Error: Action property (\S+)', out).group(1)
    elif "Temporal properties were violated" in out or re.search(r'Error: Temporal property (\S+) was violated', out):
        res.kind = "property"
        mt = re.search(r'Error: Temporal property (\S+) was violated', out)
        res.name = mt.group(1) if mt else "temporal"
    elif re.search(r'Error: Postcondition (\S+)', out):
        res.kind = "postcondition"
        res.name = re.search(r'Error: Postcondition (\S+)', out).group(1)
    elif re.search(r'Error: Assumption .* is false', out) or "Assumption" in out and "is false" in out:
        res.kind = "assumption"
        mm = re.search(r'Assumption line (\d+)', out)
        res.name = "line %s" % mm.group(1) if mm else None
    elif "Deadlock reached" in out:
        res.kind = "deadlock"
    elif "Error:" in out or "Exception" in out and "at tlc2." in out:
        res.kind = "error"
    if res.kind in ("invariant", "property", "deadlock"):
        i = out.find("The behavior up to this point is")
        if i >= 0:
            try:
                res.trace = tlaparse.parse_states(out[i:])
            except Exception as e:  # keep the raw text for the replay file
                res.trace = [{"action": "unparsed", "vars": {"error": str(e)}}]
    finished = ("Model checking completed. No error has been found." in out) or \
               (res.traces_generated > 0 and res.kind is None and "Finished in" in out)
    res.ok = finished and res.kind is None and res.rc == 0


def run(ctx, module, cfg, *, spec_dir=SPEC, workers=None, simulate=None, depth=None, coverage=False,
        env=None, timeout=600, deque=False, seed=None, extra_files=None, heap=None, xss=None, extra_args=None,
        name=None):
    """Run TLC on spec_dir/<module>.tla with spec_dir/<cfg> in a scratch copy of spec_dir.

    simulate: dict(num=N, file=bool) -> -simulate num=N[,file=...]; depth -> -depth D
    env: extra environment (read in TLA+ as IOEnv.NAME)
    Returns TLCResult; res.dir is the scratch directory (simulate files: res.dir/sim_*).
    Raises InfraError on timeout / JVM failure / parse (SANY) errors.
    """
    import time
    d = ctx.subdir(name or ("tlc_" + module))
    for f in glob.glob(os.path.join(spec_dir, "*.tla")) + glob.glob(os.path.join(spec_dir, "*.cfg")):
        try:
            shutil.copy(f, d)
        except FileNotFoundError:   # another process removed a file between glob and copy
            pass
    for f in (extra_files or []):
        shutil.copy(f, d)
    if workers is None:
        workers = ncpu()
    jopts = []
    if deque:
        jopts.append("-Dtlc2.tool.queue.IStateQueue=StateDeque")
    jopts.append("-Xss%s" % (xss or "64m"))
    jopts.append("-Xmx%s" % (heap or "6g"))
    # keep each JVM's helper threads modest: many checks/builders share the 16 cores
    gcthreads = str(max(2, min(8, int(workers) if str(workers).isdigit() else 8)))
    cmd = ["java", "-XX:+UseParallelGC", "-XX:ParallelGCThreads=" + gcthreads, "-XX:CICompilerCount=2"] + jopts + ["-cp", JAR + ":" + DEPS, "tlc2.TLC",
           "-metadir", os.path.join(d, "meta"), "-noGenerateSpecTE", "-workers", str(workers), "-config", cfg]
    if coverage:
        cmd += ["-coverage", "1"]
    if simulate:
        s = "num=%d" % simulate.get("num", 100)
        if simulate.get("file"):
            s = "file=%s,%s" % (os.path.join(d, "sim"), s)
        cmd += ["-simulate", s]
    if depth:
        cmd += ["-depth", str(depth)]
    if seed is not None:
        cmd += ["-seed", str(seed)]
    cmd += (extra_args or [])
    cmd.append(module)
    res = TLCResult()
    res.dir = d
    t0 = time.time()
    res.rc, res.out = sh(cmd, cwd=d, env=env, timeout=timeout)
    res.wall = time.time() - t0
    with open(os.path.join(d, "tlc.out"), "w") as f:
        f.write(res.out)
    if res.rc == -9:
        res.kind = "timeout"
        raise InfraError("TLC timeout (%ss) on %s/%s\n%s" % (timeout, module, cfg, tail(res.out, 15)))
    _parse(res.out, res)
    if "java.lang.OutOfMemoryError" in res.out or "StackOverflowError" in res.out:
        raise InfraError("TLC resource failure on %s/%s\n%s" % (module, cfg, tail(res.out, 25)))
    if re.search(r'(Parsing or semantic analysis failed|\*\*\* Errors:|Fatal errors while parsing|Semantic errors:)', res.out):
        raise InfraError("SANY errors in %s:\n%s" % (module, tail(res.out, 40)))
    if res.kind == "error":
        raise InfraError("TLC error on %s/%s\n%s" % (module, cfg, tail(res.out, 40)))
    return res


def sim_behaviours(res):
    """Parse -simulate file=... outputs of a run into a list of behaviours (lists of states)."""
    out = []
    for f in sorted(glob.glob(os.path.join(res.dir, "sim_*"))):
        with open(f) as fh:
            out.append(tlaparse.parse_states(fh.read()))
    return out


def require_coverage(res, actions, what="action"):
    """Vacuity guard: every named action must have been taken at least once."""
    missing = [a for a in actions if res.coverage.get(a, (0, 0))[1] == 0]
    if missing:
        raise InfraError("vacuity guard: %s(s) never taken in %s: %s" % (what, res.dir, ", ".join(missing)))


def coverage_summary(res):
    return {k: v[1] for k, v in sorted(res.coverage.items())}


def validate_trace(ctx, module, cfg, trace_path, *, spec_dir=SPEC, env=None, timeout=900, deque=False,
                   extra_files=None, name=None):
    """I->T: check that the NDJSON event file `trace_path` is a behaviour of the trace spec.

    Convention: the trace spec reads `ndJsonDeserialize(IOEnv.VERIF_TRACE)`, consumes exactly one line per
    step (variable `l`), has INVARIANTs for the properties and `POSTCONDITION Accepted` with
    Accepted == TLCGet("stats").diameter - 1 = Len(Trace).
    Returns dict(accepted=bool, stuck_line=int|None (1-based index of the first line that could not be
    consumed), invariant=name|None, res=TLCResult). On an invariant violation `stuck_line` is the line
    whose post-state violates it.
    """
    e = {"VERIF_TRACE": trace_path}
    if env:
        e.update(env)
    res = run(ctx, module, cfg, spec_dir=spec_dir, workers=1, env=e, timeout=timeout, deque=deque,
              extra_files=extra_files, name=name or ("trace_" + module))
    out = {"accepted": res.ok, "stuck_line": None, "invariant": None, "res": res}
    if res.ok:
        return out
    if res.kind == "postcondition":
        out["stuck_line"] = res.depth  # depth-1 lines consumed; line number `depth` was rejected
    elif res.kind in ("invariant", "property"):
        out["invariant"] = res.name
        out["stuck_line"] = max(len(res.trace) - 1, 1)
    else:
        raise InfraError("trace validation of %s ended unexpectedly: %s\n%s" % (trace_path, res.summary(), tail(res.out, 30)))
    return out
