"""Parser for TLA+ values as printed by TLC (counterexample traces, -simulate file=... output).

parse_value("[a |-> 1, b |-> <<2, {3}>>]") -> {"a": 1, "b": [2, frozenset({3})]}
Functions with integer domain 1..n print as tuples; other functions as (k :> v @@ ...) -> dict.
Sets -> sorted list (JSON friendly) unless as_frozenset.
Model values / identifiers -> str.
"""
import re

_tok = re.compile(r'''\s*(?:
    (?P<str>"(?:[^"\\]|\\.)*")|
    (?P<num>-?\d+)|
    (?P<sym><<|>>|\|->|:>|@@|[\[\]\{\}\(\),])|
    (?P<id>[A-Za-z_][A-Za-z0-9_!]*)
)''', re.X)


class _P:
    def __init__(self, s):
        self.toks = []
        pos = 0
        s = s.strip()
        while pos < len(s):
            m = _tok.match(s, pos)
            if not m:
                raise ValueError("cannot tokenize TLA value at %r" % s[pos:pos + 40])
            pos = m.end()
            if m.group("str") is not None:
                self.toks.append(("str", bytes(m.group("str")[1:-1], "utf-8").decode("unicode_escape")))
            elif m.group("num") is not None:
                self.toks.append(("num", int(m.group("num"))))
            elif m.group("sym") is not None:
                self.toks.append(("sym", m.group("sym")))
            else:
                self.toks.append(("id", m.group("id")))
        self.i = 0

    def peek(self):
        return self.toks[self.i] if self.i < len(self.toks) else (None, None)

    def next(self):
        t = self.peek()
        self.i += 1
        return t

    def expect(self, sym):
        t = self.next()
        if t != ("sym", sym):
            raise ValueError("expected %s got %r" % (sym, t))

    def value(self):
        v = self.atom()
        # function literal chains:  a :> b @@ c :> d
        if self.peek() == ("sym", ":>"):
            d = {}
            k = v
            while True:
                self.expect(":>")
                d[_key(k)] = self.atom()
                if self.peek() == ("sym", "@@"):
                    self.next()
                    k = self.atom()
                    continue
                break
            return d
        return v

    def atom(self):
        k, v = self.next()
        if k == "str" or k == "num":
            return v
        if k == "id":
            if v == "TRUE":
                return True
            if v == "FALSE":
                return False
            return v
        if v == "<<":
            out = []
            if self.peek() == ("sym", ">>"):
                self.next()
                return out
            while True:
                out.append(self.value())
                t = self.next()
                if t == ("sym", ">>"):
                    return out
                if t != ("sym", ","):
                    raise ValueError("bad tuple near %r" % (t,))
        if v == "{":
            out = []
            if self.peek() == ("sym", "}"):
                self.next()
                return out
            while True:
                out.append(self.value())
                t = self.next()
                if t == ("sym", "}"):
                    try:
                        return sorted(out, key=lambda x: (str(type(x)), x))
                    except TypeError:
                        return out
                if t != ("sym", ","):
                    raise ValueError("bad set near %r" % (t,))
        if v == "[":
            out = {}
            if self.peek() == ("sym", "]"):
                self.next()
                return out
            while True:
                kk, name = self.next()
                if kk not in ("id", "str"):
                    raise ValueError("bad record field %r" % (name,))
                self.expect("|->")
                out[name] = self.value()
                t = self.next()
                if t == ("sym", "]"):
                    return out
                if t != ("sym", ","):
                    raise ValueError("bad record near %r" % (t,))
        if v == "(":
            x = self.value()
            self.expect(")")
            return x
        raise ValueError("unexpected token %r" % ((k, v),))


def _key(k):
    if isinstance(k, list):
        return tuple(k)
    return k


def parse_value(s):
    p = _P(s)
    v = p.value()
    if p.i != len(p.toks):
        raise ValueError("trailing tokens in TLA value: %r" % (p.toks[p.i:p.i + 5],))
    return v


_state_hdr = re.compile(r'^(?:State (\d+): <(.*)>|\\\* <(.*)>)\s*$')


def parse_states(text):
    """Parse a TLC behaviour (counterexample in stdout, or a -simulate file) into a list of
    {"action": str, "vars": {name: value}}."""
    states = []
    cur = None
    buf = None  # (varname, [lines])

    def flush():
        nonlocal buf
        if buf and cur is not None:
            cur["vars"][buf[0]] = parse_value("\n".join(buf[1]))
        buf = None

    for line in text.split("\n"):
        m = _state_hdr.match(line)
        if m:
            flush()
            act = m.group(2) or m.group(3) or ""
            act = act.split(" line ")[0].strip()
            cur = {"action": act, "vars": {}}
            states.append(cur)
            continue
        if cur is None:
            continue
        if line.startswith("STATE_") or line.startswith("----") or line.startswith("===="):
            continue
        m2 = re.match(r'^/\\ ([A-Za-z_][A-Za-z0-9_]*) = (.*)$', line)
        if m2:
            flush()
            buf = (m2.group(1), [m2.group(2)])
        elif line.strip() == "":
            flush()
        elif buf is not None:
            if re.match(r'^\d+ states generated|^Error:|^Finished|^The depth', line):
                flush()
                cur = None
            else:
                buf[1].append(line)
    flush()
    return states
