// Package syncdir: C23 driver. Runs the REAL osutil.EnsureDirState / EnsureDirStateGlobs /
// EnsureTreeState on temp directories built from abstract cases (tokens of spec/SyncDir.tla) and
// records, per case, the set of distinct outcomes seen over several runs (Go map order is random).
// The outcomes are judged by TLC (spec/TraceSyncDir.tla), never here.
//
// VERIF_IN   ndjson cases: {"case":id,"init":{name:tok},"des":{name:tok|"absent"},"globs":0..2,"flavour":n,"runs":k}
//
//	tree cases additionally carry "tree":true and names of the form "<dir>/<name>"
//
// VERIF_OUT  ndjson: the case + "outs":[{"dir":{name:tok},"changed":[..],"removed":[..],"err":bool,
//
//	"errmsg":..,"extra":[..],"panic":..}] (distinct outcomes) + "seen":[count per outcome]
//
// VERIF_TMP  scratch root (must be on a real filesystem)
package syncdir

import (
	"bufio"
	"encoding/json"
	"fmt"
	"io"
	"os"
	"path/filepath"
	"runtime"
	"sort"
	"strconv"
	"strings"
	"sync"
	"syscall"
	"testing"

	"github.com/snapcore/snapd/osutil"
)

type tcase struct {
	Case    string            `json:"case"`
	Init    map[string]string `json:"init"`
	Des     map[string]string `json:"des"`
	Globs   int               `json:"globs"`
	Flavour int               `json:"flavour"`
	Runs    int               `json:"runs"`
	Tree    bool              `json:"tree,omitempty"`
}

type outcome struct {
	Dir     map[string]string `json:"dir"`
	Changed []string          `json:"changed"`
	Removed []string          `json:"removed"`
	Err     bool              `json:"err"`
	ErrMsg  string            `json:"errmsg,omitempty"`
	Extra   []string          `json:"extra"`
	Panic   string            `json:"panic,omitempty"`
}

type result struct {
	tcase
	Outs []outcome `json:"outs"`
	Seen []int     `json:"seen"`
}

// concrete names: the managed ones match "snap.x.*", the unmanaged ones do not
func concrete(n string) string {
	if strings.HasPrefix(n, "m") {
		return "snap.x." + n
	}
	return "snap.xy." + n
}

func abstract(n string) (string, bool) {
	if strings.HasPrefix(n, "snap.x.m") {
		return strings.TrimPrefix(n, "snap.x."), true
	}
	if strings.HasPrefix(n, "snap.xy.") {
		return strings.TrimPrefix(n, "snap.xy."), true
	}
	return n, false
}

func globsFor(variant int) []string {
	switch variant % 3 {
	case 1:
		return []string{"snap.x.m1", "snap.x.m[23]"}
	case 2:
		return []string{"snap.x.*", "snap.x.m1"}
	}
	return []string{"snap.x.*"}
}

const keepName = "keep"

func permOf(tok string) os.FileMode {
	p := strings.Split(tok, ":")
	v, err := strconv.ParseUint(p[2], 8, 32)
	if err != nil {
		panic("bad perm in token " + tok)
	}
	return os.FileMode(v)
}

func contentOf(tok string) []byte { return []byte(strings.Split(tok, ":")[1]) }

func mustNil(err error) {
	if err != nil {
		panic("harness: " + err.Error())
	}
}

// populate creates the entry `tok` at dir/name
func populate(dir, name, tok string) {
	p := filepath.Join(dir, name)
	switch {
	case tok == "none":
	case tok == "edir":
		mustNil(os.Mkdir(p, 0755))
	case tok == "ndir":
		mustNil(os.Mkdir(p, 0755))
		mustNil(os.WriteFile(filepath.Join(p, keepName), []byte("k"), 0644))
	case strings.HasPrefix(tok, "f:"):
		mustNil(os.WriteFile(p, contentOf(tok), 0600))
		mustNil(os.Chmod(p, permOf(tok)))
	case strings.HasPrefix(tok, "l:"):
		mustNil(os.Symlink(concrete(strings.TrimPrefix(tok, "l:")), p))
	default:
		panic("harness: unknown entry token " + tok)
	}
}

// observe maps dir/name back to a token
func observe(dir, name string) string {
	p := filepath.Join(dir, name)
	fi, err := os.Lstat(p)
	if err != nil {
		if os.IsNotExist(err) {
			return "none"
		}
		return "lstat-error:" + err.Error()
	}
	switch {
	case fi.Mode().IsRegular():
		b, err := os.ReadFile(p)
		if err != nil {
			return "read-error:" + err.Error()
		}
		return fmt.Sprintf("f:%s:%o", string(b), fi.Mode().Perm())
	case fi.Mode()&os.ModeSymlink != 0:
		t, _ := os.Readlink(p)
		a, _ := abstract(t)
		return "l:" + a
	case fi.IsDir():
		es, _ := os.ReadDir(p)
		if len(es) == 0 {
			return "edir"
		}
		if len(es) == 1 && es[0].Name() == keepName {
			return "ndir"
		}
		return "dir-with-unexpected-content"
	}
	return "other:" + fi.Mode().String()
}

type pipeState struct{}

func (pipeState) State() (io.ReadCloser, int64, os.FileMode, error) {
	return io.NopCloser(strings.NewReader("x")), 1, os.ModeNamedPipe | 0644, nil
}

// desiredState builds a real osutil.FileState for a desired token; src is a directory outside
// the synchronised one where referenced files live
func desiredState(tok, src, key string, flavour int) osutil.FileState {
	switch {
	case strings.HasPrefix(tok, "f:"):
		c, perm := contentOf(tok), permOf(tok)
		switch flavour % 3 {
		case 0:
			return &osutil.MemoryFileState{Content: c, Mode: perm}
		case 1:
			p := filepath.Join(src, "ref."+key)
			mustNil(os.WriteFile(p, c, 0600))
			mustNil(os.Chmod(p, perm))
			return osutil.FileReference{Path: p}
		default:
			p := filepath.Join(src, "refmode."+key)
			mustNil(os.WriteFile(p, c, 0600))
			mustNil(os.Chmod(p, 0640)) // the mode of the referenced file must NOT be used
			return osutil.FileReferencePlusMode{FileReference: osutil.FileReference{Path: p}, Mode: perm}
		}
	case strings.HasPrefix(tok, "l:"):
		return osutil.SymlinkFileState{Target: concrete(strings.TrimPrefix(tok, "l:"))}
	case tok == "bad:missing":
		return osutil.FileReference{Path: filepath.Join(src, "does-not-exist."+key)}
	case tok == "bad:mode":
		return &osutil.MemoryFileState{Content: []byte("a"), Mode: os.ModeDir | 0755}
	case tok == "bad:pipe":
		return pipeState{}
	}
	panic("harness: unknown desired token " + tok)
}

func absList(prefix string, l []string) []string {
	out := []string{}
	seen := map[string]bool{}
	for _, n := range l {
		d, b := filepath.Split(n)
		a, _ := abstract(b)
		a = d + a
		if seen[a] {
			a = "dup!" + a
		}
		seen[a] = true
		out = append(out, a)
	}
	sort.Strings(out)
	return out
}

func runDirCase(c *tcase, root string, flavour int) (o outcome) {
	dir := filepath.Join(root, "d")
	src := filepath.Join(root, "src")
	mustNil(os.MkdirAll(dir, 0755))
	mustNil(os.MkdirAll(src, 0755))
	for n, tok := range c.Init {
		populate(dir, concrete(n), tok)
	}
	content := map[string]osutil.FileState{}
	i := 0
	names := make([]string, 0, len(c.Des))
	for n := range c.Des {
		names = append(names, n)
	}
	sort.Strings(names)
	for _, n := range names {
		tok := c.Des[n]
		if tok == "absent" {
			continue
		}
		content[concrete(n)] = desiredState(tok, src, n, flavour+i)
		i++
	}
	o.Dir = map[string]string{}
	o.Extra = []string{}
	func() {
		defer func() {
			if r := recover(); r != nil {
				o.Panic = fmt.Sprint(r)
			}
		}()
		var changed, removed []string
		var err error
		globs := globsFor(c.Globs)
		if len(globs) == 1 {
			changed, removed, err = osutil.EnsureDirState(dir, globs[0], content)
		} else {
			changed, removed, err = osutil.EnsureDirStateGlobs(dir, globs, content)
		}
		o.Changed = absList("", changed)
		o.Removed = absList("", removed)
		if err != nil {
			o.Err = true
			o.ErrMsg = strings.ReplaceAll(err.Error(), root, "$ROOT")
		}
	}()
	if o.Changed == nil {
		o.Changed = []string{}
	}
	if o.Removed == nil {
		o.Removed = []string{}
	}
	for n := range c.Init {
		o.Dir[n] = observe(dir, concrete(n))
	}
	es, err := os.ReadDir(dir)
	mustNil(err)
	for _, e := range es {
		a, ok := abstract(e.Name())
		if _, known := c.Init[a]; !ok || !known {
			o.Extra = append(o.Extra, e.Name())
		}
	}
	return o
}

// ---- EnsureTreeState: keys are "<dir>/<name>" and the markers "<dir>/" (dir in {".", "s1", ...}) ----

func splitKey(full string) (sub, n string) {
	i := strings.LastIndex(full, "/")
	return full[:i], full[i+1:]
}

func treeList(l []string) []string {
	out := []string{}
	seen := map[string]bool{}
	for _, p := range l {
		d, b := filepath.Split(p)
		a, _ := abstract(b)
		d = strings.TrimSuffix(d, "/")
		if d == "" {
			d = "."
		}
		a = d + "/" + a
		if seen[a] {
			a = "dup!" + a
		}
		seen[a] = true
		out = append(out, a)
	}
	sort.Strings(out)
	return out
}

func runTreeCase(c *tcase, root string, flavour int) (o outcome) {
	base := filepath.Join(root, "d")
	src := filepath.Join(root, "src")
	mustNil(os.MkdirAll(base, 0755))
	mustNil(os.MkdirAll(src, 0755))
	exists := map[string]bool{}
	for full, tok := range c.Init {
		sub, n := splitKey(full)
		if n == "" && tok != "nodir" {
			exists[sub] = true
			mustNil(os.MkdirAll(filepath.Join(base, sub), 0755))
		}
	}
	for full, tok := range c.Init {
		sub, n := splitKey(full)
		if n == "" || !exists[sub] {
			continue
		}
		populate(filepath.Join(base, sub), concrete(n), tok)
	}
	content := map[string]map[string]osutil.FileState{}
	keys := make([]string, 0, len(c.Des))
	for k := range c.Des {
		keys = append(keys, k)
	}
	sort.Strings(keys)
	for _, full := range keys {
		sub, n := splitKey(full)
		if n == "" && c.Des[full] == "listed" {
			content[sub] = map[string]osutil.FileState{}
		}
	}
	i := 0
	for _, full := range keys {
		sub, n := splitKey(full)
		tok := c.Des[full]
		if n == "" || tok == "absent" {
			continue
		}
		if content[sub] == nil {
			panic("harness: desired file in a directory that is not listed: " + full)
		}
		content[sub][concrete(n)] = desiredState(tok, src, strings.ReplaceAll(full, "/", "_"), flavour+i)
		i++
	}
	o.Dir = map[string]string{}
	o.Extra = []string{}
	func() {
		defer func() {
			if r := recover(); r != nil {
				o.Panic = fmt.Sprint(r)
			}
		}()
		changed, removed, err := osutil.EnsureTreeState(base, globsFor(c.Globs), content)
		o.Changed = treeList(changed)
		o.Removed = treeList(removed)
		if err != nil {
			o.Err = true
			o.ErrMsg = strings.ReplaceAll(err.Error(), root, "$ROOT")
		}
	}()
	if o.Changed == nil {
		o.Changed = []string{}
	}
	if o.Removed == nil {
		o.Removed = []string{}
	}
	known := map[string]bool{}
	for full := range c.Init {
		sub, n := splitKey(full)
		isDir := osutil.IsDirectory(filepath.Join(base, sub))
		if n == "" {
			known[filepath.Clean(sub)] = true
			if isDir {
				o.Dir[full] = "dir"
			} else {
				o.Dir[full] = "nodir"
			}
			continue
		}
		known[filepath.Join(sub, concrete(n))] = true
		if isDir {
			o.Dir[full] = observe(filepath.Join(base, sub), concrete(n))
		} else {
			o.Dir[full] = "none"
		}
	}
	filepath.Walk(base, func(p string, fi os.FileInfo, err error) error {
		if err != nil || p == base {
			return nil
		}
		rel, _ := filepath.Rel(base, p)
		if !known[rel] {
			o.Extra = append(o.Extra, rel)
		}
		return nil
	})
	return o
}

func TestVerifSyncDir(t *testing.T) {
	in, outp, tmp := os.Getenv("VERIF_IN"), os.Getenv("VERIF_OUT"), os.Getenv("VERIF_TMP")
	if in == "" || outp == "" || tmp == "" {
		t.Fatal("VERIF_IN, VERIF_OUT, VERIF_TMP must be set")
	}
	f, err := os.Open(in)
	mustNil(err)
	defer f.Close()
	var cases []*tcase
	sc := bufio.NewScanner(f)
	sc.Buffer(make([]byte, 1<<20), 1<<24)
	for sc.Scan() {
		if len(strings.TrimSpace(sc.Text())) == 0 {
			continue
		}
		c := &tcase{}
		mustNil(json.Unmarshal(sc.Bytes(), c))
		cases = append(cases, c)
	}
	mustNil(sc.Err())
	// EnsureFileState calls FileState.State() up to three times per file and closes only the readers used
	// for the comparison; a FileReference therefore leaves *os.File values to the garbage collector's
	// finalizers. Over 10^5 executions that exhausts the descriptor table unless the limit is raised and
	// the collector is run now and then (done below, every 128 executions per worker).
	var rl syscall.Rlimit
	if err := syscall.Getrlimit(syscall.RLIMIT_NOFILE, &rl); err == nil && rl.Cur < rl.Max {
		rl.Cur = rl.Max
		syscall.Setrlimit(syscall.RLIMIT_NOFILE, &rl)
	}
	nw := 4
	if s := os.Getenv("VERIF_PAR"); s != "" {
		nw, _ = strconv.Atoi(s)
	}
	results := make([]result, len(cases))
	var wg sync.WaitGroup
	jobs := make(chan int, 1024)
	var execs int64
	var mu sync.Mutex
	for w := 0; w < nw; w++ {
		wg.Add(1)
		go func(w int) {
			defer wg.Done()
			n := 0
			for i := range jobs {
				c := cases[i]
				r := result{tcase: *c}
				idx := map[string]int{}
				runs := c.Runs
				if runs < 1 {
					runs = 1
				}
				for k := 0; k < runs; k++ {
					// a fresh directory for every execution (never reused, so a cleanup that failed
					// cannot leak into a later case)
					root := filepath.Join(tmp, fmt.Sprintf("w%d", w), fmt.Sprintf("r%d", n))
					mustNil(os.MkdirAll(root, 0755))
					var o outcome
					if c.Tree {
						o = runTreeCase(c, root, c.Flavour+k)
					} else {
						o = runDirCase(c, root, c.Flavour+k)
					}
					n++
					if n%16 == 0 { // leaked *os.File readers of FileReference states are only closed by finalizers
						runtime.GC()
					}
					msg := o.ErrMsg
					o.ErrMsg = ""
					b, _ := json.Marshal(o)
					if j, ok := idx[string(b)]; ok {
						r.Seen[j]++
					} else {
						idx[string(b)] = len(r.Outs)
						o.ErrMsg = msg
						r.Outs = append(r.Outs, o)
						r.Seen = append(r.Seen, 1)
					}
					if err := os.RemoveAll(root); err != nil {
						if err = os.RemoveAll(root); err != nil {
							t.Logf("VERIF_CLEANUP_FAILED %s: %v", root, err)
						}
					}
				}
				results[i] = r
			}
			mu.Lock()
			execs += int64(n)
			mu.Unlock()
		}(w)
	}
	for i := range cases {
		jobs <- i
	}
	close(jobs)
	wg.Wait()
	of, err := os.Create(outp)
	mustNil(err)
	bw := bufio.NewWriterSize(of, 1<<20)
	enc := json.NewEncoder(bw)
	enc.SetEscapeHTML(false)
	for i := range results {
		mustNil(enc.Encode(&results[i]))
	}
	mustNil(bw.Flush())
	mustNil(of.Close())
	t.Logf("VERIF_EXECS=%d cases=%d", execs, len(cases))
}
