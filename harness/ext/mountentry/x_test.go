// C28 (codec clause): mount entries written to a profile read back unchanged.
// T->I: evaluates the REAL osutil.MountEntry.String / ParseMountEntry / SaveMountProfileText /
// LoadMountProfileText / MountProfile.Save / LoadMountProfile on every row of the table exported by TLC from
// spec/MountCodec.tla (VERIF_TABLE) and writes what the real code did (VERIF_OUT); the comparison with the
// spec's columns is done by props/_mountplan.py. A seeded random part exercises all fields at once (longer
// fields, more kinds of white space, several entries per profile, dump/pass numbers).
package mountentry

import (
	"encoding/json"
	"fmt"
	"math/rand"
	"os"
	"path/filepath"
	"reflect"
	"strconv"
	"strings"
	"testing"

	"github.com/snapcore/snapd/osutil"
)

var tokChars = map[string]string{"a": "a", "sp": " ", "tab": "\t", "nl": "\n", "bs": "\\", "hash": "#",
	"oct": "\\040", "cr": "\r", "vt": "\v", "ff": "\f", "nel": "\u0085", "nbsp": " ", "b": "b",
	"oct2": "\\134", "zero": "0", "none": "none", "dq": "\""}

type row struct {
	Tok  []string `json:"tok"`
	Pos  string   `json:"pos"`
	Line string   `json:"line"`
	Esc  string   `json:"esc"`
}

type outRow struct {
	Tok       []string `json:"tok"`
	Pos       string   `json:"pos"`
	Field     string   `json:"field"`
	Esc       string   `json:"esc"`
	Line      string   `json:"line"`
	LawEsc    bool     `json:"lawesc"`
	LawParse  bool     `json:"lawparse"`
	LawLoad   bool     `json:"lawload"`
	ParseErr  string   `json:"parse_err,omitempty"`
	LoadErr   string   `json:"load_err,omitempty"`
	ReadBack  string   `json:"read_back,omitempty"`
	FileAgree bool     `json:"file_agree"`
}

func field(toks []string) string {
	var sb strings.Builder
	for _, t := range toks {
		c, ok := tokChars[t]
		if !ok {
			panic("unknown token " + t)
		}
		sb.WriteString(c)
	}
	return sb.String()
}

func entryWith(pos, f string) osutil.MountEntry {
	e := osutil.MountEntry{Name: "x", Dir: "x", Type: "x", Options: []string{"x"}}
	switch pos {
	case "n":
		e.Name = f
	case "d":
		e.Dir = f
	case "t":
		e.Type = f
	case "o":
		e.Options = []string{f}
	}
	return e
}

func parseLaw(e osutil.MountEntry) (bool, string) {
	got, err := osutil.ParseMountEntry(e.String())
	if err != nil {
		return false, err.Error()
	}
	return got.Equal(&e), ""
}

// loadLaw: text round trip of the profile; also through a real file (Save / LoadMountProfile) when dir != ""
func loadLaw(es []osutil.MountEntry, dir string) (ok bool, errs string, readBack string, fileAgree bool) {
	p := &osutil.MountProfile{Entries: es}
	text, err := osutil.SaveMountProfileText(p)
	if err != nil {
		return false, err.Error(), "", true
	}
	got, err := osutil.LoadMountProfileText(text)
	fileAgree = true
	if dir != "" {
		fn := filepath.Join(dir, "p.fstab")
		if err2 := p.Save(fn); err2 != nil {
			return false, "save: " + err2.Error(), "", false
		}
		got2, err2 := osutil.LoadMountProfile(fn)
		fileAgree = (err == nil) == (err2 == nil) && (err != nil || reflect.DeepEqual(got, got2))
	}
	if err != nil {
		return false, err.Error(), "", fileAgree
	}
	if len(got.Entries) != len(es) {
		return false, "", fmt.Sprintf("%q", got.Entries), fileAgree
	}
	for i := range es {
		if !got.Entries[i].Equal(&es[i]) {
			return false, "", fmt.Sprintf("%q", got.Entries), fileAgree
		}
	}
	return true, "", "", fileAgree
}

func TestVerifMountCodec(t *testing.T) {
	tablePath, outPath := os.Getenv("VERIF_TABLE"), os.Getenv("VERIF_OUT")
	if tablePath == "" || outPath == "" {
		t.Skip("VERIF_TABLE / VERIF_OUT not set")
	}
	data, err := os.ReadFile(tablePath)
	if err != nil {
		t.Fatal(err)
	}
	var table struct {
		Rows []row `json:"rows"`
	}
	if err := json.Unmarshal(data, &table); err != nil {
		t.Fatal(err)
	}
	tmp, err := os.MkdirTemp(os.Getenv("VERIF_TMP"), "codec")
	if err != nil {
		t.Fatal(err)
	}
	defer os.RemoveAll(tmp)
	plain := osutil.MountEntry{Name: "x", Dir: "x", Type: "x", Options: []string{"x"}}
	var out []outRow
	for i, r := range table.Rows {
		f := field(r.Tok)
		e := entryWith(r.Pos, f)
		o := outRow{Tok: r.Tok, Pos: r.Pos, Field: f, Esc: osutil.Escape(f), Line: e.String()}
		o.LawEsc = osutil.Unescape(osutil.Escape(f)) == f
		o.LawParse, o.ParseErr = parseLaw(e)
		d := ""
		if i%16 == 0 {
			d = tmp
		}
		ok1, err1, rb1, fa1 := loadLaw([]osutil.MountEntry{e}, d)
		ok2, err2, rb2, fa2 := loadLaw([]osutil.MountEntry{plain, e, plain}, d)
		o.LawLoad = ok1 && ok2
		o.LoadErr, o.ReadBack, o.FileAgree = err1+err2, rb1, fa1 && fa2
		if rb1 == "" {
			o.ReadBack = rb2
		}
		out = append(out, o)
	}

	// seeded random part: all fields at once
	seed := int64(1)
	if s := os.Getenv("VERIF_SEED"); s != "" {
		if n, err := strconv.ParseInt(s, 10, 64); err == nil {
			seed = n
		}
	}
	n := 2000
	if s := os.Getenv("VERIF_N"); s != "" {
		if v, err := strconv.Atoi(s); err == nil {
			n = v
		}
	}
	rnd := rand.New(rand.NewSource(seed))
	var names []string
	for k := range tokChars {
		names = append(names, k)
	}
	// deterministic order of the token names
	for i := range names {
		for j := i + 1; j < len(names); j++ {
			if names[j] < names[i] {
				names[i], names[j] = names[j], names[i]
			}
		}
	}
	randField := func() []string {
		for {
			k := 1 + rnd.Intn(6)
			var ts []string
			for i := 0; i < k; i++ {
				ts = append(ts, names[rnd.Intn(len(names))])
			}
			if ts[0] != "hash" {
				return ts
			}
		}
	}
	type randCase struct {
		Entries [][]string `json:"entries"` // per entry: "tok tok.." for n, d, t, then options
		Parse   bool       `json:"lawparse"`
		Load    bool       `json:"lawload"`
		Detail  string     `json:"detail,omitempty"`
		Lead    string     `json:"lead"` // first token of the first entry's name (classification)
	}
	var rcases []randCase
	for c := 0; c < n; c++ {
		ne := 1 + rnd.Intn(3)
		var es []osutil.MountEntry
		rc := randCase{Parse: true}
		for i := 0; i < ne; i++ {
			nt, dt, tt := randField(), randField(), randField()
			e := osutil.MountEntry{Name: field(nt), Dir: field(dt), Type: field(tt),
				DumpFrequency: rnd.Intn(3), CheckPassNumber: rnd.Intn(3)}
			desc := []string{strings.Join(nt, " "), strings.Join(dt, " "), strings.Join(tt, " ")}
			for k := 1 + rnd.Intn(3); k > 0; k-- {
				ot := randField()
				e.Options = append(e.Options, field(ot))
				desc = append(desc, strings.Join(ot, " "))
			}
			if i == 0 {
				rc.Lead = nt[0]
			}
			es = append(es, e)
			rc.Entries = append(rc.Entries, desc)
			if ok, _ := parseLaw(e); !ok {
				rc.Parse = false
			}
		}
		ok, errs, rb, _ := loadLaw(es, "")
		rc.Load = ok
		rc.Detail = errs + rb
		// which entries start with white space that the profile reader trims
		rcases = append(rcases, rc)
	}
	res := map[string]interface{}{"rows": out, "random": rcases}
	js, err := json.Marshal(res)
	if err != nil {
		t.Fatal(err)
	}
	if err := os.WriteFile(outPath, js, 0644); err != nil {
		t.Fatal(err)
	}
	fmt.Printf("VERIF-SUMMARY rows=%d random=%d\n", len(out), len(rcases))
}
