package pathpat

import (
	"fmt"
	"sort"
	"strings"
	"testing"

	"github.com/snapcore/snapd/interfaces/prompting/patterns"
)

// ---- C37: interfaces/prompting/patterns vs PathPattern.tla ----
//
// Patterns travel as ASTs (the same JSON is read by TLC and by this driver):
//   item  = {"c": <byte code>, "alts": []}                     one pattern byte
//         | {"c": 0, "alts": [[item...], [item...], ...]}      a group {alt,alt,...}
// The driver renders the AST to the pattern string and calls the real parser/matcher.

type item struct {
	C    int      `json:"c"`
	Alts [][]item `json:"alts"`
}

type patRec struct {
	ID  int    `json:"id"`
	Ast []item `json:"ast"`
	Big bool   `json:"big"` // count only: the reference does not expand it (over or near the limit)
}

type domainFile struct {
	Paths    [][]int  `json:"paths"`
	Patterns []patRec `json:"patterns"`
}

func renderItems(b *strings.Builder, items []item) {
	for _, it := range items {
		if it.C != 0 {
			b.WriteByte(byte(it.C))
			continue
		}
		b.WriteByte('{')
		for i, a := range it.Alts {
			if i > 0 {
				b.WriteByte(',')
			}
			renderItems(b, a)
		}
		b.WriteByte('}')
	}
}

func render(items []item) string {
	var b strings.Builder
	renderItems(&b, items)
	return b.String()
}

// realPat is everything the real code says about one pattern string.
type realPat struct {
	s        string
	ok       bool
	err      string
	n        int // NumVariants()
	calls    int // number of RenderAllVariants callbacks
	idxOK    bool
	variants []patterns.PatternVariant
}

func evalPattern(s string) *realPat {
	r := &realPat{s: s, idxOK: true}
	p, err := patterns.ParsePathPattern(s)
	if err != nil {
		r.err = err.Error()
		return r
	}
	r.ok = true
	r.n = p.NumVariants()
	p.RenderAllVariants(func(i int, v patterns.PatternVariant) {
		if i != r.calls {
			r.idxOK = false
		}
		r.calls++
		r.variants = append(r.variants, v)
	})
	return r
}

// match encodes PathPatternMatches: 0 no, 1 yes, 2 error.
func match(pattern, path string) int {
	m, err := patterns.PathPatternMatches(pattern, path)
	if err != nil {
		return 2
	}
	if m {
		return 1
	}
	return 0
}

func idxSet(bits []int) []int {
	out := []int{}
	for j, b := range bits {
		if b == 1 {
			out = append(out, j+1)
		}
	}
	return out
}

func pathStrings(codesList [][]int) []string {
	out := make([]string, len(codesList))
	for i, c := range codesList {
		out[i] = fromCodes(c)
	}
	return out
}

// TestVerifC37Dump (development/calibration aid and evidence samples): the real results for every
// pattern of the domain files in VERIF_DOMAINS.
func TestVerifC37Dump(t *testing.T) {
	em := newEmitter(t, "VERIF_OUT")
	defer em.close()
	for _, path := range envFiles("VERIF_DOMAINS") {
		var d domainFile
		readJSON(t, path, &d)
		paths := pathStrings(d.Paths)
		for _, pr := range d.Patterns {
			s := render(pr.Ast)
			r := evalPattern(s)
			rec := map[string]interface{}{"id": pr.ID, "s": s, "ok": r.ok, "err": r.err, "n": r.n, "calls": r.calls}
			if r.ok {
				m := make([]int, len(paths))
				for j, p := range paths {
					m[j] = match(s, p)
				}
				rec["m"] = idxSet(m)
				var vs []string
				var vm [][]int
				for _, v := range r.variants {
					vs = append(vs, v.String())
					row := make([]int, len(paths))
					for j, p := range paths {
						row[j] = match(v.String(), p)
					}
					vm = append(vm, idxSet(row))
				}
				rec["vars"] = vs
				rec["vm"] = vm
			}
			em.emit(rec)
		}
	}
}

var _ = fmt.Sprintf
var _ = sort.Ints
