package pathpat

import (
	"fmt"
	"sort"
	"strings"
	"sync/atomic"
	"testing"
	"time"

	"github.com/snapcore/snapd/interfaces/prompting/patterns"
)

// ---- C37: interfaces/prompting/patterns vs PathPattern.tla ----
//
// Patterns travel as ASTs (the same JSON is read by TLC and by this driver):
//   item  = {"c": <byte code>, "alts": []}                     one pattern byte
//         | {"c": 0, "alts": [[item...], [item...], ...]}      a group {alt,alt,...}
// The driver renders the AST to the pattern string and calls the real parser/matcher.

type item struct {
	C    int      `json:"c"`
	Alts [][]item `json:"alts"`
}

type patRec struct {
	ID  int    `json:"id"`
	Ast []item `json:"ast"`
	Big bool   `json:"big"` // count only: the reference does not expand it (over or near the limit)
}

type domainFile struct {
	Paths    [][]int  `json:"paths"`
	Patterns []patRec `json:"patterns"`
}

func renderItems(b *strings.Builder, items []item) {
	for _, it := range items {
		if it.C != 0 {
			b.WriteByte(byte(it.C))
			continue
		}
		b.WriteByte('{')
		for i, a := range it.Alts {
			if i > 0 {
				b.WriteByte(',')
			}
			renderItems(b, a)
		}
		b.WriteByte('}')
	}
}

func render(items []item) string {
	var b strings.Builder
	renderItems(&b, items)
	return b.String()
}

// realPat is everything the real code says about one pattern string.
type realPat struct {
	s        string
	ok       bool
	err      string
	n        int // NumVariants()
	calls    int // number of RenderAllVariants callbacks
	idxOK    bool
	hang     bool
	variants []patterns.PatternVariant
}

// enumerate runs RenderAllVariants under a watchdog: renderAllVariants does not advance when
// parsePatternVariant fails ("should never occur"), so a defect that lets an unparsable variant
// through would spin forever. A hang is reported as a difference (hang = true); after 3 hangs no
// further pattern is enumerated (the spinning goroutines cannot be stopped).
var hangs, enumSkipped int32

func enumerate(p *patterns.PathPattern) (variants []patterns.PatternVariant, idxOK bool, hang bool) {
	if atomic.LoadInt32(&hangs) >= 3 {
		// not enumerated any more: reported as one "hang" record with skipped = true by the callers' stats
		atomic.AddInt32(&enumSkipped, 1)
		return nil, true, true
	}
	type res struct {
		vs    []patterns.PatternVariant
		idxOK bool
	}
	done := make(chan res, 1)
	go func() {
		r := res{idxOK: true}
		p.RenderAllVariants(func(i int, v patterns.PatternVariant) {
			if i != len(r.vs) {
				r.idxOK = false
			}
			r.vs = append(r.vs, v)
		})
		done <- r
	}()
	select {
	case r := <-done:
		return r.vs, r.idxOK, false
	case <-time.After(time.Duration(envInt("VERIF_HANG_S", 30)) * time.Second):
		atomic.AddInt32(&hangs, 1)
		return nil, true, true
	}
}

func evalPattern(s string) *realPat {
	r := &realPat{s: s, idxOK: true}
	p, err := patterns.ParsePathPattern(s)
	if err != nil {
		r.err = err.Error()
		return r
	}
	r.ok = true
	r.n = p.NumVariants()
	r.variants, r.idxOK, r.hang = enumerate(p)
	r.calls = len(r.variants)
	return r
}

// match encodes PathPatternMatches: 0 no, 1 yes, 2 error.
func match(pattern, path string) int {
	m, err := patterns.PathPatternMatches(pattern, path)
	if err != nil {
		return 2
	}
	if m {
		return 1
	}
	return 0
}

func idxSet(bits []int) []int {
	out := []int{}
	for j, b := range bits {
		if b == 1 {
			out = append(out, j+1)
		}
	}
	return out
}

func pathStrings(codesList [][]int) []string {
	out := make([]string, len(codesList))
	for i, c := range codesList {
		out[i] = fromCodes(c)
	}
	return out
}

// TestVerifC37Dump (development/calibration aid and evidence samples): the real results for every
// pattern of the domain files in VERIF_DOMAINS.
func TestVerifC37Dump(t *testing.T) {
	em := newEmitter(t, "VERIF_OUT")
	defer em.close()
	for _, path := range envFiles("VERIF_DOMAINS") {
		var d domainFile
		readJSON(t, path, &d)
		paths := pathStrings(d.Paths)
		for _, pr := range d.Patterns {
			s := render(pr.Ast)
			r := evalPattern(s)
			rec := map[string]interface{}{"id": pr.ID, "s": s, "ok": r.ok, "err": r.err, "n": r.n, "calls": r.calls}
			if r.ok {
				m := make([]int, len(paths))
				for j, p := range paths {
					m[j] = match(s, p)
				}
				rec["m"] = idxSet(m)
				var vs []string
				var vm [][]int
				for _, v := range r.variants {
					vs = append(vs, v.String())
					row := make([]int, len(paths))
					for j, p := range paths {
						row[j] = match(v.String(), p)
					}
					vm = append(vm, idxSet(row))
				}
				rec["vars"] = vs
				rec["vm"] = vm
			}
			em.emit(rec)
		}
	}
}

type expandRow struct {
	ID int     `json:"id"`
	N  int     `json:"n"`
	OK bool    `json:"ok"`
	Ex [][]int `json:"ex"`
}

type expandTable struct {
	Rows []expandRow `json:"rows"`
}

type globDomain struct {
	Paths   [][]int `json:"paths"`
	Strings [][]int `json:"strings"`
}

type globTable struct {
	NPaths int     `json:"npaths"`
	Rows   [][]int `json:"rows"`
}

func bitsOf(idx []int, n int) []bool {
	out := make([]bool, n)
	for _, j := range idx {
		out[j-1] = true
	}
	return out
}

// realRow evaluates PathPatternMatches(pattern, path) for every path; errs counts match errors.
func realRow(pattern string, paths []string, errs *int) []bool {
	out := make([]bool, len(paths))
	for j, p := range paths {
		switch match(pattern, p) {
		case 1:
			out[j] = true
		case 2:
			*errs++
		}
	}
	return out
}

func rowKey(b []bool) string {
	bs := make([]byte, len(b))
	any := false
	for i, x := range b {
		if x {
			bs[i] = '1'
			any = true
		} else {
			bs[i] = '0'
		}
	}
	if !any {
		return ""
	}
	return string(bs)
}

// TestVerifC37Table: T->I. The reference comes from TLC in factored form (PathPatternTable.tla):
//   VERIF_DOMAINS/VERIF_EXPAND  per pattern (AST): NumVariants, accepted, Expand(p)
//   VERIF_GLOBDOM/VERIF_GLOB    per distinct expansion v: the paths with PPM(v, path)
// so RefMatch(p, path) = exists v in Expand(p): PPM(v, path). The driver evaluates the real
// ParsePathPattern / NumVariants / RenderAllVariants / PathPatternMatches on the same domain:
//   glob       real PathPatternMatches(v, path) != reference PPM(v, path), v brace-less
//   accept     ParsePathPattern accepts/rejects differently from the reference
//   count      NumVariants != number of callbacks, != reference, or > limit
//   match      real PathPatternMatches(p, path) != OR over the reference expansions v of the real
//              PathPatternMatches(v, path)             (pattern vs its expansions)
//   normalise  OR over the reference expansions != OR over the variants handed to the callback
//              (v.String()), i.e. the enumerated expansion does not match what the expansion matches
//   variants   real PathPatternMatches(p, path) != OR over the real variants although match and
//              normalise agree (cannot happen; kept as a consistency check)
func TestVerifC37Table(t *testing.T) {
	em := newEmitter(t, "VERIF_OUT")
	defer em.close()
	maxPer := envInt("VERIF_MAX_MISMATCH", 2000)
	emitted := map[string]int{}
	total := map[string]int{}
	report := func(kind string, rec map[string]interface{}) {
		total[kind]++
		if emitted[kind] < maxPer {
			emitted[kind]++
			rec["kind"] = kind
			em.emit(rec)
		}
	}

	var paths []string
	globRef := map[string][]bool{}
	globReal := map[string][]bool{}
	var evals, matchErrs, globStrings int
	gd := envFiles("VERIF_GLOBDOM")
	gt := envFiles("VERIF_GLOB")
	if len(gd) != len(gt) || len(gd) == 0 {
		t.Fatalf("VERIF_GLOBDOM/VERIF_GLOB: %d/%d files", len(gd), len(gt))
	}
	for k := range gd {
		var d globDomain
		var tb globTable
		readJSON(t, gd[k], &d)
		readJSON(t, gt[k], &tb)
		ps := pathStrings(d.Paths)
		if paths == nil {
			paths = ps
		} else if strings.Join(paths, " ") != strings.Join(ps, " ") {
			t.Fatalf("%s: path domain differs between files", gd[k])
		}
		if tb.NPaths != len(paths) || len(tb.Rows) != len(d.Strings) {
			t.Fatalf("%s: glob table shape mismatch (%d paths/%d, %d rows/%d)", gt[k], tb.NPaths, len(paths), len(tb.Rows), len(d.Strings))
		}
		for i, sc := range d.Strings {
			v := fromCodes(sc)
			ref := bitsOf(tb.Rows[i], len(paths))
			real := realRow(v, paths, &matchErrs)
			evals += len(paths)
			globStrings++
			globRef[v] = ref
			globReal[v] = real
			for j := range paths {
				if ref[j] != real[j] {
					report("glob", map[string]interface{}{"v": v, "path": paths[j], "exp": ref[j], "got": real[j]})
					break
				}
			}
		}
	}

	doms := envFiles("VERIF_DOMAINS")
	exps := envFiles("VERIF_EXPAND")
	if len(doms) != len(exps) || len(doms) == 0 {
		t.Fatalf("VERIF_DOMAINS/VERIF_EXPAND: %d/%d files", len(doms), len(exps))
	}
	var npat, nacc, nrej, nbig, nvariants, orderExact, refMatchDiff, bDiff int
	distinct := map[string]bool{}
	normSeen := map[string]bool{}
	hist := map[string]int{}
	for k := range doms {
		var d domainFile
		var tb expandTable
		readJSON(t, doms[k], &d)
		readJSON(t, exps[k], &tb)
		if strings.Join(pathStrings(d.Paths), " ") != strings.Join(paths, " ") {
			t.Fatalf("%s: path domain differs from the glob domain", doms[k])
		}
		if len(tb.Rows) != len(d.Patterns) {
			t.Fatalf("%s: %d rows for %d patterns", exps[k], len(tb.Rows), len(d.Patterns))
		}
		for i, pr := range d.Patterns {
			row := tb.Rows[i]
			if row.ID != pr.ID {
				t.Fatalf("%s: row %d has id %d, pattern id %d", exps[k], i, row.ID, pr.ID)
			}
			s := render(pr.Ast)
			r := evalPattern(s)
			npat++
			evals++
			if r.ok != row.OK {
				report("accept", map[string]interface{}{"p": s, "exp_ok": row.OK, "got_ok": r.ok, "err": r.err, "ref_n": row.N})
				continue
			}
			if !r.ok {
				nrej++
				continue
			}
			nacc++
			nvariants += r.calls
			if r.hang {
				if atomic.LoadInt32(&enumSkipped) == 0 {
					report("hang", map[string]interface{}{"p": s})
				}
				continue
			}
			if r.n != r.calls || r.n != row.N || r.calls > 1000 || !r.idxOK {
				report("count", map[string]interface{}{"p": s, "ref_n": row.N, "n": r.n, "calls": r.calls, "idx_ok": r.idxOK})
			}
			if pr.Big {
				// count only on the reference side; the statement's law is still checked on real outputs
				nbig++
				real := realRow(s, paths, &matchErrs)
				or := make([]bool, len(paths))
				for _, v := range r.variants {
					vr := realRow(v.String(), paths, &matchErrs)
					for j := range or {
						or[j] = or[j] || vr[j]
					}
				}
				evals += len(paths) * (1 + len(r.variants))
				for j := range paths {
					if real[j] != or[j] {
						bDiff++
						report("variants", map[string]interface{}{"p": s, "path": paths[j], "pattern": real[j], "variants": or[j]})
						break
					}
				}
				continue
			}
			if len(row.Ex) != row.N {
				t.Fatalf("%s: pattern %q: reference has %d expansions but count %d", exps[k], s, len(row.Ex), row.N)
			}
			real := realRow(s, paths, &matchErrs)
			evals += len(paths)
			if rk := rowKey(real); rk != "" {
				distinct[rk] = true
			}
			// reference expansions: reference rows and real rows
			exs := make([]string, len(row.Ex))
			refOr := make([]bool, len(paths))
			exOr := make([]bool, len(paths))
			for e, ec := range row.Ex {
				v := fromCodes(ec)
				exs[e] = v
				rr, ok := globRef[v]
				if !ok {
					t.Fatalf("expansion %q of %q is missing from the glob tables", v, s)
				}
				lr := globReal[v]
				for j := range paths {
					refOr[j] = refOr[j] || rr[j]
					exOr[j] = exOr[j] || lr[j]
				}
			}
			// the variants handed to the callback
			varOr := make([]bool, len(paths))
			varRows := make([][]bool, len(r.variants))
			exact := len(r.variants) == len(exs)
			for vi, v := range r.variants {
				vs := v.String()
				lr, ok := globReal[vs]
				if !ok {
					lr = realRow(vs, paths, &matchErrs)
					evals += len(paths)
					globReal[vs] = lr
				}
				varRows[vi] = lr
				for j := range paths {
					varOr[j] = varOr[j] || lr[j]
				}
				if exact && vs != exs[vi] {
					exact = false
				}
			}
			if exact {
				orderExact++
			}
			nm, nn := 0, 0
			for j := range paths {
				if real[j] {
					hist["match"]++
				} else {
					hist["nomatch"]++
				}
				if real[j] != refOr[j] {
					refMatchDiff++
				}
				if real[j] != exOr[j] {
					nm++
				}
				if exOr[j] != varOr[j] {
					nn++
				}
				if real[j] != varOr[j] {
					bDiff++
				}
			}
			if nm > 0 {
				// every differing path with the real result (used to attribute the cause, see props/_doublestar.py)
				var diffs [][]interface{}
				for j := range paths {
					if real[j] != exOr[j] {
						diffs = append(diffs, []interface{}{paths[j], real[j]})
					}
				}
				for j := range paths {
					if real[j] != exOr[j] {
						dir := "expansions-only"
						if real[j] {
							dir = "pattern-only"
						}
						report("match", map[string]interface{}{"p": s, "path": paths[j], "npaths": nm, "dir": dir, "ex": exs, "diffs": diffs})
						break
					}
				}
			}
			if nn > 0 && len(r.variants) == len(exs) {
				// name the expansions whose enumerated variant matches differently
				for e := range exs {
					if normSeen[exs[e]] {
						continue
					}
					er := globReal[exs[e]]
					for j := range paths {
						if er[j] != varRows[e][j] {
							normSeen[exs[e]] = true
							dir := "variant-only"
							if er[j] {
								dir = "expansion-only"
							}
							report("normalise", map[string]interface{}{"ex": exs[e], "var": r.variants[e].String(), "path": paths[j], "dir": dir, "p": s})
							break
						}
					}
				}
			} else if nn > 0 {
				report("normalise", map[string]interface{}{"ex": "", "var": "", "path": "", "dir": "count", "p": s})
			}
			if nm == 0 && nn == 0 {
				for j := range paths {
					if real[j] != varOr[j] {
						report("variants", map[string]interface{}{"p": s, "path": paths[j], "pattern": real[j], "variants": varOr[j]})
						break
					}
				}
			}
			// PathPattern.Match is PathPatternMatches on the original string
			if pp, err := patterns.ParsePathPattern(s); err == nil {
				j := (pr.ID * 7) % len(paths)
				m, err := pp.Match(paths[j])
				evals++
				if err != nil || m != real[j] {
					report("variants", map[string]interface{}{"p": s, "path": paths[j], "pattern": real[j], "variants": m, "method": "Match"})
				}
			}
		}
	}
	if matchErrs > 0 {
		report("match-error", map[string]interface{}{"n": matchErrs})
	}
	em.emit(map[string]interface{}{"kind": "stats", "evaluations": evals, "patterns": npat, "accepted": nacc, "rejected": nrej,
		"count_only": nbig, "variants": nvariants, "glob_strings": globStrings, "paths": len(paths),
		"distinct_match_sets": len(distinct), "order_exact": orderExact, "refmatch_diff_pairs": refMatchDiff,
		"pattern_vs_variants_diff_pairs": bDiff, "hist": hist, "total": total, "match_errors": matchErrs})
}

// ---- strings domain: which pattern strings are accepted ----

type stringsDomain struct {
	Strings [][]int `json:"strings"`
}

type validTable struct {
	Valid []bool `json:"valid"`
}

// TestVerifC37Valid: T->I for PathPattern!Valid over pattern strings (VERIF_DOMAINS / VERIF_TABLES;
// the strings of a domain file and the field valid of the matching expansion table):
// ParsePathPattern must accept exactly the strings the reference calls valid (none of the strings
// of this domain can exceed the limit on expansions).
func TestVerifC37Valid(t *testing.T) {
	em := newEmitter(t, "VERIF_OUT")
	defer em.close()
	doms := envFiles("VERIF_DOMAINS")
	tabs := envFiles("VERIF_TABLES")
	if len(doms) != len(tabs) || len(doms) == 0 {
		t.Fatalf("VERIF_DOMAINS/VERIF_TABLES: %d/%d files", len(doms), len(tabs))
	}
	maxPer := envInt("VERIF_MAX_MISMATCH", 2000)
	var evals, acc, rej, bad int
	reasons := map[string]int{}
	for k := range doms {
		var d stringsDomain
		var tb validTable
		readJSON(t, doms[k], &d)
		readJSON(t, tabs[k], &tb)
		if len(d.Strings) != len(tb.Valid) {
			t.Fatalf("%s: %d strings, %d verdicts", tabs[k], len(d.Strings), len(tb.Valid))
		}
		for i, sc := range d.Strings {
			s := fromCodes(sc)
			p, err := patterns.ParsePathPattern(s)
			evals++
			ok := err == nil
			if ok != tb.Valid[i] {
				bad++
				if bad <= maxPer {
					e := ""
					if err != nil {
						e = err.Error()
					}
					em.emit(map[string]interface{}{"kind": "accept", "p": s, "exp_ok": tb.Valid[i], "got_ok": ok, "err": e, "ref_n": -1})
				}
			}
			if ok {
				acc++
				// an accepted pattern can be enumerated: count law on the real outputs
				vs, idxOK, hang := enumerate(p)
				if hang {
					if atomic.LoadInt32(&enumSkipped) == 0 {
						bad++
						em.emit(map[string]interface{}{"kind": "hang", "p": s})
					}
				} else if len(vs) != p.NumVariants() || len(vs) > 1000 || !idxOK {
					bad++
					em.emit(map[string]interface{}{"kind": "count", "p": s, "n": p.NumVariants(), "calls": len(vs), "ref_n": -1, "idx_ok": idxOK})
				}
			} else {
				rej++
				msg := err.Error()
				if i := strings.LastIndex(msg, ": "); i >= 0 {
					msg = msg[i+2:]
				}
				reasons[msg]++
			}
		}
	}
	em.emit(map[string]interface{}{"kind": "stats", "evaluations": evals, "accepted": acc, "rejected": rej, "bad": bad, "reasons": reasons})
}

// ---- seeded random patterns beyond the bound (I->T) ----

func chItem(c byte) item { return item{C: int(c), Alts: [][]item{}} }

func textItems(s string) []item {
	out := make([]item, 0, len(s))
	for i := 0; i < len(s); i++ {
		out = append(out, chItem(s[i]))
	}
	return out
}

type rnd interface{ Intn(int) int }

const c37Letters = "abcxyz.-_0"

func randWord(r rnd, max int) string {
	n := 1 + r.Intn(max)
	b := make([]byte, n)
	for i := range b {
		b[i] = c37Letters[r.Intn(len(c37Letters))]
	}
	return string(b)
}

// randSegment: the text of one path segment of a pattern (may contain wildcards and escapes)
func randSegment(r rnd, wild int) string {
	switch x := r.Intn(100); {
	case x < wild/3:
		return "**"
	case x < wild/2:
		return "*"
	case x < wild:
		w := randWord(r, 3)
		switch r.Intn(5) {
		case 0:
			return w + "*"
		case 1:
			return "*" + w
		case 2:
			return w + "?"
		case 3:
			return "*" + w + "*"
		default:
			return w + "*" + randWord(r, 2)
		}
	case x < wild+6:
		return randWord(r, 2) + "\\" + string("*?{},ab"[r.Intn(7)]) + randWord(r, 2)
	}
	return randWord(r, 4)
}

// randItems: a run of pattern text with groups; depth = remaining nesting allowed
func randItems(r rnd, depth int, wild int, top bool) []item {
	var out []item
	nseg := 1 + r.Intn(3)
	for i := 0; i < nseg; i++ {
		if top || i > 0 || r.Intn(3) == 0 {
			out = append(out, chItem('/'))
		}
		if depth > 0 && r.Intn(100) < 45 {
			if r.Intn(2) == 0 {
				out = append(out, textItems(randWord(r, 2))...)
			}
			nalt := 2 + r.Intn(3)
			g := item{C: 0}
			for a := 0; a < nalt; a++ {
				switch x := r.Intn(10); {
				case x == 0:
					g.Alts = append(g.Alts, []item{})
				case x == 1 && a > 0:
					g.Alts = append(g.Alts, g.Alts[r.Intn(a)]) // a node-equal duplicate
				case x < 5:
					g.Alts = append(g.Alts, textItems(randWord(r, 3)))
				case x < 7:
					g.Alts = append(g.Alts, textItems(randSegment(r, wild)))
				default:
					g.Alts = append(g.Alts, randItems(r, depth-1, wild, false))
				}
			}
			out = append(out, g)
			if r.Intn(3) == 0 {
				out = append(out, textItems(randWord(r, 2))...)
			}
		} else {
			out = append(out, textItems(randSegment(r, wild))...)
		}
	}
	if r.Intn(6) == 0 {
		out = append(out, chItem('/'))
	}
	return out
}

// instantiate turns a brace-less variant into a path it is likely to match
func instantiate(r rnd, v string) string {
	var b strings.Builder
	for i := 0; i < len(v); i++ {
		switch c := v[i]; c {
		case '\\':
			if i+1 < len(v) {
				i++
				b.WriteByte(v[i])
			}
		case '?':
			b.WriteByte(c37Letters[r.Intn(len(c37Letters))])
		case '*':
			if i+1 < len(v) && v[i+1] == '*' {
				i++
				for k := r.Intn(3); k > 0; k-- {
					b.WriteString(randWord(r, 2))
					if k > 1 {
						b.WriteByte('/')
					}
				}
			} else if r.Intn(3) > 0 {
				b.WriteString(randWord(r, 2))
			}
		default:
			b.WriteByte(c)
		}
	}
	return b.String()
}

func mutatePath(r rnd, p string) string {
	b := []byte(p)
	switch r.Intn(6) {
	case 0:
		if len(b) > 1 && b[len(b)-1] == '/' {
			b = b[:len(b)-1]
		} else {
			b = append(b, '/')
		}
	case 1:
		if len(b) > 1 {
			i := 1 + r.Intn(len(b)-1)
			b = append(b[:i], b[i+1:]...)
		}
	case 2:
		i := 1 + r.Intn(len(b))
		b = append(b[:i], append([]byte{c37Letters[r.Intn(len(c37Letters))]}, b[i:]...)...)
	case 3:
		b = append(b, []byte("/"+randWord(r, 2))...)
	case 4:
		if i := strings.LastIndex(string(b[:len(b)-1]), "/"); i > 0 {
			b = b[:i]
		}
	}
	if len(b) == 0 || b[0] != '/' {
		b = append([]byte{'/'}, b...)
	}
	return strings.ReplaceAll(string(b), "//", "/")
}

// TestVerifC37Random: I->T. Seeded random patterns (nesting <= 3, longer literals, wider alphabet,
// escapes, node-equal alternatives) with paths derived from their real variants; the real results
// are recorded for validation against PathPattern!Accepted/NumVariants/RefMatch by TracePathPattern.
func TestVerifC37Random(t *testing.T) {
	em := newEmitter(t, "VERIF_OUT")
	defer em.close()
	r := seededRand()
	n := envInt("VERIF_N", 500)
	npaths := envInt("VERIF_NPATHS", 8)
	for i := 1; i <= n; i++ {
		wild := []int{10, 30, 60}[r.Intn(3)]
		ast := randItems(r, 1+r.Intn(3), wild, true)
		s := render(ast)
		rp := evalPattern(s)
		paths := []string{}
		if rp.ok && len(rp.variants) > 0 {
			for k := 0; k < npaths; k++ {
				v := rp.variants[r.Intn(len(rp.variants))].String()
				p := instantiate(r, v)
				if k%2 == 1 {
					p = mutatePath(r, p)
				}
				paths = append(paths, p)
			}
		}
		pc := make([][]int, len(paths))
		m := make([]int, len(paths))
		or := make([]int, len(paths))
		for j, p := range paths {
			pc[j] = codes(p)
			m[j] = match(s, p)
			for _, v := range rp.variants {
				if match(v.String(), p) == 1 {
					or[j] = 1
					break
				}
			}
		}
		em.emit(map[string]interface{}{"kind": "match", "case": i, "s": s, "ast": ast, "paths": pc, "spaths": paths, "ok": rp.ok, "err": rp.err,
			"n": rp.n, "calls": rp.calls, "m": m, "or_variants": or})
	}
}

// ---- precedence ----

func permutations(k int) [][]int {
	var out [][]int
	var rec func(cur []int, used []bool)
	rec = func(cur []int, used []bool) {
		if len(cur) == k {
			out = append(out, append([]int(nil), cur...))
			return
		}
		for i := 0; i < k; i++ {
			if !used[i] {
				used[i] = true
				rec(append(cur, i), used)
				used[i] = false
			}
		}
	}
	rec(nil, make([]bool, k))
	return out
}

func cmpVariants(a, b patterns.PatternVariant, path string) int {
	c, err := a.Compare(b, path)
	if err != nil {
		return 2
	}
	return c
}

// TestVerifC37Precedence: the variant pool is every distinct variant (v.String()) enumerated by the
// real code for the patterns of VERIF_DOMAINS. For every path of the domain, M = the variants that
// match it (real PathPatternMatches). Directly on the real outputs: Compare restricted to M is a
// strict weak order whose ties are identical variants (all pairs; all triples when |M| <= VERIF_TRIPLE_MAX,
// else seeded triples), and HighestPrecedencePattern returns the same variant for M given forwards,
// backwards and in seeded shuffles. For TLC (I->T): seeded subsets of 2..4 variants of M with the
// full Compare matrix and the winner for EVERY permutation.
func TestVerifC37Precedence(t *testing.T) {
	em := newEmitter(t, "VERIF_OUT")
	defer em.close()
	r := seededRand()
	nsets := envInt("VERIF_NSETS", 40) // recorded subsets per path
	tripleMax := envInt("VERIF_TRIPLE_MAX", 150)
	poolMax := envInt("VERIF_POOL_MAX", 4000)
	var paths []string
	pool := map[string]patterns.PatternVariant{}
	var names []string
	for _, f := range envFiles("VERIF_DOMAINS") {
		var d domainFile
		readJSON(t, f, &d)
		if paths == nil {
			paths = pathStrings(d.Paths)
		}
		for _, pr := range d.Patterns {
			if pr.Big {
				continue
			}
			rp := evalPattern(render(pr.Ast))
			for _, v := range rp.variants {
				if _, ok := pool[v.String()]; !ok {
					pool[v.String()] = v
					names = append(names, v.String())
				}
			}
		}
	}
	sort.Strings(names)
	if len(names) > poolMax {
		r.Shuffle(len(names), func(i, j int) { names[i], names[j] = names[j], names[i] })
		names = names[:poolMax]
		sort.Strings(names)
	}
	bad := 0
	report := func(law, path string, vs ...string) {
		bad++
		if bad <= 500 {
			em.emit(map[string]interface{}{"kind": "law", "law": law, "path": path, "variants": vs})
		}
	}
	var ncmp, ntriples, nsetsTotal, nperm, nhighest, caseNo int
	maxM := 0
	winners := map[string]bool{}
	for _, path := range paths {
		var M []patterns.PatternVariant
		for _, nm := range names {
			if match(nm, path) == 1 {
				M = append(M, pool[nm])
			}
		}
		n := len(M)
		if n > maxM {
			maxM = n
		}
		if n == 0 {
			continue
		}
		C := make([][]int8, n)
		for i := range C {
			C[i] = make([]int8, n)
			for j := range C[i] {
				C[i][j] = int8(cmpVariants(M[i], M[j], path))
				ncmp++
			}
		}
		for i := 0; i < n; i++ {
			for j := 0; j < n; j++ {
				c := C[i][j]
				switch {
				case c == 2:
					if i <= j {
						report("compare-error", path, M[i].String(), M[j].String())
					}
				case i == j && c != 0:
					report("irreflexive", path, M[i].String())
				case i < j && C[j][i] != 2 && c != -C[j][i]:
					report("asymmetric", path, M[i].String(), M[j].String())
				case i < j && c == 0:
					report("tie", path, M[i].String(), M[j].String())
				}
			}
		}
		triple := func(i, j, k int) {
			ntriples++
			if C[i][j] == 1 && C[j][k] == 1 && C[i][k] != 1 {
				report("transitive", path, M[i].String(), M[j].String(), M[k].String())
			}
		}
		if n <= tripleMax {
			for i := 0; i < n; i++ {
				for j := 0; j < n; j++ {
					if C[i][j] != 1 {
						continue
					}
					for k := 0; k < n; k++ {
						triple(i, j, k)
					}
				}
			}
		} else {
			for q := 0; q < tripleMax*tripleMax*tripleMax/4; q++ {
				triple(r.Intn(n), r.Intn(n), r.Intn(n))
			}
		}
		// the whole set in several orders
		orders := [][]int{make([]int, n), make([]int, n)}
		for i := 0; i < n; i++ {
			orders[0][i] = i
			orders[1][i] = n - 1 - i
		}
		for q := 0; q < 6; q++ {
			orders = append(orders, r.Perm(n))
		}
		first := ""
		for q, ord := range orders {
			vs := make([]patterns.PatternVariant, n)
			for i, x := range ord {
				vs[i] = M[x]
			}
			w, err := patterns.HighestPrecedencePattern(vs, path)
			nhighest++
			if err != nil {
				report("highest-error", path, err.Error())
				break
			}
			if q == 0 {
				first = w.String()
				winners[first] = true
			} else if w.String() != first {
				report("order", path, first, w.String())
				break
			}
		}
		// recorded subsets for TLC
		for q := 0; q < nsets && n >= 2; q++ {
			k := 2 + r.Intn(3)
			if k > n {
				k = n
			}
			idx := r.Perm(n)[:k]
			if q%4 == 3 && k >= 2 {
				// neighbours in name order: similar variants, the interesting comparisons
				st := r.Intn(n - k + 1)
				for i := range idx {
					idx[i] = st + i
				}
			}
			vs := make([]string, k)
			cm := make([][]int, k)
			same := make([][]int, k)
			for i := range idx {
				vs[i] = M[idx[i]].String()
				cm[i] = make([]int, k)
				same[i] = make([]int, k)
				for j := range idx {
					cm[i][j] = int(C[idx[i]][idx[j]])
					if idx[i] == idx[j] {
						same[i][j] = 1
					}
				}
			}
			perms := permutations(k)
			win := make([]int, len(perms))
			p1 := make([][]int, len(perms))
			wstr := map[string]bool{}
			for pi, pm := range perms {
				in := make([]patterns.PatternVariant, k)
				p1[pi] = make([]int, k)
				for i, x := range pm {
					in[i] = M[idx[x]]
					p1[pi][i] = x + 1
				}
				w, err := patterns.HighestPrecedencePattern(in, path)
				nperm++
				if err == nil {
					for i := range idx {
						if vs[i] == w.String() {
							win[pi] = i + 1
						}
					}
					wstr[w.String()] = true
				}
			}
			if len(wstr) != 1 {
				report("order", path, vs...)
			}
			caseNo++
			nsetsTotal++
			em.emit(map[string]interface{}{"kind": "set", "case": caseNo, "path": path, "k": k, "vs": vs, "cmp": cm, "same": same,
				"perms": p1, "winners": win})
		}
	}
	em.emit(map[string]interface{}{"kind": "stats", "pool": len(names), "paths": len(paths), "compares": ncmp, "triples": ntriples,
		"sets": nsetsTotal, "permutations": nperm, "highest_calls": nhighest, "max_matching": maxM, "distinct_winners": len(winners),
		"law_violations": bad})
}

var _ = fmt.Sprintf
