// Package naming: C24 driver for the daemon side (Go). Same line protocol as the C drivers in
// /verif/harness/c (see verif_io.h): one request per line of VERIF_IN, one verdict line in VERIF_OUT.
//
//	snap <s>                 naming.ValidateSnap (cross-checked with snap.ValidateName)
//	inst <s>                 naming.ValidateInstance (cross-checked with snap.ValidateInstanceName)
//	comp <s>                 naming.SplitFullComponentName + ComponentRef.Validate
//	tag  <tag> <inst> <comp|->   naming.ParseSecurityTag parses the tag as belonging to exactly that
//	                         instance and component (no component when "-")
//	app  <inst> <app>        a snap with that instance name and that app passes snap.ValidateInstanceName +
//	                         snap.ValidateApp; then the verdict line is "1 =<hex of AppInfo.SecurityTag()>"
//	hook <inst> <comp|-> <hook>  likewise with ComponentRef.Validate + snap.ValidateHook and HookInfo.SecurityTag()
//
// Verdicts: 1 accept, 0 reject, X two Go entry points that must be the same function disagree.
package naming

import (
	"bufio"
	"encoding/hex"
	"os"
	"strings"
	"testing"

	"github.com/snapcore/snapd/snap"
	snapnaming "github.com/snapcore/snapd/snap/naming"
)

func decode(tok string) (s string, isNil bool, ok bool) {
	if tok == "-" {
		return "", true, true
	}
	if !strings.HasPrefix(tok, "=") {
		return "", false, false
	}
	b, err := hex.DecodeString(tok[1:])
	if err != nil {
		return "", false, false
	}
	return string(b), false, true
}

func b2c(b bool) string {
	if b {
		return "1"
	}
	return "0"
}

func agree(a, b bool) string {
	if a != b {
		return "X"
	}
	return b2c(a)
}

func tagBelongs(tag, inst string, comp *string) bool {
	parsed, err := snapnaming.ParseSecurityTag(tag)
	if (err == nil) != (snapnaming.ValidateSecurityTag(tag) == nil) {
		panic("ParseSecurityTag and ValidateSecurityTag disagree")
	}
	if err != nil {
		return false
	}
	if parsed.InstanceName() != inst {
		return false
	}
	switch t := parsed.(type) {
	case snapnaming.HookSecurityTag:
		if comp == nil {
			return t.ComponentName() == ""
		}
		return *comp != "" && t.ComponentName() == *comp
	case snapnaming.AppSecurityTag:
		return comp == nil
	}
	return false
}

func infoFor(inst string) *snap.Info {
	name, key := snap.SplitInstanceName(inst)
	return &snap.Info{SuggestedName: name, InstanceKey: key}
}

func handle(line string) string {
	f := strings.Fields(line)
	if len(f) < 2 {
		return "?"
	}
	args := make([]string, 0, 3)
	nils := make([]bool, 0, 3)
	for _, tok := range f[1:] {
		s, isNil, ok := decode(tok)
		if !ok {
			return "?"
		}
		args = append(args, s)
		nils = append(nils, isNil)
	}
	switch {
	case f[0] == "snap" && len(args) == 1 && !nils[0]:
		return agree(snapnaming.ValidateSnap(args[0]) == nil, snap.ValidateName(args[0]) == nil)
	case f[0] == "inst" && len(args) == 1 && !nils[0]:
		return agree(snapnaming.ValidateInstance(args[0]) == nil, snap.ValidateInstanceName(args[0]) == nil)
	case f[0] == "comp" && len(args) == 1 && !nils[0]:
		sn, cn, err := snapnaming.SplitFullComponentName(args[0])
		if err != nil {
			return "0"
		}
		return b2c(snapnaming.NewComponentRef(sn, cn).Validate() == nil)
	case f[0] == "tag" && len(args) == 3 && !nils[0] && !nils[1]:
		var comp *string
		if !nils[2] {
			comp = &args[2]
		}
		return b2c(tagBelongs(args[0], args[1], comp))
	case f[0] == "app" && len(args) == 2 && !nils[0] && !nils[1]:
		if snap.ValidateInstanceName(args[0]) != nil {
			return "0"
		}
		app := &snap.AppInfo{Snap: infoFor(args[0]), Name: args[1]}
		if snap.ValidateApp(app) != nil {
			return "0"
		}
		return "1 =" + hex.EncodeToString([]byte(app.SecurityTag()))
	case f[0] == "hook" && len(args) == 3 && !nils[0] && !nils[2]:
		if snap.ValidateInstanceName(args[0]) != nil {
			return "0"
		}
		info := infoFor(args[0])
		hook := &snap.HookInfo{Snap: info, Name: args[2]}
		if !nils[1] {
			if snapnaming.NewComponentRef(info.SnapName(), args[1]).Validate() != nil {
				return "0"
			}
			hook.Component = &snap.Component{Name: args[1]}
		}
		if snap.ValidateHook(hook) != nil {
			return "0"
		}
		return "1 =" + hex.EncodeToString([]byte(hook.SecurityTag()))
	}
	return "?"
}

func TestVerifNaming(t *testing.T) {
	in, outp := os.Getenv("VERIF_IN"), os.Getenv("VERIF_OUT")
	if in == "" || outp == "" {
		t.Fatal("VERIF_IN and VERIF_OUT must be set")
	}
	f, err := os.Open(in)
	if err != nil {
		t.Fatal(err)
	}
	defer f.Close()
	of, err := os.Create(outp)
	if err != nil {
		t.Fatal(err)
	}
	bw := bufio.NewWriterSize(of, 1<<20)
	sc := bufio.NewScanner(f)
	sc.Buffer(make([]byte, 1<<20), 1<<24)
	n := 0
	for sc.Scan() {
		bw.WriteString(handle(sc.Text()))
		bw.WriteByte('\n')
		n++
	}
	if err := sc.Err(); err != nil {
		t.Fatal(err)
	}
	if err := bw.Flush(); err != nil {
		t.Fatal(err)
	}
	of.Close()
	t.Logf("VERIF_REQUESTS=%d", n)
}
