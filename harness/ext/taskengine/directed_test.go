package taskengine

import (
	"encoding/json"
	"fmt"
	"strconv"
	"strings"
)

// Directed executions that are always part of the recorded traces (shape N=3, one change): corner cases a
// random schedule reaches only rarely. Actions: E (Ensure), F<t><res> with res ok|err|retry<h>|wait,
// A (user abort), R (crash+restart), S (stop), T (tick), W<t> (resolve wait), X<Status><t> (a manager sets
// the status of pending task t directly); a fair drain follows.
type directed struct {
	name    string
	g       Graph
	actions string
}

func g3(waits [][]int, lanes [][]int, undo []bool) Graph {
	return Graph{N: 3, NC: 1, Waits: waits, Lanes: lanes, Undo: undo, Chg: []int{1, 1, 1},
		Kind: []string{"neutral", "neutral", "neutral"}, Snap: []int{0, 0, 0}}
}

var none = [][]int{{}, {}, {}}
var allUndo = []bool{true, true, true}

var directedCases = []directed{
	// healthy-lane exemption is lost once the other lane has failed too: 3 (lanes 2,1) is done, 1 (lane 2)
	// fails -> 3 exempt (lane 1 healthy); 2 (lane 1) fails -> lane 2 has a live (3) and a dead (1) task
	{"exemption-lost", g3(none, [][]int{{2}, {1}, {2, 1}}, allUndo), "E F3ok F1err E F2err"},
	// exemption kept: the other lane stays healthy and completes
	{"exemption-kept", g3(none, [][]int{{2}, {1}, {2, 1}}, allUndo), "E F3ok F1err E F2ok"},
	// same with the multi-lane task listing the failed lane first
	{"exemption-kept-order", g3(none, [][]int{{2}, {1}, {1, 2}}, allUndo), "E F3ok F1err E F2ok"},
	// a task waiting (reboot pending, effectively done) in the healthy lane does not make that lane unhealthy
	{"exemption-with-wait-in-healthy-lane", g3(none, [][]int{{2}, {1}, {1, 2}}, allUndo), "E F1wait F3ok E F2err E W1 E"},
	{"exemption-with-wait-in-healthy-lane-order", g3(none, [][]int{{2}, {1}, {2, 1}}, allUndo), "E F1wait F3ok E F2err E W1 E"},
	// chain, failure in the middle: 1 undone, 3 held
	{"chain-mid-fail", g3([][]int{{}, {1}, {2}}, [][]int{{0}, {0}, {0}}, allUndo), "E F1ok E F2err E"},
	// in-flight task without undo handler is aborted
	{"inflight-no-undo", g3(none, [][]int{{0}, {0}, {0}}, []bool{true, false, true}), "E F1err F2ok E F3ok E"},
	{"inflight-no-undo-retry", g3(none, [][]int{{0}, {0}, {0}}, []bool{true, false, true}), "E F1err F2retry0 E F3ok E"},
	// retry with a delay: not before its time
	{"retry-delay", g3([][]int{{}, {1}, {}}, [][]int{{0}, {0}, {0}}, allUndo), "E F1retry2 E T E T E"},
	// wait (reboot pending) blocks its waiters until resolved
	{"wait-blocks", g3([][]int{{}, {1}, {}}, [][]int{{0}, {0}, {0}}, allUndo), "E F1wait E E F3ok E W1 E"},
	// undo failure
	{"undo-fails", g3([][]int{{}, {1}, {2}}, [][]int{{0}, {0}, {0}}, allUndo), "E F1ok E F2ok E F3err E F2err E"},
	// abort while running, then crash in the middle of undoing
	{"abort-crash-undo", g3([][]int{{}, {1}, {}}, [][]int{{0}, {0}, {0}}, allUndo), "E F1ok E A E R E"},
	// crash right after a failure was recorded
	{"crash-after-fail", g3(none, [][]int{{1}, {1}, {2}}, allUndo), "E F1ok F2err R E"},
	// graceful stop turns an error into a retry
	{"stop-err-retried", g3(none, [][]int{{0}, {0}, {0}}, allUndo), "E F1ok S F2err F3ok R E"},
	// an undo chain two levels deep blocked by a task in Wait: the change reports Wait, not Undo
	{"undo-chain-blocked-by-wait", g3([][]int{{}, {1}, {2}}, [][]int{{0}, {0}, {0}}, allUndo), "E F1ok E F2ok E A F3ok E F3wait E E W3 E"},
	// a do chain blocked by a task in Wait
	{"do-chain-blocked-by-wait", g3([][]int{{}, {1}, {2}}, [][]int{{0}, {0}, {0}}, allUndo), "E F1wait E E W1 E"},
	// a handler logs a transient/secondary ERROR line, retries, and later fails for good: Change.Err()
	// must name the task with the error it finally failed with
	{"err-after-logged-transient", g3(none, [][]int{{0}, {0}, {0}}, allUndo), "E F1logretry0 F2ok F3ok E F1err E"},
	{"err-with-secondary-log", g3([][]int{{}, {1}, {}}, [][]int{{0}, {0}, {0}}, allUndo), "E F1ok F3ok E F2logerr E"},
	// a manager flags a pending task as failed/held directly: its followers stay pending, they never start
	// (the finished independent task comes first in task order: the other order is the known abort panic)
	{"forced-error-followers-wait", g3([][]int{{}, {}, {2}}, [][]int{{0}, {0}, {0}}, allUndo), "XError2 E E F1ok E A E"},
	{"forced-hold-followers-wait", g3([][]int{{}, {1}, {2}}, [][]int{{1}, {1}, {1}}, allUndo), "XHold1 E E A E"},
	{"forced-undone-followers-wait", g3([][]int{{}, {1}, {1}}, [][]int{{0}, {0}, {0}}, allUndo), "XUndone1 E E A E"},
	// graceful stop while an undo handler is in flight: its error is a cancellation, the undo is re-run
	{"stop-undo-err-retried", g3([][]int{{}, {1}, {}}, [][]int{{0}, {0}, {0}}, allUndo), "E F1ok F3ok E F2err E S F1err R E"},
	{"stop-undo-err-retried-2", g3([][]int{{}, {1}, {1}}, [][]int{{0}, {0}, {0}}, allUndo), "E F1ok E F2ok F3err E S F2err F1err R E"},
}

func runDirected(d directed, id string, enc *json.Encoder) error {
	e := NewEngine(d.g, id, enc, nil, nil)
	defer e.Close()
	for _, a := range strings.Fields(d.actions) {
		p := e.project()
		switch a[0] {
		case 'E':
			if e.stopped {
				continue
			}
			if err := e.Ensure(); err != nil {
				return err
			}
		case 'F':
			t := int(a[1] - '0')
			running := false
			for _, r := range p.Running {
				if r == t {
					running = true
				}
			}
			if !running {
				continue // the real engine did not have it in flight (a mutated tree may differ): skip
			}
			spec := a[2:]
			logErr := false
			if strings.HasPrefix(spec, "log") {
				logErr = true
				spec = spec[3:]
			}
			res := result{Res: spec, WS: "Done", LogErr: logErr}
			if strings.HasPrefix(spec, "retry") {
				res.Res = "retry"
				res.After, _ = strconv.Atoi(spec[5:])
			}
			if p.Status[t-1] == "Undoing" {
				res.WS = "Undone"
			}
			if err := e.Finish(t, res); err != nil {
				return err
			}
		case 'A':
			if !p.Rdy[0] {
				e.Abort(1)
			}
		case 'R':
			if err := e.Restart(); err != nil {
				return err
			}
		case 'S':
			if ok, _ := e.CanStop(); ok && !e.stopped {
				if err := e.Stop(); err != nil {
					return err
				}
			}
		case 'X': // X<Status><t>
			t := int(a[len(a)-1] - '0')
			if p.Status[t-1] == "Do" {
				e.Force(t, a[1:len(a)-1])
			}
		case 'T':
			e.Tick()
		case 'W':
			t := int(a[1] - '0')
			if p.Status[t-1] == "Wait" {
				e.ResolveWait(t)
			}
		default:
			return fmt.Errorf("HARNESS: bad directed action %q", a)
		}
	}
	return drain(e)
}
