package taskengine

import (
	"encoding/json"
	"fmt"
	"math/rand"
	"os"
	"path/filepath"
	"strconv"
	"strings"
	"testing"
)

func envInt(name string, def int) int {
	if v := os.Getenv(name); v != "" {
		if n, err := strconv.Atoi(v); err == nil {
			return n
		}
	}
	return def
}

var laneMenu = [][]int{{0}, {0}, {1}, {1}, {2}, {2}, {1, 2}, {2, 1}, {3}, {1, 3}}

// lane-focused graphs: few dependencies, tasks spread over two lanes with several multi-lane tasks, so
// that the healthy-lane exemption of abortLanes (and its loss once the other lane has failed too) is hit
var laneMenu2 = [][]int{{1}, {2}, {1, 2}, {2, 1}, {1}, {2}, {1, 2}}

func laneGraph(r *rand.Rand, n int) Graph {
	g := Graph{N: n, NC: 1}
	for i := 1; i <= n; i++ {
		w := []int{}
		for j := 1; j < i; j++ {
			if r.Float64() < 0.08 {
				w = append(w, j)
			}
		}
		g.Waits = append(g.Waits, w)
		g.Lanes = append(g.Lanes, append([]int(nil), laneMenu2[r.Intn(len(laneMenu2))]...))
		g.Undo = append(g.Undo, r.Float64() < 0.9)
		g.Chg = append(g.Chg, 1)
		g.Kind = append(g.Kind, "neutral")
		g.Snap = append(g.Snap, 0)
	}
	return g
}

func randGraph(r *rand.Rand, n, nc int) Graph {
	g := Graph{N: n, NC: nc}
	g.Chg = make([]int, n)
	for i := 0; i < n; i++ {
		g.Chg[i] = 1 + r.Intn(nc)
	}
	// every change gets at least one task
	for c := 1; c <= nc; c++ {
		g.Chg[(c-1)%n] = c
	}
	p := []float64{0.15, 0.35, 0.6}[r.Intn(3)]
	for i := 1; i <= n; i++ {
		w := []int{}
		for j := 1; j < i; j++ {
			if g.Chg[j-1] == g.Chg[i-1] && r.Float64() < p {
				w = append(w, j)
			}
		}
		g.Waits = append(g.Waits, w)
		g.Lanes = append(g.Lanes, append([]int(nil), laneMenu[r.Intn(len(laneMenu))]...))
		g.Undo = append(g.Undo, r.Float64() < 0.75)
		g.Kind = append(g.Kind, "neutral")
		g.Snap = append(g.Snap, 0)
	}
	return g
}

type budget struct{ fail, retry, wait, restart, abort, stop int }

// runCase drives one execution with a seeded random scheduler, then drains it fairly.
// It returns a HARNESS error (infrastructure) or nil; real-code misbehaviour is left in the trace.
func runCase(r *rand.Rand, g Graph, caseID string, enc *json.Encoder, b budget) (err error) {
	e := NewEngine(g, caseID, enc, nil, nil)
	defer e.Close()
	phaseOf := func(p proj, t int) string {
		if p.Status[t-1] == "Undoing" {
			return "undo"
		}
		return "do"
	}
	quiescent := func(p proj) bool {
		if len(p.Running) > 0 {
			return false
		}
		for _, s := range p.Status {
			if s != "Done" && s != "Undone" && s != "Hold" && s != "Error" {
				return false
			}
		}
		return true
	}
	type act struct {
		w    float64
		name string
		t    int
	}
	for step := 0; step < 60+20*g.N; step++ {
		p := e.project()
		if quiescent(p) {
			break
		}
		var acts []act
		if !e.stopped {
			acts = append(acts, act{4, "ensure", 0})
		}
		for _, t := range p.Running {
			acts = append(acts, act{3, "finish", t})
		}
		for c := 1; c <= g.NC; c++ {
			if !p.Rdy[c-1] && b.abort > 0 {
				acts = append(acts, act{0.25, "abort", c})
			}
		}
		future := false
		for i, s := range p.Status {
			if s == "Wait" {
				acts = append(acts, act{2, "resolve", i + 1})
			}
			if p.At[i] > p.Now {
				future = true
			}
		}
		if future {
			acts = append(acts, act{3, "tick", 0})
		} else {
			acts = append(acts, act{0.2, "tick", 0})
		}
		if b.stop > 0 && !e.stopped {
			if ok, _ := e.CanStop(); ok {
				acts = append(acts, act{0.25, "stop", 0})
			}
		}
		if b.restart > 0 {
			w := 0.35
			if e.stopped {
				w = 3
			}
			acts = append(acts, act{w, "restart", 0})
		} else if e.stopped {
			// a stopped runner has to be restarted to make progress
			acts = append(acts, act{3, "restart", 0})
		}
		tot := 0.0
		for _, a := range acts {
			tot += a.w
		}
		x := r.Float64() * tot
		var a act
		for _, a = range acts {
			if x < a.w {
				break
			}
			x -= a.w
		}
		switch a.name {
		case "ensure":
			if err := e.Ensure(); err != nil {
				return err
			}
		case "finish":
			res := result{Res: "ok", WS: "Done"}
			y := r.Float64()
			switch {
			case y < 0.18 && (b.fail > 0 || e.stopped):
				res.Res = "err"
				if !e.stopped {
					b.fail--
				}
			case y < 0.30 && b.retry > 0:
				res.Res = "retry"
				res.After = r.Intn(3)
				b.retry--
			case y < 0.40 && b.wait > 0:
				res.Res = "wait"
				if phaseOf(p, a.t) == "undo" {
					res.WS = "Undone"
				}
				b.wait--
			}
			if err := e.Finish(a.t, res); err != nil {
				return err
			}
		case "abort":
			e.Abort(a.t)
			b.abort--
		case "resolve":
			e.ResolveWait(a.t)
		case "tick":
			e.Tick()
		case "stop":
			if err := e.Stop(); err != nil {
				return err
			}
			b.stop--
		case "restart":
			if err := e.Restart(); err != nil {
				return err
			}
			if b.restart > 0 {
				b.restart--
			}
		}
	}
	return drain(e)
}

// drain: a fair schedule in which every handler returns ok; emits "Stuck" if the changes do not settle
func drain(e *Engine) error {
	g := e.g
	quiescent := func(p proj) bool {
		if len(p.Running) > 0 {
			return false
		}
		for _, s := range p.Status {
			if s != "Done" && s != "Undone" && s != "Hold" && s != "Error" {
				return false
			}
		}
		return true
	}
	for i := 0; i < 30+15*g.N; i++ {
		p := e.project()
		if quiescent(p) {
			// one more pass so that cleaning happens, then done
			if !e.stopped {
				if err := e.Ensure(); err != nil {
					return err
				}
			}
			return nil
		}
		if e.stopped {
			for _, t := range p.Running {
				if err := e.Finish(t, result{Res: "ok", WS: "Done"}); err != nil {
					return err
				}
			}
			if err := e.Restart(); err != nil {
				return err
			}
			continue
		}
		if err := e.Ensure(); err != nil {
			return err
		}
		p = e.project()
		for _, t := range p.Running {
			if err := e.Finish(t, result{Res: "ok", WS: "Done"}); err != nil {
				return err
			}
		}
		p = e.project()
		tick := false
		for i, s := range p.Status {
			if s == "Wait" {
				e.ResolveWait(i + 1)
			}
			if p.At[i] > p.Now {
				tick = true
			}
		}
		if tick {
			e.Tick()
		}
	}
	e.emit(event{Ev: "Stuck"})
	return nil
}

// TestVerifEngine writes traces grouped by (N, NC): $VERIF_OUT_DIR/trace_n<N>_c<NC>.ndjson
func TestVerifEngine(t *testing.T) {
	dir := os.Getenv("VERIF_OUT_DIR")
	if dir == "" {
		t.Skip("VERIF_OUT_DIR not set")
	}
	seed := int64(envInt("VERIF_SEED", 1))
	cases := envInt("VERIF_CASES", 60)
	shapes := [][2]int{{3, 1}, {4, 1}, {5, 1}, {4, 2}}
	if s := os.Getenv("VERIF_SHAPES"); s != "" {
		shapes = nil
		for _, part := range strings.Split(s, ",") {
			var n, c int
			fmt.Sscanf(part, "%dx%d", &n, &c)
			shapes = append(shapes, [2]int{n, c})
		}
	}
	total := 0
	for _, sh := range shapes {
		n, nc := sh[0], sh[1]
		f, enc := openOut(filepath.Join(dir, fmt.Sprintf("trace_n%d_c%d.ndjson", n, nc)))
		r := rand.New(rand.NewSource(seed*1000003 + int64(n*10+nc)))
		if n == 3 && nc == 1 {
			for _, d := range directedCases {
				id := "directed-" + d.name
				if err := runDirected(d, id, enc); err != nil {
					f.Close()
					t.Fatalf("case %s: %v", id, err)
				}
				total++
			}
		}
		for k := 0; k < cases; k++ {
			g := randGraph(r, n, nc)
			b := budget{fail: r.Intn(3), retry: r.Intn(3), wait: r.Intn(2), restart: r.Intn(2), abort: 0, stop: 0}
			if nc == 1 && k%3 == 2 {
				g = laneGraph(r, n)
				b = budget{fail: 2, retry: r.Intn(2), wait: 0, restart: r.Intn(2)}
			}
			if r.Intn(5) == 0 {
				b.abort = 1
			}
			if r.Intn(5) == 0 {
				b.stop = 1
				b.restart++
			}
			id := fmt.Sprintf("s%d-n%dc%d-k%d", seed, n, nc, k)
			if err := runCase(r, g, id, enc, b); err != nil {
				f.Close()
				t.Fatalf("case %s: %v", id, err)
			}
			total++
		}
		f.Close()
	}
	fmt.Printf("VERIF-CASES %d\n", total)
}
