// Package taskengine drives the real overlord/state task engine (State, Change, Task, TaskRunner)
// under a scripted scheduler and records one NDJSON event per critical section, for validation
// against spec/TaskEngine.tla (see spec/TraceTaskEngine.tla).
package taskengine

import (
	"bytes"
	"encoding/json"
	"fmt"
	"os"
	"regexp"
	"sort"
	"sync"
	"time"

	"gopkg.in/tomb.v2"

	"github.com/snapcore/snapd/logger"
	"github.com/snapcore/snapd/overlord/state"
)

// Graph is the shape of the change(s) under test; tasks are 1..N (index 0 unused in the slices below
// is avoided: slices are 0-based with task i at position i-1).
type Graph struct {
	N     int      `json:"n"`
	NC    int      `json:"nc"`
	Waits [][]int  `json:"waits"` // Waits[i-1] = tasks that task i waits for (ascending)
	Lanes [][]int  `json:"lanes"` // Lanes[i-1] = lanes of task i in join order; [0] = none
	Undo  []bool   `json:"undo"`
	Chg   []int    `json:"chg"`  // change (1..NC) of each task
	Kind  []string `json:"kind"` // abstract kind class (neutral, hook, iface, prereq, gadget)
	Snap  []int    `json:"snap"`
}

type result struct {
	LogErr bool   // the handler logs an ERROR line (t.Errorf) before returning (secondary/transient error)
	Res    string // ok | err | retry | wait
	After  int    // hours, for retry
	WS     string // waited status for wait
}

type startRec struct {
	T    int      `json:"t"`
	Ph   string   `json:"ph"` // do | undo
	Snap []string `json:"snap"`
	At   int      `json:"at"`
	Now  int      `json:"now"`
}

type chgNote struct {
	C   int    `json:"c"`
	Old string `json:"old"`
	New string `json:"new"`
}

// State projection logged after every event.
type proj struct {
	Status  []string `json:"status"`
	Waited  []string `json:"waited"`
	At      []int    `json:"at"`
	Clean   []int    `json:"clean"`
	Now     int      `json:"now"`
	Running []int    `json:"running"`
	Rdy     []bool   `json:"rdy"`
	ChgSt   []string `json:"chgst"`
	Stopped bool     `json:"stopped"`
}

type event struct {
	Ev     string     `json:"ev"`
	Case   string     `json:"case"`
	G      *Graph     `json:"g,omitempty"`
	T      int        `json:"t"`
	C      int        `json:"c"`
	Res    string     `json:"res"`
	After  int        `json:"after"`
	WS     string     `json:"ws"`
	Starts []startRec `json:"starts"`
	Notes  []chgNote  `json:"notes"`
	Err    []string   `json:"err"` // Change.Err() text per change ("" when nil)
	Inv    []int      `json:"inv"` // handler invocations so far per task (do+undo)
	St     proj       `json:"st"`
}

type memBackend struct {
	mu   sync.Mutex
	last []byte
	n    int
	sig  chan struct{}
}

func (b *memBackend) Checkpoint(data []byte) error {
	b.mu.Lock()
	b.last = append([]byte(nil), data...)
	b.n++
	b.mu.Unlock()
	select {
	case b.sig <- struct{}{}:
	default:
	}
	return nil
}
func (b *memBackend) EnsureBefore(d time.Duration) {}

func (b *memBackend) count() int {
	b.mu.Lock()
	defer b.mu.Unlock()
	return b.n
}

var base = time.Date(2030, 1, 1, 0, 0, 0, 0, time.UTC)

func hours(t time.Time) int {
	if t.IsZero() {
		return 0
	}
	return int(t.Sub(base) / time.Hour)
}

type startMsg struct {
	gen, t int
	ph     string
}

// Engine wraps one real State + TaskRunner generation.
type Engine struct {
	g        Graph
	caseID   string
	out      *json.Encoder
	be       *memBackend
	st       *state.State
	runner   *state.TaskRunner
	tasks    []*state.Task // index i-1
	chgs     []*state.Change
	idx      map[string]int
	gen      int
	now      int
	stopped  bool
	stopDone chan struct{}

	mu          sync.Mutex // protects the fields below (touched from handler goroutines / callbacks)
	gates       map[int]chan result
	started     chan startMsg
	dying       chan startMsg
	running     map[int]bool
	passLog     []startRec
	notes       []chgNote
	inv         []int
	doInv       []int
	undoInv     []int
	blockedFn   func(r *state.TaskRunner) // installs real blocked predicates (C07)
	kindName    func(i int) string
	restoreTime func()
	token       func() uint64 // changes whenever a checkpoint happened
	external    bool          // state/runner owned by a real overlord (no Stop/Restart)
	setup       func(i int, t *state.Task)
}

var runningRe = regexp.MustCompile(`^Running task (\d+) on (\w+):`)

type engLogger struct {
	e   *Engine
	gen int
}

func (l engLogger) Notice(msg string)       {}
func (l engLogger) NoGuardDebug(msg string) {}
func (l engLogger) Debug(msg string) {
	m := runningRe.FindStringSubmatch(msg)
	if m == nil {
		return
	}
	e := l.e
	if l.gen != e.gen {
		return
	}
	i, ok := e.idx[m[1]]
	if !ok {
		return
	}
	ph := "do"
	if m[2] == "Undo" || m[2] == "Undoing" {
		ph = "undo"
	}
	// we are inside TaskRunner.Ensure with the state lock held
	rec := startRec{T: i, Ph: ph, Snap: e.statuses(), At: hours(e.tasks[i-1].AtTime()), Now: e.now}
	e.mu.Lock()
	e.passLog = append(e.passLog, rec)
	e.mu.Unlock()
}

func (e *Engine) statuses() []string {
	out := make([]string, e.g.N)
	for i, t := range e.tasks {
		out[i] = t.Status().String()
	}
	return out
}

func (e *Engine) defaultKind(i int) string {
	if e.g.Undo[i-1] {
		return "with-undo"
	}
	return "no-undo"
}

func (e *Engine) setTime(h int) {
	e.now = h
	if e.restoreTime != nil {
		e.restoreTime()
	}
	e.restoreTime = state.MockTime(base.Add(time.Duration(h) * time.Hour))
}

// NewEngine builds the real objects for graph g and logs the Init event.
func NewEngine(g Graph, caseID string, out *json.Encoder, kindName func(i int) string, blockedFn func(r *state.TaskRunner)) *Engine {
	e := &Engine{g: g, caseID: caseID, out: out, kindName: kindName, blockedFn: blockedFn}
	if e.kindName == nil {
		e.kindName = e.defaultKind
	}
	e.be = &memBackend{sig: make(chan struct{}, 1024)}
	e.token = func() uint64 { return uint64(e.be.count()) }
	e.started = make(chan startMsg, 1024)
	e.dying = make(chan startMsg, 1024)
	e.inv = make([]int, g.N)
	e.doInv = make([]int, g.N)
	e.undoInv = make([]int, g.N)
	e.setTime(1)
	e.st = state.New(e.be)
	e.build()
	e.newRunner()
	e.emit(event{Ev: "Init", G: &e.g})
	return e
}

// NewEngineOn runs a case on a State/TaskRunner owned by a real overlord.Overlord: the runner keeps all
// the blocked predicates the real managers registered; only the handlers of the kinds used are replaced
// by gated ones. token must change whenever the state was checkpointed.
func NewEngineOn(st *state.State, runner *state.TaskRunner, token func() uint64, g Graph, caseID string,
	out *json.Encoder, kindName func(i int) string, setup func(i int, t *state.Task)) *Engine {
	e := &Engine{g: g, caseID: caseID, out: out, kindName: kindName, external: true, setup: setup}
	e.token = token
	e.started = make(chan startMsg, 1024)
	e.dying = make(chan startMsg, 1024)
	e.inv = make([]int, g.N)
	e.doInv = make([]int, g.N)
	e.undoInv = make([]int, g.N)
	e.setTime(1)
	e.st = st
	e.runner = runner
	e.build()
	e.newRunner()
	e.emit(event{Ev: "Init", G: &e.g})
	return e
}

func (e *Engine) build() {
	g := e.g
	e.st.Lock()
	e.chgs = make([]*state.Change, g.NC)
	for c := 1; c <= g.NC; c++ {
		e.chgs[c-1] = e.st.NewChange("verif", fmt.Sprintf("change %d", c))
	}
	// real lanes: abstract lane k>0 -> a lane id from NewLane
	laneID := map[int]int{0: 0}
	e.tasks = make([]*state.Task, g.N)
	e.idx = make(map[string]int)
	for i := 1; i <= g.N; i++ {
		t := e.st.NewTask(e.kindName(i), fmt.Sprintf("task %d", i))
		e.tasks[i-1] = t
		e.idx[t.ID()] = i
	}
	for i := 1; i <= g.N; i++ {
		for _, l := range g.Lanes[i-1] {
			if l == 0 {
				continue
			}
			if _, ok := laneID[l]; !ok {
				laneID[l] = e.st.NewLane()
			}
		}
	}
	// lanes are created in ascending abstract order so that real ids are monotone in abstract ids
	for i := 1; i <= g.N; i++ {
		for _, l := range g.Lanes[i-1] {
			if l != 0 {
				e.tasks[i-1].JoinLane(laneID[l])
			}
		}
	}
	for i := 1; i <= g.N; i++ {
		for _, w := range g.Waits[i-1] {
			e.tasks[i-1].WaitFor(e.tasks[w-1])
		}
	}
	for i := 1; i <= g.N; i++ {
		e.chgs[g.Chg[i-1]-1].AddTask(e.tasks[i-1])
		if e.setup != nil {
			e.setup(i, e.tasks[i-1])
		}
	}
	e.st.Unlock()
}

func (e *Engine) newRunner() {
	e.gen++
	gen := e.gen
	e.mu.Lock()
	e.gates = make(map[int]chan result)
	e.running = make(map[int]bool)
	e.mu.Unlock()
	e.stopped = false
	logger.SetLogger(engLogger{e: e, gen: gen})
	if !e.external {
		e.runner = state.NewTaskRunner(e.st)
	}
	mk := func(ph string) state.HandlerFunc {
		return func(t *state.Task, tb *tomb.Tomb) error {
			i := e.idx[t.ID()]
			gate := make(chan result, 1)
			e.mu.Lock()
			if gen != e.gen {
				e.mu.Unlock()
				return &state.Retry{}
			}
			e.gates[i] = gate
			e.running[i] = true
			e.inv[i-1]++
			if ph == "do" {
				e.doInv[i-1]++
			} else {
				e.undoInv[i-1]++
			}
			e.mu.Unlock()
			e.started <- startMsg{gen, i, ph}
			var r result
			select {
			case r = <-gate:
			case <-tb.Dying():
				e.dying <- startMsg{gen, i, ph}
				r = <-gate
			}
			if r.LogErr {
				t.State().Lock()
				t.Errorf("transient-%d-%s", i, ph)
				t.State().Unlock()
			}
			switch r.Res {
			case "ok":
				return nil
			case "retry":
				return &state.Retry{After: time.Duration(r.After) * time.Hour}
			case "wait":
				ws := state.DoneStatus
				if r.WS == "Undone" {
					ws = state.UndoneStatus
				}
				return &state.Wait{WaitedStatus: ws}
			case "abandon":
				return &state.Retry{}
			default:
				return fmt.Errorf("fail-%d-%s", i, ph)
			}
		}
	}
	kinds := map[string]bool{}
	for i := 1; i <= e.g.N; i++ {
		k := e.kindName(i)
		if kinds[k] {
			continue
		}
		kinds[k] = true
		if e.g.Undo[i-1] {
			e.runner.AddHandler(k, mk("do"), mk("undo"))
		} else {
			e.runner.AddHandler(k, mk("do"), nil)
		}
	}
	if e.blockedFn != nil {
		e.blockedFn(e.runner)
	}
	e.st.Lock()
	e.st.AddTaskStatusChangedHandler(func(t *state.Task, old, new state.Status) {})
	e.st.AddChangeStatusChangedHandler(func(chg *state.Change, old, new state.Status) {
		if gen != e.gen {
			return
		}
		c := 0
		for k, x := range e.chgs {
			if x.ID() == chg.ID() {
				c = k + 1
			}
		}
		if c == 0 {
			return
		}
		e.mu.Lock()
		e.notes = append(e.notes, chgNote{C: c, Old: old.String(), New: new.String()})
		e.mu.Unlock()
	})
	e.st.Unlock()
}

func (e *Engine) project() proj {
	e.st.Lock()
	defer e.st.Unlock()
	p := proj{Now: e.now, Stopped: e.stopped}
	p.Status = e.statuses()
	p.Waited = make([]string, e.g.N)
	p.At = make([]int, e.g.N)
	p.Clean = []int{}
	for i, t := range e.tasks {
		ws := t.WaitedStatus()
		if ws == state.DefaultStatus {
			p.Waited[i] = "Done" // documented default
		} else {
			p.Waited[i] = ws.String()
		}
		p.At[i] = hours(t.AtTime())
		if t.IsClean() {
			p.Clean = append(p.Clean, i+1)
		}
	}
	p.Running = []int{}
	e.mu.Lock()
	for i := range e.running {
		p.Running = append(p.Running, i)
	}
	e.mu.Unlock()
	sort.Ints(p.Running)
	p.Rdy = make([]bool, e.g.NC)
	p.ChgSt = make([]string, e.g.NC)
	for c, chg := range e.chgs {
		p.Rdy[c] = chg.IsReady()
		p.ChgSt[c] = chg.Status().String()
	}
	return p
}

func (e *Engine) emit(ev event) {
	ev.Case = e.caseID
	ev.St = e.project()
	e.mu.Lock()
	ev.Starts = e.passLog
	if ev.Starts == nil {
		ev.Starts = []startRec{}
	}
	e.passLog = nil
	ev.Notes = e.notes
	if ev.Notes == nil {
		ev.Notes = []chgNote{}
	}
	e.notes = nil
	ev.Inv = append([]int(nil), e.inv...)
	e.mu.Unlock()
	ev.Err = make([]string, e.g.NC)
	e.st.Lock()
	for c, chg := range e.chgs {
		if err := chg.Err(); err != nil {
			ev.Err[c] = err.Error()
		}
	}
	e.st.Unlock()
	if err := e.out.Encode(ev); err != nil {
		panic(err)
	}
}

const watchdog = 20 * time.Second

// Ensure runs one real TaskRunner.Ensure pass and waits for the handlers it started.
func (e *Engine) Ensure() error {
	if err := e.runner.Ensure(); err != nil {
		return err
	}
	e.mu.Lock()
	n := len(e.passLog)
	want := map[int]bool{}
	for _, s := range e.passLog {
		want[s.T] = true
	}
	e.mu.Unlock()
	for k := 0; k < n; k++ {
		select {
		case m := <-e.started:
			if m.gen != e.gen {
				k--
				continue
			}
			if !want[m.t] {
				return fmt.Errorf("HARNESS: handler of task %d started without a 'Running task' log line", m.t)
			}
		case <-time.After(watchdog):
			return fmt.Errorf("HARNESS: a handler logged as started did not start within %v", watchdog)
		}
	}
	// anything started that the pass did not log?
	select {
	case m := <-e.started:
		if m.gen == e.gen {
			return fmt.Errorf("HARNESS: unexpected handler start for task %d", m.t)
		}
	default:
	}
	e.emit(event{Ev: "Ensure"})
	return nil
}

// Finish releases the handler of task t with result r and waits for its post-handler critical section.
func (e *Engine) Finish(t int, r result) error {
	e.mu.Lock()
	gate, ok := e.gates[t]
	isRunning := e.running[t]
	e.mu.Unlock()
	if !ok || !isRunning {
		return fmt.Errorf("HARNESS: task %d is not running", t)
	}
	before := e.token()
	need := uint64(1)
	if r.LogErr && !e.external {
		need = 2 // the handler's own Errorf section checkpoints once before the post-handler section does
	}
	gate <- r
	deadline := time.After(watchdog)
	for (e.external && e.token() == before) || (!e.external && e.token() < before+need) {
		select {
		case <-deadline:
			return fmt.Errorf("HARNESS: no checkpoint after releasing task %d", t)
		case <-time.After(200 * time.Microsecond):
		}
	}
	e.mu.Lock()
	delete(e.running, t)
	delete(e.gates, t)
	e.mu.Unlock()
	e.emit(event{Ev: "Finish", T: t, Res: r.Res, After: r.After, WS: r.WS})
	return nil
}

func (e *Engine) Abort(c int) {
	e.st.Lock()
	e.chgs[c-1].Abort()
	e.st.Unlock()
	e.emit(event{Ev: "Abort", C: c})
}

// Force sets the status of a pending task directly, as a manager would (no abort of its followers).
func (e *Engine) Force(t int, status string) {
	m := map[string]state.Status{"Error": state.ErrorStatus, "Hold": state.HoldStatus, "Done": state.DoneStatus, "Undone": state.UndoneStatus}
	e.st.Lock()
	e.tasks[t-1].SetStatus(m[status])
	e.st.Unlock()
	e.emit(event{Ev: "Force", T: t, Res: status})
}

func (e *Engine) ResolveWait(t int) {
	e.st.Lock()
	tk := e.tasks[t-1]
	tk.SetStatus(tk.WaitedStatus())
	e.st.Unlock()
	e.emit(event{Ev: "ResolveWait", T: t})
}

func (e *Engine) Tick() {
	e.setTime(e.now + 1)
	e.emit(event{Ev: "Tick"})
}

// CanStop reports whether the real TaskRunner.Stop can be observed deterministically right now:
// either nothing is running (Stop returns at once) or some running handler has not been killed yet
// (status Doing/Undoing: only Stop can kill it), whose dying notification proves r.stopped is set.
func (e *Engine) CanStop() (ok bool, witness int) {
	p := e.project()
	if len(p.Running) == 0 {
		return true, 0
	}
	for _, t := range p.Running {
		if s := p.Status[t-1]; s == "Doing" || s == "Undoing" {
			return true, t
		}
	}
	return false, 0
}

// Stop calls the real TaskRunner.Stop (in the background: it waits for all handlers; handlers stay
// gated, so the driver still decides the order in which they return).
func (e *Engine) Stop() error {
	ok, witness := e.CanStop()
	if !ok {
		return fmt.Errorf("HARNESS: Stop not observable now")
	}
	e.stopDone = make(chan struct{})
	if witness == 0 {
		e.runner.Stop()
		close(e.stopDone)
	} else {
		go func(r *state.TaskRunner, done chan struct{}) {
			r.Stop()
			close(done)
		}(e.runner, e.stopDone)
		deadline := time.After(watchdog)
	wait:
		for {
			select {
			case m := <-e.dying:
				if m.gen == e.gen && m.t == witness {
					break wait
				}
			case <-deadline:
				return fmt.Errorf("HARNESS: Stop did not kill the tomb of task %d", witness)
			}
		}
	}
	e.stopped = true
	e.emit(event{Ev: "Stop"})
	return nil
}

// Restart simulates a process restart from the last checkpoint.
func (e *Engine) Restart() error {
	// abandon the old generation: its goroutines finish against the old State object
	e.mu.Lock()
	oldGates := e.gates
	e.gates = map[int]chan result{}
	e.running = map[int]bool{}
	e.mu.Unlock()
	e.be.mu.Lock()
	data := append([]byte(nil), e.be.last...)
	e.be.mu.Unlock()
	nb := &memBackend{sig: make(chan struct{}, 1024), last: data}
	st, err := state.ReadState(nb, bytes.NewReader(data))
	if err != nil {
		return fmt.Errorf("HARNESS: ReadState: %v", err)
	}
	e.be = nb
	e.st = st
	st.Lock()
	ntasks := st.Tasks()
	nchgs := st.Changes()
	lost := ""
	if len(ntasks) != e.g.N || len(nchgs) != e.g.NC {
		lost = fmt.Sprintf("restart changed object counts: %d tasks %d changes", len(ntasks), len(nchgs))
	}
	for i := range e.tasks {
		e.tasks[i] = st.Task(e.tasks[i].ID())
		if e.tasks[i] == nil {
			lost = fmt.Sprintf("task %d lost by restart", i+1)
		}
	}
	for c := range e.chgs {
		e.chgs[c] = st.Change(e.chgs[c].ID())
		if e.chgs[c] == nil {
			lost = fmt.Sprintf("change %d lost by restart", c+1)
		}
	}
	st.Unlock()
	if lost != "" {
		return fmt.Errorf("REAL: %s", lost)
	}
	e.newRunner() // bumps gen: callbacks/handlers of the old generation are ignored from here on
	for _, g := range oldGates {
		g <- result{Res: "abandon"}
	}
	e.emit(event{Ev: "Restart"})
	return nil
}

func (e *Engine) Close() {
	e.mu.Lock()
	old := e.gates
	e.gates = map[int]chan result{}
	e.gen += 1000
	e.mu.Unlock()
	for _, g := range old {
		select {
		case g <- result{Res: "abandon"}:
		default:
		}
	}
	if e.restoreTime != nil {
		e.restoreTime()
		e.restoreTime = nil
	}
	logger.SetLogger(logger.NullLogger)
}

func openOut(path string) (*os.File, *json.Encoder) {
	f, err := os.Create(path)
	if err != nil {
		panic(err)
	}
	return f, json.NewEncoder(f)
}
