package taskengine

import (
	"encoding/json"
	"fmt"
	"math/rand"
	"os"
	"path/filepath"
	"testing"
)

// C04 differential: a run with a crash+restart after the k-th critical section must reach the same
// outcome as the run without it (handlers are deterministic per (task, phase), i.e. idempotent work).

type fate map[string]string // "<t>/<ph>" -> ok|err

type outcome struct {
	ChgSt  []string `json:"chgst"`
	Class  []string `json:"class"` // per task: K(ept) R(everted or never done) E(rror); "-" for tasks without undo handler
	Status []string `json:"status"`
	DoInv  []int    `json:"doinv"`
	Stuck  bool     `json:"stuck"`
}

func classify(g Graph, p proj) []string {
	out := make([]string, g.N)
	for i, s := range p.Status {
		switch {
		case !g.Undo[i]:
			out[i] = "-"
		case s == "Done":
			out[i] = "K"
		case s == "Error":
			out[i] = "E"
		default:
			out[i] = "R"
		}
	}
	return out
}

// canonical deterministic schedule; crashAt < 0: no crash. Returns number of actions performed.
func runCanonical(g Graph, caseID string, enc *json.Encoder, f fate, crashAt int) (outcome, int, error) {
	e := NewEngine(g, caseID, enc, nil, nil)
	defer e.Close()
	actions := 0
	crashed := false
	maybeCrash := func() error {
		actions++
		if !crashed && crashAt >= 0 && actions == crashAt {
			crashed = true
			return e.Restart()
		}
		return nil
	}
	quiet := func(p proj) bool {
		if len(p.Running) > 0 {
			return false
		}
		for _, s := range p.Status {
			if s != "Done" && s != "Undone" && s != "Hold" && s != "Error" {
				return false
			}
		}
		return true
	}
	for i := 0; i < 20+10*g.N; i++ {
		p := e.project()
		if quiet(p) {
			if err := e.Ensure(); err != nil {
				return outcome{}, actions, err
			}
			p = e.project()
			e.mu.Lock()
			di := append([]int(nil), e.doInv...)
			e.mu.Unlock()
			return outcome{ChgSt: p.ChgSt, Class: classify(g, p), Status: p.Status, DoInv: di}, actions, nil
		}
		if err := e.Ensure(); err != nil {
			return outcome{}, actions, err
		}
		if err := maybeCrash(); err != nil {
			return outcome{}, actions, err
		}
		for {
			p = e.project()
			if len(p.Running) == 0 {
				break
			}
			t := p.Running[0]
			ph := "do"
			if p.Status[t-1] == "Undoing" {
				ph = "undo"
			}
			res := f[fmt.Sprintf("%d/%s", t, ph)]
			if res == "" {
				res = "ok"
			}
			if err := e.Finish(t, result{Res: res, WS: "Done"}); err != nil {
				return outcome{}, actions, err
			}
			if err := maybeCrash(); err != nil {
				return outcome{}, actions, err
			}
		}
	}
	e.emit(event{Ev: "Stuck"})
	return outcome{Stuck: true}, actions, nil
}

type sameRec struct {
	Case    string  `json:"case"`
	G       Graph   `json:"g"`
	Fate    fate    `json:"fate"`
	CrashAt int     `json:"crash_at"`
	Base    outcome `json:"base"`
	Got     outcome `json:"got"`
	Same    bool    `json:"same"`
	Why     string  `json:"why"`
}

func TestVerifSameOutcome(t *testing.T) {
	dir := os.Getenv("VERIF_OUT_DIR")
	if dir == "" {
		t.Skip("VERIF_OUT_DIR not set")
	}
	seed := int64(envInt("VERIF_SEED", 1))
	cases := envInt("VERIF_CASES", 10)
	sf, senc := openOut(filepath.Join(dir, "sameoutcome.ndjson"))
	defer sf.Close()
	runs := 0
	for _, n := range []int{3, 4} {
		f, enc := openOut(filepath.Join(dir, fmt.Sprintf("trace_crash_n%d_c1.ndjson", n)))
		r := rand.New(rand.NewSource(seed*7919 + int64(n)))
		for k := 0; k < cases; k++ {
			g := randGraph(r, n, 1)
			ft := fate{}
			if r.Intn(4) != 0 { // one failing handler in most cases
				ph := "do"
				if r.Intn(4) == 0 {
					ph = "undo"
				}
				ft[fmt.Sprintf("%d/%s", 1+r.Intn(n), ph)] = "err"
				if ph == "undo" { // an undo only runs if something else fails
					ft[fmt.Sprintf("%d/do", 1+r.Intn(n))] = "err"
				}
			}
			id := fmt.Sprintf("so-s%d-n%d-k%d", seed, n, k)
			base, nact, err := runCanonical(g, id+"-base", enc, ft, -1)
			if err != nil {
				t.Fatalf("case %s: %v", id, err)
			}
			runs++
			for c := 1; c <= nact; c++ {
				got, _, err := runCanonical(g, fmt.Sprintf("%s-crash%d", id, c), enc, ft, c)
				if err != nil {
					t.Fatalf("case %s crash %d: %v", id, c, err)
				}
				runs++
				rec := sameRec{Case: id, G: g, Fate: ft, CrashAt: c, Base: base, Got: got, Same: true}
				if got.Stuck != base.Stuck {
					rec.Same, rec.Why = false, "settling differs"
				}
				for i := range base.ChgSt {
					if !got.Stuck && !base.Stuck && base.ChgSt[i] != got.ChgSt[i] {
						rec.Same, rec.Why = false, "change status differs"
					}
				}
				nerr := 0
				for _, v := range ft {
					if v == "err" {
						nerr++
					}
				}
				if nerr <= 1 && !got.Stuck && !base.Stuck {
					for i := range base.Class {
						if base.Class[i] != got.Class[i] {
							rec.Same, rec.Why = false, fmt.Sprintf("task %d net effect differs", i+1)
						}
					}
				}
				if err := senc.Encode(rec); err != nil {
					t.Fatal(err)
				}
			}
		}
		f.Close()
	}
	fmt.Printf("VERIF-CASES %d\n", runs)
}
