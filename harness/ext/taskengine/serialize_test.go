//go:build verif

package taskengine

import (
	"encoding/json"
	"fmt"
	"math/rand"
	"os"
	"path/filepath"
	"syscall"
	"testing"

	"github.com/snapcore/snapd/dirs"
	"github.com/snapcore/snapd/overlord"
	"github.com/snapcore/snapd/overlord/hookstate"
	"github.com/snapcore/snapd/overlord/state"
)

// C07: the REAL managers (constructed by the real overlord.New on one shared TaskRunner) decide what is
// blocked; only the handlers of the kinds we schedule are replaced by gated ones.

var ifaceKinds = []string{"connect", "disconnect", "setup-profiles", "remove-profiles", "discard-conns",
	"auto-connect", "auto-disconnect", "hotplug-add-slot", "hotplug-connect", "hotplug-update-slot",
	"hotplug-remove-slot", "hotplug-disconnect", "transition-ubuntu-core"}

var classes = []string{"neutral", "neutral", "hook", "hook", "iface", "iface", "prereq", "gadget"}

func stateFileToken() uint64 {
	var st syscall.Stat_t
	if err := syscall.Stat(dirs.SnapStateFile, &st); err != nil {
		return 0
	}
	return st.Ino ^ uint64(st.Mtim.Nsec)<<20 ^ uint64(st.Size)<<44
}

func serializeGraph(r *rand.Rand, n, nc int) (Graph, []string) {
	g := Graph{N: n, NC: nc}
	real := make([]string, n)
	for i := 0; i < n; i++ {
		g.Chg = append(g.Chg, 1+i%nc)
	}
	for i := 1; i <= n; i++ {
		w := []int{}
		for j := 1; j < i; j++ {
			if g.Chg[j-1] == g.Chg[i-1] && r.Float64() < 0.3 {
				w = append(w, j)
			}
		}
		g.Waits = append(g.Waits, w)
		g.Lanes = append(g.Lanes, []int{0})
		g.Undo = append(g.Undo, true)
		cl := classes[r.Intn(len(classes))]
		g.Kind = append(g.Kind, cl)
		g.Snap = append(g.Snap, 1+r.Intn(2))
		switch cl {
		case "neutral":
			// hotplug-seq-wait is an interface manager kind that is deliberately NOT serialized
			real[i-1] = []string{"verif-neutral", "hotplug-seq-wait", "verif-neutral"}[r.Intn(3)]
		case "hook":
			real[i-1] = "run-hook"
		case "iface":
			real[i-1] = ifaceKinds[r.Intn(len(ifaceKinds))]
		case "prereq":
			real[i-1] = "prerequisites"
		case "gadget":
			real[i-1] = "update-gadget-assets"
		}
	}
	return g, real
}

func TestVerifSerialize(t *testing.T) {
	dir := os.Getenv("VERIF_OUT_DIR")
	if dir == "" {
		t.Skip("VERIF_OUT_DIR not set")
	}
	seed := int64(envInt("VERIF_SEED", 1))
	cases := envInt("VERIF_CASES", 40)
	root := t.TempDir()
	dirs.SetRootDir(root)
	defer dirs.SetRootDir("/")
	if err := os.MkdirAll(filepath.Dir(dirs.SnapStateFile), 0755); err != nil {
		t.Fatal(err)
	}
	o, err := overlord.New(nil)
	if err != nil {
		t.Fatalf("HARNESS: overlord.New: %v", err)
	}
	o.VerifEnsureTimerSetup() // handlers call State.EnsureBefore, which needs the timer Loop would create
	st := o.State()
	runner := o.TaskRunner()
	total := 0
	for _, sh := range [][2]int{{4, 2}, {5, 2}, {5, 3}, {6, 3}} {
		n, nc := sh[0], sh[1]
		f, enc := openOut(filepath.Join(dir, fmt.Sprintf("trace_ser_n%d_c%d.ndjson", n, nc)))
		r := rand.New(rand.NewSource(seed*104729 + int64(n*10+nc)))
		for k := 0; k < cases; k++ {
			g, real := serializeGraph(r, n, nc)
			id := fmt.Sprintf("ser-s%d-n%dc%d-k%d", seed, n, nc, k)
			if err := runSerializeCase(r, st, runner, g, real, id, enc); err != nil {
				f.Close()
				t.Fatalf("case %s: %v", id, err)
			}
			total++
		}
		f.Close()
	}
	fmt.Printf("VERIF-CASES %d\n", total)
}

func runSerializeCase(r *rand.Rand, st *state.State, runner *state.TaskRunner, g Graph, real []string, id string, enc *json.Encoder) error {
	setup := func(i int, t *state.Task) {
		if real[i-1] == "run-hook" {
			t.Set("hook-setup", &hookstate.HookSetup{Snap: fmt.Sprintf("snap%d", g.Snap[i-1]), Hook: "configure"})
		}
	}
	e := NewEngineOn(st, runner, stateFileToken, g, id, enc, func(i int) string { return real[i-1] }, setup)
	defer e.Close()
	quiescent := func(p proj) bool {
		if len(p.Running) > 0 {
			return false
		}
		for _, s := range p.Status {
			if s != "Done" && s != "Undone" && s != "Hold" && s != "Error" {
				return false
			}
		}
		return true
	}
	fails := r.Intn(2)
	for step := 0; step < 40+20*g.N; step++ {
		p := e.project()
		if quiescent(p) {
			return e.Ensure()
		}
		// bias towards Ensure so that many tasks are in flight together
		if len(p.Running) == 0 || r.Float64() < 0.55 {
			if err := e.Ensure(); err != nil {
				return err
			}
			continue
		}
		t := p.Running[r.Intn(len(p.Running))]
		res := result{Res: "ok", WS: "Done"}
		if fails > 0 && r.Float64() < 0.1 {
			res.Res = "err"
			fails--
		}
		if err := e.Finish(t, res); err != nil {
			return err
		}
	}
	e.emit(event{Ev: "Stuck"})
	return nil
}
