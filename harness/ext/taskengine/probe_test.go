package taskengine

import (
	"encoding/json"
	"fmt"
	"io"
	"testing"
)

// Deterministic probe for the known finding "Change.Abort panics when a pending task precedes a Done task
// in the change's task order" (found by TLC on MCSpecAnyOrder): tasks 1<-2<-3 (1 waits for 2, 2 for 3),
// 3 completes, the user aborts before the next Ensure pass.
func TestVerifAbortOrderProbe(t *testing.T) {
	g := Graph{N: 3, NC: 1, Waits: [][]int{{2}, {3}, {}}, Lanes: [][]int{{0}, {0}, {0}},
		Undo: []bool{true, true, true}, Chg: []int{1, 1, 1}, Kind: []string{"neutral", "neutral", "neutral"}, Snap: []int{0, 0, 0}}
	e := NewEngine(g, "probe-abort-order", json.NewEncoder(io.Discard), nil, nil)
	defer e.Close()
	if err := e.Ensure(); err != nil {
		t.Fatal(err)
	}
	if err := e.Finish(3, result{Res: "ok", WS: "Done"}); err != nil {
		t.Fatal(err)
	}
	msg := func() (m string) {
		defer func() {
			if r := recover(); r != nil {
				m = fmt.Sprint(r)
			}
		}()
		e.st.Lock()
		defer e.st.Unlock()
		e.chgs[0].Abort()
		return ""
	}()
	if msg != "" {
		fmt.Printf("VERIF-PROBE abort-order PANIC %s\n", msg)
	} else {
		p := e.project()
		fmt.Printf("VERIF-PROBE abort-order OK %v %v\n", p.Status, p.ChgSt)
	}
}
