// Package desktop drives the real wrappers.EnsureSnapDesktopFiles (exported path) for property C27.
//
// Input  (VERIF_IN, NDJSON):  one line per CALL of EnsureSnapDesktopFiles:
//                             {"case": "...", "files": [{"inst": bool, "fname": "app1", "content_b64": "..."}, ...]}
//                             all files are shipped in meta/gui of the plain snap (inst=false) or of the
//                             instance-keyed snap (inst=true); ONE call installs them all
// Output (VERIF_OUT, NDJSON): first line {"facts": {...}} (what the real snap.Info says about paths),
//                             then one line per case {"case", "err", "files": {installed base name -> content_b64}}
//
// The driver is deliberately dumb: no expectations are computed here. All comparisons are done by
// props/_desktopsanitize.py (spec expected output from TLC + independent clause checker).
package desktop

import (
	"bufio"
	"encoding/base64"
	"encoding/json"
	"os"
	"path/filepath"
	"sort"
	"testing"

	"gopkg.in/check.v1"

	"github.com/snapcore/snapd/dirs"
	"github.com/snapcore/snapd/snap"
	"github.com/snapcore/snapd/snap/snaptest"
	"github.com/snapcore/snapd/wrappers"
)

func Test(t *testing.T) { check.TestingT(t) }

type verifDesktopSuite struct{}

var _ = check.Suite(&verifDesktopSuite{})

const snapYaml = `name: foo
version: 1.0
apps:
  foo:
    command: bin/foo
  app1:
    command: bin/app1
`

type inFile struct {
	Inst    bool   `json:"inst"`
	Fname   string `json:"fname"`
	Content string `json:"content_b64"`
}

type inCase struct {
	Case  string   `json:"case"`
	Files []inFile `json:"files"`
}

type outCase struct {
	Case  string            `json:"case"`
	Err   string            `json:"err"`
	Files map[string]string `json:"files"`
}

type snapFacts struct {
	InstanceName  string            `json:"instance_name"`
	SnapName      string            `json:"snap_name"`
	MountDir      string            `json:"mount_dir"`
	DesktopPrefix string            `json:"desktop_prefix"`
	Wrappers      map[string]string `json:"wrappers"`
}

func factsOf(info *snap.Info) snapFacts {
	f := snapFacts{
		InstanceName:  info.InstanceName(),
		SnapName:      info.SnapName(),
		MountDir:      info.MountDir(),
		DesktopPrefix: info.DesktopPrefix(),
		Wrappers:      map[string]string{},
	}
	for name, app := range info.Apps {
		f.Wrappers[name] = app.WrapperPath()
	}
	return f
}

func (s *verifDesktopSuite) TestVerifDesktop(c *check.C) {
	inPath, outPath := os.Getenv("VERIF_IN"), os.Getenv("VERIF_OUT")
	if inPath == "" || outPath == "" {
		c.Skip("VERIF_IN / VERIF_OUT not set")
	}
	// never run a host update-desktop-database
	os.Setenv("PATH", "/nonexistent")

	// the check chooses the root so that it can spell paths (mount dir, wrappers) in its inputs
	root := os.Getenv("VERIF_ROOT")
	if root == "" {
		root = c.MkDir()
	}
	dirs.SetRootDir(root)
	defer dirs.SetRootDir("")

	plain := snaptest.MockSnap(c, snapYaml, &snap.SideInfo{Revision: snap.R(11)})
	keyed := snaptest.MockSnapInstance(c, "foo_inst", snapYaml, &snap.SideInfo{Revision: snap.R(11)})
	for _, info := range []*snap.Info{plain, keyed} {
		c.Assert(os.MkdirAll(filepath.Join(info.MountDir(), "meta", "gui"), 0755), check.IsNil)
	}

	in, err := os.Open(inPath)
	c.Assert(err, check.IsNil)
	defer in.Close()
	outf, err := os.Create(outPath)
	c.Assert(err, check.IsNil)
	defer outf.Close()
	w := bufio.NewWriterSize(outf, 1<<20)
	defer w.Flush()
	enc := json.NewEncoder(w)

	c.Assert(enc.Encode(map[string]interface{}{"facts": map[string]interface{}{
		"root":        root,
		"desktop_dir": dirs.SnapDesktopFilesDir,
		"plain":       factsOf(plain),
		"keyed":       factsOf(keyed),
	}}), check.IsNil)

	sc := bufio.NewScanner(in)
	sc.Buffer(make([]byte, 1<<20), 1<<28)
	n := 0
	for sc.Scan() {
		if len(sc.Bytes()) == 0 {
			continue
		}
		var ic inCase
		c.Assert(json.Unmarshal(sc.Bytes(), &ic), check.IsNil)
		// exactly the shipped files of this case in the two snaps
		for _, info := range []*snap.Info{plain, keyed} {
			old, _ := filepath.Glob(filepath.Join(info.MountDir(), "meta", "gui", "*"))
			for _, o := range old {
				c.Assert(os.Remove(o), check.IsNil)
			}
		}
		usePlain, useKeyed := false, false
		for _, f := range ic.Files {
			info := plain
			if f.Inst {
				info, useKeyed = keyed, true
			} else {
				usePlain = true
			}
			content, err := base64.StdEncoding.DecodeString(f.Content)
			c.Assert(err, check.IsNil)
			c.Assert(os.WriteFile(filepath.Join(info.MountDir(), "meta", "gui", f.Fname+".desktop"), content, 0644), check.IsNil)
		}
		var snaps []*snap.Info
		if usePlain || !useKeyed {
			snaps = append(snaps, plain)
		}
		if useKeyed {
			snaps = append(snaps, keyed)
		}

		oc := outCase{Case: ic.Case, Files: map[string]string{}}
		// ONE call: every shipped file is sanitized before anything is written
		if err := wrappers.EnsureSnapDesktopFiles(snaps); err != nil {
			oc.Err = err.Error()
		}
		installed, _ := filepath.Glob(filepath.Join(dirs.SnapDesktopFilesDir, "*"))
		sort.Strings(installed)
		for _, p := range installed {
			b, err := os.ReadFile(p)
			c.Assert(err, check.IsNil)
			oc.Files[filepath.Base(p)] = base64.StdEncoding.EncodeToString(b)
		}
		c.Assert(enc.Encode(oc), check.IsNil)
		// leave the installed dir empty for the next case
		c.Assert(wrappers.RemoveSnapDesktopFiles(plain), check.IsNil)
		c.Assert(wrappers.RemoveSnapDesktopFiles(keyed), check.IsNil)
		n++
	}
	c.Assert(sc.Err(), check.IsNil)
	c.Logf("verif desktop driver: %d cases", n)
}
