// Package gadgetlayout drives the real gadget.InfoFromGadgetYaml (validation) and gadget.LayoutVolume
// (layout, image-build path: gadget.OnDiskStructsFromGadget) for property C38.
//
// Input  (VERIF_IN, NDJSON):  {"case": "...", "yaml": "<gadget.yaml>", "images": {"name": size, ...}}
// Output (VERIF_OUT, NDJSON): {"case", "info_err", "validate_err", "layout_err",
//                              "vol":  [{"yaml_index", "offset" (null if unknown), "size", "min_size", "role"}...]   after validation, in the code's order
//                              "laid": [{"yaml_index", "start", "size", "content": [{"image","start","size"}]}...]}  LaidOutStructure order
// No expectation is computed here; props/_gadgetlayout.py judges.
package gadgetlayout

import (
	"bufio"
	"encoding/json"
	"fmt"
	"os"
	"path/filepath"
	"testing"

	"github.com/snapcore/snapd/gadget"
)

type inCase struct {
	Case   string           `json:"case"`
	Yaml   string           `json:"yaml"`
	Images map[string]int64 `json:"images"`
}

type volStruct struct {
	YamlIndex int     `json:"yaml_index"`
	Offset    *uint64 `json:"offset"`
	Size      uint64  `json:"size"`
	MinSize   uint64  `json:"min_size"`
	Role      string  `json:"role"`
	Name      string  `json:"name"`
}

type laidContent struct {
	Image string `json:"image"`
	Start uint64 `json:"start"`
	Size  uint64 `json:"size"`
}

type laidStruct struct {
	YamlIndex int           `json:"yaml_index"`
	Start     uint64        `json:"start"`
	Size      uint64        `json:"size"`
	Content   []laidContent `json:"content"`
}

type outCase struct {
	Case        string       `json:"case"`
	InfoErr     string       `json:"info_err"`
	ValidateErr string       `json:"validate_err"`
	LayoutErr   string       `json:"layout_err"`
	Vol         []volStruct  `json:"vol"`
	Laid        []laidStruct `json:"laid"`
}

func runCase(root string, ic *inCase, made map[string]int64) (oc outCase, err error) {
	oc.Case = ic.Case
	oc.Vol = []volStruct{}
	oc.Laid = []laidStruct{}
	defer func() {
		// a panic inside the code under test is an outcome of the case (judged by the check), not a driver failure
		if r := recover(); r != nil {
			oc.LayoutErr = fmt.Sprintf("PANIC: %v", r)
			oc.Laid = []laidStruct{}
			err = nil
		}
	}()
	for name, sz := range ic.Images {
		if have, ok := made[name]; ok && have == sz {
			continue
		}
		f, e := os.Create(filepath.Join(root, name))
		if e != nil {
			return oc, e
		}
		if e := f.Truncate(sz); e != nil {
			return oc, e
		}
		f.Close()
		made[name] = sz
	}
	info, e := gadget.InfoFromGadgetYaml([]byte(ic.Yaml), nil)
	if e != nil {
		oc.InfoErr = e.Error()
		return oc, nil
	}
	if len(info.Volumes) != 1 {
		return oc, fmt.Errorf("case %s: expected exactly one volume, got %d", ic.Case, len(info.Volumes))
	}
	if e := gadget.Validate(info, nil, nil); e != nil {
		oc.ValidateErr = e.Error()
	}
	for _, vol := range info.Volumes {
		for i := range vol.Structure {
			vs := &vol.Structure[i]
			v := volStruct{YamlIndex: vs.YamlIndex, Size: uint64(vs.Size), MinSize: uint64(vs.MinSize), Role: vs.Role, Name: vs.Name}
			if vs.Offset != nil {
				o := uint64(*vs.Offset)
				v.Offset = &o
			}
			oc.Vol = append(oc.Vol, v)
		}
		lv, e := gadget.LayoutVolume(vol, gadget.OnDiskStructsFromGadget(vol), &gadget.LayoutOptions{
			GadgetRootDir:      root,
			SkipResolveContent: true,
		})
		if e != nil {
			oc.LayoutErr = e.Error()
			return oc, nil
		}
		for _, ls := range lv.LaidOutStructure {
			l := laidStruct{YamlIndex: ls.VolumeStructure.YamlIndex, Start: uint64(ls.StartOffset), Size: uint64(ls.Size), Content: []laidContent{}}
			for _, c := range ls.LaidOutContent {
				l.Content = append(l.Content, laidContent{Image: c.Image, Start: uint64(c.StartOffset), Size: uint64(c.Size)})
			}
			oc.Laid = append(oc.Laid, l)
		}
	}
	return oc, nil
}

func TestVerifGadgetLayout(t *testing.T) {
	inPath, outPath := os.Getenv("VERIF_IN"), os.Getenv("VERIF_OUT")
	if inPath == "" || outPath == "" {
		t.Skip("VERIF_IN / VERIF_OUT not set")
	}
	root := t.TempDir()
	in, err := os.Open(inPath)
	if err != nil {
		t.Fatal(err)
	}
	defer in.Close()
	outf, err := os.Create(outPath)
	if err != nil {
		t.Fatal(err)
	}
	defer outf.Close()
	w := bufio.NewWriterSize(outf, 1<<20)
	defer w.Flush()
	enc := json.NewEncoder(w)

	made := map[string]int64{}
	sc := bufio.NewScanner(in)
	sc.Buffer(make([]byte, 1<<20), 1<<26)
	n := 0
	for sc.Scan() {
		if len(sc.Bytes()) == 0 {
			continue
		}
		var ic inCase
		if err := json.Unmarshal(sc.Bytes(), &ic); err != nil {
			t.Fatal(err)
		}
		oc, err := runCase(root, &ic, made)
		if err != nil {
			t.Fatal(err)
		}
		if err := enc.Encode(oc); err != nil {
			t.Fatal(err)
		}
		n++
	}
	if err := sc.Err(); err != nil {
		t.Fatal(err)
	}
	t.Logf("verif gadgetlayout driver: %d cases", n)
}
