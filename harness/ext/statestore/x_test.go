package statestore

import (
	"bufio"
	"encoding/json"
	"math/rand"
	"os"
	"strconv"
	"testing"
)

func envInt(k string, def int) int {
	if v, err := strconv.Atoi(os.Getenv(k)); err == nil {
		return v
	}
	return def
}

type line struct {
	Ev    string `json:"ev"`
	Case  int    `json:"case"`
	I     int    `json:"i"`
	Args  M      `json:"args"`
	Ret   M      `json:"ret"`
	Panic string `json:"panic"`
	Stale []string `json:"stale"` // live state vs ReadState(last checkpoint the backend received), after every op
	St    M      `json:"st"`
}

func runCase(w *bufio.Writer, caseNo int, nextOp func(h *harness, i int) (Op, bool)) {
	h := newHarness()
	defer h.close()
	enc := json.NewEncoder(w)
	prev := h.project()
	enc.Encode(line{Ev: "Reset", Case: caseNo, Args: M{}, Ret: M{}, Stale: []string{}, St: prev})
	for i := 1; ; i++ {
		op, ok := nextOp(h, i)
		if !ok {
			return
		}
		cnt0 := h.be.count()
		ret, pmsg := h.apply(op)
		if op.Ev == "Prune" && pmsg == "" {
			h.reacquire() // handles of removed tasks are dropped (unlinked tasks can then only be counted)
		}
		if pmsg != "" {
			// the state lock was released by the deferred Unlock; the state may be half-updated: stop the case
			enc.Encode(line{Ev: op.Ev, Case: caseNo, I: i, Args: op.Args, Ret: ret, Panic: pmsg, Stale: []string{}, St: M{}})
			return
		}
		stale := h.persistCheck(op, prev, cnt0) // before project(), whose flush would mark the state modified
		prev = h.project()
		enc.Encode(line{Ev: op.Ev, Case: caseNo, I: i, Args: op.Args, Ret: ret, Stale: stale, St: prev})
	}
}

// TestVerifStateStore writes the NDJSON trace of VERIF_N seeded cases of VERIF_LEN ops each to VERIF_OUT.
// VERIF_MODE: "random" (all ops) or "prune" (prune-focused mix). VERIF_REPLAY=<ndjson of {case, ops}> re-runs
// recorded op lists instead of generating.
func TestVerifStateStore(t *testing.T) {
	out := os.Getenv("VERIF_OUT")
	if out == "" {
		t.Skip("VERIF_OUT not set")
	}
	f, err := os.Create(out)
	if err != nil {
		t.Fatal(err)
	}
	defer f.Close()
	w := bufio.NewWriterSize(f, 1<<20)
	defer w.Flush()
	if rp := os.Getenv("VERIF_REPLAY"); rp != "" {
		rf, err := os.Open(rp)
		if err != nil {
			t.Fatal(err)
		}
		defer rf.Close()
		sc := bufio.NewScanner(rf)
		sc.Buffer(make([]byte, 1<<20), 1<<26)
		for sc.Scan() {
			var c struct {
				Case int  `json:"case"`
				Ops  []Op `json:"ops"`
			}
			if err := json.Unmarshal(sc.Bytes(), &c); err != nil {
				t.Fatal(err)
			}
			runCase(w, c.Case, func(h *harness, i int) (Op, bool) {
				if i > len(c.Ops) {
					return Op{}, false
				}
				return c.Ops[i-1], true
			})
		}
		return
	}
	seed, n, length := envInt("VERIF_SEED", 1), envInt("VERIF_N", 10), envInt("VERIF_LEN", 40)
	first := envInt("VERIF_FIRST", 1)
	for c := first; c < first+n; c++ {
		r := rand.New(rand.NewSource(int64(seed)*1000003 + int64(c)))
		g := &gen{r: r, prune: os.Getenv("VERIF_MODE") == "prune"}
		caseLen := length
		if g.prune {
			g.script = g.pruneScript()
			caseLen = len(g.script) + length/3 // the scripted history and its Prune, then some random ops
		}
		runCase(w, c, func(h *harness, i int) (Op, bool) {
			if i > caseLen {
				return Op{}, false
			}
			g.h = h
			for try := 0; try < 200; try++ {
				if op, ok := g.next(); ok {
					return op, true
				}
			}
			return Op{"Tick", M{"h": h.nowH + 1}}, true
		})
	}
}
