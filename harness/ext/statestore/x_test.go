package statestore

import (
	"bufio"
	"encoding/json"
	"math/rand"
	"os"
	"strconv"
	"testing"
)

func envInt(k string, def int) int {
	if v, err := strconv.Atoi(os.Getenv(k)); err == nil {
		return v
	}
	return def
}

type line struct {
	Ev    string `json:"ev"`
	Case  int    `json:"case"`
	I     int    `json:"i"`
	Args  M      `json:"args"`
	Ret   M      `json:"ret"`
	Panic string `json:"panic"`
	Stale []string `json:"stale"` // live state vs ReadState(last checkpoint the backend received), after every op
	St    M      `json:"st"`
}

func runCase(w *bufio.Writer, caseNo int, nextOp func(h *harness, i int) (Op, bool)) {
	h := newHarness()
	defer h.close()
	enc := json.NewEncoder(w)
	prev := h.project()
	enc.Encode(line{Ev: "Reset", Case: caseNo, Args: M{}, Ret: M{}, Stale: []string{}, St: prev})
	for i := 1; ; i++ {
		op, ok := nextOp(h, i)
		if !ok {
			return
		}
		cnt0 := h.be.count()
		ret, pmsg := h.apply(op)
		if op.Ev == "Prune" && pmsg == "" {
			h.reacquire() // handles of removed tasks are dropped (unlinked tasks can then only be counted)
		}
		if pmsg != "" {
			// the state lock was released by the deferred Unlock; the state may be half-updated: stop the case
			enc.Encode(line{Ev: op.Ev, Case: caseNo, I: i, Args: op.Args, Ret: ret, Panic: pmsg, Stale: []string{}, St: M{}})
			return
		}
		stale := h.persistCheck(op, prev, cnt0) // before project(), whose flush would mark the state modified
		prev = h.project()
		enc.Encode(line{Ev: op.Ev, Case: caseNo, I: i, Args: op.Args, Ret: ret, Stale: stale, St: prev})
	}
}

// TestVerifStateStore writes the NDJSON trace of VERIF_N seeded cases of VERIF_LEN ops each to VERIF_OUT.
// VERIF_MODE: "random" (all ops) or "prune" (prune-focused mix). VERIF_REPLAY=<ndjson of {case, ops}> re-runs
// recorded op lists instead of generating.
func TestVerifStateStore(t *testing.T) {
	out := os.Getenv("VERIF_OUT")
	if out == "" {
		t.Skip("VERIF_OUT not set")
	}
	f, err := os.Create(out)
	if err != nil {
		t.Fatal(err)
	}
	defer f.Close()
	w := bufio.NewWriterSize(f, 1<<20)
	defer w.Flush()
	if rp := os.Getenv("VERIF_REPLAY"); rp != "" {
		rf, err := os.Open(rp)
		if err != nil {
			t.Fatal(err)
		}
		defer rf.Close()
		sc := bufio.NewScanner(rf)
		sc.Buffer(make([]byte, 1<<20), 1<<26)
		for sc.Scan() {
			var c struct {
				Case int  `json:"case"`
				Ops  []Op `json:"ops"`
			}
			if err := json.Unmarshal(sc.Bytes(), &c); err != nil {
				t.Fatal(err)
			}
			runCase(w, c.Case, func(h *harness, i int) (Op, bool) {
				if i > len(c.Ops) {
					return Op{}, false
				}
				return c.Ops[i-1], true
			})
		}
		return
	}
	seed, n, length := envInt("VERIF_SEED", 1), envInt("VERIF_N", 10), envInt("VERIF_LEN", 40)
	first := envInt("VERIF_FIRST", 1)
	if os.Getenv("VERIF_MODE") != "prune" {
		// every mutator once (setting AND clearing variants), each alone in its Lock/Unlock section: the
		// per-step persistence oracle then decides "this call alone marked the state modified" for all of them
		sweep := sweepOps()
		runCase(w, 800000+first, func(h *harness, i int) (Op, bool) {
			if i > len(sweep) {
				return Op{}, false
			}
			return sweep[i-1], true
		})
	}
	for c := first; c < first+n; c++ {
		r := rand.New(rand.NewSource(int64(seed)*1000003 + int64(c)))
		g := &gen{r: r, prune: os.Getenv("VERIF_MODE") == "prune"}
		caseLen := length
		if g.prune {
			g.script = g.pruneScript()
			caseLen = len(g.script) + length/3 // the scripted history and its Prune, then some random ops
		}
		runCase(w, c, func(h *harness, i int) (Op, bool) {
			if i > caseLen {
				return Op{}, false
			}
			g.h = h
			for try := 0; try < 200; try++ {
				if op, ok := g.next(); ok {
					return op, true
				}
			}
			return Op{"Tick", M{"h": h.nowH + 1}}, true
		})
	}
}

func sweepOps() []Op {
	at := (H + 3) * TU
	return []Op{
		{"NewChange", M{"kind": "install", "summary": "s1"}},
		{"NewTask", M{"kind": "download", "summary": "t1"}}, {"NewTask", M{"kind": "link", "summary": "t 2"}},
		{"AddTask", M{"c": 1, "t": 1}}, {"AddTask", M{"c": 1, "t": 2}}, {"WaitFor", M{"a": 2, "b": 1}},
		{"NewLane", M{}}, {"JoinLane", M{"t": 1, "lane": 1}},
		{"At", M{"t": 1, "when": at}}, {"At", M{"t": 1, "when": 0}}, {"At", M{"t": 2, "when": at}},
		{"TaskSet", M{"t": 1, "k": "k1", "v": "1"}}, {"TaskSet", M{"t": 1, "k": "k1", "v": ""}},
		{"TaskSet", M{"t": 1, "k": "k2", "v": "true"}}, {"TaskClear", M{"t": 1, "k": "k2"}},
		{"ChangeSet", M{"c": 1, "k": "k1", "v": "\"x\""}}, {"ChangeSet", M{"c": 1, "k": "k1", "v": ""}},
		{"StateSet", M{"k": "k3", "v": "{\"a\":[1,2]}"}}, {"StateSet", M{"k": "k3", "v": ""}},
		{"Log", M{"t": 1, "lvl": "INFO", "msg": "m"}}, {"Log", M{"t": 2, "lvl": "ERROR", "msg": "two words"}},
		{"SetProgress", M{"t": 1, "label": "dl", "done": 3, "total": 3}},
		{"NewTask", M{"kind": "link", "summary": "t1"}}, // stays unlinked
		{"At", M{"t": 3, "when": at}}, {"At", M{"t": 3, "when": 0}}, {"TaskSet", M{"t": 3, "k": "k1", "v": "1"}},
		{"SetToWait", M{"t": 2, "s": "Done"}}, {"SetToWait", M{"t": 2, "s": "Undone"}}, {"SetStatus", M{"t": 2, "s": "Done"}},
		{"At", M{"t": 2, "when": 0}},
		{"SetStatus", M{"t": 1, "s": "Doing"}}, {"SetStatus", M{"t": 1, "s": "Done"}},
		{"SetClean", M{"t": 1}}, {"SetClean", M{"t": 2}},
		{"AddNotice", M{"user": -1, "type": "warning", "key": "a", "data": [][]string{}, "rep": 0, "time": 0}},
		{"AddNotice", M{"user": 1000, "type": "warning", "key": "a", "data": [][]string{{"k", "v"}}, "rep": 30, "time": 0}},
		{"AddNotice", M{"user": -1, "type": "warning", "key": "a", "data": [][]string{{"k", "v"}}, "rep": 30, "time": 0}},
		{"AddWarning", M{"msg": "w1", "rep": 1, "time": 0}}, {"AddWarning", M{"msg": "w1", "rep": 24, "time": 0}},
		{"OkayWarnings", M{"t": (H - 100) * TU}}, {"RemoveWarning", M{"msg": "w1"}},
		{"ChangeSetStatus", M{"c": 1, "s": "Error"}}, {"ChangeSetStatus", M{"c": 1, "s": "Default"}},
		{"SaveReload", M{}},
		{"NewLane", M{}}, {"NewTask", M{"kind": "link", "summary": "t1"}}, {"NewChange", M{"kind": "refresh", "summary": "s 2"}},
	}
}
