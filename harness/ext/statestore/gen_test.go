package statestore

import (
	"math/rand"
	"sort"
	"strconv"

	"github.com/snapcore/snapd/overlord/state"
)

// gen proposes ops that are legal for the public API in the current real state (it consults the real
// state through accessors, it has no model of its own besides the change status overrides it set).
type gen struct {
	h     *harness
	r     *rand.Rand
	prune bool // prune-focused mix
	script []Op // prune mode: scripted history (ids are predictable on a fresh state), then random ops
}

// pruneScript builds a history of 2-4 changes whose ready order is independent of their spawn order, some left
// unfinished (Done tasks listed before pending ones), some empty, some guarded by a pending predicate, plus
// unlinked tasks; then a Prune near the count limit / retention boundaries.
func (g *gen) pruneScript() []Op {
	r := g.r
	ops := []Op{}
	hour := H - 30 - r.Intn(200)
	step := func(max int) { hour += r.Intn(max + 1) }
	k := 2 + r.Intn(3)
	task := 0
	tasksOf := map[int][]int{}
	for c := 1; c <= k; c++ {
		step(40)
		ops = append(ops, Op{"Tick", M{"h": hour}}, Op{"NewChange", M{"kind": "install", "summary": "s1"}})
		for n := []int{0, 1, 2, 2, 3}[r.Intn(5)]; n > 0; n-- {
			task++
			ops = append(ops, Op{"NewTask", M{"kind": "link", "summary": "t1"}}, Op{"AddTask", M{"c": c, "t": task}})
			tasksOf[c] = append(tasksOf[c], task)
		}
		if r.Intn(4) == 0 {
			task++
			ops = append(ops, Op{"NewTask", M{"kind": "download", "summary": "t 2"}}) // stays unlinked
		}
		if r.Intn(3) == 0 {
			ops = append(ops, Op{"ChangeSet", M{"c": c, "k": "k1", "v": g.picks([]string{"true", "true", "false"})}})
		}
	}
	// restart while some changes are still empty, tasks are added afterwards (the change must stay unfinished
	// for Prune: a loaded empty change reads as Hold/ready but has no ready time)
	if r.Intn(3) == 0 {
		ops = append(ops, Op{"SaveReload", M{}})
		for c := 1; c <= k; c++ {
			if len(tasksOf[c]) > 0 {
				continue
			}
			step(3)
			ops = append(ops, Op{"Tick", M{"h": hour}})
			for n := 1 + r.Intn(2); n > 0; n-- {
				task++
				ops = append(ops, Op{"NewTask", M{"kind": "link", "summary": "t1"}}, Op{"AddTask", M{"c": c, "t": task}})
				if r.Intn(2) == 0 {
					ops = append(ops, Op{"SetStatus", M{"t": task, "s": "Doing"}})
				}
			}
		}
	}
	if r.Intn(2) == 0 {
		ops = append(ops, Op{"Register", M{"k": "k1"}})
	}
	for _, c := range r.Perm(k) {
		c++
		ts := tasksOf[c]
		if len(ts) == 0 {
			continue
		}
		if r.Intn(3) > 0 {
			step(25)
		}
		ops = append(ops, Op{"Tick", M{"h": hour}})
		finish := r.Intn(10) < 6
		for i, t := range ts {
			switch {
			case finish:
				ops = append(ops, Op{"SetStatus", M{"t": t, "s": g.picks([]string{"Done", "Done", "Done", "Error", "Undone", "Hold"})}})
			case i == 0 && len(ts) > 1:
				ops = append(ops, Op{"SetStatus", M{"t": t, "s": "Done"}})
			case i == 1:
				ops = append(ops, Op{"SetStatus", M{"t": t, "s": g.picks([]string{"Doing", "Doing", "Do", "Undoing", "Abort"})}})
			}
		}
	}
	if hour > H-1 {
		hour = H - 1
	}
	ops = append(ops, Op{"Tick", M{"h": H - 1 + r.Intn(3)}})
	start := 0
	if r.Intn(2) == 0 {
		start = (H - r.Intn(120)) * TU
	}
	ops = append(ops, Op{"Prune", M{"start": start, "pw": g.pick([]int{1, 10, 24, 48, 100, 150, 250}),
		"aw": g.pick([]int{1, 24, 72, 100, 150, 250}), "mx": g.pick([]int{0, 1, 1, 2, 2, 3, 500})}})
	return ops
}

var clockVals = []int{H - 700, H - 690, H - 673, H - 672, H - 671, H - 400, H - 200, H - 170, H - 169, H - 168, H - 167,
	H - 150, H - 101, H - 100, H - 99, H - 73, H - 72, H - 71, H - 49, H - 48, H - 47, H - 30, H - 25, H - 24, H - 23, H - 10,
	H - 3, H - 2, H - 1, H, H + 1, H + 5}
var dataVals = []string{"", "1", "\"x\"", "true", "false", "{\"a\":[1,2]}"}
var taskStatuses = []string{"Hold", "Do", "Doing", "Done", "Abort", "Undo", "Undoing", "Undone", "Error"}
var waitVals = []int{0, 1, 24, 48, 72, 100, 150}
var maxVals = []int{0, 1, 2, 3, 500}

// {representative w, weight}: Tick 0, NewChange 6, NewTask 12, AddTask 20, WaitFor 28, NewLane 33, JoinLane 36,
// SetStatus 40, SetToWait 58, ChangeSetStatus 62, TaskSet/Clear 66, ChangeSet 72, StateSet 76, Log 79, At 83,
// SetProgress 85, SetClean 87, AddNotice 89, warnings 92, Register 95, Prune 96, SaveReload 98
var mixAll = [][2]int{{0, 6}, {6, 5}, {12, 9}, {20, 12}, {28, 8}, {33, 2}, {36, 3}, {40, 18}, {58, 4}, {62, 3}, {66, 5}, {72, 4},
	{76, 2}, {79, 4}, {83, 3}, {85, 2}, {87, 2}, {89, 4}, {92, 3}, {95, 1}, {96, 4}, {98, 6}}
var mixPrune = [][2]int{{0, 12}, {6, 10}, {12, 10}, {20, 14}, {28, 3}, {33, 1}, {36, 2}, {40, 25}, {58, 3}, {72, 5}, {89, 2},
	{92, 2}, {95, 3}, {96, 12}, {98, 2}}
var mixStart = [][2]int{{0, 1}, {6, 4}, {12, 4}, {89, 1}, {92, 1}}

func (g *gen) pick(xs []int) int       { return xs[g.r.Intn(len(xs))] }
func (g *gen) picks(xs []string) string { return xs[g.r.Intn(len(xs))] }

func (g *gen) taskIDs() []int {
	ids := []int{}
	for id := range g.h.tasks {
		ids = append(ids, id)
	}
	sort.Ints(ids)
	return ids
}

func (g *gen) changeIDs() []int {
	ids := []int{}
	for _, c := range g.h.st.Changes() {
		ids = append(ids, atoi(c.ID()))
	}
	sort.Ints(ids)
	return ids
}

func chgID(t *state.Task) int {
	if c := t.Change(); c != nil {
		return atoi(c.ID())
	}
	return 0
}

// statusStepOK: the call neither panics ("change unexpectedly became unready") nor creates a Do task
// waiting for an Undo task.
func (g *gen) statusStepOK(t *state.Task, new state.Status) bool {
	old := t.Status()
	if new == state.UndoStatus {
		for _, u := range t.HaltTasks() {
			if u.Status() == state.DoStatus {
				return false
			}
		}
	}
	if new == state.DoStatus {
		for _, u := range t.WaitTasks() {
			if u.Status() == state.UndoStatus {
				return false
			}
		}
	}
	c := t.Change()
	if c == nil || old.Ready() == new.Ready() || !c.IsReady() {
		return true
	}
	for _, u := range c.Tasks() {
		if u != t && !u.Status().Ready() {
			return true
		}
	}
	if ov := g.h.override[atoi(c.ID())]; ov != state.DefaultStatus {
		return ov.Ready()
	}
	return new.Ready()
}

func lanes0(t *state.Task) bool { l := t.Lanes(); return len(l) == 1 && l[0] == 0 }

// pruneOK: no edge between tasks of different changes, and for every change Prune could abort the walk of
// Change.abortTasks cannot hit "change unexpectedly became unready" (see notes/C09.md).
func (g *gen) pruneOK() bool {
	for _, t := range g.h.tasks {
		for _, u := range append(t.WaitTasks(), t.HaltTasks()...) {
			if u == nil || chgID(u) != chgID(t) {
				return false
			}
		}
	}
	for _, c := range g.h.st.Changes() {
		if !c.ReadyTime().IsZero() {
			continue
		}
		if c.IsReady() && len(c.Tasks()) > 0 {
			// marked ready without a ready time (an empty change after a reload) and given tasks afterwards:
			// any readiness flip during an abort trips the "became unready" assertion; not a state snapd builds
			return false
		}
		staysUnready, lastDone, firstHold, single := false, -1, -1, true
		for i, t := range c.Tasks() {
			eff := t.Status()
			if eff == state.WaitStatus {
				eff = t.WaitedStatus()
				if eff == state.DoStatus && firstHold < 0 {
					firstHold = i
				}
				if eff != state.DoStatus {
					staysUnready = true
				}
				continue
			}
			switch eff {
			case state.DoingStatus, state.AbortStatus, state.UndoStatus, state.UndoingStatus:
				staysUnready = true
			case state.DoneStatus:
				lastDone = i
			case state.DoStatus:
				if firstHold < 0 {
					firstHold = i
				}
			}
			single = single && lanes0(t)
		}
		if staysUnready || lastDone < 0 {
			continue
		}
		if !(single && (firstHold < 0 || lastDone < firstHold)) {
			return false
		}
	}
	return true
}

func (g *gen) next() (Op, bool) {
	h, r := g.h, g.r
	if len(g.script) > 0 {
		op := g.script[0]
		g.script = g.script[1:]
		return op, true
	}
	h.st.Lock()
	defer h.st.Unlock()
	tids, cids := g.taskIDs(), g.changeIDs()
	anyTask := func() (int, *state.Task) { id := g.pick(tids); return id, h.tasks[id] }
	// weighted choice of an op family; w is a representative of the family's range in the switch below
	mix := mixAll
	if g.prune {
		mix = mixPrune
	}
	if len(cids) == 0 || len(tids) == 0 && r.Intn(2) == 0 {
		mix = mixStart
	}
	total := 0
	for _, m := range mix {
		total += m[1]
	}
	x, w := r.Intn(total), 0
	for _, m := range mix {
		if x < m[1] {
			w = m[0]
			break
		}
		x -= m[1]
	}
	switch {
	case w < 6:
		hh := g.pick(clockVals)
		if r.Intn(10) < 7 && hh < h.nowH {
			hh = h.nowH + r.Intn(3)
		}
		return Op{"Tick", M{"h": hh}}, true
	case w < 12:
		return Op{"NewChange", M{"kind": g.picks([]string{"install", "refresh"}), "summary": g.picks([]string{"s1", "s 2"})}}, true
	case w < 20:
		return Op{"NewTask", M{"kind": g.picks([]string{"download", "link"}), "summary": g.picks([]string{"t1", "t 2"})}}, true
	case w < 28 && len(tids) > 0 && len(cids) > 0:
		// add a whole connected group of unlinked tasks, one AddTask per step (caller keeps asking)
		for _, id := range tids {
			t := h.tasks[id]
			if t.Change() != nil {
				continue
			}
			for _, u := range append(t.WaitTasks(), t.HaltTasks()...) {
				if u != nil && u.Change() != nil {
					return Op{"AddTask", M{"c": chgID(u), "t": id}}, true
				}
			}
		}
		id, t := anyTask()
		if t.Change() == nil {
			return Op{"AddTask", M{"c": g.pick(cids), "t": id}}, true
		}
	case w < 33 && len(tids) > 1:
		for try := 0; try < 12; try++ {
			a, ta := anyTask()
			b, tb := anyTask()
			if b < a && chgID(ta) == chgID(tb) && !(ta.Status() == state.DoStatus && tb.Status() == state.UndoStatus) {
				return Op{"WaitFor", M{"a": a, "b": b}}, true
			}
		}
	case w < 36:
		return Op{"NewLane", M{}}, true
	case w < 40 && len(tids) > 0 && len(h.lanes) > 0:
		id, _ := anyTask()
		return Op{"JoinLane", M{"t": id, "lane": g.pick(h.lanes)}}, true
	case w < 58 && len(tids) > 0:
		id, t := anyTask()
		s := g.picks(taskStatuses)
		if g.prune {
			s = g.picks([]string{"Do", "Doing", "Done", "Done", "Error", "Hold", "Undone"})
		}
		if g.statusStepOK(t, statusByName[s]) {
			return Op{"SetStatus", M{"t": id, "s": s}}, true
		}
	case w < 62 && len(tids) > 0:
		id, t := anyTask()
		s := g.picks(taskStatuses)
		if t.Status() == state.AbortStatus || g.statusStepOK(t, state.WaitStatus) {
			return Op{"SetToWait", M{"t": id, "s": s}}, true
		}
	case w < 66 && len(cids) > 0:
		c := g.pick(cids)
		s := g.picks(append([]string{"Default", "Default"}, taskStatuses...))
		return Op{"ChangeSetStatus", M{"c": c, "s": s}}, true
	case w < 72 && len(tids) > 0:
		id, _ := anyTask()
		if r.Intn(4) == 0 {
			return Op{"TaskClear", M{"t": id, "k": g.picks(Keys)}}, true
		}
		return Op{"TaskSet", M{"t": id, "k": g.picks(Keys), "v": g.picks(dataVals)}}, true
	case w < 76 && len(cids) > 0:
		if g.prune {
			return Op{"ChangeSet", M{"c": g.pick(cids), "k": g.picks(Keys[:2]), "v": g.picks([]string{"true", "true", "false", ""})}}, true
		}
		return Op{"ChangeSet", M{"c": g.pick(cids), "k": g.picks(Keys), "v": g.picks(dataVals)}}, true
	case w < 79:
		return Op{"StateSet", M{"k": g.picks(Keys), "v": g.picks(dataVals)}}, true
	case w < 83 && len(tids) > 0:
		id, _ := anyTask()
		return Op{"Log", M{"t": id, "lvl": g.picks([]string{"INFO", "ERROR"}), "msg": g.picks([]string{"m", "two words", "ERROR x"})}}, true
	case w < 85 && len(tids) > 0:
		id, t := anyTask()
		if !t.AtTime().IsZero() && r.Intn(10) < 6 {
			return Op{"At", M{"t": id, "when": 0}}, true // clear an existing schedule
		}
		return Op{"At", M{"t": id, "when": g.pick([]int{0, (h.nowH + 2) * TU, (H + 3) * TU})}}, true
	case w < 87 && len(tids) > 0:
		id, _ := anyTask()
		p := [][]int{{1, 3}, {3, 3}, {0, 0}, {5, 2}, {0, 7}}[r.Intn(5)]
		return Op{"SetProgress", M{"t": id, "label": g.picks([]string{"", "dl"}), "done": p[0], "total": p[1]}}, true
	case w < 89 && len(tids) > 0:
		id, t := anyTask()
		if c := t.Change(); c == nil || c.IsReady() {
			return Op{"SetClean", M{"t": id}}, true
		}
	case w < 92:
		typ := g.picks([]string{"warning", "warning", "refresh-inhibit", "change-update", "snap-run-inhibit"})
		key := g.picks([]string{"a", "b"})
		if typ == "refresh-inhibit" {
			key = "-"
		} else if typ == "change-update" {
			key = strconv.Itoa(1 + r.Intn(3))
		}
		data := [][]string{}
		switch r.Intn(3) {
		case 1:
			data = [][]string{{"a", "b"}}
		case 2:
			data = [][]string{{"k", "v"}, {"x", "y z"}}
		}
		tm := 0
		if r.Intn(4) == 0 {
			tm = g.pick(clockVals) * TU
		}
		return Op{"AddNotice", M{"user": g.pick([]int{-1, -1, 0, 1000}), "type": typ, "key": key, "data": data,
			"rep": g.pick([]int{0, 0, 2, 30}), "time": tm}}, true
	case w < 95:
		switch r.Intn(6) {
		case 0:
			return Op{"OkayWarnings", M{"t": g.pick(clockVals) * TU}}, true
		case 1:
			return Op{"RemoveWarning", M{"msg": g.picks([]string{"w1", "w2", "w 3"})}}, true
		}
		tm := 0
		if r.Intn(3) == 0 {
			tm = g.pick(clockVals) * TU
		}
		return Op{"AddWarning", M{"msg": g.picks([]string{"w1", "w2", "w 3"}), "rep": g.pick([]int{0, 1, 24}), "time": tm}}, true
	case w < 96:
		return Op{"Register", M{"k": g.picks(Keys[:2])}}, true
	case w < 98:
		if h.nowH < H-1 || h.nowH > H+1 {
			// Prune reads the real clock while the abort it does stamps mocked times: keep them together
			return Op{"Tick", M{"h": H - 1 + r.Intn(3)}}, true
		}
		if g.pruneOK() {
			start := 0
			if r.Intn(2) == 0 {
				start = g.pick(clockVals) * TU
			}
			return Op{"Prune", M{"start": start, "pw": g.pick(waitVals), "aw": g.pick(waitVals), "mx": g.pick(maxVals)}}, true
		}
	default:
		return Op{"SaveReload", M{}}, true
	}
	return Op{}, false
}
