package statestore

import (
	"bytes"
	"encoding/json"
	"fmt"
	"reflect"
	"sort"
	"strconv"
	"time"

	"github.com/snapcore/snapd/overlord/state"
)

type harness struct {
	progressDirty int // backend checkpoint count at the last non-final SetProgress (+1), see persistCheck
	clk      clock
	be       *backend
	st       *state.State
	tasks    map[int]*state.Task // handles the driver holds (re-acquired through accessors after a reload)
	override map[int]state.Status
	lanes    []int
	restore  func()
	nowH     int
}

func newHarness() *harness {
	h := &harness{clk: newClock(), be: &backend{}, tasks: map[int]*state.Task{}, override: map[int]state.Status{}}
	h.st = state.New(h.be)
	h.setClock(H - 100)
	return h
}

func (h *harness) setClock(hour int) {
	h.nowH = hour
	h.restore = state.MockTime(h.clk.at(hour * TU))
}

func (h *harness) close() {
	if h.restore != nil {
		h.restore()
	}
}

// flush makes the backend see the current state (Unlock checkpoints only when something was written;
// writing a nil value to a key that is never used marks the state modified without changing it).
func (h *harness) flush() {
	h.st.Lock()
	h.st.Set("zz-verif-flush", nil)
	h.st.Unlock()
}

func sortByID(rows []M) {
	sort.Slice(rows, func(a, b int) bool { return rows[a]["id"].(int) < rows[b]["id"].(int) })
}

// project reads the whole state through public accessors. Tasks: every task the driver holds a handle
// for (linked or not); taskCount tells whether there are others.
func (h *harness) project() M { return h.projectOpt(true) }

// projectOpt(false) reads without forcing a checkpoint first (the counters then come from whatever checkpoint
// the backend received last).
func (h *harness) projectOpt(flush bool) M {
	if flush {
		h.flush()
	}
	st := h.st
	st.Lock()
	defer st.Unlock()
	chgs := []M{}
	for _, c := range st.Changes() {
		chgs = append(chgs, h.projChange(c))
	}
	sortByID(chgs)
	seen := map[int]bool{}
	tasks := []M{}
	for _, t := range st.Tasks() {
		seen[atoi(t.ID())] = true
		tasks = append(tasks, h.projTask(t))
	}
	for id, t := range h.tasks {
		if !seen[id] {
			tasks = append(tasks, h.projTask(t))
		}
	}
	sortByID(tasks)
	notices := []M{}
	for _, n := range st.Notices(nil) {
		notices = append(notices, h.projNotice(n))
	}
	sortByID(notices)
	warnings := []M{}
	for _, w := range st.AllWarnings() {
		warnings = append(warnings, h.projWarning(w))
	}
	sort.Slice(warnings, func(a, b int) bool { return warnings[a]["msg"].(string) < warnings[b]["msg"].(string) })
	return M{"changes": chgs, "tasks": tasks, "taskCount": st.TaskCount(), "notices": notices, "warnings": warnings,
		"kv": dataOf(st), "ctr": h.projCounters()}
}

// reacquire finds task handles on a freshly loaded state: linked tasks and whatever their edges reach.
func (h *harness) reacquire() {
	h.tasks = map[int]*state.Task{}
	h.st.Lock()
	defer h.st.Unlock()
	var visit func(t *state.Task)
	visit = func(t *state.Task) {
		if t == nil || h.tasks[atoi(t.ID())] != nil {
			return
		}
		h.tasks[atoi(t.ID())] = t
		for _, u := range t.WaitTasks() {
			visit(u)
		}
		for _, u := range t.HaltTasks() {
			visit(u)
		}
	}
	for _, t := range h.st.Tasks() {
		visit(t)
	}
}

// persistCheck is the per-step persistence oracle: every op runs in its own Lock/Unlock section, so the
// checkpoint the Backend received last (from a real Unlock, nothing is marshalled by the harness) must already
// describe the live state: ReadState of those bytes is compared with the live projection after EVERY op, before
// the harness does anything that could mark the state modified itself. A mutator that changes persisted data
// without State.writing() shows up here. Documented exception: SetProgress with non-final progress
// deliberately does not mark the state ("Only mark state for checkpointing if progress is final"): progress is
// left out of the comparison until the next checkpoint.
func (h *harness) persistCheck(op Op, prev M, cnt0 int) []string {
	diffs := []string{}
	// (a) the op's own Lock/Unlock section changed what can be seen (also of unlinked tasks, which a loaded
	// state cannot show) but no checkpoint was handed to the backend during it
	if op.Ev != "SaveReload" && prev != nil && h.be.count() == cnt0 {
		now := h.projectOpt(false)
		pv := M{}
		for k, v := range prev {
			pv[k] = v
		}
		kept := []M{} // handles dropped after a Prune (unlinked tasks) are not a change of the state
		for _, t := range prev["tasks"].([]M) {
			if h.tasks[t["id"].(int)] != nil {
				kept = append(kept, t)
			}
		}
		pv["tasks"] = kept
		pn, nn := norm(pv), norm(now)
		nonFinal := op.Ev == "SetProgress" && !(ai(op.Args, "total") > 0 && ai(op.Args, "done") == ai(op.Args, "total"))
		if nonFinal {
			for _, side := range []interface{}{pn, nn} {
				for _, t := range side.(map[string]interface{})["tasks"].([]interface{}) {
					delete(t.(map[string]interface{}), "progress")
				}
			}
		}
		var d []string
		diffProj(pn, nn, "", &d)
		sort.Strings(d)
		for _, x := range d {
			diffs = append(diffs, "changed without a checkpoint: "+x)
		}
		if len(diffs) > 0 {
			return diffs
		}
	}
	// (b) what a reload of the last checkpoint shows
	if op.Ev == "SetProgress" {
		if a := op.Args; !(ai(a, "total") > 0 && ai(a, "done") == ai(a, "total")) {
			h.progressDirty = h.be.count() + 1
		}
	}
	data := h.be.bytes()
	if data == nil {
		return append(diffs, "no checkpoint received yet")
	}
	sb := &backend{data: data}
	st2, err := state.ReadState(sb, bytes.NewReader(data))
	if err != nil {
		return append(diffs, "ReadState: "+err.Error())
	}
	sh := &harness{clk: h.clk, be: sb, st: st2}
	sh.reacquire()
	live := h.projectOpt(false)
	saved := sh.projectOpt(false)
	keep := []M{}
	for _, t := range live["tasks"].([]M) {
		if sh.tasks[t["id"].(int)] != nil {
			keep = append(keep, t)
		}
	}
	live["tasks"] = keep
	ln, sn := norm(live), norm(saved)
	if h.progressDirty == h.be.count()+1 {
		for _, side := range []interface{}{ln, sn} {
			for _, t := range side.(map[string]interface{})["tasks"].([]interface{}) {
				delete(t.(map[string]interface{}), "progress")
			}
		}
	}
	diffProj(ln, sn, "", &diffs)
	sort.Strings(diffs)
	return diffs
}

func norm(v interface{}) interface{} { // through JSON, so that []int and []interface{} compare equal
	b, _ := json.Marshal(v)
	var out interface{}
	d := json.NewDecoder(bytes.NewReader(b))
	d.UseNumber()
	d.Decode(&out)
	return out
}

// diffProj lists the paths where two projections differ (isReady is runtime state, documented to change).
func diffProj(a, b interface{}, path string, out *[]string) {
	switch av := a.(type) {
	case map[string]interface{}:
		bv, ok := b.(map[string]interface{})
		if !ok {
			*out = append(*out, path)
			return
		}
		for k := range av {
			if k == "isReady" {
				continue
			}
			diffProj(av[k], bv[k], path+"."+k, out)
		}
		for k := range bv {
			if _, ok := av[k]; !ok {
				*out = append(*out, path+"."+k)
			}
		}
	case []interface{}:
		bv, ok := b.([]interface{})
		if !ok || len(av) != len(bv) {
			*out = append(*out, fmt.Sprintf("%s(len)", path))
			return
		}
		for i := range av {
			diffProj(av[i], bv[i], path+"["+strconv.Itoa(i)+"]", out)
		}
	default:
		if !reflect.DeepEqual(a, b) {
			*out = append(*out, fmt.Sprintf("%s: %v -> %v", path, a, b))
		}
	}
}

// saveReload: checkpoint, ReadState the bytes into a new State with a new backend, compare what can be
// seen before and after, continue on the loaded state.
func (h *harness) saveReload() (same bool, diffs []string, err error) {
	before := h.project()
	// what the driver could see of unlinked tasks it will lose the handle for is kept for the comparison
	data := h.be.bytes()
	nb := &backend{}
	st2, err := state.ReadState(nb, bytes.NewReader(data))
	if err != nil {
		return false, nil, err
	}
	old := h.tasks
	h.st, h.be = st2, nb
	h.reacquire()
	after := h.project()
	// tasks no longer reachable through accessors (unlinked, no edge from a linked task): only countable
	lost := map[int]bool{}
	for id := range old {
		if h.tasks[id] == nil {
			lost[id] = true
		}
	}
	if len(lost) > 0 {
		kept := []M{}
		for _, t := range before["tasks"].([]M) {
			if !lost[t["id"].(int)] {
				kept = append(kept, t)
			}
		}
		before["tasks"] = kept
	}
	diffProj(norm(before), norm(after), "", &diffs)
	sort.Strings(diffs)
	return len(diffs) == 0, diffs, nil
}

var statusByName = map[string]state.Status{
	"Default": state.DefaultStatus, "Hold": state.HoldStatus, "Do": state.DoStatus, "Doing": state.DoingStatus,
	"Done": state.DoneStatus, "Abort": state.AbortStatus, "Undo": state.UndoStatus, "Undoing": state.UndoingStatus,
	"Undone": state.UndoneStatus, "Error": state.ErrorStatus, "Wait": state.WaitStatus,
}

type Op struct {
	Ev   string `json:"ev"`
	Args M      `json:"args"`
}

func ai(a M, k string) int {
	switch v := a[k].(type) {
	case int:
		return v
	case float64:
		return int(v)
	case json.Number:
		n, _ := v.Int64()
		return int(n)
	}
	panic("missing int arg " + k)
}
func as(a M, k string) string { s, _ := a[k].(string); return s }

func rawOrNil(v string) interface{} {
	if v == "" {
		return nil
	}
	return json.RawMessage(v)
}

func pairsOf(a M, k string) map[string]string {
	b, _ := json.Marshal(a[k])
	var ps [][]string
	json.Unmarshal(b, &ps)
	if len(ps) == 0 {
		return nil
	}
	out := map[string]string{}
	for _, p := range ps {
		out[p[0]] = p[1]
	}
	return out
}

// apply runs one op on the real state; ret is what the call returned (ids), panicMsg a recovered panic.
func (h *harness) apply(op Op) (ret M, panicMsg string) {
	ret = M{}
	a := op.Args
	if op.Ev == "Tick" {
		h.setClock(ai(a, "h"))
		return
	}
	if op.Ev == "SaveReload" {
		same, diffs, err := h.saveReload()
		ret["same"] = same
		if diffs == nil {
			diffs = []string{}
		}
		ret["diffs"] = diffs
		if err != nil {
			ret["err"] = err.Error()
		}
		return
	}
	st := h.st
	st.Lock()
	defer st.Unlock()
	defer func() {
		if r := recover(); r != nil {
			panicMsg = fmt.Sprint(r)
		}
	}()
	switch op.Ev {
	case "NewChange":
		c := st.NewChange(as(a, "kind"), as(a, "summary"))
		ret["id"] = atoi(c.ID())
	case "NewTask":
		t := st.NewTask(as(a, "kind"), as(a, "summary"))
		ret["id"] = atoi(t.ID())
		h.tasks[atoi(t.ID())] = t
	case "AddTask":
		st.Change(strconv.Itoa(ai(a, "c"))).AddTask(h.tasks[ai(a, "t")])
	case "WaitFor":
		h.tasks[ai(a, "a")].WaitFor(h.tasks[ai(a, "b")])
	case "NewLane":
		l := st.NewLane()
		ret["id"] = l
		h.lanes = append(h.lanes, l)
	case "JoinLane":
		h.tasks[ai(a, "t")].JoinLane(ai(a, "lane"))
	case "SetStatus":
		h.tasks[ai(a, "t")].SetStatus(statusByName[as(a, "s")])
	case "SetToWait":
		h.tasks[ai(a, "t")].SetToWait(statusByName[as(a, "s")])
	case "ChangeSetStatus":
		st.Change(strconv.Itoa(ai(a, "c"))).SetStatus(statusByName[as(a, "s")])
		h.override[ai(a, "c")] = statusByName[as(a, "s")]
	case "TaskSet":
		h.tasks[ai(a, "t")].Set(as(a, "k"), rawOrNil(as(a, "v")))
	case "TaskClear":
		h.tasks[ai(a, "t")].Clear(as(a, "k"))
	case "ChangeSet":
		st.Change(strconv.Itoa(ai(a, "c"))).Set(as(a, "k"), rawOrNil(as(a, "v")))
	case "StateSet":
		st.Set(as(a, "k"), rawOrNil(as(a, "v")))
	case "Log":
		if as(a, "lvl") == "ERROR" {
			h.tasks[ai(a, "t")].Errorf("%s", as(a, "msg"))
		} else {
			h.tasks[ai(a, "t")].Logf("%s", as(a, "msg"))
		}
	case "At":
		h.tasks[ai(a, "t")].At(h.clk.at(ai(a, "when")))
	case "SetProgress":
		h.tasks[ai(a, "t")].SetProgress(as(a, "label"), ai(a, "done"), ai(a, "total"))
	case "SetClean":
		h.tasks[ai(a, "t")].SetClean()
	case "AddNotice":
		var uid *uint32
		if u := ai(a, "user"); u >= 0 {
			v := uint32(u)
			uid = &v
		}
		id, err := st.AddNotice(uid, state.NoticeType(as(a, "type")), as(a, "key"), &state.AddNoticeOptions{
			Data: pairsOf(a, "data"), RepeatAfter: time.Duration(ai(a, "rep")) * time.Hour, Time: h.clk.at(ai(a, "time"))})
		if err != nil {
			panicMsg = "AddNotice error: " + err.Error()
		}
		ret["id"] = atoi(id)
	case "AddWarning":
		st.AddWarning(as(a, "msg"), &state.AddWarningOptions{RepeatAfter: time.Duration(ai(a, "rep")) * time.Hour,
			Time: h.clk.at(ai(a, "time"))})
	case "OkayWarnings":
		ret["n"] = st.OkayWarnings(h.clk.at(ai(a, "t")))
	case "RemoveWarning":
		st.RemoveWarning(as(a, "msg"))
	case "Register":
		k := as(a, "k")
		st.RegisterPendingChangeByAttr(k, func(chg *state.Change) bool {
			var raw json.RawMessage
			return chg.Get(k, &raw) == nil && string(raw) == "true"
		})
	case "Prune":
		st.Prune(h.clk.at(ai(a, "start")), time.Duration(ai(a, "pw"))*time.Hour, time.Duration(ai(a, "aw"))*time.Hour, ai(a, "mx"))
	default:
		panic("unknown op " + op.Ev)
	}
	return
}
