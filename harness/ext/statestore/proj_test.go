// Package statestore drives a real overlord/state.State through op sequences using only the exported
// API and records, after every op, the state as seen through public accessors (C05, C09).
package statestore

import (
	"bytes"
	"encoding/json"
	"fmt"
	"sort"
	"strconv"
	"strings"
	"sync"
	"time"

	"github.com/snapcore/snapd/overlord/state"
)

const (
	H  = 1000 // the real "now" in model hours
	TU = 1000 // ticks per hour; the sub-hour part counts nanoseconds (AddNotice's +1ns bumps)
)

var Keys = []string{"k1", "k2", "k3"}

// clock maps model ticks to real instants for one case: tick h*TU+n  <->  base-(H-h)h+30min+n ns.
// With the 30 minutes, real `x.Before(time.Now()-w)` inside Prune/expiry equals h < H-w on integers,
// and a case would have to run for half an hour to flip a comparison.
type clock struct{ origin time.Time }

func newClock() clock {
	return clock{time.Now().UTC().Truncate(time.Second).Add(-H*time.Hour + 30*time.Minute)}
}

func (c clock) at(tick int) time.Time {
	if tick == 0 {
		return time.Time{}
	}
	return c.origin.Add(time.Duration(tick/TU)*time.Hour + time.Duration(tick%TU))
}

func (c clock) tick(t time.Time) int {
	if t.IsZero() {
		return 0
	}
	d := t.Sub(c.origin)
	h, sub := d/time.Hour, d%time.Hour
	if d < 0 || sub >= TU {
		return -1 // not an instant the model can name: will not match any model state
	}
	return int(h)*TU + int(sub)
}

// backend keeps the last checkpoint.
type backend struct {
	mu   sync.Mutex
	data []byte
	n    int
}

func (b *backend) Checkpoint(data []byte) error {
	b.mu.Lock()
	defer b.mu.Unlock()
	b.data = append([]byte(nil), data...)
	b.n++
	return nil
}
func (b *backend) EnsureBefore(time.Duration) {}
func (b *backend) count() int {
	b.mu.Lock()
	defer b.mu.Unlock()
	return b.n
}
func (b *backend) bytes() []byte {
	b.mu.Lock()
	defer b.mu.Unlock()
	return b.data
}

func atoi(s string) int {
	n, err := strconv.Atoi(s)
	if err != nil {
		return -1
	}
	return n
}

func hours(s string) int {
	if s == "" {
		return 0
	}
	d, err := time.ParseDuration(s)
	if err != nil || d%time.Hour != 0 {
		return -1
	}
	return int(d / time.Hour)
}

type getter interface {
	Get(key string, value interface{}) error
}

func dataOf(g getter) map[string]string {
	out := map[string]string{}
	for _, k := range Keys {
		var raw json.RawMessage
		if err := g.Get(k, &raw); err != nil {
			out[k] = ""
		} else {
			out[k] = string(raw)
		}
	}
	return out
}

func taskIDs(ts []*state.Task) []int {
	out := make([]int, 0, len(ts))
	for _, t := range ts {
		if t == nil {
			out = append(out, 0) // edge to a task that no longer exists
		} else {
			out = append(out, atoi(t.ID()))
		}
	}
	return out
}

type M = map[string]interface{}

func (h *harness) projTask(t *state.Task) M {
	label, done, total := t.Progress()
	ws := t.WaitedStatus()
	if ws == state.DefaultStatus {
		ws = state.DoneStatus // documented compatibility default applied on load
	}
	logs := []M{}
	for _, line := range t.Log() {
		parts := strings.SplitN(line, " ", 3)
		e := M{"t": -1, "lvl": "?", "msg": line}
		if len(parts) == 3 {
			if ts, err := time.Parse(time.RFC3339, parts[0]); err == nil {
				e = M{"t": h.clk.tick(ts), "lvl": parts[1], "msg": parts[2]}
			}
		}
		logs = append(logs, e)
	}
	chg := 0
	if c := t.Change(); c != nil {
		chg = atoi(c.ID())
	}
	return M{
		"id": atoi(t.ID()), "kind": t.Kind(), "summary": t.Summary(), "status": t.Status().String(),
		"waited": ws.String(), "clean": t.IsClean(),
		"progress": M{"label": label, "done": done, "total": total},
		"data":     dataOf(t), "waits": taskIDs(t.WaitTasks()), "halts": taskIDs(t.HaltTasks()),
		"lanes": t.Lanes(), "log": logs, "change": chg,
		"spawn": h.clk.tick(t.SpawnTime()), "ready": h.clk.tick(t.ReadyTime()), "at": h.clk.tick(t.AtTime()),
		"doing": int(t.DoingTime() / time.Hour), "undoing": int(t.UndoingTime() / time.Hour),
	}
}

func (h *harness) projChange(c *state.Change) M {
	return M{
		"id": atoi(c.ID()), "kind": c.Kind(), "summary": c.Summary(), "status": c.Status().String(),
		"clean": c.IsClean(), "data": dataOf(c), "tasks": taskIDs(c.Tasks()),
		"spawn": h.clk.tick(c.SpawnTime()), "ready": h.clk.tick(c.ReadyTime()), "isReady": c.IsReady(),
	}
}

func (h *harness) projNotice(n *state.Notice) M {
	b, err := json.Marshal(n)
	var j struct {
		ID            string            `json:"id"`
		UserID        *uint32           `json:"user-id"`
		Type          string            `json:"type"`
		Key           string            `json:"key"`
		FirstOccurred time.Time         `json:"first-occurred"`
		LastOccurred  time.Time         `json:"last-occurred"`
		LastRepeated  time.Time         `json:"last-repeated"`
		Occurrences   int               `json:"occurrences"`
		LastData      map[string]string `json:"last-data"`
		RepeatAfter   string            `json:"repeat-after"`
		ExpireAfter   string            `json:"expire-after"`
	}
	if err == nil {
		err = json.Unmarshal(b, &j)
	}
	if err != nil {
		return M{"id": -1, "user": -1, "type": "error: " + err.Error(), "key": "", "first": -1, "last": -1, "rep": -1,
			"occ": -1, "data": [][]string{}, "repeat": -1, "expire": -1}
	}
	user := -1
	if j.UserID != nil {
		user = int(*j.UserID)
	}
	uid, isSet := n.UserID()
	if isSet != (j.UserID != nil) || (isSet && int(uid) != user) || string(n.Type()) != j.Type {
		j.Type = "error: accessors disagree with JSON"
	}
	data := [][]string{}
	for k, v := range j.LastData {
		data = append(data, []string{k, v})
	}
	sort.Slice(data, func(a, b int) bool { return data[a][0] < data[b][0] })
	return M{"id": atoi(j.ID), "user": user, "type": j.Type, "key": j.Key,
		"first": h.clk.tick(j.FirstOccurred), "last": h.clk.tick(j.LastOccurred), "rep": h.clk.tick(j.LastRepeated),
		"occ": j.Occurrences, "data": data, "repeat": hours(j.RepeatAfter), "expire": hours(j.ExpireAfter)}
}

func (h *harness) projWarning(w *state.Warning) M {
	b, err := json.Marshal(w)
	var j struct {
		Message     string     `json:"message"`
		FirstAdded  time.Time  `json:"first-added"`
		LastAdded   time.Time  `json:"last-added"`
		LastShown   *time.Time `json:"last-shown"`
		ExpireAfter string     `json:"expire-after"`
		RepeatAfter string     `json:"repeat-after"`
	}
	if err == nil {
		err = json.Unmarshal(b, &j)
	}
	if err != nil {
		return M{"msg": "error: " + err.Error(), "first": -1, "last": -1, "shown": -1, "expire": -1, "repeat": -1}
	}
	shown := 0
	if j.LastShown != nil {
		shown = h.clk.tick(*j.LastShown)
	}
	return M{"msg": j.Message, "first": h.clk.tick(j.FirstAdded), "last": h.clk.tick(j.LastAdded), "shown": shown,
		"expire": hours(j.ExpireAfter), "repeat": hours(j.RepeatAfter)}
}

// counters as written in the checkpoint the backend received last
func (h *harness) projCounters() M {
	var j struct {
		LastChangeId int       `json:"last-change-id"`
		LastTaskId   int       `json:"last-task-id"`
		LastLaneId   int       `json:"last-lane-id"`
		LastNoticeId int       `json:"last-notice-id"`
		LastNoticeTs time.Time `json:"last-notice-timestamp"`
	}
	d := json.NewDecoder(bytes.NewReader(h.be.bytes()))
	if err := d.Decode(&j); err != nil {
		return M{"lastChange": -1, "lastTask": -1, "lastLane": -1, "lastNotice": -1, "lastNoticeTs": -1}
	}
	return M{"lastChange": j.LastChangeId, "lastTask": j.LastTaskId, "lastLane": j.LastLaneId,
		"lastNotice": j.LastNoticeId, "lastNoticeTs": h.clk.tick(j.LastNoticeTs)}
}

var _ = fmt.Sprintf
