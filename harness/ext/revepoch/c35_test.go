package revepoch

import (
	"encoding/json"
	"fmt"
	"math"
	"regexp"
	"strconv"
	"strings"
	"testing"

	"github.com/snapcore/snapd/snap"
	"gopkg.in/yaml.v2"
)

// ---- C35: snap.Revision / snap.Epoch vs RevEpoch.tla ----

// shapes shared with RevEpoch.tla (tables) and TraceRevEpoch.tla (observations)
type tList struct {
	Nil bool     `json:"nil"`
	L   []uint32 `json:"l"`
}
type tEpoch struct {
	R tList `json:"r"`
	W tList `json:"w"`
}
type tRes struct {
	Ok bool `json:"ok"`
	N  int  `json:"n"`
}
type tFlat struct {
	Ok bool     `json:"ok"`
	R  []uint32 `json:"r"`
	W  []uint32 `json:"w"`
}
type tRevRow struct {
	N    int   `json:"n"`
	S    []int `json:"s"`
	JSON []int `json:"json"`
	YAML []int `json:"yaml"`
	Lit  []int `json:"lit"`
}
type tStrRow struct {
	S     []int `json:"s"`
	Rev   tRes  `json:"rev"`
	Canon bool  `json:"canon"`
	Bare  tRes  `json:"bare"`
	Short tFlat `json:"short"`
}
type tEpRow struct {
	R     tList `json:"r"`
	W     tList `json:"w"`
	Valid bool  `json:"valid"`
	Str   []int `json:"str"`
	JSON  []int `json:"json"`
	Self  bool  `json:"self"`
	Zero  bool  `json:"zero"`
	RT    tFlat `json:"rt"`
	Doc   tFlat `json:"doc"`
}
type c35Table struct {
	Kinds   int       `json:"kinds"`
	MaxLen  int       `json:"maxlen"`
	Revs    []tRevRow `json:"revs"`
	Strs    []tStrRow `json:"strs"`
	Epochs  []tEpRow  `json:"epochs"`
	CRDom   []tEpoch  `json:"crdom"`
	CanRead [][]bool  `json:"canread"`
}

func goList(l tList) []uint32 {
	if l.Nil {
		return nil
	}
	return append([]uint32{}, l.L...)
}
func goEpoch(r, w tList) snap.Epoch { return snap.Epoch{Read: goList(r), Write: goList(w)} }

func mkList(l []uint32) tList {
	if l == nil {
		return tList{Nil: true, L: []uint32{}}
	}
	return tList{L: append([]uint32{}, l...)}
}
func mkEpoch(e snap.Epoch) tEpoch { return tEpoch{R: mkList(e.Read), W: mkList(e.Write)} }

func listText(l []uint32, absent string) string {
	if l == nil {
		return absent
	}
	s := make([]string, len(l))
	for i, x := range l {
		s[i] = strconv.FormatUint(uint64(x), 10)
	}
	return "[" + strings.Join(s, ",") + "]"
}

// epKey names a raw epoch value in violation keys: {"read":null,"write":[1]} (null = nil slice)
func epKey(e snap.Epoch) string {
	return `{"read":` + listText(e.Read, "null") + `,"write":` + listText(e.Write, "null") + `}`
}

// docJSON / docYAML: the structured document with nil = attribute absent
func docJSON(e snap.Epoch) string {
	var parts []string
	if e.Read != nil {
		parts = append(parts, `"read":`+listText(e.Read, ""))
	}
	if e.Write != nil {
		parts = append(parts, `"write":`+listText(e.Write, ""))
	}
	return "{" + strings.Join(parts, ",") + "}"
}
func docYAML(e snap.Epoch) string {
	var parts []string
	if e.Read != nil {
		parts = append(parts, "read: "+strings.Replace(listText(e.Read, ""), ",", ", ", -1))
	}
	if e.Write != nil {
		parts = append(parts, "write: "+strings.Replace(listText(e.Write, ""), ",", ", ", -1))
	}
	return "epoch: {" + strings.Join(parts, ", ") + "}\n"
}

func flatOf(e snap.Epoch, err error) tFlat {
	if err != nil {
		return tFlat{R: []uint32{}, W: []uint32{}}
	}
	return tFlat{Ok: true, R: append([]uint32{}, e.Read...), W: append([]uint32{}, e.Write...)}
}
func (f tFlat) String() string {
	if !f.Ok {
		return "error"
	}
	return `{"read":` + listText(f.R, "null") + `,"write":` + listText(f.W, "null") + `}`
}
func eqU32(a, b []uint32) bool {
	if len(a) != len(b) {
		return false
	}
	for i := range a {
		if a[i] != b[i] {
			return false
		}
	}
	return true
}
func (f tFlat) eq(g tFlat) bool { return f.Ok == g.Ok && eqU32(f.R, g.R) && eqU32(f.W, g.W) }

func resOf(r snap.Revision, err error) tRes {
	if err != nil {
		return tRes{}
	}
	return tRes{Ok: true, N: r.N}
}
func (r tRes) String() string {
	if !r.Ok {
		return "error"
	}
	return fmt.Sprintf("Revision{%d}", r.N)
}

type yRev struct {
	R snap.Revision `yaml:"r"`
}
type yEpoch struct {
	E snap.Epoch `yaml:"epoch"`
}

func revFromJSON(doc string) tRes {
	var r snap.Revision
	err := json.Unmarshal([]byte(doc), &r)
	return resOf(r, err)
}
func revFromYAML(doc string) tRes {
	var y yRev
	err := yaml.Unmarshal([]byte(doc), &y)
	return resOf(y.R, err)
}
func epochFromJSON(doc string) tFlat {
	var e snap.Epoch
	err := json.Unmarshal([]byte(doc), &e)
	return flatOf(e, err)
}
func epochFromYAML(doc string) tFlat {
	var y yEpoch
	err := yaml.Unmarshal([]byte(doc), &y)
	return flatOf(y.E, err)
}

// snap.E panics on an invalid short form
func epochFromE(s string) (f tFlat) {
	defer func() {
		if recover() != nil {
			f = flatOf(snap.Epoch{}, fmt.Errorf("panic"))
		}
	}()
	return flatOf(snap.E(s), nil)
}

type reporter struct {
	em      *emitter
	kind    string
	max     int
	byClass map[string]int
	total   int
}

func newReporter(em *emitter, kind string) *reporter {
	return &reporter{em: em, kind: kind, max: envInt("VERIF_MAX_MISMATCH", 400), byClass: map[string]int{}}
}

// report one difference; key = "<class>: <call on the specific input>"
func (rp *reporter) report(class, call, exp, got string) {
	rp.total++
	rp.byClass[class]++
	if rp.byClass[class] <= rp.max {
		rp.em.emit(map[string]interface{}{"kind": rp.kind, "class": class, "key": class + ": " + call, "call": call, "exp": exp, "got": got})
	}
}

// TestVerifC35Table: T->I. For every table written by TLC (RevEpochTable) evaluate the real
// snap.Revision / snap.Epoch functions on the same inputs and report every difference.
func TestVerifC35Table(t *testing.T) {
	em := newEmitter(t, "VERIF_OUT")
	defer em.close()
	rp := newReporter(em, "mismatch")
	evals := 0
	distinct := map[string]struct{}{}
	seen := func(format string, a ...interface{}) { distinct[fmt.Sprintf(format, a...)] = struct{}{} }
	var nRevs, nStrs, nEpochs, nPairs, accepted, rejected, nonCanon, validEpochs, canReadTrue int
	var nonCanonSamples []string

	for _, path := range envFiles("VERIF_TABLES") {
		var tb c35Table
		readJSON(t, path, &tb)

		// ---- revisions: String, MarshalJSON, bare-number JSON, YAML
		for _, row := range tb.Revs {
			nRevs++
			r := snap.Revision{N: row.N}
			name := fmt.Sprintf("Revision{%d}", row.N)
			evals++
			if got := r.String(); got != fromCodes(row.S) {
				rp.report("rev-string", name+".String()", fromCodes(row.S), got)
			} else {
				seen("rev-string %s", got)
			}
			evals++
			if b, err := json.Marshal(r); err != nil || string(b) != fromCodes(row.JSON) {
				rp.report("rev-json-marshal", "json.Marshal("+name+")", fromCodes(row.JSON), fmt.Sprintf("%s %v", b, err))
			}
			evals++
			if got := revFromJSON(fromCodes(row.JSON)); !got.Ok || got.N != row.N {
				rp.report("rev-json-roundtrip", "json.Unmarshal("+fromCodes(row.JSON)+")", name, got.String())
			}
			evals++
			if got := revFromJSON(fromCodes(row.Lit)); !got.Ok || got.N != row.N {
				rp.report("rev-json-bare", "json.Unmarshal("+fromCodes(row.Lit)+")", name, got.String())
			}
			evals++
			wantY := "r: " + fromCodes(row.YAML) + "\n"
			b, err := yaml.Marshal(yRev{r})
			if err != nil || string(b) != wantY {
				rp.report("rev-yaml-marshal", "yaml.Marshal("+name+")", strconv.Quote(wantY), fmt.Sprintf("%q %v", b, err))
			}
			evals++
			if got := revFromYAML(string(b)); !got.Ok || got.N != row.N {
				rp.report("rev-yaml-roundtrip", "yaml.Unmarshal(yaml.Marshal("+name+"))", name, got.String())
			}
		}

		// ---- strings: ParseRevision, JSON string / bare token, YAML scalar; epoch short forms
		for _, row := range tb.Strs {
			nStrs++
			s := fromCodes(row.S)
			cmpRev := func(class, call string, got tRes) {
				evals++
				switch {
				case got.Ok && !row.Rev.Ok:
					rp.report(class+"-accepts-invalid", call, "error", got.String())
				case !got.Ok && row.Rev.Ok:
					rp.report(class+"-rejects-valid", call, row.Rev.String(), "error")
				case got.Ok && got.N != row.Rev.N:
					rp.report(class+"-value", call, row.Rev.String(), got.String())
				}
			}
			pr := resOf(snap.ParseRevision(s))
			cmpRev("rev", fmt.Sprintf("ParseRevision(%q)", s), pr)
			if pr.Ok {
				accepted++
				seen("rev-parse %d", pr.N)
				// canonical iff it reads back as itself (cross-checked against the spec's syntactic class)
				isCanon := snap.Revision{N: pr.N}.String() == s
				if isCanon != row.Canon {
					rp.report("rev-canonical", fmt.Sprintf("ParseRevision(%q).String()", s), fmt.Sprintf("canonical=%v", row.Canon), snap.Revision{N: pr.N}.String())
				}
				if !isCanon {
					nonCanon++
					if len(nonCanonSamples) < 12 {
						nonCanonSamples = append(nonCanonSamples, fmt.Sprintf("ParseRevision(%q) = %s", s, pr))
					}
				}
			} else {
				rejected++
			}
			cmpRev("rev-json", fmt.Sprintf("json.Unmarshal(%q) into Revision", `"`+s+`"`), revFromJSON(`"`+s+`"`))
			cmpRev("rev-yaml", fmt.Sprintf("yaml.Unmarshal(%q) into Revision", `r: "`+s+`"`), revFromYAML(`r: "`+s+`"`+"\n"))
			// bare JSON token
			evals++
			if got := revFromJSON(s); got != row.Bare {
				class := "rev-json-bare"
				if got.Ok && !row.Bare.Ok {
					class = "rev-json-bare-accepts-invalid"
				}
				rp.report(class, fmt.Sprintf("json.Unmarshal(%q) into Revision", s), row.Bare.String(), got.String())
			} else if got.Ok {
				seen("rev-bare %d", got.N)
			}
			// epoch short forms through the three readers
			for _, rd := range []struct {
				class, call string
				got         tFlat
			}{
				{"epoch-short", fmt.Sprintf("snap.E(%q)", s), epochFromE(s)},
				{"epoch-short-json", fmt.Sprintf("json.Unmarshal(%q) into Epoch", `"`+s+`"`), epochFromJSON(`"` + s + `"`)},
				{"epoch-short-yaml", fmt.Sprintf("yaml.Unmarshal(%q) into Epoch", `epoch: "`+s+`"`), epochFromYAML(`epoch: "` + s + `"` + "\n")},
			} {
				evals++
				if !rd.got.eq(row.Short) {
					rp.report(rd.class, rd.call, row.Short.String(), rd.got.String())
				} else if rd.got.Ok {
					seen("epoch-short %s", rd.got)
				}
			}
		}

		// ---- raw epochs: Validate, String, MarshalJSON, round trip, self read; structured documents
		for _, row := range tb.Epochs {
			nEpochs++
			e := goEpoch(row.R, row.W)
			k := epKey(e)
			evals++
			valid := e.Validate() == nil
			if valid != row.Valid {
				rp.report("epoch-validate", k+".Validate()", fmt.Sprintf("valid=%v", row.Valid), fmt.Sprintf("valid=%v (%v)", valid, e.Validate()))
			}
			if valid {
				validEpochs++
			}
			evals++
			if got := e.String(); got != fromCodes(row.Str) {
				rp.report("epoch-string", k+".String()", fromCodes(row.Str), got)
			} else if valid {
				seen("epoch-string %s", got)
			}
			evals++
			b, err := json.Marshal(e)
			if err != nil || string(b) != fromCodes(row.JSON) {
				rp.report("epoch-json-marshal", "json.Marshal("+k+")", fromCodes(row.JSON), fmt.Sprintf("%s %v", b, err))
			}
			evals++
			if got := epochFromJSON(string(b)); !got.eq(row.RT) {
				rp.report("epoch-json-roundtrip", "json.Unmarshal(json.Marshal("+k+"))", row.RT.String(), got.String())
			}
			evals++
			if got := e.CanRead(e); got != row.Self {
				rp.report("epoch-selfread", k+".CanRead(itself)", fmt.Sprint(row.Self), fmt.Sprint(got))
			}
			evals++
			if got := epochFromJSON(docJSON(e)); !got.eq(row.Doc) {
				rp.report("epoch-parse-json", "json.Unmarshal("+docJSON(e)+") into Epoch", row.Doc.String(), got.String())
			} else if got.Ok {
				seen("epoch-parse %s", got)
			}
			evals++
			if got := epochFromYAML(docYAML(e)); !got.eq(row.Doc) {
				rp.report("epoch-parse-yaml", "yaml.Unmarshal("+strings.TrimSpace(docYAML(e))+") into Epoch", row.Doc.String(), got.String())
			}
		}

		// ---- CanRead on all pairs
		if len(tb.CanRead) != len(tb.CRDom) {
			t.Fatalf("%s: canread matrix has %d rows for %d epochs", path, len(tb.CanRead), len(tb.CRDom))
		}
		ces := make([]snap.Epoch, len(tb.CRDom))
		for i, te := range tb.CRDom {
			ces[i] = goEpoch(te.R, te.W)
		}
		for i := range ces {
			if len(tb.CanRead[i]) != len(ces) {
				t.Fatalf("%s: canread row %d has %d entries", path, i, len(tb.CanRead[i]))
			}
			for j := range ces {
				evals++
				nPairs++
				got := ces[i].CanRead(ces[j])
				if got {
					canReadTrue++
				}
				if got != tb.CanRead[i][j] {
					rp.report("epoch-canread", epKey(ces[i])+" vs "+epKey(ces[j]), fmt.Sprint(tb.CanRead[i][j]), fmt.Sprint(got))
				} else {
					seen("canread %s %s %v", listText(ces[i].Read, "null"), listText(ces[j].Write, "null"), got)
				}
			}
		}
	}
	for _, s := range nonCanonSamples {
		em.emit(map[string]interface{}{"kind": "noncanonical", "sample": s})
	}
	em.emit(map[string]interface{}{"kind": "stats", "evaluations": evals, "distinct": len(distinct), "mismatches": rp.total,
		"by_class": rp.byClass, "revisions": nRevs, "strings": nStrs, "epochs": nEpochs, "canread_pairs": nPairs,
		"strings_accepted": accepted, "strings_rejected": rejected, "non_canonical_accepted": nonCanon,
		"valid_epochs": validEpochs, "canread_true": canReadTrue})
}

// ---------------------------------------------------------------------------------------------
// laws directly on real outputs

var c35LooksLikeRev = regexp.MustCompile(`^(unset|x?\+?[0-9]+)$`)

const c35Alphabet = "012x-+.*"

func c35Strings(maxlen int) []string {
	out := []string{""}
	prev := []string{""}
	for l := 1; l <= maxlen; l++ {
		var cur []string
		for _, p := range prev {
			for i := 0; i < len(c35Alphabet); i++ {
				cur = append(cur, p+string(c35Alphabet[i]))
			}
		}
		out = append(out, cur...)
		prev = cur
	}
	return out
}

// all sequences over 0..3 up to maxlen, preceded by nil
func c35Lists(maxlen int) [][]uint32 {
	out := [][]uint32{nil, {}}
	prev := [][]uint32{{}}
	for l := 1; l <= maxlen; l++ {
		var cur [][]uint32
		for _, p := range prev {
			for v := uint32(0); v < 4; v++ {
				cur = append(cur, append(append([]uint32{}, p...), v))
			}
		}
		out = append(out, cur...)
		prev = cur
	}
	return out
}

func strictlyIncreasing(l []uint32) bool {
	for i := 1; i < len(l); i++ {
		if l[i-1] >= l[i] {
			return false
		}
	}
	return true
}

func setIntersects(a, b []uint32) bool {
	m := map[uint32]bool{}
	for _, x := range a {
		m[x] = true
	}
	for _, x := range b {
		if m[x] {
			return true
		}
	}
	return false
}

func normList(l []uint32) []uint32 {
	if len(l) == 0 {
		return []uint32{0}
	}
	return l
}

func upTo(n uint32) []uint32 {
	var l []uint32
	for i := uint32(0); i <= n; i++ {
		l = append(l, i)
	}
	return l
}

// TestVerifC35Laws: the laws of the statement checked directly on REAL outputs (so that an error in the
// reference cannot mask a violation), including the int64 / uint32 boundary values TLC cannot represent.
func TestVerifC35Laws(t *testing.T) {
	em := newEmitter(t, "VERIF_OUT")
	defer em.close()
	rp := newReporter(em, "law")
	rnd := seededRand()
	var nRev, nStr, nEpoch, nValid, nPairs, nDocs int

	// ---- every revision reads back unchanged from its string, JSON and YAML forms
	var ints []int
	for n := -envInt("VERIF_LAW_REVS", 2000); n <= envInt("VERIF_LAW_REVS", 2000); n++ {
		ints = append(ints, n)
	}
	for _, b := range []int{math.MaxInt32, math.MaxInt32 + 1, 1 << 53, 1<<53 + 1, math.MaxInt64 - 1, math.MaxInt64} {
		ints = append(ints, b, -b)
	}
	ints = append(ints, math.MinInt64)
	for i := 0; i < envInt("VERIF_NRAND", 500); i++ {
		n := int(rnd.Int63())
		if rnd.Intn(2) == 0 {
			n = -n
		}
		ints = append(ints, n>>uint(rnd.Intn(62)))
	}
	spell := map[string]int{}
	for _, n := range ints {
		nRev++
		r := snap.Revision{N: n}
		name := fmt.Sprintf("Revision{%d}", n)
		s := r.String()
		if m, dup := spell[s]; dup && m != n {
			rp.report("rev-injective", name+".String()", "distinct spellings for distinct revisions", fmt.Sprintf("%q also spells %d", s, m))
		}
		spell[s] = n
		if got := resOf(snap.ParseRevision(s)); !got.Ok || got.N != n {
			rp.report("rev-roundtrip", name, name, fmt.Sprintf("String()=%q reads back as %s", s, got))
		}
		b, err := json.Marshal(r)
		if err != nil || string(b) != `"`+s+`"` {
			rp.report("rev-json-marshal", "json.Marshal("+name+")", `"`+s+`"`, fmt.Sprintf("%s %v", b, err))
		}
		if got := revFromJSON(string(b)); !got.Ok || got.N != n {
			rp.report("rev-json-roundtrip", name, name, fmt.Sprintf("JSON %s reads back as %s", b, got))
		}
		if got := revFromJSON(strconv.Itoa(n)); !got.Ok || got.N != n {
			rp.report("rev-json-bare", "json.Unmarshal("+strconv.Itoa(n)+")", name, got.String())
		}
		y, err := yaml.Marshal(yRev{r})
		if err != nil {
			rp.report("rev-yaml-marshal", "yaml.Marshal("+name+")", "no error", err.Error())
		}
		if got := revFromYAML(string(y)); !got.Ok || got.N != n {
			rp.report("rev-yaml-roundtrip", name, name, fmt.Sprintf("YAML %q reads back as %s", y, got))
		}
	}

	// ---- strings: accepted ones are unambiguous and re-read canonically; invalid ones are rejected
	strs := c35Strings(envInt("VERIF_LAWLEN", 4))
	strs = append(strs, "unset", "unsetx", "xunset", "unse", "Unset", "UNSET", "unset ", " unset", " 1", "1 ", "x 1", "X1", "x1x", "1x",
		"1_0", "0x1", "1e3", "1.0", "--1", "+-1", "-+1", "++1", "x++1", "xx1", "null", "true", "0012", "x0012", "+0012",
		"9223372036854775807", "x9223372036854775807", "9223372036854775808", "x9223372036854775808",
		"99999999999999999999", "+9223372036854775807", "-9223372036854775808", "x-9223372036854775808", "١", "1\n", "1\x00")
	mustReject := map[string]bool{"-1": true, "0": true, "x0": true, "x-1": true, "": true, "x": true, "1.0": true, "unsetx": true,
		"--1": true, "+-1": true, "1x": true, " 1": true, "-0": true, "+0": true, "x+0": true, "00": true, "x00": true,
		"9223372036854775808": true, "x9223372036854775808": true, "99999999999999999999": true, "x-9223372036854775808": true}
	for s := range mustReject {
		strs = append(strs, s)
	}
	for i := 0; i < envInt("VERIF_NRAND", 500); i++ {
		strs = append(strs, c35MutateRev(rnd, snap.Revision{N: c35RandRevN(rnd)}.String()))
	}
	for _, s := range strs {
		nStr++
		call := fmt.Sprintf("ParseRevision(%q)", s)
		r, err := snap.ParseRevision(s)
		if err != nil {
			continue
		}
		if mustReject[s] || !c35LooksLikeRev.MatchString(s) {
			rp.report("rev-accepts-invalid", call, "error", fmt.Sprintf("Revision{%d}", r.N))
			continue
		}
		if (r.N == 0) != (s == "unset") || (s != "unset" && (r.N < 0) != (s[0] == 'x')) {
			rp.report("rev-value", call, "0 only for unset, negative exactly for x...", fmt.Sprintf("Revision{%d}", r.N))
		}
		// the digits must denote |N|
		digits := strings.TrimLeft(strings.TrimPrefix(strings.TrimPrefix(s, "x"), "+"), "0")
		abs := strconv.FormatUint(uint64(absInt(r.N)), 10)
		if s != "unset" && digits != abs {
			rp.report("rev-value", call, "value "+digits, fmt.Sprintf("Revision{%d}", r.N))
		}
		if back := resOf(snap.ParseRevision(r.String())); !back.Ok || back.N != r.N {
			rp.report("rev-roundtrip", call, fmt.Sprintf("Revision{%d}", r.N), fmt.Sprintf("String()=%q reads back as %s", r.String(), back))
		}
	}
	for s, want := range map[string]int{"unset": 0, "1": 1, "x1": -1, "12": 12, "x12": -12, "9223372036854775807": math.MaxInt64, "x9223372036854775807": -math.MaxInt64} {
		if got := resOf(snap.ParseRevision(s)); !got.Ok || got.N != want {
			rp.report("rev-rejects-valid", fmt.Sprintf("ParseRevision(%q)", s), fmt.Sprintf("Revision{%d}", want), got.String())
		}
	}
	// JSON values that are not revisions
	for _, doc := range []string{`1.0`, `1e3`, `"x"`, `null`, `true`, `[1]`, `{}`, `"1.0"`, `""`, `"0"`, `"-1"`, `"x0"`, `9223372036854775808`, `"01x"`, `1.5`, `-1.0`} {
		nStr++
		if got := revFromJSON(doc); got.Ok {
			rp.report("rev-json-accepts-invalid", fmt.Sprintf("json.Unmarshal(%q) into Revision", doc), "error", got.String())
		}
	}
	for _, doc := range []string{"r: -3", "r: 1.0", "r: 0", "r: x0", "r: [1]", "r: {a: 1}", "r: 0x10", "r: x", "r: \"\""} {
		nStr++
		if got := revFromYAML(doc + "\n"); got.Ok {
			rp.report("rev-yaml-accepts-invalid", fmt.Sprintf("yaml.Unmarshal(%q) into Revision", doc), "error", got.String())
		}
	}

	// ---- epochs
	lists := c35Lists(3)
	var eps []snap.Epoch
	for _, r := range lists {
		for _, w := range lists {
			eps = append(eps, snap.Epoch{Read: r, Write: w})
		}
	}
	const m32 = math.MaxUint32
	eps = append(eps,
		snap.Epoch{Read: upTo(9), Write: []uint32{9}}, snap.Epoch{Read: upTo(9), Write: upTo(9)}, snap.Epoch{Read: []uint32{5}, Write: upTo(9)},
		snap.Epoch{Read: upTo(10), Write: []uint32{10}}, snap.Epoch{Read: upTo(10), Write: upTo(10)}, snap.Epoch{Read: []uint32{5}, Write: upTo(10)},
		snap.Epoch{Read: upTo(9), Write: nil}, snap.Epoch{Read: nil, Write: upTo(9)},
		snap.Epoch{Read: []uint32{m32 - 1, m32}, Write: []uint32{m32}}, snap.Epoch{Read: []uint32{m32}, Write: []uint32{m32}},
		snap.Epoch{Read: []uint32{m32, 0}, Write: []uint32{0}}, snap.Epoch{Read: []uint32{0, m32}, Write: []uint32{m32}},
		snap.Epoch{Read: []uint32{m32 - 2, m32}, Write: []uint32{m32}}, snap.Epoch{Read: []uint32{1 << 31, 1<<31 + 1}, Write: []uint32{1<<31 + 1}},
		snap.Epoch{Read: []uint32{7, 1 << 31}, Write: []uint32{7, 1 << 31}})
	for i := 0; i < envInt("VERIF_NRAND", 500); i++ {
		eps = append(eps, c35RandEpoch(rnd, 1<<32-1))
	}
	for _, e := range eps {
		nEpoch++
		k := epKey(e)
		valid := e.Validate() == nil
		// Validate against the documented rules (doc comment of snap.Epoch)
		explicitEmpty := (e.Read != nil && len(e.Read) == 0) || (e.Write != nil && len(e.Write) == 0)
		shapeOK := !explicitEmpty && (e.IsZero() || (len(e.Read) <= 10 && len(e.Write) <= 10 &&
			strictlyIncreasing(e.Read) && strictlyIncreasing(e.Write) && setIntersects(e.Read, e.Write)))
		if valid != shapeOK {
			rp.report("epoch-validate", k+".Validate()", fmt.Sprintf("valid=%v", shapeOK), fmt.Sprintf("valid=%v (%v)", valid, e.Validate()))
		}
		if !valid {
			// an explicitly written invalid shape is rejected by the readers
			if e.Read != nil && e.Write != nil {
				nDocs++
				if got := epochFromJSON(docJSON(e)); got.Ok {
					rp.report("epoch-parse-json", "json.Unmarshal("+docJSON(e)+") into Epoch", "error", got.String())
				}
				if got := epochFromYAML(docYAML(e)); got.Ok {
					rp.report("epoch-parse-yaml", "yaml.Unmarshal("+strings.TrimSpace(docYAML(e))+") into Epoch", "error", got.String())
				}
			}
			continue
		}
		nValid++
		// every valid epoch can read its own data
		if !e.CanRead(e) {
			rp.report("epoch-selfread", k+".CanRead(itself)", "true", "false")
		}
		// ... reads back unchanged from its JSON form
		b, err := json.Marshal(e)
		var back snap.Epoch
		if err == nil {
			err = json.Unmarshal(b, &back)
		}
		if err != nil || !back.Equal(&e) {
			rp.report("epoch-json-roundtrip", "json.Unmarshal(json.Marshal("+k+"))", k, fmt.Sprintf("%s reads back as %s (%v)", b, epKey(back), err))
		}
		// ... and from its printed form (a short form is a JSON/YAML string, the long form an object)
		str := e.String()
		doc := str
		if !strings.HasPrefix(str, "{") {
			doc = `"` + str + `"`
			if got := epochFromE(str); !got.Ok || !(&snap.Epoch{Read: got.R, Write: got.W}).Equal(&e) {
				rp.report("epoch-string-roundtrip", k+".String()", k, fmt.Sprintf("%q reads back (snap.E) as %s", str, got))
			}
		}
		back = snap.Epoch{}
		if err := json.Unmarshal([]byte(doc), &back); err != nil || !back.Equal(&e) {
			rp.report("epoch-string-roundtrip", k+".String()", k, fmt.Sprintf("%s reads back (JSON) as %s (%v)", doc, epKey(back), err))
		}
		var y yEpoch
		if err := yaml.Unmarshal([]byte("epoch: "+doc+"\n"), &y); err != nil || !y.E.Equal(&e) {
			rp.report("epoch-string-roundtrip", k+".String()", k, fmt.Sprintf("%s reads back (YAML) as %s (%v)", doc, epKey(y.E), err))
		}
	}
	// documents that are not epochs
	for _, doc := range []string{`{"read":[1,0]}`, `{"read":[1,1]}`, `{"read":[0,1,2,3,4,5,6,7,8,9,10]}`, `{"write":[0,1,2,3,4,5,6,7,8,9,10]}`,
		`{"read":[]}`, `{"write":[]}`, `{"read":[],"write":[]}`, `{"read":[1],"write":[2]}`, `{"read":[01]}`, `{"read":[-1]}`, `{"read":[4294967296]}`,
		`{"read":["1"]}`, `{"read":[1.0]}`, `{"read":[1e0]}`, `{"read":1}`, `{"read":"1"}`, `{"read":{"a":1}}`, `{"read":[[1]]}`, `{"read":[null]}`,
		`"0*"`, `"01"`, `"+1"`, `"-1"`, `"1**"`, `"*"`, `"*1"`, `"1.0"`, `"1 "`, `" 1"`, `"4294967296"`, `"4294967296*"`, `"x"`, `"00"`,
		`1`, `[1]`, `true`, `1.5`} {
		nDocs++
		if got := epochFromJSON(doc); got.Ok {
			rp.report("epoch-parse-json", "json.Unmarshal("+doc+") into Epoch", "error", got.String())
		}
	}
	for _, doc := range []string{"epoch: 01", "epoch: 0*", "epoch: +1", "epoch: -1", "epoch: 1.0", "epoch: 0x1", "epoch: [1]", "epoch: {read: [01]}", "epoch: {read: [0x1]}",
		"epoch: {read: [1, 0]}", "epoch: {read: []}", "epoch: {read: 1}", "epoch: {read: [1], write: [2]}", "epoch: {read: [-1]}", "epoch: {read: [4294967296]}"} {
		nDocs++
		if got := epochFromYAML(doc + "\n"); got.Ok {
			rp.report("epoch-parse-yaml", "yaml.Unmarshal("+doc+") into Epoch", "error", got.String())
		}
	}
	// documents that are epochs
	for doc, want := range map[string]snap.Epoch{
		`"4294967295"`: {Read: []uint32{m32}, Write: []uint32{m32}}, `"4294967295*"`: {Read: []uint32{m32 - 1, m32}, Write: []uint32{m32}},
		`{"read":[4294967295]}`: {Read: []uint32{m32}, Write: []uint32{m32}}, `"0"`: {Read: []uint32{0}, Write: []uint32{0}}, `""`: {Read: []uint32{0}, Write: []uint32{0}},
		`{}`: {Read: []uint32{0}, Write: []uint32{0}}, `{"read":[1,2,3]}`: {Read: []uint32{1, 2, 3}, Write: []uint32{3}}, `{"write":[1,3]}`: {Read: []uint32{1, 3}, Write: []uint32{1, 3}},
		`"1*"`: {Read: []uint32{0, 1}, Write: []uint32{1}}, `"10"`: {Read: []uint32{10}, Write: []uint32{10}},
	} {
		nDocs++
		if got := epochFromJSON(doc); !got.eq(flatOf(want, nil)) {
			rp.report("epoch-parse-json", "json.Unmarshal("+doc+") into Epoch", epKey(want), got.String())
		}
	}

	// ---- CanRead(e, o) <=> reads(e) and writes(o) intersect (empty meaning 0), all pairs
	cl := [][]uint32{nil, {}}
	for _, l := range c35Lists(4)[2:] {
		if strictlyIncreasing(l) {
			cl = append(cl, l)
		}
	}
	cl = append(cl, []uint32{m32}, []uint32{0, m32}, []uint32{3, 2, 1}, []uint32{2, 2})
	var ces []snap.Epoch
	for _, r := range cl {
		for _, w := range cl {
			ces = append(ces, snap.Epoch{Read: r, Write: w})
		}
	}
	for i := range ces {
		for j := range ces {
			nPairs++
			want := setIntersects(normList(ces[i].Read), normList(ces[j].Write))
			if got := ces[i].CanRead(ces[j]); got != want {
				rp.report("epoch-canread", epKey(ces[i])+" vs "+epKey(ces[j]), fmt.Sprint(want), fmt.Sprint(got))
			}
		}
	}
	var nilEpoch *snap.Epoch
	if !nilEpoch.CanRead(snap.Epoch{}) || nilEpoch.CanRead(snap.Epoch{Write: []uint32{1}}) {
		rp.report("epoch-canread", "(*Epoch)(nil) vs zero / 1", "true / false", "differs")
	}
	em.emit(map[string]interface{}{"kind": "stats", "revisions": nRev, "strings": nStr, "epochs": nEpoch, "valid_epochs": nValid,
		"canread_pairs": nPairs, "documents": nDocs, "law_violations": rp.total, "by_class": rp.byClass})
}

func absInt(n int) uint64 {
	if n < 0 {
		return uint64(-(n + 1)) + 1
	}
	return uint64(n)
}

// ---------------------------------------------------------------------------------------------
// random inputs beyond the bound

type intner interface{ Intn(int) int }

func c35RandRevN(r intner) int {
	var n int
	switch r.Intn(4) {
	case 0:
		n = r.Intn(50)
	case 1:
		n = r.Intn(100000)
	default:
		n = r.Intn(999999999) + 1
	}
	if r.Intn(3) == 0 {
		n = -n
	}
	return n
}

const c35RevChars = "0123456789x+-. _unsetX*"

// keep digit runs <= 9 so that the reference can use integer values
func c35DigitsOK(s string) bool {
	run := 0
	for i := 0; i < len(s); i++ {
		if s[i] >= '0' && s[i] <= '9' {
			run++
			if run > 9 {
				return false
			}
		} else {
			run = 0
		}
	}
	return true
}

func c35MutateRev(r intner, s string) string {
	for {
		b := []byte(s)
		for k := r.Intn(3); k > 0; k-- {
			p := r.Intn(len(b) + 1)
			switch r.Intn(6) {
			case 0: // insert a zero
				b = append(b[:p], append([]byte{'0'}, b[p:]...)...)
			case 1: // insert a sign / x
				b = append(b[:p], append([]byte{"+-x"[r.Intn(3)]}, b[p:]...)...)
			case 2: // delete
				if p < len(b) {
					b = append(b[:p], b[p+1:]...)
				}
			case 3: // replace
				if p < len(b) {
					b[p] = c35RevChars[r.Intn(len(c35RevChars))]
				}
			case 4: // insert any
				b = append(b[:p], append([]byte{c35RevChars[r.Intn(len(c35RevChars))]}, b[p:]...)...)
			case 5: // prefix
				b = append([]byte{"x+0"[r.Intn(3)]}, b...)
			}
		}
		if c35DigitsOK(string(b)) {
			return string(b)
		}
	}
}

func c35RandList(r intner, max uint32) []uint32 {
	switch x := r.Intn(20); {
	case x == 0:
		return nil
	case x == 1:
		return []uint32{}
	}
	n := 1 + r.Intn(10)
	if r.Intn(12) == 0 {
		n = 11 + r.Intn(2)
	}
	lim := 41
	if r.Intn(3) == 0 {
		lim = 12 // denser: more intersections, more N* shapes
	}
	seen := map[uint32]bool{}
	var l []uint32
	for len(l) < n {
		v := uint32(r.Intn(lim))
		if r.Intn(40) == 0 {
			v = max - uint32(r.Intn(3))
		}
		if seen[v] && r.Intn(10) != 0 {
			if len(seen) >= lim {
				break
			}
			continue
		}
		seen[v] = true
		l = append(l, v)
	}
	if r.Intn(8) != 0 { // mostly sorted
		for i := range l {
			for j := i + 1; j < len(l); j++ {
				if l[j] < l[i] {
					l[i], l[j] = l[j], l[i]
				}
			}
		}
	}
	return l
}

func c35RandEpoch(r intner, max uint32) snap.Epoch {
	switch r.Intn(10) {
	case 0: // N
		n := uint32(r.Intn(41))
		return snap.Epoch{Read: []uint32{n}, Write: []uint32{n}}
	case 1: // N* (or a near miss)
		n := uint32(2 + r.Intn(39))
		return snap.Epoch{Read: []uint32{n - 1 - uint32(r.Intn(8)/7), n}, Write: []uint32{n}}
	case 2, 3, 4: // write = subset of read (the common valid shape)
		rd := c35RandList(r, max)
		var w []uint32
		for _, v := range rd {
			if r.Intn(2) == 0 {
				w = append(w, v)
			}
		}
		if len(w) == 0 && len(rd) > 0 {
			w = rd[len(rd)-1:]
		}
		return snap.Epoch{Read: rd, Write: w}
	}
	return snap.Epoch{Read: c35RandList(r, max), Write: c35RandList(r, max)}
}

// TestVerifC35Random: I->T. Seeded random revisions, revision strings, epochs and short forms beyond
// the exhaustive bound, recorded with the REAL results for validation by TraceRevEpoch.tla.
func TestVerifC35Random(t *testing.T) {
	em := newEmitter(t, "VERIF_OUT")
	defer em.close()
	r := seededRand()
	n := envInt("VERIF_N", 1000)
	const big = 999999999 // the reference uses 32-bit integers
	for i := 1; i <= n; i++ {
		switch i % 5 {
		case 0: // a revision
			rev := snap.Revision{N: c35RandRevN(r)}
			s := rev.String()
			j, _ := json.Marshal(rev)
			y, _ := yaml.Marshal(yRev{rev})
			ys := strings.TrimSuffix(strings.TrimPrefix(string(y), "r: "), "\n")
			em.emit(map[string]interface{}{"case": i, "kind": "rev", "n": rev.N,
				"got": map[string]interface{}{"s": codes(s), "json": codes(string(j)), "yaml": codes(ys),
					"back": resOf(snap.ParseRevision(s)), "jback": revFromJSON(string(j)), "yback": revFromYAML(string(y))}})
		case 1: // a revision string
			s := c35MutateRev(r, snap.Revision{N: c35RandRevN(r)}.String())
			em.emit(map[string]interface{}{"case": i, "kind": "revstr", "s": codes(s), "text": s,
				"got": map[string]interface{}{"rev": resOf(snap.ParseRevision(s)), "jq": revFromJSON(`"` + s + `"`), "bare": revFromJSON(s)}})
		case 2, 3: // an epoch and a partner
			e := c35RandEpoch(r, big)
			o := c35RandEpoch(r, big)
			if r.Intn(4) == 0 {
				o = snap.Epoch{Read: e.Write, Write: e.Read}
			}
			b, _ := json.Marshal(e)
			em.emit(map[string]interface{}{"case": i, "kind": "epoch", "e": mkEpoch(e), "o": mkEpoch(o), "text": epKey(e), "otext": epKey(o),
				"got": map[string]interface{}{"valid": e.Validate() == nil, "str": codes(e.String()), "json": codes(string(b)),
					"canread": e.CanRead(o), "canread_rev": o.CanRead(e), "self": e.CanRead(e),
					"rt": epochFromJSON(string(b)), "doc": epochFromJSON(docJSON(e)), "ydoc": epochFromYAML(docYAML(e))}})
		case 4: // a short form
			s := strconv.Itoa(r.Intn([]int{5, 100, big}[r.Intn(3)]))
			if r.Intn(2) == 0 {
				s += "*"
			}
			if r.Intn(3) == 0 {
				s = c35MutateRev(r, s)
			}
			em.emit(map[string]interface{}{"case": i, "kind": "short", "s": codes(s), "text": s,
				"got": map[string]interface{}{"e": epochFromE(s), "json": epochFromJSON(`"` + s + `"`)}})
		}
	}
}
