package revepoch

import (
	"encoding/json"
	"fmt"
	"strings"
	"testing"

	"github.com/snapcore/snapd/snap"
	"gopkg.in/yaml.v2"
)

// ---- C35 history dimension (spec/RevEpochHistory.tla) ----
// One destination snap.Epoch is reused for every decode of a history (json.Unmarshal / yaml.Unmarshal,
// every format assignment); a copy is kept after each decode, the way `list = append(list, item)`
// does. After the WHOLE history every kept copy and the final value are judged against the
// denotation of the text they were decoded from: the result must be a function of the text alone.

type tHistText struct {
	Short  bool     `json:"short"`
	S      []int    `json:"s"`
	R      tList    `json:"r"`
	W      tList    `json:"w"`
	Ok     bool     `json:"ok"`
	ER     []uint32 `json:"er"`
	EW     []uint32 `json:"ew"`
	Str    []int    `json:"str"`
	Valid  bool     `json:"valid"`
	Reads  []bool   `json:"reads"`
	ReadBy []bool   `json:"readby"`
}

type tHistTable struct {
	K     int         `json:"k"`
	Texts []tHistText `json:"texts"`
	Peers []struct {
		R []uint32 `json:"r"`
		W []uint32 `json:"w"`
	} `json:"peers"`
	Hists [][]int `json:"hists"`
}

func (t tHistText) jsonDoc() string {
	if t.Short {
		return `"` + fromCodes(t.S) + `"`
	}
	return docJSON(goEpoch(t.R, t.W))
}

func (t tHistText) yamlDoc() string {
	if t.Short {
		return "epoch: \"" + fromCodes(t.S) + "\"\n"
	}
	return docYAML(goEpoch(t.R, t.W))
}

func TestVerifC35History(t *testing.T) {
	em := newEmitter(t, "VERIF_OUT")
	defer em.close()
	rp := newReporter(em, "history")
	var runs, decodes, judged int
	outcomes := map[string]bool{}
	for _, path := range envFiles("VERIF_TABLES") {
		var tb tHistTable
		readJSON(t, path, &tb)
		peers := make([]snap.Epoch, len(tb.Peers))
		for i, p := range tb.Peers {
			peers[i] = snap.Epoch{Read: append([]uint32{}, p.R...), Write: append([]uint32{}, p.W...)}
		}
		for _, h := range tb.Hists {
			for fm := 0; fm < 1<<uint(len(h)); fm++ { // bit i: step i decoded from YAML instead of JSON
				runs++
				var holder yEpoch // the ONE destination, reused by every step
				kept := make([]snap.Epoch, 0, len(h))
				errs := make([]error, len(h))
				var name []string
				for i, ti := range h {
					tx := tb.Texts[ti-1]
					if fm&(1<<uint(i)) != 0 {
						errs[i] = yaml.Unmarshal([]byte(tx.yamlDoc()), &holder)
						name = append(name, "yaml "+strings.TrimSpace(strings.TrimPrefix(tx.yamlDoc(), "epoch: ")))
					} else {
						errs[i] = json.Unmarshal([]byte(tx.jsonDoc()), &holder.E)
						name = append(name, "json "+tx.jsonDoc())
					}
					decodes++
					kept = append(kept, holder.E) // a copy of the value, as appending to a list makes
				}
				call := strings.Join(name, " ; ")
				for i, ti := range h {
					tx := tb.Texts[ti-1]
					who := fmt.Sprintf("%s => copy %d", call, i+1)
					if (errs[i] == nil) != tx.Ok {
						rp.report("epoch-history-accept", who, fmt.Sprintf("ok=%v", tx.Ok), fmt.Sprintf("err=%v", errs[i]))
						continue
					}
					if !tx.Ok {
						continue // a refused decode: the destination is not judged
					}
					judged++
					e := kept[i]
					outcomes[epKey(e)] = true
					exp := tFlat{Ok: true, R: tx.ER, W: tx.EW}
					if got := flatOf(e, nil); !got.eq(exp) {
						rp.report("epoch-history", who, exp.String(), got.String())
						continue
					}
					if got := e.String(); got != fromCodes(tx.Str) {
						rp.report("epoch-history-string", who, fromCodes(tx.Str), got)
					}
					if got := e.Validate() == nil; got != tx.Valid {
						rp.report("epoch-history-validate", who, fmt.Sprint(tx.Valid), fmt.Sprint(got))
					}
					for p := range peers {
						if got := e.CanRead(peers[p]); got != tx.Reads[p] {
							rp.report("epoch-history-canread", fmt.Sprintf("%s CanRead(%s)", who, epKey(peers[p])), fmt.Sprint(tx.Reads[p]), fmt.Sprint(got))
						}
						if got := peers[p].CanRead(e); got != tx.ReadBy[p] {
							rp.report("epoch-history-canread", fmt.Sprintf("%s read by %s", who, epKey(peers[p])), fmt.Sprint(tx.ReadBy[p]), fmt.Sprint(got))
						}
					}
				}
				// the final value of the destination = the copy taken after the last successful decode
				for i := len(h) - 1; i >= 0; i-- {
					if errs[i] == nil {
						if got, want := flatOf(holder.E, nil), flatOf(kept[i], nil); i == len(h)-1 && !got.eq(want) {
							rp.report("epoch-history", call+" => final value", want.String(), got.String())
						}
						break
					}
				}
			}
		}
	}
	em.emit(map[string]interface{}{"kind": "stats", "histories_replayed": runs, "decodes": decodes, "copies_judged": judged,
		"evaluations": decodes + judged*(3+2*7), "mismatches": rp.total, "by_class": rp.byClass, "distinct_outcomes": len(outcomes)})
}
