// Package revepoch: driver for the reference-table property C35 (snap.Revision / snap.Epoch vs RevEpoch.tla).
// Helpers copied from harness/ext/reftables/util_test.go.
package revepoch

import (
	"bufio"
	"encoding/json"
	"math/rand"
	"os"
	"strconv"
	"strings"
	"testing"
)

type emitter struct {
	f *os.File
	w *bufio.Writer
	e *json.Encoder
}

func newEmitter(t *testing.T, env string) *emitter {
	p := os.Getenv(env)
	if p == "" {
		t.Fatalf("%s not set", env)
	}
	f, err := os.Create(p)
	if err != nil {
		t.Fatal(err)
	}
	w := bufio.NewWriterSize(f, 1<<20)
	e := json.NewEncoder(w)
	e.SetEscapeHTML(false)
	return &emitter{f: f, w: w, e: e}
}

func (em *emitter) emit(v interface{}) {
	if err := em.e.Encode(v); err != nil {
		panic(err)
	}
}

func (em *emitter) close() {
	em.w.Flush()
	em.f.Close()
}

func envInt(name string, dflt int) int {
	if s := os.Getenv(name); s != "" {
		n, err := strconv.Atoi(s)
		if err == nil {
			return n
		}
	}
	return dflt
}

func envFiles(name string) []string {
	var out []string
	for _, s := range strings.Split(os.Getenv(name), ",") {
		if s != "" {
			out = append(out, s)
		}
	}
	return out
}

func seededRand() *rand.Rand {
	return rand.New(rand.NewSource(int64(envInt("VERIF_SEED", 1))))
}

func readJSON(t *testing.T, path string, v interface{}) {
	f, err := os.Open(path)
	if err != nil {
		t.Fatal(err)
	}
	defer f.Close()
	if err := json.NewDecoder(bufio.NewReaderSize(f, 1<<20)).Decode(v); err != nil {
		t.Fatalf("decoding %s: %v", path, err)
	}
}

func codes(s string) []int {
	out := make([]int, len(s))
	for i := 0; i < len(s); i++ {
		out[i] = int(s[i])
	}
	return out
}

func fromCodes(c []int) string {
	b := make([]byte, len(c))
	for i, x := range c {
		b[i] = byte(x)
	}
	return string(b)
}
