package restartmgr

import (
	"encoding/json"
	"fmt"
	"math/rand"
	"os"
	"path/filepath"
	"strconv"
	"strings"
	"testing"
)

func envInt(name string, def int) int {
	if v := os.Getenv(name); v != "" {
		if n, err := strconv.Atoi(v); err == nil {
			return n
		}
	}
	return def
}

var boundMenu = [][]string{{}, {}, {}, {"do"}, {"do"}, {"undo"}, {"undo"}, {"do", "undo"}}

func randGraph(r *rand.Rand, n, nc int) Graph {
	g := Graph{N: n, NC: nc, Classic: r.Intn(3) == 0}
	g.Chg = make([]int, n)
	for i := 0; i < n; i++ {
		g.Chg[i] = 1 + r.Intn(nc)
	}
	for c := 1; c <= nc; c++ {
		g.Chg[(c-1)%n] = c
	}
	p := []float64{0.15, 0.4, 0.7}[r.Intn(3)]
	// boundary density: none at all (the "no boundary: everything waits" default), sparse, dense
	dens := r.Intn(3)
	for i := 1; i <= n; i++ {
		w := []int{}
		for j := 1; j < i; j++ {
			if g.Chg[j-1] == g.Chg[i-1] && r.Float64() < p {
				w = append(w, j)
			}
		}
		g.Waits = append(g.Waits, w)
		g.Lanes = append(g.Lanes, []int{0})
		g.Undo = append(g.Undo, r.Float64() < 0.9)
		g.Kind = append(g.Kind, "neutral")
		g.Snap = append(g.Snap, 0)
		b := []string{}
		switch dens {
		case 1:
			if r.Intn(3) == 0 {
				b = boundMenu[3+r.Intn(len(boundMenu)-3)]
			}
		case 2:
			b = boundMenu[r.Intn(len(boundMenu))]
		}
		g.Bound = append(g.Bound, append([]string{}, b...))
	}
	return g
}

type budget struct{ fail, retry, calls, snapd, reboot, abort int }

func quiescent(p proj) bool {
	if len(p.Running) > 0 {
		return false
	}
	for _, s := range p.Status {
		if s != "Done" && s != "Undone" && s != "Hold" && s != "Error" {
			return false
		}
	}
	return true
}

func has(xs []int, x int) bool {
	for _, y := range xs {
		if y == x {
			return true
		}
	}
	return false
}

func (e *Engine) reboot(newBoot bool) error {
	b := e.bootID
	if newBoot {
		b++
	}
	if err := e.Boot(b); err != nil {
		return err
	}
	return e.StartUp()
}

var tyMenu = []string{"system", "system", "system", "now", "now", "daemon"}

// runCase drives one execution with a seeded random scheduler, then drains it fairly.
func runCase(r *rand.Rand, g Graph, caseID string, enc *json.Encoder, b budget) error {
	e, err := NewEngine(g, caseID, enc)
	if err != nil {
		return err
	}
	defer e.Close()
	type act struct {
		w    float64
		name string
		t    int
	}
	for step := 0; step < 60+20*g.N; step++ {
		p := e.project()
		if quiescent(p) {
			break
		}
		var acts []act
		acts = append(acts, act{4, "ensure", 0})
		waiting := false
		for i, s := range p.Status {
			if s == "Wait" && p.WB[i] != 0 {
				waiting = true
			}
		}
		for _, t := range p.Running {
			acts = append(acts, act{3, "finish", t})
			if b.calls > 0 && !has(p.Called, t) {
				acts = append(acts, act{2.5, "call", t})
			}
		}
		for c := 1; c <= g.NC; c++ {
			if !p.Rdy[c-1] && b.abort > 0 {
				acts = append(acts, act{0.25, "abort", c})
			}
		}
		future := false
		for i := range p.Status {
			if p.At[i] > p.Now {
				future = true
			}
		}
		if future {
			acts = append(acts, act{3, "tick", 0})
		}
		if b.snapd > 0 {
			w := 0.3
			if waiting {
				w = 1.0
			}
			acts = append(acts, act{w, "snapd", 0})
		}
		if b.reboot > 0 {
			w := 0.15
			if waiting && len(p.Running) == 0 {
				w = 3
			}
			acts = append(acts, act{w, "reboot", 0})
		}
		tot := 0.0
		for _, a := range acts {
			tot += a.w
		}
		x := r.Float64() * tot
		var a act
		for _, a = range acts {
			if x < a.w {
				break
			}
			x -= a.w
		}
		switch a.name {
		case "ensure":
			if err := e.Ensure(); err != nil {
				return err
			}
		case "finish":
			res := result{Res: "ok"}
			if !has(p.Called, a.t) {
				y := r.Float64()
				switch {
				case y < 0.2 && b.fail > 0:
					res.Res = "err"
					b.fail--
				case y < 0.28 && b.retry > 0:
					res.Res = "retry"
					res.After = r.Intn(3)
					b.retry--
				}
			}
			if err := e.Finish(a.t, res); err != nil {
				return err
			}
		case "call":
			how := "finish"
			ty := tyMenu[r.Intn(len(tyMenu))]
			s := p.Status[a.t-1]
			if (s == "Doing" || s == "Undoing") && r.Intn(6) == 0 {
				how, ty = "waitfor", "system"
			}
			if err := e.Call(a.t, how, ty); err != nil {
				return err
			}
			b.calls--
		case "abort":
			if e.Abort(a.t) {
				return nil // the real Change.Abort panicked (AbortPanic recorded): the case ends here
			}
			b.abort--
		case "tick":
			e.Tick()
		case "snapd":
			if err := e.reboot(false); err != nil {
				return err
			}
			b.snapd--
		case "reboot":
			if err := e.reboot(true); err != nil {
				return err
			}
			b.reboot--
		}
	}
	return drain(e)
}

// drain: a fair schedule in which every handler returns ok and the system is rebooted whenever a task waits
// for a restart and nothing else can make progress; emits "Stuck" if the changes do not settle
func drain(e *Engine) error {
	g := e.g
	for i := 0; i < 40+20*g.N; i++ {
		p := e.project()
		if quiescent(p) {
			return e.Ensure() // one more pass so that cleaning happens
		}
		if err := e.Ensure(); err != nil {
			return err
		}
		p = e.project()
		for _, t := range p.Running {
			if err := e.Finish(t, result{Res: "ok"}); err != nil {
				return err
			}
		}
		p = e.project()
		tick := false
		waiting := false
		for i, s := range p.Status {
			if s == "Wait" && p.WB[i] != 0 {
				waiting = true
			}
			if p.At[i] > p.Now {
				tick = true
			}
		}
		if tick {
			e.Tick()
		}
		if waiting && len(p.Running) == 0 {
			idle := true
			for _, cs := range p.ChgSt {
				if cs == "Do" || cs == "Doing" || cs == "Undo" || cs == "Undoing" || cs == "Abort" {
					idle = false
				}
			}
			if idle {
				if err := e.reboot(true); err != nil {
					return err
				}
			}
		}
	}
	e.emit(event{Ev: "Stuck"})
	return nil
}

// ---------------------------------------------------------------------------------------------------
// Directed executions (N=3, one change). Actions: E (Ensure), F<t><res> (res ok|err|retry<h>),
// C<t><how><ty> (how f = FinishTaskWithRestart, w = TaskWaitForRestart; ty s = system, n = system-now,
// d = daemon), A (user abort), R (reboot: new boot id), S (snapd restarted, same boot id), T (tick);
// a fair drain follows.
type directed struct {
	name    string
	g       Graph
	actions string
}

func g3(classic bool, waits [][]int, bound [][]string) Graph {
	return Graph{N: 3, NC: 1, Waits: waits, Lanes: [][]int{{0}, {0}, {0}}, Undo: []bool{true, true, true},
		Chg: []int{1, 1, 1}, Kind: []string{"neutral", "neutral", "neutral"}, Snap: []int{0, 0, 0},
		Bound: bound, Classic: classic}
}

var chain = [][]int{{}, {1}, {2}}
var indep = [][]int{{}, {}, {}}
var fork = [][]int{{}, {1}, {1}}
var join = [][]int{{}, {}, {1, 2}}
var noB = [][]string{{}, {}, {}}

var directedCases = []directed{
	// no boundary: the task waits, the change is idle at once -> request; snapd restart resolves nothing; reboot does
	{"core-chain-wait-snapd-reboot", g3(false, chain, noB), "E C1fs F1ok E S E R E F2ok E F3ok E"},
	// others still running: the request is postponed until the last of them finishes
	{"core-indep-postponed", g3(false, indep, noB), "E C1fs F1ok E F2ok E F3ok"},
	// the waiter of the waiting task is blocked, an independent task still runs
	{"core-fork-postponed", g3(false, [][]int{{}, {1}, {}}, noB), "E C1fs F1ok E F3ok E S R E"},
	// boundary on 2 (do): 1 is not a boundary -> Done directly, restart stays scheduled; 2 waits -> request
	{"core-boundary-later", g3(false, chain, [][]string{{}, {"do"}, {}}), "E C1fs F1ok E C2fs F2ok E R E F3ok E"},
	// boundary on 1 only: 2 asks for a restart, is not a boundary -> Done; the restart is requested when the change is Done
	{"core-boundary-earlier-request-at-done", g3(false, chain, [][]string{{"do"}, {}, {}}), "E F1ok E C2fs F2ok E F3ok E"},
	// undo direction, a do-boundary does not count: the undoing task waits with Undone
	{"core-undo-do-boundary-ignored", g3(false, chain, [][]string{{"do"}, {}, {}}), "E F1ok E F2ok E F3err E C2fs F2ok E R E"},
	// undo boundary on 1: undo of 2 is not a boundary -> Undone directly; undo of 1 waits
	{"core-undo-boundary", g3(false, chain, [][]string{{"undo"}, {}, {}}), "E F1ok E F2ok E F3err E C2fs F2ok E C1fs F1ok E R E"},
	// an undo boundary does not count in the do direction
	{"core-do-undo-boundary-ignored", g3(false, chain, [][]string{{}, {"undo"}, {}}), "E C1fs F1ok E R E"},
	// classic, do: the task waits, the restart is announced, not requested
	{"classic-do-wait-announce", g3(true, chain, noB), "E C1fs F1ok E S E R E"},
	// classic, undo: no wait, no restart
	{"classic-undo-skipped", g3(true, chain, noB), "E F1ok E F2ok E F3err E C2fs F2ok E"},
	// classic: a restart scheduled in the do direction is unscheduled by the undo
	{"classic-undo-unschedules", g3(true, chain, [][]string{{}, {}, {"do"}}), "E C1fs F1ok E F2err E C1fs F1ok E"},
	// TaskWaitForRestart: re-run after the reboot
	{"core-waitfor-rerun", g3(false, [][]int{{}, {}, {1, 2}}, noB), "E C1fs F1ok C2ws F2ok E S E R E F2ok E"},
	// stronger type wins; one request
	{"core-two-requesters-now-wins", g3(false, join, noB), "E C1fs F1ok C2fn F2ok E R E"},
	{"core-two-requesters-now-first", g3(false, join, noB), "E C1fn F1ok C2fs F2ok E R E"},
	// daemon restart: immediate, task done
	{"core-daemon-immediate", g3(false, indep, noB), "E C1fd F1ok F2ok F3ok"},
	// user abort while a task waits for the restart
	{"core-abort-while-waiting", g3(false, chain, noB), "E C1fs F1ok E A E"},
	// a failure elsewhere aborts a task that is asking for a restart: it stays Abort and is undone
	{"core-abort-during-call", g3(false, indep, noB), "E F2err C1fs F1ok E"},
	// known finding (C03, "Change.Abort panics: change unexpectedly became unready") reached on a forward DAG:
	// 1 waits for a restart via TaskWaitForRestart (effective status Do), 2 waits for 1, the independent 3 is
	// Done; Change.Abort puts 1 and 2 on Hold (change marked ready), then flips 3 Done -> Undo -> panic
	{"core-abort-waitfor-known-panic", g3(false, [][]int{{}, {1}, {}}, noB), "E F3ok C1ws F1ok A"},
	// crash between the handler's call and its return
	{"core-crash-after-call", g3(false, chain, noB), "E C1fs S E R E"},
	// reboot (power cut) while the restart is only scheduled: it is still requested when the change runs out of tasks
	{"core-reboot-while-scheduled", g3(false, indep, [][]string{{}, {}, {"do"}}), "E C1fs F1ok R E F2ok F3ok"},
	// two boots in a row, second wait on the new boot id
	{"core-two-waits-two-boots", g3(false, chain, noB), "E C1fs F1ok E R E C2fs F2ok E S E R E"},
}

func runDirected(d directed, id string, enc *json.Encoder) error {
	e, err := NewEngine(d.g, id, enc)
	if err != nil {
		return err
	}
	defer e.Close()
	for _, a := range strings.Fields(d.actions) {
		p := e.project()
		switch a[0] {
		case 'E':
			if err := e.Ensure(); err != nil {
				return err
			}
		case 'F':
			t := int(a[1] - '0')
			if !has(p.Running, t) {
				continue // the real engine did not have it in flight (a mutated tree may differ): skip
			}
			res := result{Res: a[2:]}
			if strings.HasPrefix(a[2:], "retry") {
				res.Res = "retry"
				res.After, _ = strconv.Atoi(a[7:])
			}
			if err := e.Finish(t, res); err != nil {
				return err
			}
		case 'C':
			t := int(a[1] - '0')
			if !has(p.Running, t) || has(p.Called, t) {
				continue
			}
			how := map[byte]string{'f': "finish", 'w': "waitfor"}[a[2]]
			ty := map[byte]string{'s': "system", 'n': "now", 'd': "daemon"}[a[3]]
			if how == "waitfor" && p.Status[t-1] != "Doing" && p.Status[t-1] != "Undoing" {
				continue
			}
			if err := e.Call(t, how, ty); err != nil {
				return err
			}
		case 'A':
			if !p.Rdy[0] {
				if e.Abort(1) {
					return nil
				}
			}
		case 'R':
			if err := e.reboot(true); err != nil {
				return err
			}
		case 'S':
			if err := e.reboot(false); err != nil {
				return err
			}
		case 'T':
			e.Tick()
		default:
			return fmt.Errorf("HARNESS: bad directed action %q", a)
		}
	}
	return drain(e)
}

// TestVerifRestartMgr writes traces grouped by (N, NC): $VERIF_OUT_DIR/trace_n<N>_c<NC>.ndjson
func TestVerifRestartMgr(t *testing.T) {
	dir := os.Getenv("VERIF_OUT_DIR")
	if dir == "" {
		t.Skip("VERIF_OUT_DIR not set")
	}
	seed := int64(envInt("VERIF_SEED", 1))
	cases := envInt("VERIF_CASES", 40)
	shapes := [][2]int{{3, 1}, {4, 1}, {4, 2}}
	if s := os.Getenv("VERIF_SHAPES"); s != "" {
		shapes = nil
		for _, part := range strings.Split(s, ",") {
			var n, c int
			fmt.Sscanf(part, "%dx%d", &n, &c)
			shapes = append(shapes, [2]int{n, c})
		}
	}
	only := os.Getenv("VERIF_ONLY")
	total := 0
	for _, sh := range shapes {
		n, nc := sh[0], sh[1]
		f, enc := openOut(filepath.Join(dir, fmt.Sprintf("trace_n%d_c%d.ndjson", n, nc)))
		r := rand.New(rand.NewSource(seed*1000003 + int64(n*10+nc)))
		if n == 3 && nc == 1 {
			for _, d := range directedCases {
				id := "directed-" + d.name
				if only != "" && only != id {
					continue
				}
				if err := runDirected(d, id, enc); err != nil {
					f.Close()
					t.Fatalf("case %s: %v", id, err)
				}
				total++
			}
		}
		for k := 0; k < cases && only == ""; k++ {
			g := randGraph(r, n, nc)
			b := budget{fail: r.Intn(2), retry: r.Intn(2), calls: 1 + r.Intn(3), snapd: r.Intn(2), reboot: r.Intn(2)}
			if r.Intn(6) == 0 {
				b.abort = 1
			}
			id := fmt.Sprintf("s%d-n%dc%d-k%d", seed, n, nc, k)
			if err := runCase(r, g, id, enc, b); err != nil {
				f.Close()
				t.Fatalf("case %s: %v", id, err)
			}
			total++
		}
		f.Close()
	}
	fmt.Printf("VERIF-CASES %d\n", total)
}
