// Package restartmgr drives the real overlord/restart manager on top of the real overlord/state task engine
// (State, Change, Task, TaskRunner) under a scripted scheduler and records one NDJSON event per critical
// section, for validation against spec/RestartBoundary.tla (see spec/TraceRestartBoundary.tla).
//
// The engine part (gated handlers, start observation through the "Running task" debug line, checkpoint
// synchronisation) follows harness/ext/taskengine; added here: a real restart.Manager with a recording
// restart.Handler, handlers that call restart.FinishTaskWithRestart / restart.TaskWaitForRestart on command,
// "reboot" (ReadState from the checkpoint bytes + Manager with a new boot id + StartUp) and "restart of
// snapd without reboot" (same, with the same boot id), release.OnClassic mocking and a reboot-required
// notifier script under a private root dir.
package restartmgr

import (
	"bytes"
	"encoding/json"
	"errors"
	"fmt"
	"os"
	"path/filepath"
	"regexp"
	"sort"
	"strings"
	"sync"
	"time"

	"gopkg.in/tomb.v2"

	"github.com/snapcore/snapd/boot"
	"github.com/snapcore/snapd/bootloader"
	"github.com/snapcore/snapd/dirs"
	"github.com/snapcore/snapd/logger"
	"github.com/snapcore/snapd/overlord/restart"
	"github.com/snapcore/snapd/overlord/state"
	"github.com/snapcore/snapd/release"
)

// Graph is the shape of the change(s) under test; tasks are 1..N (task i at slice position i-1).
type Graph struct {
	N       int        `json:"n"`
	NC      int        `json:"nc"`
	Waits   [][]int    `json:"waits"` // Waits[i-1] = tasks that task i waits for (ascending)
	Lanes   [][]int    `json:"lanes"` // [0] = none
	Undo    []bool     `json:"undo"`
	Chg     []int      `json:"chg"`
	Kind    []string   `json:"kind"`
	Snap    []int      `json:"snap"`
	Bound   [][]string `json:"bound"`   // restart-boundary marks of each task: subset of {"do","undo"}
	Classic bool       `json:"classic"` // release.OnClassic
}

type callOut struct {
	Pre string // task status when the call was made
	S   string // status handed to FinishTaskWithRestart
	Lg  string // task log line written by the call: wait | requested | skipped | none | other:<text>
	Err string
}

type result struct {
	Res   string // ok | err | retry | call
	After int
	How   string // call: finish | waitfor
	Ty    string // call: system | now | daemon
	ack   chan callOut
}

type startRec struct {
	T    int      `json:"t"`
	Ph   string   `json:"ph"`
	Snap []string `json:"snap"`
	At   int      `json:"at"`
	Now  int      `json:"now"`
}

type chgNote struct {
	C   int    `json:"c"`
	Old string `json:"old"`
	New string `json:"new"`
}

// reqRec is one Handler.HandleRestart call, observed under the state lock at the instant of the call.
type reqRec struct {
	C    int      `json:"c"`  // change the request belongs to (carried through the bootloader options; 0 unknown)
	Ty   string   `json:"ty"` // system | now | daemon | other
	Snap []string `json:"snap"`
}

// ntRec is one classic "reboot required" announcement (notifier script run + "Postponing restart" notice).
type ntRec struct {
	C    int      `json:"c"`
	Snap []string `json:"snap"`
}

type proj struct {
	Status  []string `json:"status"`
	Waited  []string `json:"waited"`
	At      []int    `json:"at"`
	Clean   []int    `json:"clean"`
	Now     int      `json:"now"`
	Running []int    `json:"running"`
	Rdy     []bool   `json:"rdy"`
	ChgSt   []string `json:"chgst"`
	Stopped bool     `json:"stopped"`
	// restart manager
	Pend    []string   `json:"pend"`    // per change: none | system | now | other
	Wfsr    []bool     `json:"wfsr"`    // per change: wait-for-system-restart
	WB      []int      `json:"wb"`      // per task: wait-for-system-restart-from-boot-id (0 unset)
	From    int        `json:"from"`    // system-restart-from-boot-id (0 unset)
	Boot    int        `json:"boot"`    // boot id of the running manager
	Started bool       `json:"started"` // StartUp done in this process
	Called  []int      `json:"called"`
	PFC     []bool     `json:"pfc"`  // restart.PendingForChange per change
	Mark    [][]string `json:"mark"` // restart-boundary marks as read back from the tasks
}

type event struct {
	Ev     string     `json:"ev"`
	Case   string     `json:"case"`
	G      *Graph     `json:"g,omitempty"`
	T      int        `json:"t"`
	C      int        `json:"c"`
	Res    string     `json:"res"`
	After  int        `json:"after"`
	How    string     `json:"how"`
	Ty     string     `json:"ty"`
	P      string     `json:"p"`  // HRestart: status of the task when the handler made the call
	S      string     `json:"s"`  // HRestart: status handed in
	Lg     string     `json:"lg"` // HRestart: task log category
	CErr   string     `json:"cerr"`
	B      int        `json:"b"`  // Boot: boot id of the new process
	Cb     string     `json:"cb"` // Boot: as-expected | did-not-happen | none
	Starts []startRec `json:"starts"`
	Notes  []chgNote  `json:"notes"`
	Rq     []reqRec   `json:"rq"`
	Nt     []ntRec    `json:"nt"`
	NtFile int        `json:"ntfile"` // lines the notifier script appended in this section
	Inv    []int      `json:"inv"`
	St     proj       `json:"st"`
}

type memBackend struct {
	mu   sync.Mutex
	last []byte
	n    int
}

func (b *memBackend) Checkpoint(data []byte) error {
	b.mu.Lock()
	b.last = append([]byte(nil), data...)
	b.n++
	b.mu.Unlock()
	return nil
}
func (b *memBackend) EnsureBefore(d time.Duration) {}
func (b *memBackend) count() int {
	b.mu.Lock()
	defer b.mu.Unlock()
	return b.n
}

var base = time.Date(2030, 1, 1, 0, 0, 0, 0, time.UTC)

func hours(t time.Time) int {
	if t.IsZero() {
		return 0
	}
	return int(t.Sub(base) / time.Hour)
}

type startMsg struct {
	gen, t int
	ph     string
}

// Engine wraps one real State + restart manager + TaskRunner generation.
type Engine struct {
	g       Graph
	caseID  string
	out     *json.Encoder
	be      *memBackend
	st      *state.State
	runner  *state.TaskRunner
	mgr     *restart.RestartManager
	tasks   []*state.Task
	chgs    []*state.Change
	idx     map[string]int
	gen     int
	now     int
	bootID  int
	started bool
	root    string

	mu          sync.Mutex
	gates       map[int]chan result
	startedCh   chan startMsg
	running     map[int]bool
	called      map[int]bool
	passLog     []startRec
	notes       []chgNote
	rq          []reqRec
	ntSnaps     [][]string
	bootCb      string
	inv         []int
	ntSeen      int
	restoreTime func()
	restoreCl   func()
}

var runningRe = regexp.MustCompile(`^Running task (\d+) on (\w+):`)

type engLogger struct {
	e   *Engine
	gen int
}

func (l engLogger) NoGuardDebug(msg string) {}
func (l engLogger) Notice(msg string) {
	e := l.e
	if l.gen != e.gen {
		return
	}
	if strings.Contains(msg, "Postponing restart until a manual system restart allows to continue") {
		// inside processRestartForChange, state lock held
		snap := e.statuses()
		e.mu.Lock()
		e.ntSnaps = append(e.ntSnaps, snap)
		e.mu.Unlock()
	}
}
func (l engLogger) Debug(msg string) {
	m := runningRe.FindStringSubmatch(msg)
	if m == nil {
		return
	}
	e := l.e
	if l.gen != e.gen {
		return
	}
	i, ok := e.idx[m[1]]
	if !ok {
		return
	}
	ph := "do"
	if m[2] == "Undo" || m[2] == "Undoing" {
		ph = "undo"
	}
	rec := startRec{T: i, Ph: ph, Snap: e.statuses(), At: hours(e.tasks[i-1].AtTime()), Now: e.now}
	e.mu.Lock()
	e.passLog = append(e.passLog, rec)
	e.mu.Unlock()
}

// recHandler is the recording restart.Handler.
type recHandler struct {
	e   *Engine
	gen int
}

func tyName(t restart.RestartType) string {
	switch t {
	case restart.RestartSystem:
		return "system"
	case restart.RestartSystemNow:
		return "now"
	case restart.RestartDaemon:
		return "daemon"
	}
	return fmt.Sprintf("other-%d", int(t))
}

func (h *recHandler) HandleRestart(t restart.RestartType, info *boot.RebootInfo) {
	e := h.e
	if h.gen != e.gen {
		return
	}
	c := 0
	if info != nil && info.BootloaderOptions != nil {
		fmt.Sscanf(string(info.BootloaderOptions.Role), "c%d", &c)
	}
	// called with the state lock held (from a task handler's own section or from the change status hook)
	rec := reqRec{C: c, Ty: tyName(t), Snap: e.statuses()}
	e.mu.Lock()
	e.rq = append(e.rq, rec)
	e.mu.Unlock()
}
func (h *recHandler) RebootAsExpected(st *state.State) error {
	if h.gen == h.e.gen {
		h.e.bootCb = "as-expected"
	}
	return nil
}
func (h *recHandler) RebootDidNotHappen(st *state.State) error {
	if h.gen == h.e.gen {
		h.e.bootCb = "did-not-happen"
	}
	return nil
}

func (e *Engine) statuses() []string {
	out := make([]string, e.g.N)
	for i, t := range e.tasks {
		out[i] = t.Status().String()
	}
	return out
}

func (e *Engine) kindName(i int) string {
	if e.g.Undo[i-1] {
		return "with-undo"
	}
	return "no-undo"
}

func (e *Engine) setTime(h int) {
	e.now = h
	if e.restoreTime != nil {
		e.restoreTime()
	}
	e.restoreTime = state.MockTime(base.Add(time.Duration(h) * time.Hour))
}

func bootName(b int) string { return fmt.Sprintf("boot-%d", b) }
func bootNum(s string) int {
	if s == "" {
		return 0
	}
	n := -1
	fmt.Sscanf(s, "boot-%d", &n)
	return n
}

func (e *Engine) notifyFile() string { return filepath.Join(e.root, "notified") }

// NewEngine builds the real objects for graph g and logs the Init event.
func NewEngine(g Graph, caseID string, out *json.Encoder) (*Engine, error) {
	e := &Engine{g: g, caseID: caseID, out: out}
	root, err := os.MkdirTemp("", "verif-restartmgr-")
	if err != nil {
		return nil, fmt.Errorf("HARNESS: %v", err)
	}
	e.root = root
	dirs.SetRootDir(root)
	nrr := filepath.Join(root, "usr/share/update-notifier/notify-reboot-required")
	if err := os.MkdirAll(filepath.Dir(nrr), 0755); err != nil {
		return nil, fmt.Errorf("HARNESS: %v", err)
	}
	script := fmt.Sprintf("#!/bin/sh\necho \"$1\" >> %s\n", e.notifyFile())
	if err := os.WriteFile(nrr, []byte(script), 0755); err != nil {
		return nil, fmt.Errorf("HARNESS: %v", err)
	}
	e.restoreCl = release.MockOnClassic(g.Classic)
	e.be = &memBackend{}
	e.startedCh = make(chan startMsg, 1024)
	e.inv = make([]int, g.N)
	e.setTime(1)
	e.bootID = 1
	e.st = state.New(e.be)
	e.gen++
	logger.SetLogger(engLogger{e: e, gen: e.gen})
	e.bootCb = "none"
	e.st.Lock()
	mgr, err := restart.Manager(e.st, bootName(e.bootID), &recHandler{e: e, gen: e.gen})
	e.st.Unlock()
	if err != nil {
		return nil, fmt.Errorf("HARNESS: restart.Manager: %v", err)
	}
	e.mgr = mgr
	e.build()
	if err := e.mgr.StartUp(); err != nil {
		return nil, fmt.Errorf("HARNESS: StartUp: %v", err)
	}
	e.started = true
	e.newRunner()
	e.emit(event{Ev: "Init", G: &e.g, Cb: e.bootCb, B: e.bootID})
	return e, nil
}

func (e *Engine) build() {
	g := e.g
	e.st.Lock()
	e.chgs = make([]*state.Change, g.NC)
	for c := 1; c <= g.NC; c++ {
		e.chgs[c-1] = e.st.NewChange("verif", fmt.Sprintf("change %d", c))
	}
	laneID := map[int]int{0: 0}
	e.tasks = make([]*state.Task, g.N)
	e.idx = make(map[string]int)
	for i := 1; i <= g.N; i++ {
		t := e.st.NewTask(e.kindName(i), fmt.Sprintf("task %d", i))
		e.tasks[i-1] = t
		e.idx[t.ID()] = i
	}
	for i := 1; i <= g.N; i++ {
		for _, l := range g.Lanes[i-1] {
			if l == 0 {
				continue
			}
			if _, ok := laneID[l]; !ok {
				laneID[l] = e.st.NewLane()
			}
		}
	}
	for i := 1; i <= g.N; i++ {
		for _, l := range g.Lanes[i-1] {
			if l != 0 {
				e.tasks[i-1].JoinLane(laneID[l])
			}
		}
	}
	for i := 1; i <= g.N; i++ {
		for _, w := range g.Waits[i-1] {
			e.tasks[i-1].WaitFor(e.tasks[w-1])
		}
	}
	for i := 1; i <= g.N; i++ {
		e.chgs[g.Chg[i-1]-1].AddTask(e.tasks[i-1])
		var dir restart.RestartBoundaryDirection
		for _, d := range g.Bound[i-1] {
			switch d {
			case "do":
				dir |= restart.RestartBoundaryDirectionDo
			case "undo":
				dir |= restart.RestartBoundaryDirectionUndo
			}
		}
		if dir != 0 {
			restart.MarkTaskAsRestartBoundary(e.tasks[i-1], dir)
		}
	}
	e.st.Unlock()
}

// doCall runs inside a task handler: the handler's own critical section calling the restart manager.
func (e *Engine) doCall(t *state.Task, i int, ph, how, ty string) callOut {
	st := t.State()
	st.Lock()
	defer st.Unlock()
	out := callOut{Pre: t.Status().String(), S: "Done"}
	if ph == "undo" {
		out.S = "Undone"
	}
	nlog := len(t.Log())
	c := e.g.Chg[i-1]
	var err error
	switch how {
	case "finish":
		status := state.DoneStatus
		if ph == "undo" {
			status = state.UndoneStatus
			out.S = "Undone"
		}
		rt := restart.RestartSystem
		switch ty {
		case "now":
			rt = restart.RestartSystemNow
		case "daemon":
			rt = restart.RestartDaemon
		}
		tag := fmt.Sprintf("c%d", c)
		info := &boot.RebootInfo{RebootRequired: true, BootloaderOptions: &bootloader.Options{Role: bootloader.Role(tag)}}
		err = restart.FinishTaskWithRestart(t, status, rt, tag, info)
	case "waitfor":
		err = restart.TaskWaitForRestart(t)
	}
	if err != nil {
		out.Err = err.Error()
	}
	out.Lg = "none"
	lines := t.Log()
	if len(lines) > nlog {
		last := lines[len(lines)-1]
		switch {
		case len(lines) > nlog+1:
			out.Lg = "other:several lines"
		case strings.Contains(last, "Task set to wait until a system restart allows to continue"):
			out.Lg = "wait"
		case strings.Contains(last, "Task has requested a system restart"):
			out.Lg = "requested"
		case strings.Contains(last, "Skipped automatic system restart on classic system when undoing changes back to previous state"):
			out.Lg = "skipped"
		default:
			out.Lg = "other:" + last
		}
	}
	return out
}

func (e *Engine) newRunner() {
	gen := e.gen
	e.mu.Lock()
	e.gates = make(map[int]chan result)
	e.running = make(map[int]bool)
	e.called = make(map[int]bool)
	e.mu.Unlock()
	e.runner = state.NewTaskRunner(e.st)
	mk := func(ph string) state.HandlerFunc {
		return func(t *state.Task, tb *tomb.Tomb) error {
			i := e.idx[t.ID()]
			gate := make(chan result, 1)
			e.mu.Lock()
			if gen != e.gen {
				e.mu.Unlock()
				return &state.Retry{}
			}
			e.gates[i] = gate
			e.running[i] = true
			e.inv[i-1]++
			e.mu.Unlock()
			e.startedCh <- startMsg{gen, i, ph}
			for {
				// tomb kills are not honoured: the driver decides when and how a handler returns
				r := <-gate
				switch r.Res {
				case "call":
					r.ack <- e.doCall(t, i, ph, r.How, r.Ty)
					continue
				case "ok":
					return nil
				case "retry":
					return &state.Retry{After: time.Duration(r.After) * time.Hour}
				case "abandon":
					return &state.Retry{}
				default:
					return fmt.Errorf("fail-%d-%s", i, ph)
				}
			}
		}
	}
	kinds := map[string]bool{}
	for i := 1; i <= e.g.N; i++ {
		k := e.kindName(i)
		if kinds[k] {
			continue
		}
		kinds[k] = true
		if e.g.Undo[i-1] {
			e.runner.AddHandler(k, mk("do"), mk("undo"))
		} else {
			e.runner.AddHandler(k, mk("do"), nil)
		}
	}
	e.st.Lock()
	e.st.AddChangeStatusChangedHandler(func(chg *state.Change, old, new state.Status) {
		if gen != e.gen {
			return
		}
		c := 0
		for k, x := range e.chgs {
			if x.ID() == chg.ID() {
				c = k + 1
			}
		}
		if c == 0 {
			return
		}
		e.mu.Lock()
		e.notes = append(e.notes, chgNote{C: c, Old: old.String(), New: new.String()})
		e.mu.Unlock()
	})
	e.st.Unlock()
}

func rtypeOf(chg *state.Change) string {
	var rp restart.RestartParameters
	if err := chg.Get("pending-system-restart", &rp); err != nil {
		if errors.Is(err, state.ErrNoState) {
			return "none"
		}
		return "other:" + err.Error()
	}
	switch rp.RestartType {
	case restart.RestartSystem:
		return "system"
	case restart.RestartSystemNow:
		return "now"
	}
	return fmt.Sprintf("other-%d", int(rp.RestartType))
}

func (e *Engine) project() proj {
	e.st.Lock()
	defer e.st.Unlock()
	p := proj{Now: e.now, Boot: e.bootID, Started: e.started}
	p.Status = e.statuses()
	p.Waited = make([]string, e.g.N)
	p.At = make([]int, e.g.N)
	p.WB = make([]int, e.g.N)
	p.Mark = make([][]string, e.g.N)
	p.Clean = []int{}
	for i, t := range e.tasks {
		ws := t.WaitedStatus()
		if ws == state.DefaultStatus {
			p.Waited[i] = "Done"
		} else {
			p.Waited[i] = ws.String()
		}
		p.At[i] = hours(t.AtTime())
		if t.IsClean() {
			p.Clean = append(p.Clean, i+1)
		}
		var wb string
		if err := t.Get("wait-for-system-restart-from-boot-id", &wb); err == nil {
			p.WB[i] = bootNum(wb)
		}
		p.Mark[i] = []string{}
		if restart.TaskIsRestartBoundary(t, restart.RestartBoundaryDirectionDo) {
			p.Mark[i] = append(p.Mark[i], "do")
		}
		if restart.TaskIsRestartBoundary(t, restart.RestartBoundaryDirectionUndo) {
			p.Mark[i] = append(p.Mark[i], "undo")
		}
	}
	p.Running = []int{}
	p.Called = []int{}
	e.mu.Lock()
	for i := range e.running {
		p.Running = append(p.Running, i)
	}
	for i := range e.called {
		p.Called = append(p.Called, i)
	}
	e.mu.Unlock()
	sort.Ints(p.Running)
	sort.Ints(p.Called)
	p.Rdy = make([]bool, e.g.NC)
	p.ChgSt = make([]string, e.g.NC)
	p.Pend = make([]string, e.g.NC)
	p.Wfsr = make([]bool, e.g.NC)
	p.PFC = make([]bool, e.g.NC)
	for c, chg := range e.chgs {
		p.Rdy[c] = chg.IsReady()
		p.ChgSt[c] = chg.Status().String()
		p.Pend[c] = rtypeOf(chg)
		var w bool
		if err := chg.Get("wait-for-system-restart", &w); err == nil {
			p.Wfsr[c] = w
		}
		p.PFC[c] = restart.PendingForChange(e.st, chg)
	}
	var from string
	if err := e.st.Get("system-restart-from-boot-id", &from); err == nil {
		p.From = bootNum(from)
	}
	return p
}

func (e *Engine) emit(ev event) {
	ev.Case = e.caseID
	ev.St = e.project()
	// classic announcements: i-th "Postponing restart" notice <-> i-th line appended by the notifier script
	var lines []string
	if data, err := os.ReadFile(e.notifyFile()); err == nil {
		for _, l := range strings.Split(strings.TrimSpace(string(data)), "\n") {
			if l != "" {
				lines = append(lines, l)
			}
		}
	}
	newLines := lines[e.ntSeen:]
	e.ntSeen = len(lines)
	ev.NtFile = len(newLines)
	e.mu.Lock()
	ev.Starts = e.passLog
	if ev.Starts == nil {
		ev.Starts = []startRec{}
	}
	e.passLog = nil
	ev.Notes = e.notes
	if ev.Notes == nil {
		ev.Notes = []chgNote{}
	}
	e.notes = nil
	ev.Rq = e.rq
	if ev.Rq == nil {
		ev.Rq = []reqRec{}
	}
	e.rq = nil
	ev.Nt = []ntRec{}
	for k, snap := range e.ntSnaps {
		c := 0
		if k < len(newLines) {
			fmt.Sscanf(newLines[k], "snap:c%d", &c)
		}
		ev.Nt = append(ev.Nt, ntRec{C: c, Snap: snap})
	}
	e.ntSnaps = nil
	ev.Inv = append([]int(nil), e.inv...)
	e.mu.Unlock()
	if err := e.out.Encode(ev); err != nil {
		panic(err)
	}
}

const watchdog = 30 * time.Second

// Ensure runs one real TaskRunner.Ensure pass and waits for the handlers it started.
func (e *Engine) Ensure() error {
	if err := e.runner.Ensure(); err != nil {
		return err
	}
	e.mu.Lock()
	n := len(e.passLog)
	want := map[int]bool{}
	for _, s := range e.passLog {
		want[s.T] = true
	}
	e.mu.Unlock()
	for k := 0; k < n; k++ {
		select {
		case m := <-e.startedCh:
			if m.gen != e.gen {
				k--
				continue
			}
			if !want[m.t] {
				return fmt.Errorf("HARNESS: handler of task %d started without a 'Running task' log line", m.t)
			}
		case <-time.After(watchdog):
			return fmt.Errorf("HARNESS: a handler logged as started did not start within %v", watchdog)
		}
	}
	select {
	case m := <-e.startedCh:
		if m.gen == e.gen {
			return fmt.Errorf("HARNESS: unexpected handler start for task %d", m.t)
		}
	default:
	}
	e.emit(event{Ev: "Ensure"})
	return nil
}

// Call makes the running handler of task t call the restart manager inside its own critical section.
func (e *Engine) Call(t int, how, ty string) error {
	e.mu.Lock()
	gate, ok := e.gates[t]
	isRunning := e.running[t]
	e.mu.Unlock()
	if !ok || !isRunning {
		return fmt.Errorf("HARNESS: task %d is not running", t)
	}
	ack := make(chan callOut, 1)
	gate <- result{Res: "call", How: how, Ty: ty, ack: ack}
	var out callOut
	select {
	case out = <-ack:
	case <-time.After(watchdog):
		return fmt.Errorf("HARNESS: handler of task %d did not make its call within %v", t, watchdog)
	}
	e.mu.Lock()
	e.called[t] = true
	e.mu.Unlock()
	e.emit(event{Ev: "HRestart", T: t, How: how, Ty: ty, P: out.Pre, S: out.S, Lg: out.Lg, CErr: out.Err})
	return nil
}

// Finish releases the handler of task t with result r and waits for its post-handler critical section.
func (e *Engine) Finish(t int, r result) error {
	e.mu.Lock()
	gate, ok := e.gates[t]
	isRunning := e.running[t]
	e.mu.Unlock()
	if !ok || !isRunning {
		return fmt.Errorf("HARNESS: task %d is not running", t)
	}
	before := e.be.count()
	gate <- r
	deadline := time.After(watchdog)
	for e.be.count() == before {
		select {
		case <-deadline:
			return fmt.Errorf("HARNESS: no checkpoint after releasing task %d", t)
		case <-time.After(200 * time.Microsecond):
		}
	}
	e.mu.Lock()
	delete(e.running, t)
	delete(e.gates, t)
	delete(e.called, t)
	e.mu.Unlock()
	e.emit(event{Ev: "Finish", T: t, Res: r.Res, After: r.After})
	return nil
}

// Abort calls the real Change.Abort. A panic inside it ("change ... unexpectedly became unready", the known
// finding recorded for C03) is recorded as an AbortPanic event; the state is unusable afterwards (the daemon
// would have died half-way through the abort), so the case ends there.
func (e *Engine) Abort(c int) (panicked bool) {
	msg := func() (m string) {
		e.st.Lock()
		defer e.st.Unlock()
		defer func() {
			if r := recover(); r != nil {
				m = fmt.Sprint(r)
			}
		}()
		e.chgs[c-1].Abort()
		return ""
	}()
	if msg != "" {
		e.emit(event{Ev: "AbortPanic", C: c, CErr: msg})
		return true
	}
	e.emit(event{Ev: "Abort", C: c})
	return false
}

func (e *Engine) Tick() {
	e.setTime(e.now + 1)
	e.emit(event{Ev: "Tick"})
}

// Boot simulates a process start from the last checkpoint: b == current boot id: snapd was restarted
// (or crashed) without a reboot; b != current: the system rebooted. Emits Boot (ReadState + restart.Manager).
func (e *Engine) Boot(b int) error {
	e.mu.Lock()
	oldGates := e.gates
	e.gates = map[int]chan result{}
	e.running = map[int]bool{}
	e.called = map[int]bool{}
	e.mu.Unlock()
	e.be.mu.Lock()
	data := append([]byte(nil), e.be.last...)
	e.be.mu.Unlock()
	nb := &memBackend{last: data}
	st, err := state.ReadState(nb, bytes.NewReader(data))
	if err != nil {
		return fmt.Errorf("HARNESS: ReadState: %v", err)
	}
	// from here on callbacks/handlers of the old generation are ignored; the old process is dead: unhook its
	// restart manager so that goroutines finishing against the old State object cannot announce anything
	e.mgr.Stop()
	e.gen++
	logger.SetLogger(engLogger{e: e, gen: e.gen})
	for _, g := range oldGates {
		g <- result{Res: "abandon"}
	}
	e.be = nb
	e.st = st
	st.Lock()
	lost := ""
	if len(st.Tasks()) != e.g.N || len(st.Changes()) != e.g.NC {
		lost = fmt.Sprintf("restart changed object counts: %d tasks %d changes", len(st.Tasks()), len(st.Changes()))
	}
	for i := range e.tasks {
		e.tasks[i] = st.Task(e.tasks[i].ID())
		if e.tasks[i] == nil {
			lost = fmt.Sprintf("task %d lost by restart", i+1)
		}
	}
	for c := range e.chgs {
		e.chgs[c] = st.Change(e.chgs[c].ID())
		if e.chgs[c] == nil {
			lost = fmt.Sprintf("change %d lost by restart", c+1)
		}
	}
	if lost != "" {
		st.Unlock()
		return fmt.Errorf("REAL: %s", lost)
	}
	e.bootID = b
	e.started = false
	e.bootCb = "none"
	mgr, err := restart.Manager(st, bootName(b), &recHandler{e: e, gen: e.gen})
	st.Unlock()
	if err != nil {
		return fmt.Errorf("HARNESS: restart.Manager: %v", err)
	}
	e.mgr = mgr
	e.emit(event{Ev: "Boot", B: b, Cb: e.bootCb})
	return nil
}

// StartUp runs the real RestartManager.StartUp and creates the task runner of the new process.
func (e *Engine) StartUp() error {
	if err := e.mgr.StartUp(); err != nil {
		return fmt.Errorf("REAL: StartUp: %v", err)
	}
	e.started = true
	e.newRunner()
	e.emit(event{Ev: "StartUp"})
	return nil
}

func (e *Engine) Close() {
	e.mu.Lock()
	old := e.gates
	e.gates = map[int]chan result{}
	e.gen += 1000
	e.mu.Unlock()
	for _, g := range old {
		select {
		case g <- result{Res: "abandon"}:
		default:
		}
	}
	if e.restoreTime != nil {
		e.restoreTime()
		e.restoreTime = nil
	}
	if e.restoreCl != nil {
		e.restoreCl()
	}
	logger.SetLogger(logger.NullLogger)
	dirs.SetRootDir("/")
	os.RemoveAll(e.root)
}

func openOut(path string) (*os.File, *json.Encoder) {
	f, err := os.Create(path)
	if err != nil {
		panic(err)
	}
	return f, json.NewEncoder(f)
}
