package reftables

import (
	"fmt"
	"regexp"
	"testing"

	"github.com/snapcore/snapd/snap"
	"github.com/snapcore/snapd/strutil"
)

// ---- C33: strutil.VersionCompare vs DebVersion.tla ----

const c33Err = 2

// realCmp encodes VersionCompare's result like DebVersion!Ref: -1, 0, 1 or 2 (error).
// Any other result value is passed through (and will mismatch).
func realCmp(a, b string) int {
	r, err := strutil.VersionCompare(a, b)
	if err != nil {
		return c33Err
	}
	return r
}

// domain numbering shared with DebVersion!Str: i in 1..N, by length then base-K value.
type c33Dom struct {
	alphabet []int
	maxlen   int
	off      []int // off[L] = number of strings shorter than L
}

func newC33Dom(alphabet []int, maxlen int) *c33Dom {
	d := &c33Dom{alphabet: alphabet, maxlen: maxlen}
	k := len(alphabet)
	d.off = make([]int, maxlen+2)
	p := 1
	for l := 1; l <= maxlen+1; l++ {
		d.off[l] = d.off[l-1] + p
		p *= k
	}
	return d
}

func (d *c33Dom) n() int { return d.off[d.maxlen+1] }

func (d *c33Dom) str(i int) string {
	l := 0
	for !(d.off[l] < i && i <= d.off[l+1]) {
		l++
	}
	k := i - 1 - d.off[l]
	b := make([]byte, l)
	for p := l - 1; p >= 0; p-- {
		b[p] = byte(d.alphabet[k%len(d.alphabet)])
		k /= len(d.alphabet)
	}
	return string(b)
}

type c33Table struct {
	Alphabet []int    `json:"alphabet"`
	MaxLen   int      `json:"maxlen"`
	N        int      `json:"n"`
	Lo       int      `json:"lo"`
	Hi       int      `json:"hi"`
	Dom      [][]int  `json:"dom"`
	Valid    []bool   `json:"valid"`
	Rows     [][]int8 `json:"rows"`
}

// TestVerifC33Table: T->I. For every table file written by TLC (rows lo..hi of the N x N matrix of
// DebVersion!Ref) evaluate strutil.VersionCompare on the same pairs and report every difference.
func TestVerifC33Table(t *testing.T) {
	em := newEmitter(t, "VERIF_OUT")
	defer em.close()
	maxMismatch := envInt("VERIF_MAX_MISMATCH", 5000)
	var evals, nontrivial, inScope, mismIn, mismOut, scopeDrift int
	hist := map[int]int{}
	for _, path := range envFiles("VERIF_TABLES") {
		var tb c33Table
		readJSON(t, path, &tb)
		d := newC33Dom(tb.Alphabet, tb.MaxLen)
		if d.n() != tb.N || len(tb.Rows) != tb.Hi-tb.Lo+1 || len(tb.Dom) != len(tb.Rows) {
			t.Fatalf("%s: table shape mismatch: n=%d/%d rows=%d dom=%d lo=%d hi=%d", path, d.n(), tb.N, len(tb.Rows), len(tb.Dom), tb.Lo, tb.Hi)
		}
		all := make([]string, tb.N+1)
		valid := make([]bool, tb.N+1)
		for j := 1; j <= tb.N; j++ {
			all[j] = d.str(j)
			valid[j] = snap.ValidateVersion(all[j]) == nil
		}
		for i, row := range tb.Rows {
			a := all[tb.Lo+i]
			if fromCodes(tb.Dom[i]) != a {
				t.Fatalf("%s: domain numbering differs at %d: TLC %q, Go %q", path, tb.Lo+i, fromCodes(tb.Dom[i]), a)
			}
			if tb.Valid[i] != valid[tb.Lo+i] {
				// the spec's idea of a valid snap version differs from snap.ValidateVersion
				scopeDrift++
				em.emit(map[string]interface{}{"kind": "scope-drift", "s": a, "spec_valid": tb.Valid[i], "real_valid": valid[tb.Lo+i]})
			}
			if len(row) != tb.N {
				t.Fatalf("%s: row %d has %d entries", path, tb.Lo+i, len(row))
			}
			for j := 1; j <= tb.N; j++ {
				b := all[j]
				exp := int(row[j-1])
				got := realCmp(a, b)
				evals++
				hist[got]++
				if got != c33Err && tb.Lo+i != j {
					nontrivial++
				}
				// the ordering clause is about valid snap versions; the epoch clause about every string
				scope := (tb.Valid[i] && valid[j]) || exp == c33Err || got == c33Err
				if scope {
					inScope++
				}
				if got != exp {
					if scope {
						mismIn++
					} else {
						mismOut++
					}
					if (scope && mismIn <= maxMismatch) || (!scope && mismOut <= 200) {
						em.emit(map[string]interface{}{"kind": "mismatch", "a": a, "b": b, "exp": exp, "got": got, "scope": scope})
					}
				}
			}
		}
	}
	em.emit(map[string]interface{}{"kind": "stats", "evaluations": evals, "nontrivial": nontrivial, "in_scope": inScope,
		"mismatch_in_scope": mismIn, "mismatch_out_of_scope": mismOut, "scope_drift": scopeDrift,
		"hist": map[string]int{"lt": hist[-1], "eq": hist[0], "gt": hist[1], "err": hist[c33Err]}})
}

var c33EpochRe = regexp.MustCompile(`^[0-9]+:`)

// (digit runs are NOT clamped: the reference compares digit strings at arbitrary length)
func c33ClampDigits(b []byte) []byte { return b }

// boundary numbers for the numeric clause: 2^32+-1, 2^63+-1, 2^64-1, 2^64, 2^64+1, 10^19, 10^20, and
// 20..24-digit numbers differing only in the last digit
var c33BigNums = []string{
	"4294967295", "4294967296", "4294967297",
	"9223372036854775807", "9223372036854775808", "9223372036854775809",
	"18446744073709551615", "18446744073709551616", "18446744073709551617",
	"10000000000000000000", "100000000000000000000",
	"20000000000000000000", "30000000000000000000",
	"20240101060708", "20240101060709",
	"99999999999999999999", "100000000000000000001",
	"123456789012345678901234", "123456789012345678901235",
}

// c33Directed: pairs of versions that carry two boundary numbers at the same fragment position after an
// identical prefix (upstream and revision parts, with and without leading zeros, date-stamp-like versions).
func c33Directed() [][2]string {
	ctxs := []func(n string) string{
		func(n string) string { return n },
		func(n string) string { return "1." + n },
		func(n string) string { return "2.63+git" + n },
		func(n string) string { return "1-" + n },
		func(n string) string { return "1.0-0ubuntu" + n },
		func(n string) string { return n + "-1" },
	}
	var out [][2]string
	for ci, cf := range ctxs {
		for i, x := range c33BigNums {
			for j, y := range c33BigNums {
				if ci > 2 && (i-j > 3 || j-i > 3) { // all pairs in the first contexts, neighbours in the others
					continue
				}
				a, b := cf(x), cf(y)
				if len(a) <= 32 && len(b) <= 32 {
					out = append(out, [2]string{a, b})
				}
				// leading zeros on one side must not matter
				if (i+j)%5 == 0 {
					if za := cf("00" + x); len(za) <= 32 && len(b) <= 32 {
						out = append(out, [2]string{za, b})
					}
				}
			}
		}
	}
	// the seeded-change examples and the repo's own guard
	out = append(out, [2]string{"30000000000000000000-1", "20000000000000000000-2"},
		[2]string{"20000000000000000000", "020000000000000000000"},
		[2]string{"2.63+git20240101060708", "2.63+git20240101060709"})
	return out
}

const c33Wide = "0123456789abcxyzABZ.+~-:"
const c33Alnum = "0123456789abcxyzABZ"

func c33RandVersion(r interface{ Intn(int) int }) string {
	n := 1 + r.Intn(14)
	b := make([]byte, n)
	for i := range b {
		switch x := r.Intn(10); {
		case x < 4:
			b[i] = byte('0' + r.Intn(10))
		case x < 6:
			b[i] = "0.~+-"[r.Intn(5)]
		default:
			b[i] = c33Wide[r.Intn(len(c33Wide))]
		}
	}
	if r.Intn(100) < 90 { // make it a valid snap version
		b[0] = c33Alnum[r.Intn(len(c33Alnum))]
		if n > 1 {
			e := c33Alnum + "+~"
			b[n-1] = e[r.Intn(len(e))]
		}
	}
	if r.Intn(100) < 25 { // a long digit run: 1..24 digits or a boundary number, optionally zero-padded
		var run string
		if r.Intn(2) == 0 {
			run = c33BigNums[r.Intn(len(c33BigNums))]
		} else {
			d := make([]byte, 1+r.Intn(24))
			for i := range d {
				d[i] = byte('0' + r.Intn(10))
			}
			run = string(d)
		}
		if r.Intn(4) == 0 {
			run = "0" + run
		}
		pre := []string{"", "1.", "2.63+git", "1-", "a"}[r.Intn(5)]
		b = []byte(pre + run)
		if len(b) > 32 {
			b = b[:32]
		}
	}
	if r.Intn(100) < 4 {
		b = append([]byte("1:"), b...)
	}
	return string(b)
}

func c33Mutate(r interface{ Intn(int) int }, s string) string {
	b := []byte(s)
	for k := 1 + r.Intn(2); k > 0; k-- {
		p := 0
		if len(b) > 0 {
			p = r.Intn(len(b) + 1)
		}
		switch r.Intn(7) {
		case 0: // insert a zero
			b = append(b[:p], append([]byte{'0'}, b[p:]...)...)
		case 1: // append ~ or 0 or +
			b = append(b, "~0+a1"[r.Intn(5)])
		case 2: // delete
			if p < len(b) {
				b = append(b[:p], b[p+1:]...)
			}
		case 3: // replace
			if p < len(b) {
				b[p] = c33Wide[r.Intn(len(c33Wide))]
			}
		case 4: // insert any
			b = append(b[:p], append([]byte{c33Wide[r.Intn(len(c33Wide))]}, b[p:]...)...)
		case 5: // append revision
			b = append(b, '-', byte('0'+r.Intn(3)))
		case 6: // truncate
			if p > 0 {
				b = b[:p]
			}
		}
		if r.Intn(4) == 0 && len(b) > 0 && b[len(b)-1] >= '0' && b[len(b)-1] <= '9' { // differ only in the last digit
			b[len(b)-1] = byte('0' + (int(b[len(b)-1]-'0')+1+r.Intn(2))%10)
		}
	}
	return string(c33ClampDigits(b))
}

// TestVerifC33Random: I->T. Seeded random pairs beyond the exhaustive bound, recorded for
// validation against DebVersion!Ref by TraceDebVersion.tla.
func TestVerifC33Random(t *testing.T) {
	em := newEmitter(t, "VERIF_OUT")
	defer em.close()
	r := seededRand()
	n := envInt("VERIF_N", 1000)
	directed := c33Directed()
	for i := 1; i <= n+len(directed); i++ {
		var a, b string
		if i <= len(directed) {
			a, b = directed[i-1][0], directed[i-1][1]
		} else {
			a = c33RandVersion(r)
			if r.Intn(100) < 65 {
				b = c33Mutate(r, a)
			} else {
				b = c33RandVersion(r)
			}
		}
		if r.Intn(2) == 0 {
			a, b = b, a
		}
		em.emit(map[string]interface{}{"case": i, "a": codes(a), "b": codes(b), "sa": a, "sb": b, "res": realCmp(a, b),
			"va": snap.ValidateVersion(a) == nil, "vb": snap.ValidateVersion(b) == nil})
	}
}

// TestVerifC33Laws: the laws of the statement checked directly on REAL outputs (so that an error in
// the reference cannot mask a violation): all strings of length <= VERIF_LAWLEN over the table
// alphabet plus VERIF_NRAND seeded random longer versions; all pairs and all triples.
func TestVerifC33Laws(t *testing.T) {
	em := newEmitter(t, "VERIF_OUT")
	defer em.close()
	d := newC33Dom([]int{48, 49, 97, 98, 46, 43, 126, 45, 58}, envInt("VERIF_LAWLEN", 2))
	var S []string
	for i := 1; i <= d.n(); i++ {
		S = append(S, d.str(i))
	}
	for _, x := range c33BigNums {
		S = append(S, x, "0"+x, "2.63+git"+x, "1-"+x)
	}
	r := seededRand()
	for i := envInt("VERIF_NRAND", 100); i > 0; i-- {
		a := c33RandVersion(r)
		S = append(S, a)
		if i%2 == 0 {
			S = append(S, c33Mutate(r, a))
			i--
		}
	}
	n := len(S)
	M := make([][]int8, n)
	for i := range M {
		M[i] = make([]int8, n)
		for j := range M[i] {
			M[i][j] = int8(realCmp(S[i], S[j]))
		}
	}
	epoch := make([]bool, n)
	for i := range S {
		epoch[i] = c33EpochRe.MatchString(S[i])
	}
	bad := 0
	report := func(law string, args ...string) {
		bad++
		if bad <= 200 {
			q := ""
			for i, a := range args {
				if i > 0 {
					q += ","
				}
				q += fmt.Sprintf("%q", a)
			}
			em.emit(map[string]interface{}{"kind": "law", "law": law, "args": args, "key": fmt.Sprintf("law-%s: VersionCompare(%s)", law, q)})
		}
	}
	var pairs, triples int
	for i := 0; i < n; i++ {
		for j := 0; j < n; j++ {
			pairs++
			m := M[i][j]
			if (m == c33Err) != (epoch[i] || epoch[j]) {
				report("epoch-rejected", S[i], S[j])
				continue
			}
			if m == c33Err {
				continue
			}
			if m < -1 || m > 1 {
				report("range", S[i], S[j])
			}
			if i == j && m != 0 {
				report("reflexive", S[i])
			}
			if M[j][i] != -m {
				report("antisymmetric", S[i], S[j])
			}
		}
	}
	for i := 0; i < n; i++ {
		if epoch[i] {
			continue
		}
		for j := 0; j < n; j++ {
			if epoch[j] || M[i][j] > 0 {
				continue
			}
			mi, mj := M[i], M[j]
			eq := M[i][j] == 0
			for k := 0; k < n; k++ {
				if epoch[k] {
					continue
				}
				triples++
				if mj[k] <= 0 && mi[k] > 0 {
					report("transitive", S[i], S[j], S[k])
				}
				if eq && mi[k] != mj[k] {
					report("eq-congruent", S[i], S[j], S[k])
				}
			}
		}
	}
	em.emit(map[string]interface{}{"kind": "stats", "strings": n, "pairs": pairs, "triples": triples, "law_violations": bad})
}
