package reftables

import (
	"fmt"
	"strings"
	"testing"

	"github.com/snapcore/snapd/snap/channel"
)

// ---- C34: snap/channel vs Channel.tla ----
// Channel strings are exchanged as their '/'-separated component lists (strings.Split).

type c34Chan struct {
	Ok     bool     `json:"ok"`
	Track  string   `json:"track"`
	Risk   string   `json:"risk"`
	Branch string   `json:"branch"`
	Name   []string `json:"name"`
}

type c34Res struct {
	Ok  bool     `json:"ok"`
	Out []string `json:"out"`
}

const c34Switch = "cannot switch pinned track"

var c34Risks = map[string]bool{"stable": true, "candidate": true, "beta": true, "edge": true}

func joinC(p []string) string { return strings.Join(p, "/") }

func nameComps(n string) []string {
	if n == "" {
		return []string{}
	}
	return strings.Split(n, "/")
}

func c34FromChannel(ch channel.Channel, err error) c34Chan {
	if err != nil {
		return c34Chan{Name: []string{}}
	}
	return c34Chan{Ok: true, Track: ch.Track, Risk: ch.Risk, Branch: ch.Branch, Name: nameComps(ch.Name)}
}

func c34FromRes(out string, err error) c34Res {
	if err != nil {
		if err == channel.ErrPinnedTrackSwitch {
			return c34Res{Out: []string{c34Switch}}
		}
		return c34Res{Out: []string{}}
	}
	return c34Res{Ok: true, Out: strings.Split(out, "/")}
}

func realPV(s string) c34Chan    { return c34FromChannel(channel.ParseVerbatim(s, "amd64")) }
func realParse(s string) c34Chan { return c34FromChannel(channel.Parse(s, "amd64")) }
func realFull(s string) c34Res   { return c34FromRes(channel.Full(s)) }

// (*Channel).Full of the parsed channel; it panics on "unpossible" names: reported as not ok.
func realCFull(s string) (res c34Res) {
	ch, err := channel.Parse(s, "amd64")
	if err != nil {
		return c34Res{Out: []string{}}
	}
	defer func() {
		if r := recover(); r != nil {
			res = c34Res{Out: []string{fmt.Sprintf("panic: %v", r)}}
		}
	}()
	return c34FromRes(ch.Full(), nil)
}

func eqStrs(a, b []string) bool {
	if len(a) != len(b) {
		return false
	}
	for i := range a {
		if a[i] != b[i] {
			return false
		}
	}
	return true
}

func (c c34Chan) eq(o c34Chan) bool {
	return c.Ok == o.Ok && c.Track == o.Track && c.Risk == o.Risk && c.Branch == o.Branch && eqStrs(c.Name, o.Name)
}

func (r c34Res) eq(o c34Res) bool { return r.Ok == o.Ok && eqStrs(r.Out, o.Out) }

type c34PinRow struct {
	Track []string `json:"track"`
	Res   []c34Res `json:"res"`
}

type c34Table struct {
	Part  string       `json:"part"`
	News  [][]string   `json:"news"`
	XNews [][]string   `json:"xnews"`
	XRows []c34PinRow  `json:"xrows"`
	Rows []struct {
		In    []string `json:"in"`
		PV    c34Chan  `json:"pv"`
		Parse c34Chan  `json:"parse"`
		Full  c34Res   `json:"full"`
		CFull c34Res   `json:"cfull"`
		Cur   []string `json:"cur"`
		Track []string `json:"track"`
		Res   []c34Res `json:"res"`
	} `json:"rows"`
}

// TestVerifC34Table: T->I. Real functions on every input of the tables written by TLC.
func TestVerifC34Table(t *testing.T) {
	em := newEmitter(t, "VERIF_OUT")
	defer em.close()
	evals, bad := 0, 0
	outcomes := map[string]bool{}
	mism := func(fn string, args []string, exp, got interface{}) {
		bad++
		if bad <= 5000 {
			q := make([]string, len(args))
			for i, a := range args {
				q[i] = fmt.Sprintf("%q", a)
			}
			em.emit(map[string]interface{}{"kind": "mismatch", "fn": fn, "args": args, "exp": exp, "got": got,
				"key": fmt.Sprintf("%s(%s)", fn, strings.Join(q, ","))})
		}
	}
	for _, path := range envFiles("VERIF_TABLES") {
		var tb c34Table
		readJSON(t, path, &tb)
		switch tb.Part {
		case "parse":
			for _, r := range tb.Rows {
				s := joinC(r.In)
				if got := realPV(s); !got.eq(r.PV) {
					mism("ParseVerbatim", []string{s}, r.PV, got)
				}
				got := realParse(s)
				if !got.eq(r.Parse) {
					mism("Parse", []string{s}, r.Parse, got)
				}
				if got := realFull(s); !got.eq(r.Full) {
					mism("Full", []string{s}, r.Full, got)
				}
				if got := realCFull(s); !got.eq(r.CFull) {
					mism("Channel.Full", []string{s}, r.CFull, got)
				}
				evals += 4
				outcomes[fmt.Sprintf("parse:%v:%s", got.Ok, joinC(got.Name))] = true
			}
		case "resolve":
			for _, r := range tb.Rows {
				cur := joinC(r.Cur)
				if len(r.Res) != len(tb.News) {
					t.Fatalf("%s: row %q has %d results for %d requests", path, cur, len(r.Res), len(tb.News))
				}
				for j, exp := range r.Res {
					nw := joinC(tb.News[j])
					got := c34FromRes(channel.Resolve(cur, nw))
					if !got.eq(exp) {
						mism("Resolve", []string{cur, nw}, exp, got)
					}
					evals++
					outcomes[fmt.Sprintf("resolve:%v:%s", got.Ok, joinC(got.Out))] = true
				}
			}
		case "pinned":
			// directed extra rows: prefix-related tracks, leading-slash requests
			for _, r := range tb.XRows {
				tr := joinC(r.Track)
				if len(r.Res) != len(tb.XNews) {
					t.Fatalf("%s: xrow %q has %d results for %d requests", path, tr, len(r.Res), len(tb.XNews))
				}
				for j, exp := range r.Res {
					nw := joinC(tb.XNews[j])
					got := c34FromRes(channel.ResolvePinned(tr, nw))
					if !got.eq(exp) {
						mism("ResolvePinned", []string{tr, nw}, exp, got)
					}
					evals++
					outcomes[fmt.Sprintf("pinned:%v:%s", got.Ok, joinC(got.Out))] = true
				}
			}
			for _, r := range tb.Rows {
				tr := joinC(r.Track)
				if len(r.Res) != len(tb.News) {
					t.Fatalf("%s: row %q has %d results for %d requests", path, tr, len(r.Res), len(tb.News))
				}
				for j, exp := range r.Res {
					nw := joinC(tb.News[j])
					got := c34FromRes(channel.ResolvePinned(tr, nw))
					if !got.eq(exp) {
						mism("ResolvePinned", []string{tr, nw}, exp, got)
					}
					evals++
					outcomes[fmt.Sprintf("pinned:%v:%s", got.Ok, joinC(got.Out))] = true
				}
			}
		default:
			t.Fatalf("%s: unknown table part %q", path, tb.Part)
		}
	}
	em.emit(map[string]interface{}{"kind": "stats", "evaluations": evals, "mismatches": bad, "distinct_outcomes": len(outcomes)})
}

var c34Comps = []string{"", "latest", "stable", "edge", "t1", "2.0", "b1"}
var c34Wide = []string{"", "latest", "stable", "candidate", "beta", "edge", "t1", "t10", "2.0", "1.10-lts", "foo", "b1", "hotfix-123", "Stable", "stable "}

func c34Seqs(comps []string, maxlen int) [][]string {
	var out [][]string
	var rec func(prefix []string, l int)
	for l := 1; l <= maxlen; l++ {
		rec = func(prefix []string, left int) {
			if left == 0 {
				out = append(out, append([]string(nil), prefix...))
				return
			}
			for _, c := range comps {
				rec(append(prefix, c), left-1)
			}
		}
		rec(nil, l)
	}
	return out
}

func c34RandSeq(r interface{ Intn(int) int }, maxlen int) []string {
	n := 1 + r.Intn(maxlen)
	out := make([]string, n)
	for i := range out {
		out[i] = c34Wide[r.Intn(len(c34Wide))]
	}
	return out
}

// TestVerifC34Laws: the laws of the statement checked directly on REAL outputs.
func TestVerifC34Laws(t *testing.T) {
	em := newEmitter(t, "VERIF_OUT")
	defer em.close()
	r := seededRand()
	all := c34Seqs(append([]string{"t10"}, c34Comps...), 4)
	for i := envInt("VERIF_NRAND", 500); i > 0; i-- {
		all = append(all, c34RandSeq(r, 5))
	}
	var upTo3, upTo2 []string
	seen := map[string]bool{}
	var strs []string
	for _, p := range all {
		s := joinC(p)
		if seen[s] {
			continue
		}
		seen[s] = true
		strs = append(strs, s)
		if len(p) <= 3 {
			upTo3 = append(upTo3, s)
		}
		if len(p) <= 2 {
			upTo2 = append(upTo2, s)
		}
	}
	bad := 0
	counts := map[string]int{}
	report := func(class, law, call string, detail string) {
		bad++
		counts[class]++
		if counts[class] <= 400 {
			em.emit(map[string]interface{}{"kind": "law", "class": class, "law": law, "key": class + ": " + call, "detail": detail})
		}
	}
	evals := 0
	// L1 parse/print stability, L2 full form
	for _, s := range strs {
		c, err := channel.Parse(s, "amd64")
		evals++
		if err != nil {
			continue
		}
		call := fmt.Sprintf("Parse(%q)", s)
		c2, err2 := channel.Parse(c.String(), "amd64")
		if err2 != nil || c2 != c {
			report("parse-print", "Parse(String(Parse(s))) = Parse(s)", call, fmt.Sprintf("%+v -> %q -> %+v %v", c, c.String(), c2, err2))
		}
		if c.Clean() != c {
			report("parse-print", "Clean(Clean(c)) = Clean(c)", call, fmt.Sprintf("%+v vs %+v", c.Clean(), c))
		}
		full := realCFull(s)
		wantTrack := c.Track
		if wantTrack == "" {
			wantTrack = "latest"
		}
		okFull := full.Ok && (len(full.Out) == 2 || len(full.Out) == 3) && full.Out[0] == wantTrack && full.Out[0] != "" &&
			full.Out[1] == c.Risk && c34Risks[full.Out[1]] && (len(full.Out) == 3) == (c.Branch != "") &&
			(c.Branch == "" || full.Out[2] == c.Branch)
		if !okFull {
			report("full", "Full names track and risk", call, fmt.Sprintf("%+v full=%v", c, full.Out))
		}
		if f2 := realFull(s); !f2.eq(full) {
			report("full", "Full(s) = Parse(s).Full()", call, fmt.Sprintf("%v vs %v", f2, full))
		}
	}
	// L3 a risk-only (or risk/branch) request keeps the current track
	for _, cur := range upTo3 {
		cc, err := channel.Parse(cur, "amd64")
		if err != nil {
			continue
		}
		for _, nw := range upTo3 {
			nv, err := channel.ParseVerbatim(nw, "amd64")
			if err != nil || nv.Track != "" {
				continue
			}
			evals++
			res, rerr := channel.Resolve(cur, nw)
			var rc channel.Channel
			var perr error
			if rerr == nil {
				rc, perr = channel.Parse(res, "amd64")
			}
			if rerr != nil || perr != nil || rc.Track != cc.Track || rc.Risk != nv.Risk || rc.Branch != nv.Branch {
				class := "keeps-track"
				if c34Risks[cc.Track] {
					class = "risk-named-track"
				}
				report(class, "risk-only request keeps the current track", fmt.Sprintf("Resolve(%q,%q)", cur, nw),
					fmt.Sprintf("current track %q; result %q err=%v parses to %+v err=%v", cc.Track, res, rerr, rc, perr))
			}
		}
	}
	// L4 under a pinned track a request is resolved within that track or refused
	for _, tr := range upTo2 {
		if tr == "" {
			continue
		}
		for _, nw := range upTo3 {
			evals++
			res, err := channel.ResolvePinned(tr, nw)
			if err != nil {
				continue
			}
			call := fmt.Sprintf("ResolvePinned(%q,%q)", tr, nw)
			if strings.Contains(tr, "/") || !(res == tr || strings.HasPrefix(res, tr+"/")) {
				report("pinned", "result is inside the pinned track", call, fmt.Sprintf("result %q", res))
				continue
			}
			if nv, err := channel.ParseVerbatim(nw, "amd64"); err == nil {
				rv, err := channel.ParseVerbatim(res, "amd64")
				if err != nil || rv.Track != tr {
					class := "pinned"
					if c34Risks[nv.Track] {
						class = "risk-named-track"
					}
					report(class, "a valid request resolves to a channel of the pinned track or is refused", call,
						fmt.Sprintf("result %q parses to %+v err=%v", res, rv, err))
				}
			}
		}
	}
	em.emit(map[string]interface{}{"kind": "stats", "strings": len(strs), "evaluations": evals, "law_violations": bad, "by_class": counts})
}

// TestVerifC34Random: I->T. Seeded random channel strings over a wider component set.
func TestVerifC34Random(t *testing.T) {
	em := newEmitter(t, "VERIF_OUT")
	defer em.close()
	r := seededRand()
	n := envInt("VERIF_N", 1000)
	for i := 1; i <= n; i++ {
		s := c34RandSeq(r, 5)
		cur := c34RandSeq(r, 3)
		nw := c34RandSeq(r, 3)
		pin := c34RandSeq(r, 2)
		if r.Intn(3) == 0 {
			pin = []string{[]string{"t1", "2.0", "latest", "foo"}[r.Intn(4)]}
			switch r.Intn(3) {
			case 0: // a request whose track extends the pinned track
				nw = append([]string{pin[0] + []string{"", "0", "-x"}[r.Intn(3)]}, c34RandSeq(r, 2)...)
			case 1: // a request whose track is a proper prefix of the pinned track, or empty (leading slash)
				pin = []string{[]string{"t10", "t1.1", "2.0", "foo"}[r.Intn(4)]}
				nw = append([]string{pin[0][:r.Intn(len(pin[0]))]}, c34RandSeq(r, 2)...)
			}
		}
		em.emit(map[string]interface{}{"case": i, "s": s, "cur": cur, "new": nw, "pin": pin,
			"pv": realPV(joinC(s)), "parse": realParse(joinC(s)), "full": realFull(joinC(s)), "cfull": realCFull(joinC(s)),
			"resolve": c34FromRes(channel.Resolve(joinC(cur), joinC(nw))),
			"pinned":  c34FromRes(channel.ResolvePinned(joinC(pin), joinC(nw)))})
	}
}
