// Package ifacepolicy is the C21 T->I driver: it materialises rows of the IfacePolicy.tla decision table as
// REAL snap-declaration / base-declaration / model / store assertions (asserts.Decode of generated assertion
// text, as interfaces/policy's own tests do), real snap.Info (snaptest.MockInfo), real
// interfaces.ConnectedPlug/Slot, release.OnClassic & co, and evaluates the real policy:
// ConnectCandidate.Check / CheckAutoConnect (verdict + arity), InstallCandidate.Check,
// InstallCandidateMinimalCheck.Check.  It has no copy of the domain: constraint / rule shapes and the
// lookup tables come from the JSON exported by TraceIfacePolicy.tla (VERIF_DOMAIN).
//
//	VERIF_DOMAIN  domain.json (TLC export)     VERIF_CANDS  candidates (JSON array)
//	VERIF_ROWS    rows (ndjson)                VERIF_OUT    observations (ndjson), one per row
package ifacepolicy

import (
	"bufio"
	"encoding/json"
	"fmt"
	"os"
	"regexp"
	"sort"
	"strings"
	"testing"
	"time"

	. "gopkg.in/check.v1"

	"github.com/snapcore/snapd/asserts"
	"github.com/snapcore/snapd/interfaces"
	"github.com/snapcore/snapd/interfaces/policy"
	"github.com/snapcore/snapd/release"
	"github.com/snapcore/snapd/snap"
	"github.com/snapcore/snapd/snap/snaptest"
)

func Test(t *testing.T) { TestingT(t) }

type verifSuite struct{}

var _ = Suite(&verifSuite{})

// ---- the domain as exported by TLC ----

type Cons struct {
	PlugNames  []string          `json:"plugNames"`
	SlotNames  []string          `json:"slotNames"`
	PlugAttrs  map[string]string `json:"plugAttrs"`
	SlotAttrs  map[string]string `json:"slotAttrs"`
	PlugTypes  []string          `json:"plugTypes"`
	SlotTypes  []string          `json:"slotTypes"`
	PlugIDs    []string          `json:"plugIDs"`
	SlotIDs    []string          `json:"slotIDs"`
	PlugPubs   []string          `json:"plugPubs"`
	SlotPubs   []string          `json:"slotPubs"`
	Classic    string            `json:"classic"`
	ClassicIDs []string          `json:"classicIDs"`
	Desktop    string            `json:"desktop"`
	OnStore    []string          `json:"onStore"`
	OnBrand    []string          `json:"onBrand"`
	OnModel    []string          `json:"onModel"`
	Spp        string            `json:"spp"`
}

type AltList struct {
	Lit  string `json:"lit"`
	Alts []Cons `json:"alts"`
}

type Rule struct {
	Short string  `json:"short"`
	Allow AltList `json:"allow"`
	Deny  AltList `json:"deny"`
}

type declEntry struct {
	ID  string `json:"id"`
	Pub string `json:"pub"`
}

type sysEntry struct {
	Classic bool   `json:"classic"`
	OsID    string `json:"osid"`
	Desktop bool   `json:"desktop"`
}

type devEntry struct {
	Has      bool     `json:"has"`
	Brand    string   `json:"brand"`
	Model    string   `json:"model"`
	Store    string   `json:"store"`
	Sto      string   `json:"sto"`
	Friendly []string `json:"friendly"`
}

type Domain struct {
	Iface    string               `json:"iface"`
	Cons     map[string][]Cons    `json:"cons"`
	Rules    map[string][]Rule    `json:"rules"`
	Sides    map[string][]string  `json:"sides"`
	PlugDecl map[string]declEntry `json:"plugDecl"`
	SlotDecl map[string]declEntry `json:"slotDecl"`
	Sys      map[string]sysEntry  `json:"sys"`
	Dev      map[string]devEntry  `json:"dev"`
}

type Cand struct {
	PlugName  string            `json:"plugName"`
	SlotName  string            `json:"slotName"`
	PlugAttrs map[string]string `json:"plugAttrs"`
	SlotAttrs map[string]string `json:"slotAttrs"`
	PlugType  string            `json:"plugType"`
	SlotType  string            `json:"slotType"`
	PlugDecl  string            `json:"plugDecl"`
	SlotDecl  string            `json:"slotDecl"`
	Sys       string            `json:"sys"`
	Dev       string            `json:"dev"`
}

type Row struct {
	ID    int    `json:"id"`
	Kind  string `json:"kind"`
	Li    []int  `json:"li"`
	C     int    `json:"c"`
	Add   []int  `json:"add"`
	Decoy int    `json:"decoy"`
}

type Obs struct {
	ID    int    `json:"id"`
	OK    bool   `json:"ok"`
	Any   bool   `json:"any"`
	Why   string `json:"why"`
	Level int    `json:"level"`
	Err   string `json:"err,omitempty"`
	Infra string `json:"infra,omitempty"`
}

// ---- rule -> assertion headers ----

func strList(l []string) []interface{} {
	s := append([]string(nil), l...)
	sort.Strings(s)
	out := make([]interface{}, len(s))
	for i, x := range s {
		out[i] = x
	}
	return out
}

// attrMap renders attribute constraints; "ALT:x,y" is the list form of alternative matchers.
func attrMap(m map[string]string) map[string]interface{} {
	out := map[string]interface{}{}
	for k, v := range m {
		switch {
		case v == "-":
		case strings.HasPrefix(v, "ALT:"):
			out[k] = strList(strings.Split(v[4:], ","))
		default:
			out[k] = v
		}
	}
	return out
}

func consMap(c *Cons) map[string]interface{} {
	m := map[string]interface{}{}
	put := func(key string, l []string) {
		if len(l) != 0 {
			m[key] = strList(l)
		}
	}
	put("plug-names", c.PlugNames)
	put("slot-names", c.SlotNames)
	if a := attrMap(c.PlugAttrs); len(a) != 0 {
		m["plug-attributes"] = a
	}
	if a := attrMap(c.SlotAttrs); len(a) != 0 {
		m["slot-attributes"] = a
	}
	put("plug-snap-type", c.PlugTypes)
	put("slot-snap-type", c.SlotTypes)
	put("plug-snap-id", c.PlugIDs)
	put("slot-snap-id", c.SlotIDs)
	put("plug-publisher-id", c.PlugPubs)
	put("slot-publisher-id", c.SlotPubs)
	switch c.Classic {
	case "true", "false":
		m["on-classic"] = c.Classic
	case "ids":
		m["on-classic"] = strList(c.ClassicIDs)
	}
	if c.Desktop != "-" {
		m["on-core-desktop"] = c.Desktop
	}
	put("on-store", c.OnStore)
	put("on-brand", c.OnBrand)
	put("on-model", c.OnModel)
	if c.Spp != "-" {
		m["slots-per-plug"] = c.Spp
	}
	return m
}

// altValue renders what follows allow-xxx: / deny-xxx: ; a single alternative is written as a plain map or
// (listForm) as a one element list: both spellings are accepted by the real compiler.
func altValue(al *AltList, listForm bool) interface{} {
	switch al.Lit {
	case "true", "false":
		return al.Lit
	case "alts":
		if len(al.Alts) == 1 && !listForm {
			return consMap(&al.Alts[0])
		}
		l := make([]interface{}, len(al.Alts))
		for i := range al.Alts {
			l[i] = consMap(&al.Alts[i])
		}
		return l
	}
	return nil
}

func subKind(kind string) string {
	switch kind {
	case "connection", "auto-connection":
		return kind
	}
	return "installation"
}

var subKinds = []string{"installation", "connection", "auto-connection"}

// ruleValue renders the rule of one level for the evaluated kind.  The sub-rules of the OTHER kinds are not
// inputs of the decision (IfacePolicy.tla: kind independence); decoy=1 fills them with contrary literals, so
// an implementation consulting the wrong sub-rule is exposed.  A rule that says nothing about the evaluated
// kind still has to name one sub-rule to be well-formed: a neutral one of another kind is used.
func ruleValue(kind string, r *Rule, decoy int) interface{} {
	if r.Short == "true" || r.Short == "false" {
		return r.Short
	}
	k := subKind(kind)
	m := map[string]interface{}{}
	if v := altValue(&r.Allow, decoy == 1); v != nil {
		m["allow-"+k] = v
	}
	if v := altValue(&r.Deny, decoy == 1); v != nil {
		m["deny-"+k] = v
	}
	for _, ko := range subKinds {
		if ko == k {
			continue
		}
		if decoy == 1 {
			m["allow-"+ko] = "false"
			m["deny-"+ko] = "true"
		} else if len(m) == 0 {
			m["deny-"+ko] = "false"
		}
	}
	return m
}

// ---- assertions ----

type world struct {
	c      *C
	dom    *Domain
	cands  []Cand
	acache map[string]asserts.Assertion
	scache map[string]*interfaces.SnapAppSet
	nDecod int
}

// writeHeader writes one header entry in the assertion text format (asserts/headers.go): nested maps are
// indented by two spaces, list items are introduced by "- " (scalars) or a lone "-" (maps).
func writeHeader(b *strings.Builder, indent int, key string, v interface{}) {
	pad := strings.Repeat(" ", indent)
	switch x := v.(type) {
	case string:
		fmt.Fprintf(b, "%s%s: %s\n", pad, key, x)
	case []interface{}:
		fmt.Fprintf(b, "%s%s:\n", pad, key)
		for _, e := range x {
			switch y := e.(type) {
			case string:
				fmt.Fprintf(b, "%s  - %s\n", pad, y)
			case map[string]interface{}:
				fmt.Fprintf(b, "%s  -\n", pad)
				writeMap(b, indent+4, y)
			default:
				panic(fmt.Sprintf("unsupported list element %T", e))
			}
		}
	case map[string]interface{}:
		fmt.Fprintf(b, "%s%s:\n", pad, key)
		writeMap(b, indent+2, x)
	default:
		panic(fmt.Sprintf("unsupported header value %T", v))
	}
}

func writeMap(b *strings.Builder, indent int, m map[string]interface{}) {
	keys := make([]string, 0, len(m))
	for k := range m {
		keys = append(keys, k)
	}
	sort.Strings(keys)
	for _, k := range keys {
		writeHeader(b, indent, k, m[k])
	}
}

// mk writes the assertion as text, the way interfaces/policy's own tests do (a syntactically complete
// assertion with a placeholder signature: policy evaluation never verifies signatures), and parses it
// with the real asserts.Decode, which compiles the plugs/slots rules.
func (w *world) mk(t *asserts.AssertionType, authority string, headers map[string]interface{}) (asserts.Assertion, error) {
	if t == asserts.SnapDeclarationType {
		f, err := asserts.SuggestFormat(t, headers, nil)
		if err != nil {
			return nil, fmt.Errorf("cannot analyze %s: %v", t.Name, err)
		}
		if f > 0 {
			headers["format"] = fmt.Sprintf("%d", f)
		}
	}
	var b strings.Builder
	fmt.Fprintf(&b, "type: %s\nauthority-id: %s\n", t.Name, authority)
	writeMap(&b, 0, headers)
	b.WriteString("timestamp: 2016-09-30T12:00:00Z\n")
	b.WriteString("sign-key-sha3-384: Jv8_JiHiIzJVcO9M55pPdqSDWUvuhfDIBJUS-3VW7F_idjix7Ffn5qMxB21ZQuij\n\nAXNpZw==")
	text := b.String()
	if a := w.acache[text]; a != nil {
		return a, nil
	}
	a, err := asserts.Decode([]byte(text))
	if err != nil {
		return nil, fmt.Errorf("cannot decode generated %s: %v\n%s", t.Name, err, text)
	}
	w.nDecod++
	w.acache[text] = a
	return a, nil
}

func (w *world) snapDecl(which string, d declEntry, plugs, slots map[string]interface{}) (*asserts.SnapDeclaration, error) {
	h := map[string]interface{}{
		"series":       "16",
		"snap-name":    which + "-snap",
		"snap-id":      d.ID,
		"publisher-id": d.Pub,
	}
	if len(plugs) != 0 {
		h["plugs"] = plugs
	}
	if len(slots) != 0 {
		h["slots"] = slots
	}
	a, err := w.mk(asserts.SnapDeclarationType, "canonical", h)
	if err != nil {
		return nil, err
	}
	return a.(*asserts.SnapDeclaration), nil
}

func (w *world) baseDecl(plugs, slots map[string]interface{}) (*asserts.BaseDeclaration, error) {
	h := map[string]interface{}{"series": "16"}
	if len(plugs) != 0 {
		h["plugs"] = plugs
	}
	if len(slots) != 0 {
		h["slots"] = slots
	}
	a, err := w.mk(asserts.BaseDeclarationType, "canonical", h)
	if err != nil {
		return nil, err
	}
	return a.(*asserts.BaseDeclaration), nil
}

func (w *world) device(d devEntry) (*asserts.Model, *asserts.Store, error) {
	if !d.Has {
		return nil, nil, nil
	}
	h := map[string]interface{}{
		"series":       "16",
		"brand-id":     d.Brand,
		"model":        d.Model,
		"architecture": "amd64",
		"kernel":       "krnl",
		"gadget":       "gadget",
	}
	if d.Store != "" {
		h["store"] = d.Store
	}
	a, err := w.mk(asserts.ModelType, d.Brand, h)
	if err != nil {
		return nil, nil, err
	}
	model := a.(*asserts.Model)
	if d.Sto == "" {
		return model, nil, nil
	}
	a, err = w.mk(asserts.StoreType, "canonical", map[string]interface{}{
		"store":           d.Sto,
		"operator-id":     "canonical",
		"friendly-stores": strList(d.Friendly),
	})
	if err != nil {
		return nil, nil, err
	}
	return model, a.(*asserts.Store), nil
}

// ---- snaps ----

func (w *world) appSet(which, typ, name string, attrs map[string]string) *interfaces.SnapAppSet {
	var b strings.Builder
	fmt.Fprintf(&b, "name: %s-snap\nversion: 0\ntype: %s\n%ss:\n  %s:\n    interface: %s\n", which, typ, which, name, w.dom.Iface)
	keys := make([]string, 0, len(attrs))
	for k := range attrs {
		keys = append(keys, k)
	}
	sort.Strings(keys)
	for _, k := range keys {
		switch v := attrs[k]; {
		case v == "-":
		case strings.HasPrefix(v, "L:"): // a list valued attribute
			fmt.Fprintf(&b, "    %s: [%s]\n", k, strings.Join(strings.Split(v[2:], ","), ", "))
		default:
			fmt.Fprintf(&b, "    %s: %s\n", k, v)
		}
	}
	y := b.String()
	if s := w.scache[y]; s != nil {
		return s
	}
	info := snaptest.MockInfo(w.c, y, nil)
	set, err := interfaces.NewSnapAppSet(info, nil)
	w.c.Assert(err, IsNil)
	w.scache[y] = set
	return set
}

// ---- one row ----

var errRx = regexp.MustCompile(`^(connection|auto-connection|installation) (denied|not allowed) by (?:"[^"]*" )?(plug|slot) rule of interface "[^"]*"( for "[^"]*" snap)?$`)

func classify(err error, o *Obs) {
	if err == nil {
		o.OK = true
		o.Why = "allowed"
		return
	}
	o.Err = err.Error()
	m := errRx.FindStringSubmatch(o.Err)
	if m == nil {
		o.Why = "?"
		return
	}
	if m[2] == "denied" {
		o.Why = "denied"
	} else {
		o.Why = "not-allowed"
	}
	switch {
	case m[3] == "plug" && m[4] != "":
		o.Level = 1
	case m[3] == "slot" && m[4] != "":
		o.Level = 2
	case m[3] == "plug":
		o.Level = 3
	default:
		o.Level = 4
	}
}

func (w *world) rule(kind string, row *Row, level int) (*Rule, error) {
	idx := row.Li[level-1]
	side := w.dom.Sides[kind][level-1]
	if idx == 0 {
		return nil, nil
	}
	if side == "" || idx < 0 || idx > len(w.dom.Rules[side]) {
		return nil, fmt.Errorf("bad rule index %d at level %d for %s", idx, level, kind)
	}
	r := w.dom.Rules[side][idx-1] // TLA+ sequences are 1-based
	if len(row.Add) == 2 && row.Add[0] == level {
		// IfacePolicy!AddDeny
		cs := w.dom.Cons[side]
		if row.Add[1] < 1 || row.Add[1] > len(cs) || r.Short != "-" || r.Deny.Lit == "true" {
			return nil, fmt.Errorf("bad add %v", row.Add)
		}
		d := cs[row.Add[1]-1]
		if r.Deny.Lit == "alts" {
			r.Deny = AltList{Lit: "alts", Alts: append(append([]Cons(nil), r.Deny.Alts...), d)}
		} else {
			r.Deny = AltList{Lit: "alts", Alts: []Cons{d}}
		}
	}
	return &r, nil
}

func (w *world) eval(row *Row) (o Obs) {
	o.ID = row.ID
	fail := func(err error) Obs {
		o.Infra = err.Error()
		return o
	}
	if row.C < 1 || row.C > len(w.cands) || len(row.Li) != 4 {
		return fail(fmt.Errorf("bad row %+v", row))
	}
	cand := &w.cands[row.C-1]
	iface := w.dom.Iface
	var rules [5]*Rule
	for l := 1; l <= 4; l++ {
		r, err := w.rule(row.Kind, row, l)
		if err != nil {
			return fail(err)
		}
		rules[l] = r
	}
	val := func(l int) interface{} { return ruleValue(row.Kind, rules[l], row.Decoy) }

	// snap-declarations (only if the snap has one; a rule at level 1/2 without a declaration is not materialisable)
	var plugDecl, slotDecl *asserts.SnapDeclaration
	var err error
	if cand.PlugDecl != "none" {
		plugs := map[string]interface{}{"zz-unrelated": "false"}
		slots := map[string]interface{}{}
		if rules[1] != nil {
			plugs[iface] = val(1)
		}
		if row.Decoy == 1 {
			slots[iface] = "false" // the plug snap's *slot* rule is no input of the decision
		}
		if plugDecl, err = w.snapDecl("plug", w.dom.PlugDecl[cand.PlugDecl], plugs, slots); err != nil {
			return fail(err)
		}
	} else if rules[1] != nil {
		rules[1] = nil // Applicable(kind, 1, ..) is FALSE in the spec as well: nothing to carry the rule
	}
	if cand.SlotDecl != "none" {
		slots := map[string]interface{}{"zz-unrelated": "false"}
		plugs := map[string]interface{}{}
		if rules[2] != nil {
			slots[iface] = val(2)
		}
		if row.Decoy == 1 {
			plugs[iface] = "false"
		}
		if slotDecl, err = w.snapDecl("slot", w.dom.SlotDecl[cand.SlotDecl], plugs, slots); err != nil {
			return fail(err)
		}
	} else if rules[2] != nil {
		rules[2] = nil
	}
	bplugs := map[string]interface{}{"zz-unrelated": "false"}
	bslots := map[string]interface{}{"zz-unrelated": "false"}
	if rules[3] != nil {
		bplugs[iface] = val(3)
	}
	if rules[4] != nil {
		bslots[iface] = val(4)
	}
	baseDecl, err := w.baseDecl(bplugs, bslots)
	if err != nil {
		return fail(err)
	}
	model, store, err := w.device(w.dom.Dev[cand.Dev])
	if err != nil {
		return fail(err)
	}

	sys := w.dom.Sys[cand.Sys]
	release.OnClassic = sys.Classic
	release.OnCoreDesktop = sys.Desktop
	release.ReleaseInfo.ID = sys.OsID

	plugSet := w.appSet("plug", cand.PlugType, cand.PlugName, cand.PlugAttrs)
	slotSet := w.appSet("slot", cand.SlotType, cand.SlotName, cand.SlotAttrs)
	plugInfo := plugSet.Info().Plugs[cand.PlugName]
	slotInfo := slotSet.Info().Slots[cand.SlotName]
	if plugInfo == nil || slotInfo == nil {
		return fail(fmt.Errorf("mock snap lacks plug/slot"))
	}

	switch row.Kind {
	case "connection", "auto-connection":
		cc := policy.ConnectCandidate{
			Plug:                interfaces.NewConnectedPlug(plugInfo, plugSet, nil, nil),
			PlugSnapDeclaration: plugDecl,
			Slot:                interfaces.NewConnectedSlot(slotInfo, slotSet, nil, nil),
			SlotSnapDeclaration: slotDecl,
			BaseDeclaration:     baseDecl,
			Model:               model,
			Store:               store,
		}
		if row.Kind == "connection" {
			classify(cc.Check(), &o)
		} else {
			arity, err := cc.CheckAutoConnect()
			classify(err, &o)
			if err == nil {
				if arity == nil {
					return fail(fmt.Errorf("CheckAutoConnect returned nil arity without error"))
				}
				o.Any = arity.SlotsPerPlugAny()
			}
		}
	case "plug-installation":
		ic := policy.InstallCandidate{Snap: plugSet.Info(), SnapDeclaration: plugDecl, BaseDeclaration: baseDecl, Model: model, Store: store}
		classify(ic.Check(), &o)
	case "slot-installation":
		ic := policy.InstallCandidate{Snap: slotSet.Info(), SnapDeclaration: slotDecl, BaseDeclaration: baseDecl, Model: model, Store: store}
		classify(ic.Check(), &o)
	case "slot-installation-minimal":
		ic := policy.InstallCandidateMinimalCheck{Snap: slotSet.Info(), BaseDeclaration: baseDecl, Model: model, Store: store}
		classify(ic.Check(), &o)
	default:
		return fail(fmt.Errorf("unknown kind %q", row.Kind))
	}
	return o
}

func mustEnv(c *C, k string) string {
	v := os.Getenv(k)
	if v == "" {
		c.Fatalf("%s not set", k)
	}
	return v
}

func (s *verifSuite) TestVerifIfacePolicy(c *C) {
	restore := snap.MockSanitizePlugsSlots(func(*snap.Info) {})
	defer restore()
	defer func(a bool, b bool, id string) {
		release.OnClassic, release.OnCoreDesktop, release.ReleaseInfo.ID = a, b, id
	}(release.OnClassic, release.OnCoreDesktop, release.ReleaseInfo.ID)

	var dom Domain
	b, err := os.ReadFile(mustEnv(c, "VERIF_DOMAIN"))
	c.Assert(err, IsNil)
	c.Assert(json.Unmarshal(b, &dom), IsNil)
	var cands []Cand
	b, err = os.ReadFile(mustEnv(c, "VERIF_CANDS"))
	c.Assert(err, IsNil)
	c.Assert(json.Unmarshal(b, &cands), IsNil)

	w := &world{c: c, dom: &dom, cands: cands,
		acache: map[string]asserts.Assertion{}, scache: map[string]*interfaces.SnapAppSet{}}

	in, err := os.Open(mustEnv(c, "VERIF_ROWS"))
	c.Assert(err, IsNil)
	defer in.Close()
	out, err := os.Create(mustEnv(c, "VERIF_OUT"))
	c.Assert(err, IsNil)
	bw := bufio.NewWriterSize(out, 1<<20)
	enc := json.NewEncoder(bw)

	t0 := time.Now()
	n, infra := 0, 0
	sc := bufio.NewScanner(in)
	sc.Buffer(make([]byte, 1<<20), 1<<20)
	for sc.Scan() {
		line := strings.TrimSpace(sc.Text())
		if line == "" {
			continue
		}
		var row Row
		c.Assert(json.Unmarshal([]byte(line), &row), IsNil)
		o := w.eval(&row)
		if o.Infra != "" {
			infra++
		}
		c.Assert(enc.Encode(&o), IsNil)
		n++
	}
	c.Assert(sc.Err(), IsNil)
	c.Assert(bw.Flush(), IsNil)
	c.Assert(out.Close(), IsNil)
	fmt.Printf("VERIF-C21 rows=%d infra=%d assertions_decoded=%d snaps=%d wall=%.1fs\n", n, infra, w.nDecod, len(w.scache), time.Since(t0).Seconds())
}
