// Package notices is the C08 driver: it executes scripts (one JSON object per line of VERIF_IN) against a
// real overlord/state.State using only exported API (state.New, AddNotice, Notices, WaitNotices, MockTime,
// json.Marshal) and records one NDJSON event per linearization point into VERIF_OUT. Every event is logged
// while the state lock is held, so the order of the file is the lock order.
//
// Abstract time: integer nanoseconds relative to a base instant (0 = zero time.Time).
package notices

import (
	"bufio"
	"context"
	"encoding/json"
	"fmt"
	"os"
	"runtime"
	"sort"
	"strconv"
	"sync"
	"testing"
	"time"

	"github.com/snapcore/snapd/overlord/state"
)

type clientCfg struct {
	C     string   `json:"c"`
	UID   int64    `json:"uid"`
	User  int64    `json:"user"` // -2 = no user filter
	Types []string `json:"types"`
	Keys  []string `json:"keys"`
}

type step struct {
	Ev  string `json:"ev"`
	V   int64  `json:"v,omitempty"`   // Tick: new clock value
	O   int64  `json:"o,omitempty"`   // Add: owner (-1 public)
	T   string `json:"t,omitempty"`   // Add: type
	K   string `json:"k,omitempty"`   // Add: key
	RA  int64  `json:"ra,omitempty"`  // Add: repeat-after (ns)
	D   string `json:"d,omitempty"`   // Add: data
	At  int64  `json:"at,omitempty"`  // AddAt: options.Time
	C   string `json:"c,omitempty"`   // client
	Via string `json:"via,omitempty"` // Poll: "notices" | "wait0"
	N   int    `json:"n,omitempty"`   // Yield count
}

type script struct {
	Case    int         `json:"case"`
	Clients []clientCfg `json:"clients"`
	Steps   []step      `json:"steps"`
}

type noticeProj struct {
	ID      int    `json:"id"`
	Owner   int64  `json:"owner"`
	Type    string `json:"type"`
	Key     string `json:"key"`
	First   int64  `json:"first"`
	LastOcc int64  `json:"lastOcc"`
	LastRep int64  `json:"lastRep"`
	Occ     int    `json:"occ"`
	RA      int64  `json:"ra"`
	Data    string `json:"data"`
}

type rawNotice struct {
	ID            string            `json:"id"`
	UserID        *uint32           `json:"user-id"`
	Type          string            `json:"type"`
	Key           string            `json:"key"`
	FirstOccurred time.Time         `json:"first-occurred"`
	LastOccurred  time.Time         `json:"last-occurred"`
	LastRepeated  time.Time         `json:"last-repeated"`
	Occurrences   int               `json:"occurrences"`
	LastData      map[string]string `json:"last-data"`
	RepeatAfter   string            `json:"repeat-after"`
}

type rawState struct {
	Notices             []rawNotice `json:"notices"`
	LastNoticeID        int         `json:"last-notice-id"`
	LastNoticeTimestamp time.Time   `json:"last-notice-timestamp"`
}

type runner struct {
	mu   sync.Mutex // events of an abandoned case may still arrive from its goroutines
	base time.Time
	out  *bufio.Writer
	wd   time.Duration
}

func (r *runner) abs(v int64) time.Time {
	if v == 0 {
		return time.Time{}
	}
	return r.base.Add(time.Duration(v))
}

func (r *runner) rel(t time.Time) int64 {
	if t.IsZero() {
		return 0
	}
	return int64(t.Sub(r.base))
}

func (r *runner) proj(rn rawNotice) noticeProj {
	id, err := strconv.Atoi(rn.ID)
	if err != nil {
		panic("verif: non-numeric notice id " + rn.ID)
	}
	p := noticeProj{ID: id, Owner: -1, Type: rn.Type, Key: rn.Key, First: r.rel(rn.FirstOccurred),
		LastOcc: r.rel(rn.LastOccurred), LastRep: r.rel(rn.LastRepeated), Occ: rn.Occurrences, Data: rn.LastData["v"]}
	if rn.UserID != nil {
		p.Owner = int64(*rn.UserID)
	}
	if rn.RepeatAfter != "" {
		d, err := time.ParseDuration(rn.RepeatAfter)
		if err != nil {
			panic(err)
		}
		p.RA = int64(d)
	}
	return p
}

// one notice as the API client sees it (its JSON form)
func (r *runner) projNotice(n *state.Notice) noticeProj {
	b, err := json.Marshal(n)
	if err != nil {
		panic(err)
	}
	var rn rawNotice
	if err := json.Unmarshal(b, &rn); err != nil {
		panic(err)
	}
	return r.proj(rn)
}

// full projected notices state; must be called with the state lock held
func (r *runner) projState(st *state.State) (ns []noticeProj, lastTs int64, lastID int) {
	b, err := json.Marshal(st)
	if err != nil {
		panic(err)
	}
	var rs rawState
	if err := json.Unmarshal(b, &rs); err != nil {
		panic(err)
	}
	ns = []noticeProj{}
	for _, rn := range rs.Notices {
		ns = append(ns, r.proj(rn))
	}
	sort.Slice(ns, func(i, j int) bool { return ns[i].ID < ns[j].ID })
	return ns, r.rel(rs.LastNoticeTimestamp), rs.LastNoticeID
}

func (r *runner) emit(m map[string]interface{}) {
	b, err := json.Marshal(m)
	if err != nil {
		panic(err)
	}
	r.mu.Lock()
	defer r.mu.Unlock()
	r.out.Write(b)
	r.out.WriteByte('\n')
}

type client struct {
	cfg     clientCfg
	cursor  time.Time
	waiting bool // protected by the state lock
	cancel  context.CancelFunc
	done    chan struct{}
}

func (cl *client) filter() *state.NoticeFilter {
	f := &state.NoticeFilter{After: cl.cursor}
	if cl.cfg.User != -2 {
		u := uint32(cl.cfg.User)
		f.UserID = &u
	}
	for _, t := range cl.cfg.Types {
		f.Types = append(f.Types, state.NoticeType(t))
	}
	f.Keys = append(f.Keys, cl.cfg.Keys...)
	return f
}

func (r *runner) resOf(cl *client, ns []*state.Notice) [][]int64 {
	res := [][]int64{}
	for _, n := range ns {
		p := r.projNotice(n)
		res = append(res, []int64{int64(p.ID), p.LastRep})
		cl.cursor = r.abs(p.LastRep) // the client's protocol: after = last-repeated of the last notice seen
	}
	return res
}

func strs(a []string) []string {
	if a == nil {
		return []string{}
	}
	return a
}

// runCase executes one script; returns false if a watchdog expired (the case is abandoned)
func (r *runner) runCase(sc *script) bool {
	st := state.New(nil)
	clock := int64(1)
	restore := state.MockTime(r.abs(clock))
	defer func() { restore() }()
	clients := map[string]*client{}
	var order []string
	cls := []map[string]interface{}{}
	for _, cc := range sc.Clients {
		clients[cc.C] = &client{cfg: cc}
		order = append(order, cc.C)
		cls = append(cls, map[string]interface{}{"c": cc.C, "uid": cc.UID, "user": cc.User, "types": strs(cc.Types), "keys": strs(cc.Keys)})
	}
	ev := func(name string, kv ...interface{}) {
		m := map[string]interface{}{"case": sc.Case, "ev": name}
		for i := 0; i+1 < len(kv); i += 2 {
			m[kv[i].(string)] = kv[i+1]
		}
		r.emit(m)
	}
	ev("Reset", "clients", cls)

	waitDone := func(cl *client, kind string) bool {
		select {
		case <-cl.done:
			return true
		case <-time.After(r.wd):
			st.Lock()
			still := cl.waiting
			if still {
				ev("Watchdog", "c", cl.cfg.C, "kind", kind)
			}
			st.Unlock()
			if !still {
				<-cl.done
				return true
			}
			return false
		}
	}
	// settle: every outstanding waiter for which the real Notices() now reports a match must return
	settle := func() bool {
		st.Lock()
		var must []*client
		for _, c := range order {
			cl := clients[c]
			if cl.waiting && len(st.Notices(cl.filter())) > 0 {
				must = append(must, cl)
			}
		}
		st.Unlock()
		for _, cl := range must {
			if !waitDone(cl, "wake") {
				return false
			}
		}
		st.Lock()
		blocked := []string{}
		for _, c := range order {
			if clients[c].waiting {
				blocked = append(blocked, c)
			}
		}
		ev("Settled", "blocked", blocked)
		st.Unlock()
		return true
	}
	abandon := func() {
		// leave no goroutine behind: cancel everything still outstanding
		for _, c := range order {
			cl := clients[c]
			if cl.cancel != nil {
				cl.cancel()
			}
		}
		for _, c := range order {
			cl := clients[c]
			if cl.cancel != nil {
				select {
				case <-cl.done:
				case <-time.After(r.wd):
				}
			}
		}
	}

	// reap a waiter goroutine that has already returned; reports whether the client is free again
	reap := func(cl *client) bool {
		if cl.cancel == nil {
			return true
		}
		st.Lock()
		w := cl.waiting
		st.Unlock()
		if w {
			return false
		}
		<-cl.done
		cl.cancel()
		cl.cancel = nil
		return true
	}

	for _, s := range sc.Steps {
		switch s.Ev {
		case "Tick":
			st.Lock()
			clock = s.V
			restore()
			restore = state.MockTime(r.abs(clock))
			ev("Tick", "v", clock)
			st.Unlock()
		case "Add", "AddAt":
			st.Lock()
			var opts *state.AddNoticeOptions
			if s.RA != 0 || s.D != "" || s.Ev == "AddAt" {
				opts = &state.AddNoticeOptions{RepeatAfter: time.Duration(s.RA)}
				if s.D != "" {
					opts.Data = map[string]string{"v": s.D}
				}
				if s.Ev == "AddAt" {
					opts.Time = r.abs(s.At)
				}
			}
			var uid *uint32
			if s.O >= 0 {
				u := uint32(s.O)
				uid = &u
			}
			idStr, err := st.AddNotice(uid, state.NoticeType(s.T), s.K, opts)
			if err != nil {
				panic(fmt.Sprintf("verif: AddNotice failed: %v", err))
			}
			id, _ := strconv.Atoi(idStr)
			ns, lastTs, lastID := r.projState(st)
			if s.Ev == "Add" {
				ev("Add", "o", s.O, "t", s.T, "k", s.K, "ra", s.RA, "d", s.D, "id", id, "notices", ns, "lastTs", lastTs, "lastId", lastID)
			} else {
				ev("AddAt", "o", s.O, "t", s.T, "k", s.K, "ra", s.RA, "d", s.D, "at", s.At, "id", id, "notices", ns, "lastTs", lastTs, "lastId", lastID)
			}
			st.Unlock()
		case "Poll":
			cl := clients[s.C]
			if !reap(cl) {
				continue // still waiting: a client has one request in flight at a time
			}
			st.Lock()
			var ns []*state.Notice
			if s.Via == "wait0" {
				// WaitNotices with an already-cancelled context: returns what matches now, else the ctx error
				ctx, cancel := context.WithCancel(context.Background())
				cancel()
				var err error
				ns, err = st.WaitNotices(ctx, cl.filter())
				if err != nil && (err != context.Canceled || len(ns) != 0) {
					panic(fmt.Sprintf("verif: unexpected WaitNotices error %v", err))
				}
			} else {
				ns = st.Notices(cl.filter())
			}
			ev("Poll", "c", s.C, "via", s.Via, "res", r.resOf(cl, ns))
			st.Unlock()
		case "WaitStart":
			cl := clients[s.C]
			if !reap(cl) {
				continue
			}
			ctx, cancel := context.WithCancel(context.Background())
			cl.cancel = cancel
			cl.done = make(chan struct{})
			started := make(chan struct{})
			go func() {
				st.Lock()
				cl.waiting = true
				ev("WaitStart", "c", cl.cfg.C)
				close(started) // main can only get the lock once we are inside cond.Wait (or have returned)
				ns, err := st.WaitNotices(ctx, cl.filter())
				errS := ""
				if err != nil {
					errS = err.Error()
				}
				ev("WaitReturn", "c", cl.cfg.C, "err", errS, "res", r.resOf(cl, ns))
				cl.waiting = false
				st.Unlock()
				close(cl.done)
			}()
			<-started
		case "Cancel":
			cl := clients[s.C]
			if cl.cancel == nil {
				continue
			}
			st.Lock()
			if cl.waiting {
				ev("Cancel", "c", s.C)
			}
			cl.cancel()
			st.Unlock()
			if !waitDone(cl, "cancel") {
				abandon()
				return false
			}
			cl.cancel = nil
		case "Settle":
			if !settle() {
				abandon()
				return false
			}
			for _, c := range order {
				reap(clients[c])
			}
		case "Yield":
			for i := 0; i < s.N; i++ {
				runtime.Gosched()
			}
		default:
			panic("verif: unknown script step " + s.Ev)
		}
	}
	// end of script: settle, then cancel whoever is still (rightly) blocked
	if !settle() {
		abandon()
		return false
	}
	for _, c := range order {
		cl := clients[c]
		if cl.cancel == nil {
			continue
		}
		st.Lock()
		if cl.waiting {
			ev("Cancel", "c", c)
		}
		cl.cancel()
		st.Unlock()
		if !waitDone(cl, "cancel") {
			abandon()
			return false
		}
	}
	return true
}

func TestVerifNoticesExec(t *testing.T) {
	in, out := os.Getenv("VERIF_IN"), os.Getenv("VERIF_OUT")
	if in == "" || out == "" {
		t.Skip("VERIF_IN / VERIF_OUT not set")
	}
	wd := 5000
	if s := os.Getenv("VERIF_WATCHDOG_MS"); s != "" {
		wd, _ = strconv.Atoi(s)
	}
	fin, err := os.Open(in)
	if err != nil {
		t.Fatal(err)
	}
	defer fin.Close()
	fout, err := os.Create(out)
	if err != nil {
		t.Fatal(err)
	}
	defer fout.Close()
	// notices expire relative to the real time.Now(), so the base must be "now"
	r := &runner{base: time.Now().UTC().Truncate(time.Second), out: bufio.NewWriterSize(fout, 1<<20), wd: time.Duration(wd) * time.Millisecond}
	defer r.out.Flush()
	scn := bufio.NewScanner(fin)
	scn.Buffer(make([]byte, 1<<20), 1<<26)
	n, expired := 0, 0
	for scn.Scan() {
		if len(scn.Bytes()) == 0 {
			continue
		}
		var sc script
		if err := json.Unmarshal(scn.Bytes(), &sc); err != nil {
			t.Fatalf("bad script line: %v", err)
		}
		if !r.runCase(&sc) {
			expired++
			if expired >= 3 {
				break
			}
		}
		n++
	}
	if err := scn.Err(); err != nil {
		t.Fatal(err)
	}
	fmt.Printf("VERIF_DONE cases=%d watchdog_expired=%d\n", n, expired)
}
