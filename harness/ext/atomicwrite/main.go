// Driver for property C06 (AtomicFile.tla): performs every variant of snapd's atomic-write helpers
// (osutil.AtomicWriteFile/AtomicWrite/AtomicWriteFileChown/NewAtomicFile+Commit/CommitAs/Cancel/AtomicRename/
// AtomicSymlink), a state.New(backend) checkpoint sequence whose backend makes the same call as
// overlord/backend.go, and checkpoints through the REAL overlordStateBackend (overlord.New on a temp root).
//
// The process is meant to run under strace. It is a plain `package main` binary: argv[0] must not end in
// ".test" (osutil.snapdUnsafeIO would otherwise skip every fsync); the driver asserts that.
//
// Case delimiting: the driver issues marker system calls `unlinkat(AT_FDCWD, "/VERIFMARK/<kind>/<case>")`
// (always ENOENT) that the strace parser recognises: kind in {setup, begin, end}. Only the system calls
// between begin and end of a case are validated; setup (creation of the durable "old" file) is ours.
//
// Output: -manifest <file> NDJSON, one record per case (directory, target name, old/new content description,
// read-back verdicts); the NEW bytes of each case are saved next to the manifest so that the parser can
// compare the bytes seen in write(2) with them.
package main

import (
	"bytes"
	"encoding/json"
	"flag"
	"fmt"
	"io"
	"math/rand"
	"os"
	"path/filepath"
	"runtime"
	"strings"
	"syscall"
	"time"

	"github.com/snapcore/snapd/dirs"
	"github.com/snapcore/snapd/osutil"
	"github.com/snapcore/snapd/osutil/sys"
	"github.com/snapcore/snapd/overlord"
	"github.com/snapcore/snapd/overlord/state"
)

type caseRec struct {
	Case     string   `json:"case"`
	Variant  string   `json:"variant"`
	Dir      string   `json:"dir"`
	Target   string   `json:"target"`   // name (inside Dir) whose content the property talks about
	Kind     string   `json:"kind"`     // "file" | "symlink"
	Old      bool     `json:"old"`      // a durable old target exists at begin
	OldLen   int      `json:"old_len"`  // file: length of old content
	NewFile  string   `json:"new_file"` // file with the NEW bytes (kind=file) or the new link target (kind=symlink)
	NewLen   int      `json:"new_len"`
	Pre      []preRec `json:"pre"`        // other directory entries existing (durably) at begin
	Expect   string   `json:"expect"`     // "new" | "old": which content the API call is expected to leave when it returns
	APIErr   string   `json:"api_err"`    // error returned by the API ("" = nil)
	Readback string   `json:"readback"`   // "new" | "old" | "absent" | "other:<detail>"
	Detail   string   `json:"detail"`     // human readable parameters (sizes, chunking)
	Extra    string   `json:"extra"`      // variant specific verdict ("" = fine)
}

type preRec struct {
	Name    string `json:"name"`
	Content string `json:"content"` // "new" (holds exactly the NEW bytes, durable), "other"
}

var (
	root     string
	outDir   string
	manifest *os.File
	rng      *rand.Rand
	ncase    int
)

func die(f string, a ...interface{}) {
	fmt.Fprintf(os.Stderr, "atomicwrite driver: "+f+"\n", a...)
	os.Exit(3)
}

func mark(kind, name string) {
	// a system call that is in the traced set, has no effect and carries text
	syscall.Unlink("/VERIFMARK/" + kind + "/" + name)
}

const alphabet = "abcdefghijklmnopqrstuvwxyzABCDEFGHIJKLMNOPQRSTUVWXYZ0123456789-_"

// printable pseudo-random bytes; position dependent so that a shifted/duplicated chunk is noticed
func genData(n int, tag string) []byte {
	b := make([]byte, n)
	r := rand.New(rand.NewSource(rng.Int63()))
	hdr := []byte("<" + tag + ">")
	for i := range b {
		if i < len(hdr) {
			b[i] = hdr[i]
		} else {
			b[i] = alphabet[r.Intn(len(alphabet))]
		}
	}
	return b
}

// durable plain write used for setup only (never snapd code)
func durableWrite(path string, data []byte) {
	f, err := os.OpenFile(path, os.O_WRONLY|os.O_CREATE|os.O_TRUNC, 0644)
	if err != nil {
		die("setup: %v", err)
	}
	if _, err := f.Write(data); err != nil {
		die("setup: %v", err)
	}
	if err := syscall.Fdatasync(int(f.Fd())); err != nil {
		die("setup: %v", err)
	}
	f.Close()
	syncDir(filepath.Dir(path))
}

func syncDir(d string) {
	df, err := os.Open(d)
	if err != nil {
		die("setup: %v", err)
	}
	if err := syscall.Fdatasync(int(df.Fd())); err != nil {
		die("setup: %v", err)
	}
	df.Close()
}

func listPre(dir, target string, newNames map[string]bool) []preRec {
	ents, err := os.ReadDir(dir)
	if err != nil {
		die("readdir: %v", err)
	}
	pre := []preRec{}
	for _, e := range ents {
		if e.Name() == target {
			continue
		}
		c := "other"
		if newNames[e.Name()] {
			c = "new"
		}
		pre = append(pre, preRec{Name: e.Name(), Content: c})
	}
	return pre
}

func readback(rec *caseRec, oldData, newData []byte) {
	p := filepath.Join(rec.Dir, rec.Target)
	if rec.Kind == "symlink" {
		l, err := os.Readlink(p)
		switch {
		case err != nil && os.IsNotExist(err):
			rec.Readback = "absent"
		case err != nil:
			rec.Readback = "other:" + err.Error()
		case l == string(newData):
			rec.Readback = "new"
		case rec.Old && l == string(oldData):
			rec.Readback = "old"
		default:
			rec.Readback = "other:link=" + l
		}
		return
	}
	got, err := os.ReadFile(p)
	switch {
	case err != nil && os.IsNotExist(err):
		rec.Readback = "absent"
	case err != nil:
		rec.Readback = "other:" + err.Error()
	case bytes.Equal(got, newData):
		rec.Readback = "new"
	case rec.Old && bytes.Equal(got, oldData):
		rec.Readback = "old"
	default:
		rec.Readback = fmt.Sprintf("other:len=%d", len(got))
	}
}

func emit(rec *caseRec) {
	b, err := json.Marshal(rec)
	if err != nil {
		die("json: %v", err)
	}
	manifest.Write(append(b, '\n'))
}

func saveNew(name string, data []byte) string {
	p := filepath.Join(outDir, name+".new")
	if err := os.WriteFile(p, data, 0644); err != nil {
		die("save new: %v", err)
	}
	return p
}

type fileCase struct {
	variant string
	old     bool
	newLen  int
	detail  string
	expect  string
	// prepare is run in the setup phase (after the old file exists); returns names that durably hold NEW
	prepare func(dir, target string, newData []byte) map[string]bool
	// run is the snapd API call under test
	run func(dir, target string, newData []byte) error
	// target name override (default "target.json")
	target string
	kind   string
}

func runCase(fc fileCase) {
	ncase++
	name := fmt.Sprintf("%03d-%s", ncase, fc.variant)
	if fc.old {
		name += "-old"
	} else {
		name += "-noold"
	}
	dir := filepath.Join(root, name)
	if err := os.MkdirAll(dir, 0755); err != nil {
		die("mkdir: %v", err)
	}
	target := fc.target
	if target == "" {
		target = "target.json"
	}
	kind := fc.kind
	if kind == "" {
		kind = "file"
	}
	mark("setup", name)
	var oldData []byte
	if kind == "file" {
		oldData = genData(64+rng.Intn(4000), "OLD "+name)
	} else {
		oldData = []byte("old-link-target-" + name)
	}
	newData := genData(fc.newLen, "NEW "+name)
	if kind == "symlink" {
		newData = []byte("new-link-target-" + name)
	}
	if fc.old {
		if kind == "file" {
			durableWrite(filepath.Join(dir, target), oldData)
		} else {
			if err := os.Symlink(string(oldData), filepath.Join(dir, target)); err != nil {
				die("setup symlink: %v", err)
			}
			syncDir(dir)
		}
	}
	var newNames map[string]bool
	if fc.prepare != nil {
		newNames = fc.prepare(dir, target, newData)
		syncDir(dir)
	}
	rec := &caseRec{Case: name, Variant: fc.variant, Dir: dir, Target: target, Kind: kind, Old: fc.old,
		OldLen: len(oldData), NewLen: len(newData), Detail: fc.detail, Expect: fc.expect}
	if rec.Expect == "" {
		rec.Expect = "new"
	}
	rec.NewFile = saveNew(name, newData)
	rec.Pre = listPre(dir, target, newNames)

	mark("begin", name)
	err := fc.run(dir, target, newData)
	mark("end", name)

	if err != nil {
		rec.APIErr = err.Error()
	}
	readback(rec, oldData, newData)
	emit(rec)
}

// chunkReader hands out the data in pieces of the given sizes and implements nothing but io.Reader,
// so io.Copy really streams (several write(2) calls).
type chunkReader struct {
	data  []byte
	sizes []int
	i     int
}

func (c *chunkReader) Read(p []byte) (int, error) {
	if len(c.data) == 0 {
		return 0, io.EOF
	}
	n := len(c.data)
	if c.i < len(c.sizes) && c.sizes[c.i] < n {
		n = c.sizes[c.i]
	}
	c.i++
	if n > len(p) {
		n = len(p)
	}
	copy(p, c.data[:n])
	c.data = c.data[n:]
	return n, nil
}

func randSizes(total, k int) []int {
	sizes := []int{}
	left := total
	for i := 0; i < k-1 && left > 1; i++ {
		s := 1 + rng.Intn(left*2/(k-i)+1)
		if s >= left {
			s = left - 1
		}
		if s > 32*1024 {
			s = 32 * 1024
		}
		sizes = append(sizes, s)
		left -= s
	}
	return sizes
}

func fileVariants(old bool) []fileCase {
	small := 1 + rng.Intn(200)
	large := 300*1024 + rng.Intn(2*1024*1024)
	streamLen := 2000 + rng.Intn(120*1024)
	k := 2 + rng.Intn(4)
	sizes := randSizes(streamLen, k)
	afLen := 3000 + rng.Intn(20000)
	afK := 2 + rng.Intn(3)
	uid, gid := sys.UserID(os.Getuid()), sys.GroupID(os.Getgid())

	v := []fileCase{
		{variant: "awf-small", newLen: small, detail: fmt.Sprintf("AtomicWriteFile len=%d perm=0644", small),
			run: func(dir, target string, data []byte) error {
				return osutil.AtomicWriteFile(filepath.Join(dir, target), data, 0644, 0)
			}},
		{variant: "awf-large", newLen: large, detail: fmt.Sprintf("AtomicWriteFile len=%d perm=0600", large),
			run: func(dir, target string, data []byte) error {
				return osutil.AtomicWriteFile(filepath.Join(dir, target), data, 0600, 0)
			}},
		{variant: "awf-empty", newLen: 0, detail: "AtomicWriteFile len=0",
			run: func(dir, target string, data []byte) error {
				return osutil.AtomicWriteFile(filepath.Join(dir, target), data, 0644, 0)
			}},
		{variant: "aw-stream", newLen: streamLen, detail: fmt.Sprintf("AtomicWrite streaming len=%d reads=%v", streamLen, sizes),
			run: func(dir, target string, data []byte) error {
				return osutil.AtomicWrite(filepath.Join(dir, target), &chunkReader{data: data, sizes: sizes}, 0644, 0)
			}},
		{variant: "aw-fromfile", newLen: large / 3, detail: fmt.Sprintf("AtomicWrite from *os.File len=%d", large/3),
			run: func(dir, target string, data []byte) error {
				src := filepath.Join(outDir, "src-"+filepath.Base(dir))
				if err := os.WriteFile(src, data, 0644); err != nil {
					die("src: %v", err)
				}
				f, err := os.Open(src)
				if err != nil {
					die("src: %v", err)
				}
				defer f.Close()
				return osutil.AtomicWrite(filepath.Join(dir, target), f, 0644, 0)
			}},
		{variant: "awf-chown", newLen: small + 100, detail: fmt.Sprintf("AtomicWriteFileChown len=%d uid=%d gid=%d", small+100, uid, gid),
			run: func(dir, target string, data []byte) error {
				return osutil.AtomicWriteFileChown(filepath.Join(dir, target), data, 0644, 0, uid, gid)
			}},
		{variant: "af-mtime", newLen: afLen, detail: fmt.Sprintf("NewAtomicFile+%d Write+SetModTime+Commit len=%d", afK, afLen),
			run: func(dir, target string, data []byte) error {
				aw, err := osutil.NewAtomicFile(filepath.Join(dir, target), 0644, 0, osutil.NoChown, osutil.NoChown)
				if err != nil {
					return err
				}
				defer aw.Cancel()
				step := len(data)/afK + 1
				for off := 0; off < len(data); off += step {
					end := off + step
					if end > len(data) {
						end = len(data)
					}
					if _, err := aw.Write(data[off:end]); err != nil {
						return err
					}
				}
				aw.SetModTime(time.Unix(1500000000, 0))
				return aw.Commit()
			}},
		{variant: "af-commitas", newLen: afLen / 2, detail: fmt.Sprintf("NewAtomicFile(other name)+Write+CommitAs len=%d uid/gid set", afLen/2),
			run: func(dir, target string, data []byte) error {
				aw, err := osutil.NewAtomicFile(filepath.Join(dir, "placeholder"), 0644, 0, uid, gid)
				if err != nil {
					return err
				}
				defer aw.Cancel()
				if _, err := aw.Write(data); err != nil {
					return err
				}
				return aw.CommitAs(filepath.Join(dir, target))
			}},
		{variant: "af-cancel", newLen: afLen, expect: "old", detail: "NewAtomicFile+partial Write+Cancel (target must stay as it was)",
			run: func(dir, target string, data []byte) error {
				aw, err := osutil.NewAtomicFile(filepath.Join(dir, target), 0644, 0, osutil.NoChown, osutil.NoChown)
				if err != nil {
					return err
				}
				if _, err := aw.Write(data[:len(data)/2]); err != nil {
					return err
				}
				return aw.Cancel()
			}},
		{variant: "awf-follow", newLen: small + 300, target: "real.json",
			detail: "AtomicWriteFile(link -> real.json, AtomicWriteFollow); the property is about real.json",
			prepare: func(dir, target string, data []byte) map[string]bool {
				if err := os.Symlink(target, filepath.Join(dir, "link.json")); err != nil {
					die("setup: %v", err)
				}
				return nil
			},
			run: func(dir, target string, data []byte) error {
				return osutil.AtomicWriteFile(filepath.Join(dir, "link.json"), data, 0644, osutil.AtomicWriteFollow)
			}},
		{variant: "rename", newLen: afLen, detail: "AtomicRename(src, target), src durably written beforehand, same directory",
			prepare: func(dir, target string, data []byte) map[string]bool {
				durableWrite(filepath.Join(dir, "src.json"), data)
				return map[string]bool{"src.json": true}
			},
			run: func(dir, target string, data []byte) error {
				return osutil.AtomicRename(filepath.Join(dir, "src.json"), filepath.Join(dir, target))
			}},
		{variant: "symlink", kind: "symlink", target: "current", detail: "AtomicSymlink(newtarget, dir/current)",
			run: func(dir, target string, data []byte) error {
				return osutil.AtomicSymlink(string(data), filepath.Join(dir, target))
			}},
	}
	for i := range v {
		v[i].old = old
	}
	return v
}

// ---- checkpoints through overlord/state with a backend that makes the call overlord/backend.go makes ----

type ckptBackend struct {
	path    string
	n       int
	prev    []byte
	prefix  string
	inCkpt  bool
	recs    int
	lastErr error
}

func (b *ckptBackend) EnsureBefore(time.Duration) {}

func (b *ckptBackend) Checkpoint(data []byte) error {
	b.n++
	ncase++
	name := fmt.Sprintf("%03d-%s-%d", ncase, b.prefix, b.n)
	dir := filepath.Dir(b.path)
	target := filepath.Base(b.path)
	rec := &caseRec{Case: name, Variant: b.prefix, Dir: dir, Target: target, Kind: "file", Old: b.prev != nil,
		OldLen: len(b.prev), NewLen: len(data), Expect: "new",
		Detail: fmt.Sprintf("state.State.Unlock -> backend.Checkpoint -> osutil.AtomicWriteFile(path, data, 0600, 0) len=%d", len(data))}
	rec.NewFile = saveNew(name, data)
	rec.Pre = listPre(dir, target, nil)
	mark("begin", name)
	// exactly the body of overlord/backend.go:overlordStateBackend.Checkpoint
	err := osutil.AtomicWriteFile(b.path, data, 0600, 0)
	mark("end", name)
	if err != nil {
		rec.APIErr = err.Error()
	}
	readback(rec, b.prev, data)
	emit(rec)
	b.prev = append([]byte(nil), data...)
	return nil
}

func stateCheckpoints(n int) {
	dir := filepath.Join(root, fmt.Sprintf("%03d-state", ncase+1))
	if err := os.MkdirAll(dir, 0755); err != nil {
		die("mkdir: %v", err)
	}
	b := &ckptBackend{path: filepath.Join(dir, "state.json"), prefix: "state-ckpt"}
	st := state.New(b)
	for i := 0; i < n; i++ {
		st.Lock()
		st.Set(fmt.Sprintf("verif-key-%d", i), strings.Repeat(string(alphabet[rng.Intn(len(alphabet))]), 1+rng.Intn(5000)))
		if i%2 == 1 {
			chg := st.NewChange("verif", fmt.Sprintf("change %d", i))
			chg.AddTask(st.NewTask("verif-task", "task"))
		}
		st.Unlock() // -> Checkpoint
	}
	if b.n != n {
		die("expected %d checkpoints, saw %d", n, b.n)
	}
}

// ---- checkpoints through the REAL overlordStateBackend: overlord.New on a temporary root ----

func overlordCheckpoints(n int) {
	rootdir := filepath.Join(root, fmt.Sprintf("%03d-overlord", ncase+1))
	if err := os.MkdirAll(rootdir, 0755); err != nil {
		die("mkdir: %v", err)
	}
	dirs.SetRootDir(rootdir)
	defer dirs.SetRootDir("/")
	if err := os.MkdirAll(filepath.Dir(dirs.SnapStateFile), 0755); err != nil {
		die("mkdir: %v", err)
	}
	o, err := overlord.New(nil)
	if err != nil {
		die("overlord.New: %v", err)
	}
	st := o.State()
	dir := filepath.Dir(dirs.SnapStateFile)
	target := filepath.Base(dirs.SnapStateFile)
	// make whatever overlord.New left durable, so that "old" is well defined for the first case
	var prev []byte
	if osutil.FileExists(dirs.SnapStateFile) {
		prev, _ = os.ReadFile(dirs.SnapStateFile)
		f, err := os.Open(dirs.SnapStateFile)
		if err != nil {
			die("open state: %v", err)
		}
		syscall.Fdatasync(int(f.Fd()))
		f.Close()
		syncDir(dir)
	}
	for i := 0; i < n; i++ {
		ncase++
		name := fmt.Sprintf("%03d-overlord-ckpt-%d", ncase, i+1)
		key := fmt.Sprintf("verif-key-%d", i)
		val := strings.Repeat(string(alphabet[rng.Intn(len(alphabet))]), 1+rng.Intn(3000))
		rec := &caseRec{Case: name, Variant: "overlord-ckpt", Dir: dir, Target: target, Kind: "file", Old: prev != nil,
			OldLen: len(prev), Expect: "new",
			Detail: "overlord.New(nil).State(): Lock; Set; Unlock -> real overlordStateBackend.Checkpoint"}
		rec.Pre = listPre(dir, target, nil)
		mark("begin", name)
		st.Lock()
		st.Set(key, val)
		st.Unlock() // -> overlordStateBackend.Checkpoint (overlord/backend.go)
		mark("end", name)
		// NEW is what the state engine serialised; we can only read it back, so check it semantically:
		// it must be a complete JSON checkpoint that contains the key just set (and OLD must not).
		got, err := os.ReadFile(dirs.SnapStateFile)
		if err != nil {
			rec.Readback = "other:" + err.Error()
			got = nil
		} else {
			var top struct {
				Data map[string]json.RawMessage `json:"data"`
			}
			var v string
			if err := json.Unmarshal(got, &top); err != nil {
				rec.Readback = "other:not a complete JSON document: " + err.Error()
			} else if err := json.Unmarshal(top.Data[key], &v); err != nil || v != val {
				if bytes.Equal(got, prev) {
					rec.Readback = "old"
				} else {
					rec.Readback = "other:checkpoint lacks the key just set"
				}
			} else {
				rec.Readback = "new"
			}
		}
		fi, err := os.Stat(dirs.SnapStateFile)
		if err == nil && fi.Mode().Perm() != 0600 {
			rec.Extra = fmt.Sprintf("state file mode %o, overlord/backend.go asks for 0600", fi.Mode().Perm())
		}
		rec.NewLen = len(got)
		rec.NewFile = saveNew(name, got)
		emit(rec)
		prev = got
	}
}

func init() {
	// every system call of the cases is issued by the main goroutine; pin it to the main thread so that strace's
	// per-tracee fault-injection counters (-e inject=...:when=K) are deterministic
	runtime.LockOSThread()
}

func main() {
	var mf string
	var reps, nck int
	var seed int64
	flag.StringVar(&root, "root", "", "scratch directory in which the target directories are created")
	flag.StringVar(&mf, "manifest", "", "manifest output (NDJSON); NEW bytes are stored next to it")
	flag.IntVar(&reps, "reps", 1, "repetitions of every file variant (different sizes/chunkings)")
	flag.IntVar(&nck, "checkpoints", 3, "number of checkpoints per state sequence")
	flag.Int64Var(&seed, "seed", 1, "seed")
	flag.Parse()
	if root == "" || mf == "" {
		die("usage: atomicwrite -root DIR -manifest FILE")
	}
	// the whole point: the real fsync path must run
	if osutil.IsTestBinary() || strings.HasSuffix(os.Args[0], ".test") {
		die("argv[0]=%q looks like a test binary: snapd would skip fsync", os.Args[0])
	}
	if v := os.Getenv("SNAPD_UNSAFE_IO"); v != "" {
		die("SNAPD_UNSAFE_IO is set (%q)", v)
	}
	rng = rand.New(rand.NewSource(seed))
	outDir = filepath.Dir(mf)
	var err error
	manifest, err = os.Create(mf)
	if err != nil {
		die("%v", err)
	}
	defer manifest.Close()

	for r := 0; r < reps; r++ {
		for _, old := range []bool{true, false} {
			for _, fc := range fileVariants(old) {
				runCase(fc)
			}
		}
	}
	stateCheckpoints(nck)
	overlordCheckpoints(nck)
	fmt.Printf("atomicwrite driver: %d cases\nPASS\n", ncase)
}
