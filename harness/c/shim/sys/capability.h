/* verif shim: libcap-dev is not installed; snap-update-ns only needs the kernel structs and capset/capget */
#ifndef VERIF_SYS_CAPABILITY_H
#define VERIF_SYS_CAPABILITY_H
#include <linux/capability.h>
#include <sys/types.h>
#ifdef __cplusplus
extern "C" {
#endif
int capset(cap_user_header_t header, const cap_user_data_t data);
int capget(cap_user_header_t header, cap_user_data_t data);
#ifdef __cplusplus
}
#endif
#endif
