/* verif: shared line protocol of the validator drivers.
 *
 * stdin : one request per line:  <op> <arg> [<arg> [<arg>]]
 *         <arg> is "-" (NULL pointer) or "=" followed by the hex encoding of the bytes (so "=" is the
 *         empty string). Bytes 00 are never sent (C strings cannot carry them).
 * stdout: one verdict character per line: 1 accept, 0 reject, D the validator called die() where it
 *         should have returned an error, N not applicable, ? unknown op / malformed request.
 */
#ifndef VERIF_IO_H
#define VERIF_IO_H
#include <stdio.h>
#include <stdlib.h>
#include <string.h>

#define VERIF_MAXARGS 4

static int verif_hexval(int c)
{
	if (c >= '0' && c <= '9')
		return c - '0';
	if (c >= 'a' && c <= 'f')
		return c - 'a' + 10;
	return -1;
}

/* decodes in place; returns NULL for "-" (and sets *is_null), or the decoded C string */
static char *verif_decode(char *tok, int *bad)
{
	if (strcmp(tok, "-") == 0)
		return NULL;
	if (tok[0] != '=') {
		*bad = 1;
		return NULL;
	}
	char *src = tok + 1, *dst = tok;
	while (src[0] != '\0') {
		int hi = verif_hexval(src[0]), lo = src[1] ? verif_hexval(src[1]) : -1;
		if (hi < 0 || lo < 0 || (hi == 0 && lo == 0)) {
			*bad = 1;
			return NULL;
		}
		*dst++ = (char)(hi * 16 + lo);
		src += 2;
	}
	*dst = '\0';
	return tok;
}

/* splits line into op + args; returns number of args or -1 */
static int verif_split(char *line, char **op, char *args[VERIF_MAXARGS], int *bad)
{
	size_t n = strlen(line);
	while (n > 0 && (line[n - 1] == '\n' || line[n - 1] == '\r'))
		line[--n] = '\0';
	char *save = NULL;
	*op = strtok_r(line, " ", &save);
	if (*op == NULL)
		return -1;
	int k = 0;
	char *tok;
	while ((tok = strtok_r(NULL, " ", &save)) != NULL) {
		if (k == VERIF_MAXARGS)
			return -1;
		args[k++] = verif_decode(tok, bad);
	}
	return k;
}
#endif
