/* verif C24: stdin->verdict driver around the REAL snap-confine validators, built by props/_naming.py
 * from the working tree:
 *   gcc -I<harness/c/cfg> -I<REPO>/cmd sc_validate_driver.c
 *       <REPO>/cmd/libsnap-confine-private/{snap,utils,string-utils,cleanup-funcs,error,panic}.c
 *       <REPO>/cmd/snap-confine/{snap-confine-invocation,snap-confine-args}.c
 *       -Wl,--wrap=die -Wl,--wrap=exit -Wl,--wrap=sc_snap_mount_dir
 * die() and exit() (sc_die_on_error) are wrapped: during a request they longjmp back to the request loop
 * (verdict D, or 0 for the `inv` op whose real code reports rejection by dying).
 *
 * ops:  snap <s>                  sc_snap_name_validate(s, &err)
 *       inst <s>                  sc_instance_name_validate(s, &err)
 *       comp <s> <inst|->         sc_snap_component_validate(s, inst, &err)
 *       tag  <tag> <inst> <comp|->  sc_security_tag_validate(tag, inst, comp)
 *       inv  <tag> <inst> <snap+comp|->   sc_init_invocation(...) as snap-confine's main does
 */
#include "config.h"
#include <setjmp.h>
#include <stdarg.h>
#include <stdbool.h>
#include "verif_io.h"
#include "libsnap-confine-private/snap.h"
#include "libsnap-confine-private/error.h"
#include "snap-confine/snap-confine-args.h"
#include "snap-confine/snap-confine-invocation.h"

static jmp_buf verif_jmp;
static int verif_armed;

void __real_exit(int) __attribute__((noreturn));
void __wrap_die(const char *fmt, ...) __attribute__((noreturn));
void __wrap_die(const char *fmt, ...)
{
	(void)fmt;
	if (verif_armed)
		longjmp(verif_jmp, 1);
	fprintf(stderr, "verif: die() outside a request\n");
	__real_exit(3);
}

void __wrap_exit(int code) __attribute__((noreturn));
void __wrap_exit(int code)
{
	if (verif_armed)
		longjmp(verif_jmp, 1);
	__real_exit(code);
}

const char *__wrap_sc_snap_mount_dir(sc_error **errorp)
{
	(void)errorp;
	return "/snap";
}

static char verdict_of(sc_error *err)
{
	if (err != NULL) {
		sc_error_free(err);
		return '0';
	}
	return '1';
}

int main(void)
{
	char *line = NULL;
	size_t cap = 0;
	setvbuf(stdout, NULL, _IOFBF, 1 << 16);
	while (getline(&line, &cap, stdin) > 0) {
		char *op, *a[VERIF_MAXARGS] = { 0 };
		int bad = 0;
		int n = verif_split(line, &op, a, &bad);
		char v = '?';
		if (n < 0 || bad) {
			putchar('?');
			putchar('\n');
			continue;
		}
		verif_armed = 1;
		if (setjmp(verif_jmp) != 0) {
			v = (strcmp(op, "inv") == 0) ? '0' : 'D';
		} else if (strcmp(op, "snap") == 0 && n == 1 && a[0]) {
			sc_error *err = NULL;
			sc_snap_name_validate(a[0], &err);
			v = verdict_of(err);
		} else if (strcmp(op, "inst") == 0 && n == 1 && a[0]) {
			sc_error *err = NULL;
			sc_instance_name_validate(a[0], &err);
			v = verdict_of(err);
		} else if (strcmp(op, "comp") == 0 && n == 2 && a[0]) {
			sc_error *err = NULL;
			sc_snap_component_validate(a[0], a[1], &err);
			v = verdict_of(err);
		} else if (strcmp(op, "tag") == 0 && n == 3 && a[0] && a[1]) {
			v = sc_security_tag_validate(a[0], a[1], a[2]) ? '1' : '0';
		} else if (strcmp(op, "inv") == 0 && n == 3 && a[0] && a[1]) {
			if (a[0][0] == '-') {
				v = 'N';	/* would be parsed as an option of snap-confine, not as a tag */
			} else {
				char *argv_store[] = { "snap-confine", a[0], "/bin/true", NULL };
				char **argv = argv_store;
				int argc = 3;
				sc_error *err = NULL;
				struct sc_args *args = sc_nonfatal_parse_args(&argc, &argv, &err);
				if (err != NULL || args == NULL) {
					v = verdict_of(err);
					if (v == '1')
						v = '0';
				} else {
					sc_invocation inv;
					sc_init_invocation(&inv, args, a[1], a[2]);
					sc_cleanup_invocation(&inv);
					v = '1';
				}
				if (args != NULL)
					sc_cleanup_args(&args);
			}
		}
		verif_armed = 0;
		putchar(v);
		putchar('\n');
	}
	free(line);
	return 0;
}
