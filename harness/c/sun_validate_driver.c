/* verif C24: stdin->verdict driver around the REAL snap-update-ns validators of
 * <REPO>/cmd/snap-update-ns/bootstrap.c, built by props/_naming.py from the working tree:
 *   gcc -I<harness/c/shim> -I<REPO>/cmd/snap-update-ns sun_validate_driver.c <REPO>/cmd/snap-update-ns/bootstrap.c
 *
 * ops:  snap <s>   validate_snap_name(s) == 0
 *       inst <s>   validate_instance_name(s) == 0
 *       args <s>   process_arguments(["snap-update-ns", s]) as the real pre-Go bootstrap does:
 *                  accepted iff bootstrap_msg == NULL afterwards and the name was taken
 */
#include "bootstrap.h"
#include "verif_io.h"

int validate_snap_name(const char *snap_name);	/* not in bootstrap.h, but external */

int main(void)
{
	char *line = NULL;
	size_t cap = 0;
	setvbuf(stdout, NULL, _IOFBF, 1 << 16);
	while (getline(&line, &cap, stdin) > 0) {
		char *op, *a[VERIF_MAXARGS] = { 0 };
		int bad = 0;
		int n = verif_split(line, &op, a, &bad);
		char v = '?';
		if (n == 1 && !bad && a[0] != NULL) {
			if (strcmp(op, "snap") == 0) {
				v = validate_snap_name(a[0]) == 0 ? '1' : '0';
			} else if (strcmp(op, "inst") == 0) {
				v = validate_instance_name(a[0]) == 0 ? '1' : '0';
			} else if (strcmp(op, "args") == 0) {
				if (a[0][0] == '-') {
					v = 'N';	/* an option, not a snap name */
				} else {
					char *argv[] = { "snap-update-ns", a[0], NULL };
					const char *name = NULL;
					bool should_setns = false, user_fstab = false;
					unsigned long uid = 0;
					bootstrap_msg = NULL;
					bootstrap_errno = 0;
					process_arguments(2, argv, &name, &should_setns, &user_fstab, &uid);
					v = (bootstrap_msg == NULL && name != NULL) ? '1' : '0';
				}
			}
		}
		putchar(v);
		putchar('\n');
	}
	free(line);
	return 0;
}
