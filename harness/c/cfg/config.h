/* verif: minimal config.h to build libsnap-confine-private sources standalone */
#ifndef VERIF_CONFIG_H
#define VERIF_CONFIG_H
#define PACKAGE_VERSION "verif"
#ifndef _GNU_SOURCE
#define _GNU_SOURCE 1
#endif
#endif
