// C08 (daemon level): drives the real GET /v2/notices handler (getNotices) for every combination of request
// uid, "user-id" and "users" parameters and type/key filters listed in VERIF_IN over a state populated with
// notices of several owners, and logs NDJSON events for TraceNotices.tla (Reset / Add with the full projected
// notices state / Req with HTTP status and returned ids) into VERIF_OUT.
package daemon_test

import (
	"bufio"
	"encoding/json"
	"fmt"
	"net/http"
	"net/url"
	"os"
	"sort"
	"strconv"
	"strings"
	"time"

	. "gopkg.in/check.v1"

	"github.com/snapcore/snapd/daemon"
	"github.com/snapcore/snapd/dirs"
	"github.com/snapcore/snapd/overlord/state"
)

var _ = Suite(&verifNoticesSuite{})

type verifNoticesSuite struct {
	apiBaseSuite
}

func (s *verifNoticesSuite) SetUpTest(c *C) {
	s.apiBaseSuite.SetUpTest(c)
	s.expectReadAccess(daemon.InterfaceOpenAccess{Interfaces: []string{"snap-refresh-observe", "snap-interfaces-requests-control"}})
	s.expectWriteAccess(daemon.OpenAccess{})
}

type verifNoticesAdd struct {
	O  int64  `json:"o"`
	T  string `json:"t"`
	K  string `json:"k"`
	RA int64  `json:"ra"`
	D  string `json:"d"`
	V  int64  `json:"v"` // clock value for this addition
}

type verifNoticesReq struct {
	UID      int64    `json:"uid"`      // -3: request uid cannot be determined
	UIDParam int64    `json:"uidParam"` // -2: no user-id parameter
	UsersAll bool     `json:"usersAll"`
	Types    []string `json:"types"`
	Keys     []string `json:"keys"`
	After    int64    `json:"after"` // 0: none
}

type verifNoticesCase struct {
	Case    int                      `json:"case"`
	Clients []map[string]interface{} `json:"clients"`
	Adds    []verifNoticesAdd        `json:"adds"`
	Reqs    []verifNoticesReq        `json:"reqs"`
}

type verifNoticesRaw struct {
	ID            string            `json:"id"`
	UserID        *uint32           `json:"user-id"`
	Type          string            `json:"type"`
	Key           string            `json:"key"`
	FirstOccurred time.Time         `json:"first-occurred"`
	LastOccurred  time.Time         `json:"last-occurred"`
	LastRepeated  time.Time         `json:"last-repeated"`
	Occurrences   int               `json:"occurrences"`
	LastData      map[string]string `json:"last-data"`
	RepeatAfter   string            `json:"repeat-after"`
}

func verifNoticesRel(base, t time.Time) int64 {
	if t.IsZero() {
		return 0
	}
	return int64(t.Sub(base))
}

func verifNoticesProj(c *C, base time.Time, rn verifNoticesRaw) map[string]interface{} {
	id, err := strconv.Atoi(rn.ID)
	c.Assert(err, IsNil)
	owner := int64(-1)
	if rn.UserID != nil {
		owner = int64(*rn.UserID)
	}
	ra := int64(0)
	if rn.RepeatAfter != "" {
		d, err := time.ParseDuration(rn.RepeatAfter)
		c.Assert(err, IsNil)
		ra = int64(d)
	}
	return map[string]interface{}{"id": id, "owner": owner, "type": rn.Type, "key": rn.Key,
		"first": verifNoticesRel(base, rn.FirstOccurred), "lastOcc": verifNoticesRel(base, rn.LastOccurred),
		"lastRep": verifNoticesRel(base, rn.LastRepeated), "occ": rn.Occurrences, "ra": ra, "data": rn.LastData["v"]}
}

func (s *verifNoticesSuite) TestVerifNoticesDaemon(c *C) {
	in, out := os.Getenv("VERIF_IN"), os.Getenv("VERIF_OUT")
	if in == "" || out == "" {
		c.Skip("VERIF_IN / VERIF_OUT not set")
	}
	fin, err := os.Open(in)
	c.Assert(err, IsNil)
	defer fin.Close()
	fout, err := os.Create(out)
	c.Assert(err, IsNil)
	defer fout.Close()
	w := bufio.NewWriter(fout)
	defer w.Flush()
	emit := func(m map[string]interface{}) {
		b, err := json.Marshal(m)
		c.Assert(err, IsNil)
		w.Write(b)
		w.WriteByte('\n')
	}
	base := time.Now().UTC().Truncate(time.Second)
	abs := func(v int64) time.Time { return base.Add(time.Duration(v)) }

	scn := bufio.NewScanner(fin)
	scn.Buffer(make([]byte, 1<<20), 1<<26)
	ncases, nreqs := 0, 0
	for scn.Scan() {
		if len(scn.Bytes()) == 0 {
			continue
		}
		var vc verifNoticesCase
		c.Assert(json.Unmarshal(scn.Bytes(), &vc), IsNil)
		ncases++
		s.resetDaemon()
		// every case starts from an empty state: the previous overlord checkpointed its state to disk
		os.Remove(dirs.SnapStateFile)
		s.daemon(c)
		st := s.d.Overlord().State()
		emit(map[string]interface{}{"case": vc.Case, "ev": "Reset", "clients": vc.Clients})

		clock := int64(1)
		for _, a := range vc.Adds {
			st.Lock()
			if a.V != clock {
				clock = a.V
				emit(map[string]interface{}{"case": vc.Case, "ev": "Tick", "v": clock})
			}
			restore := state.MockTime(abs(clock))
			var uid *uint32
			if a.O >= 0 {
				u := uint32(a.O)
				uid = &u
			}
			opts := &state.AddNoticeOptions{RepeatAfter: time.Duration(a.RA)}
			if a.D != "" {
				opts.Data = map[string]string{"v": a.D}
			}
			idStr, err := st.AddNotice(uid, state.NoticeType(a.T), a.K, opts)
			restore()
			c.Assert(err, IsNil)
			id, _ := strconv.Atoi(idStr)
			b, err := json.Marshal(st)
			c.Assert(err, IsNil)
			var rs struct {
				Notices             []verifNoticesRaw `json:"notices"`
				LastNoticeID        int               `json:"last-notice-id"`
				LastNoticeTimestamp time.Time         `json:"last-notice-timestamp"`
			}
			c.Assert(json.Unmarshal(b, &rs), IsNil)
			ns := []map[string]interface{}{}
			for _, rn := range rs.Notices {
				ns = append(ns, verifNoticesProj(c, base, rn))
			}
			sort.Slice(ns, func(i, j int) bool { return ns[i]["id"].(int) < ns[j]["id"].(int) })
			emit(map[string]interface{}{"case": vc.Case, "ev": "Add", "o": a.O, "t": a.T, "k": a.K, "ra": a.RA, "d": a.D, "id": id,
				"notices": ns, "lastTs": verifNoticesRel(base, rs.LastNoticeTimestamp), "lastId": rs.LastNoticeID})
			st.Unlock()
		}

		for _, rq := range vc.Reqs {
			nreqs++
			q := url.Values{}
			if rq.UIDParam != -2 {
				q.Set("user-id", strconv.FormatInt(rq.UIDParam, 10))
			}
			if rq.UsersAll {
				q.Set("users", "all")
			}
			if len(rq.Types) > 0 {
				q.Set("types", strings.Join(rq.Types, ","))
			}
			if len(rq.Keys) > 0 {
				q.Set("keys", strings.Join(rq.Keys, ","))
			}
			if rq.After != 0 {
				q.Set("after", abs(rq.After).Format(time.RFC3339Nano))
			}
			req, err := http.NewRequest("GET", "/v2/notices?"+q.Encode(), nil)
			c.Assert(err, IsNil)
			if rq.UID >= 0 {
				req.RemoteAddr = fmt.Sprintf("pid=100;uid=%d;socket=%s;", rq.UID, dirs.SnapdSocket)
			} else {
				req.RemoteAddr = "garbage"
			}
			rsp := s.req(c, req, nil)
			status := 0
			res := [][]int64{}
			switch r := rsp.(type) {
			case *daemon.APIError:
				status = r.Status
			case daemon.StructuredResponse:
				j := r.JSON()
				status = j.Status
				notices, ok := j.Result.([]*state.Notice)
				c.Assert(ok, Equals, true)
				for _, n := range notices {
					b, err := json.Marshal(n)
					c.Assert(err, IsNil)
					var rn verifNoticesRaw
					c.Assert(json.Unmarshal(b, &rn), IsNil)
					p := verifNoticesProj(c, base, rn)
					res = append(res, []int64{int64(p["id"].(int)), p["lastRep"].(int64)})
				}
			default:
				c.Fatalf("unexpected response type %T", rsp)
			}
			types, keys := rq.Types, rq.Keys
			if types == nil {
				types = []string{}
			}
			if keys == nil {
				keys = []string{}
			}
			emit(map[string]interface{}{"case": vc.Case, "ev": "Req", "uid": rq.UID, "uidParam": rq.UIDParam, "usersAll": rq.UsersAll,
				"types": types, "keys": keys, "after": rq.After, "status": status, "res": res})
		}
	}
	c.Assert(scn.Err(), IsNil)
	fmt.Printf("VERIF_DONE cases=%d reqs=%d\n", ncases, nreqs)
}
