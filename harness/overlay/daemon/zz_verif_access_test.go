// C26 driver (package daemon, compiled in with `go test -overlay`).
//
// Binds /verif/spec/ApiAccess.tla (decision table) and ApiAccessCodec.tla (ucrednet codec) to the real code:
//   - for EVERY entry of the real `api` table and every method that has a handler, the declared
//     ReadAccess/WriteAccess is classified by a type switch on the real value; the Command is copied with its
//     handlers replaced by a recording stub; every row of the spec's table for that class is turned into a real
//     request (RemoteAddr through the real ucrednet encoding, Authorization header with a real auth user in the
//     state, mocked polkitCheckAuthorization and cgroupSnapNameFromPid, real "conns" in the state, degraded
//     mode) and passed to the real Command.ServeHTTP.  "stub ran?" + status class are (a) checked directly
//     against the clauses of the property statement, (b) compared with the spec's decision, polkit consultation
//     and attached interfaces.
//   - the codec table is replayed on the real ucrednet String / ucrednetGetWithInterfaces /
//     ucrednetAttachInterface.
//
// All identifiers are prefixed verifAccess (another driver shares this package).
package daemon

import (
	"context"
	"encoding/json"
	"errors"
	"fmt"
	"io"
	"math/rand"
	"net"
	"net/http"
	"net/http/httptest"
	"os"
	"path/filepath"
	"reflect"
	"sort"
	"strconv"
	"strings"
	"testing"

	"github.com/snapcore/snapd/dirs"
	"github.com/snapcore/snapd/overlord"
	"github.com/snapcore/snapd/overlord/auth"
	"github.com/snapcore/snapd/overlord/state"
	"github.com/snapcore/snapd/polkit"
)

type verifAccessClass struct {
	Kind   string `json:"kind"`
	Polkit bool   `json:"polkit"`
	Nif    int    `json:"nif"`
}

func (c verifAccessClass) key() string { return fmt.Sprintf("%s/%v/%d", c.Kind, c.Polkit, c.Nif) }

type verifAccessRow struct {
	K string `json:"k"`
	D string `json:"d"`
	P bool   `json:"p"`
	A int    `json:"a"`
}

type verifAccessTable struct {
	Fields  []string `json:"fields"`
	Classes []struct {
		Ac   verifAccessClass `json:"ac"`
		Rows []verifAccessRow `json:"rows"`
	} `json:"classes"`
}

type verifAccessReq struct {
	cred, socket, uid, user, polkit, conn string
	degraded, write                       bool
}

func verifAccessParseKey(k string) verifAccessReq {
	f := strings.Split(k, "|")
	if len(f) != 8 {
		panic("bad row key " + k)
	}
	return verifAccessReq{cred: f[0], socket: f[1], uid: f[2], user: f[3], polkit: f[4], conn: f[5], degraded: f[6] == "T", write: f[7] == "T"}
}

// classify a declared access checker by a type switch on the real value
func verifAccessClassify(ac accessChecker) (cls verifAccessClass, ifaces []string, action string, note string) {
	switch a := ac.(type) {
	case nil:
		return verifAccessClass{Kind: "nil"}, nil, "", "handler without an access checker"
	case openAccess:
		return verifAccessClass{Kind: "open"}, nil, "", ""
	case rootAccess:
		return verifAccessClass{Kind: "root"}, nil, "", ""
	case snapAccess:
		return verifAccessClass{Kind: "snap"}, nil, "", ""
	case authenticatedAccess:
		return verifAccessClass{Kind: "authenticated", Polkit: a.Polkit != ""}, nil, a.Polkit, ""
	case interfaceOpenAccess:
		return verifAccessClass{Kind: "ifaceOpen", Nif: len(a.Interfaces)}, a.Interfaces, "", ""
	case interfaceAuthenticatedAccess:
		return verifAccessClass{Kind: "ifaceAuth", Polkit: a.Polkit != "", Nif: len(a.Interfaces)}, a.Interfaces, a.Polkit, ""
	}
	return verifAccessClass{Kind: "unknown:" + reflect.TypeOf(ac).String()}, nil, "", "access checker type not modelled"
}

type verifAccessStubResponse struct{}

func (verifAccessStubResponse) ServeHTTP(w http.ResponseWriter, r *http.Request) {
	w.WriteHeader(299)
}

const (
	verifAccessCaller     = "verif-caller"
	verifAccessOtherSnap  = "verif-othersnap"
	verifAccessOtherIface = "verif-unlisted-iface"
)

func verifAccessConns(scenario string, ifaces []string) map[string]interface{} {
	listed := "verif-none"
	if len(ifaces) > 0 {
		listed = ifaces[0]
	}
	second := listed
	if len(ifaces) > 1 {
		second = ifaces[1]
	}
	conn := func(iface string, extra map[string]interface{}) map[string]interface{} {
		m := map[string]interface{}{"interface": iface, "auto": true}
		for k, v := range extra {
			m[k] = v
		}
		return m
	}
	mine := verifAccessCaller + ":plug1 core:slot1"
	switch scenario {
	case "none":
		return map[string]interface{}{}
	case "activeListed", "notSnap":
		return map[string]interface{}{mine: conn(listed, nil)}
	case "bothListed":
		return map[string]interface{}{mine: conn(listed, nil), verifAccessCaller + ":plug2 core:slot2": conn(second, nil)}
	case "activeOther":
		return map[string]interface{}{mine: conn(verifAccessOtherIface, nil)}
	case "undesired":
		return map[string]interface{}{mine: conn(listed, map[string]interface{}{"undesired": true})}
	case "hotplugGone":
		return map[string]interface{}{mine: conn(listed, map[string]interface{}{"hotplug-gone": true})}
	case "otherSnap":
		return map[string]interface{}{verifAccessOtherSnap + ":plug1 core:slot1": conn(listed, nil)}
	case "slotSide":
		return map[string]interface{}{verifAccessOtherSnap + ":plug1 " + verifAccessCaller + ":slot1": conn(listed, nil)}
	case "badRef":
		return map[string]interface{}{"verif-not-a-conn-ref": conn(listed, nil)}
	}
	panic("unknown conn scenario " + scenario)
}

func verifAccessCodecString(shape, pid, uid, sock string) string {
	canon := fmt.Sprintf("pid=%s;uid=%s;socket=%s;", pid, uid, sock)
	switch shape {
	case "canon":
		return canon
	case "trailing":
		return canon + "x"
	case "leading":
		return "x" + canon
	case "newline":
		return canon + "\n"
	case "noSocket":
		return fmt.Sprintf("pid=%s;uid=%s;", pid, uid)
	case "swapped":
		return fmt.Sprintf("uid=%s;pid=%s;socket=%s;", uid, pid, sock)
	case "upper":
		return fmt.Sprintf("PID=%s;UID=%s;SOCKET=%s;", pid, uid, sock)
	case "twoIface":
		return canon + "iface=a;iface=b;"
	case "garbage":
		return "127.0.0.1:4242"
	case "empty":
		return ""
	}
	panic("unknown shape " + shape)
}

type verifAccessEmit func(v interface{})

func verifAccessCodec(t *testing.T, path string, emit verifAccessEmit) {
	var tab struct {
		Cases []struct {
			Shape, Pid, Uid, Sock string
			Attach                []string
			Matches               bool
			Parsed                struct {
				Ok             bool
				Pid, Uid, Sock string
				Ifaces         []string
			}
		} `json:"cases"`
		Valid []struct{ Pid, Uid, Sock string } `json:"valid"`
	}
	b, err := os.ReadFile(path)
	if err != nil {
		t.Fatal(err)
	}
	if err := json.Unmarshal(b, &tab); err != nil {
		t.Fatal(err)
	}
	n, bad, okCases := 0, 0, 0
	report := func(what, in string, got, want interface{}) {
		bad++
		if bad <= 100 {
			emit(map[string]interface{}{"k": "codec-mismatch", "what": what, "input": in, "got": got, "want": want})
		}
	}
	// String() of real values is the canonical frame, and it round-trips exactly
	for _, u := range tab.Valid {
		pid, _ := strconv.ParseInt(u.Pid, 10, 32)
		uid, _ := strconv.ParseUint(u.Uid, 10, 32)
		uc := &ucrednet{Pid: int32(pid), Uid: uint32(uid), Socket: u.Sock}
		s := uc.String()
		n++
		if want := verifAccessCodecString("canon", u.Pid, u.Uid, u.Sock); s != want {
			report("String", fmt.Sprintf("%#v", *uc), s, want)
		}
		back, ifaces, err := ucrednetGetWithInterfaces(s)
		if err != nil || back == nil || *back != *uc || len(ifaces) != 0 {
			report("roundtrip", s, fmt.Sprintf("%v %v %v", back, ifaces, err), fmt.Sprintf("%v", uc))
		}
	}
	if s := (*ucrednet)(nil).String(); s != "pid=;uid=;socket=;" {
		report("String(nil)", "nil", s, "pid=;uid=;socket=;")
	}
	if uc, _, err := ucrednetGetWithInterfaces((*ucrednet)(nil).String()); uc != nil || err != errNoID {
		report("Parse(String(nil))", "nil", fmt.Sprintf("%v %v", uc, err), "nil, errNoID")
	}
	for _, c := range tab.Cases {
		n++
		s0 := verifAccessCodecString(c.Shape, c.Pid, c.Uid, c.Sock)
		s := s0
		for _, i := range c.Attach {
			s = ucrednetAttachInterface(s, i)
		}
		in := fmt.Sprintf("%q + attach %v = %q", s0, c.Attach, s)
		uc, ifaces, err := ucrednetGetWithInterfaces(s)
		if !c.Parsed.Ok {
			if uc != nil || err != errNoID {
				report("no-credentials", in, fmt.Sprintf("ucred=%v ifaces=%v err=%v", uc, ifaces, err), "nil, errNoID")
			}
			if m := raddrRegexp.MatchString(s); m != c.Matches {
				report("regexp-match", in, m, c.Matches)
			}
			continue
		}
		okCases++
		if err != nil || uc == nil {
			report("credentials", in, fmt.Sprintf("ucred=%v err=%v", uc, err), c.Parsed)
			continue
		}
		got := fmt.Sprintf("%d/%d/%s/%s", uc.Pid, uc.Uid, uc.Socket, strings.Join(ifaces, "&"))
		want := fmt.Sprintf("%s/%s/%s/%s", c.Parsed.Pid, c.Parsed.Uid, c.Parsed.Sock, strings.Join(c.Parsed.Ifaces, "&"))
		if got != want {
			report("parsed-value", in, got, want)
		}
	}
	emit(map[string]interface{}{"k": "codec-summary", "cases": n, "mismatches": bad, "parsed_ok": okCases})
}

// verifAccessListener drives a few real connections through the real ucrednetListener (SO_PEERCRED ->
// ucrednet -> RemoteAddr string -> ucrednetGet) into the real Command.ServeHTTP, on the snapd and the snap
// socket, and compares with the table row for (valid credentials, that socket, our uid, no user, no connection).
func verifAccessListener(t *testing.T, d *Daemon, rowsByClass map[string][]verifAccessRow, emit verifAccessEmit) {
	tmp := t.TempDir()
	dirs.SetRootDir(tmp)
	defer dirs.SetRootDir("")
	uidc := "user"
	if os.Getuid() == 0 {
		uidc = "root"
	}
	classes := map[string]accessChecker{
		"open": openAccess{}, "root": rootAccess{}, "snap": snapAccess{}, "authenticated": authenticatedAccess{},
		"ifaceOpen": interfaceOpenAccess{Interfaces: []string{"verif-iface"}},
	}
	n, bad := 0, 0
	for sockc, path := range map[string]string{"snapd": dirs.SnapdSocket, "snap": dirs.SnapSocket, "other": filepath.Join(tmp, "other.socket")} {
		if err := os.MkdirAll(filepath.Dir(path), 0755); err != nil {
			t.Fatal(err)
		}
		l, err := net.Listen("unix", path)
		if err != nil {
			t.Fatalf("cannot listen on %s: %v", path, err)
		}
		var ran bool
		var seen string
		mux := http.NewServeMux()
		for name, ac := range classes {
			cc := &Command{Path: "/" + name, ReadAccess: ac, d: d}
			cc.GET = func(c *Command, r *http.Request, user *auth.UserState) Response {
				ran = true
				seen = r.RemoteAddr
				return verifAccessStubResponse{}
			}
			mux.Handle("/"+name, cc)
		}
		srv := &http.Server{Handler: mux}
		go srv.Serve(&ucrednetListener{Listener: l})
		cli := &http.Client{Transport: &http.Transport{DialContext: func(ctx context.Context, _, _ string) (net.Conn, error) {
			return net.Dial("unix", path)
		}, DisableKeepAlives: true}}
		for name, ac := range classes {
			cls, _, _, _ := verifAccessClassify(ac)
			want := ""
			key := fmt.Sprintf("valid|%s|%s|none|no|none|F|F", sockc, uidc)
			for _, row := range rowsByClass[cls.key()] {
				if row.K == key {
					want = row.D
				}
			}
			ran, seen = false, ""
			rsp, err := cli.Get("http://localhost/" + name)
			if err != nil {
				t.Fatalf("request over %s failed: %v", path, err)
			}
			io.Copy(io.Discard, rsp.Body)
			rsp.Body.Close()
			got := "forbidden"
			switch {
			case ran:
				got = "served"
			case rsp.StatusCode == 401:
				got = "unauthorized"
			case rsp.StatusCode != 403:
				got = fmt.Sprintf("status-%d", rsp.StatusCode)
			}
			n++
			why := ""
			if got != want {
				why = "decision"
			} else if ran {
				uc, _, err := ucrednetGetWithInterfaces(seen)
				if err != nil || uc == nil || int(uc.Pid) != os.Getpid() || int(uc.Uid) != os.Getuid() || uc.Socket != path {
					why = "peer-credentials"
				}
			}
			if why != "" {
				bad++
			}
			if why != "" || n <= 2 {
				emit(map[string]interface{}{"k": "listener", "why": why, "socket": sockc, "class": cls, "got": got, "spec": want, "remote_addr": seen, "pid": os.Getpid(), "uid": os.Getuid()})
			}
		}
		srv.Close()
	}
	emit(map[string]interface{}{"k": "listener-summary", "connections": n, "mismatches": bad, "uid": os.Getuid()})
}

// verifAccessSessions replays every login/logout history of ApiAccessSession.tla on a real state: logins through
// the real auth.NewUser, logouts through the real POST /v2/logout (logoutCmd with its real handler, i.e.
// auth.RemoveUser).  After EVERY step a request carrying the macaroon of EVERY user issued so far (logged out or
// not) is sent to real authenticated endpoints (handlers stubbed), as a non-root peer, polkit answering no.
//
//	statement: handler ran  =>  the macaroon's user is in the SPEC's logged-in set      (else violation)
//	design:    user in the spec's logged-in set  =>  handler ran                        (else drift)
func verifAccessSessions(t *testing.T, path string, emit verifAccessEmit) {
	var tab struct {
		Histories []struct {
			Ops []struct {
				Op   string `json:"op"`
				U    int    `json:"u"`
				Live []int  `json:"live"`
			} `json:"ops"`
		} `json:"histories"`
	}
	b, err := os.ReadFile(path)
	if err != nil {
		t.Fatal(err)
	}
	if err := json.Unmarshal(b, &tab); err != nil {
		t.Fatal(err)
	}
	oldPolkit := polkitCheckAuthorization
	polkitCheckAuthorization = func(pid int32, uid uint32, actionId string, details map[string]string, flags polkit.CheckFlags) (bool, error) {
		return false, nil
	}
	defer func() { polkitCheckAuthorization = oldPolkit }()

	// real endpoints declared authenticated (one without, one with a polkit action), GET
	var targets []*Command
	havePlain, havePolkit := false, false
	for _, cmd := range api {
		a, ok := cmd.ReadAccess.(authenticatedAccess)
		if !ok || cmd.GET == nil {
			continue
		}
		if a.Polkit == "" && !havePlain {
			havePlain = true
			targets = append(targets, cmd)
		}
		if a.Polkit != "" && !havePolkit {
			havePolkit = true
			targets = append(targets, cmd)
		}
	}
	if len(targets) == 0 {
		t.Fatal("no endpoint with authenticatedAccess on GET in the api table")
	}
	if _, ok := logoutCmd.WriteAccess.(authenticatedAccess); !ok || logoutCmd.POST == nil {
		t.Fatal("/v2/logout is no longer POST + authenticatedAccess")
	}
	peer := (&ucrednet{Pid: 4242, Uid: 1000, Socket: dirs.SnapdSocket}).String()
	steps, requests, drift, viol, logouts := 0, 0, 0, 0, 0
	for _, hist := range tab.Histories {
		st := state.New(nil)
		d := &Daemon{state: st, overlord: overlord.MockWithState(st)}
		macaroon := map[int]string{}
		issued := 0
		done := ""
		for _, op := range hist.Ops {
			steps++
			done += fmt.Sprintf(" %s%d", op.Op, op.U)
			switch op.Op {
			case "login":
				st.Lock()
				u, err := auth.NewUser(st, auth.NewUserParams{Username: fmt.Sprintf("verif%d", op.U), Email: fmt.Sprintf("verif%d@example.com", op.U), Macaroon: fmt.Sprintf("m%d", op.U), Discharges: []string{"d"}})
				st.Unlock()
				if err != nil {
					t.Fatal(err)
				}
				issued++
				if issued != op.U {
					t.Fatalf("history%s: login order", done)
				}
				macaroon[op.U] = u.Macaroon
			case "logout":
				logouts++
				lc := *logoutCmd
				lc.d = d
				req := httptest.NewRequest("POST", "http://localhost/v2/logout", nil)
				req.RemoteAddr = peer
				req.Header.Set("Authorization", fmt.Sprintf(`Macaroon root="%s"`, macaroon[op.U]))
				w := httptest.NewRecorder()
				lc.ServeHTTP(w, req)
				if w.Code != 200 {
					drift++
					emit(map[string]interface{}{"k": "session-drift", "why": "logout refused", "history": strings.TrimSpace(done), "user": op.U, "status": w.Code, "body": w.Body.String()})
				}
			default:
				t.Fatalf("unknown op %q", op.Op)
			}
			live := map[int]bool{}
			for _, u := range op.Live {
				live[u] = true
			}
			for u := 1; u <= issued; u++ {
				for _, cmd := range targets {
					ran := false
					cc := *cmd
					cc.d = d
					cc.GET = func(c *Command, r *http.Request, user *auth.UserState) Response {
						ran = true
						return verifAccessStubResponse{}
					}
					req := httptest.NewRequest("GET", "http://localhost/v2/verif", nil)
					req.RemoteAddr = peer
					req.Header.Set("Authorization", fmt.Sprintf(`Macaroon root="%s"`, macaroon[u]))
					w := httptest.NewRecorder()
					cc.ServeHTTP(w, req)
					requests++
					r := map[string]interface{}{"history": strings.TrimSpace(done), "user": u, "logged_in_per_spec": op.Live, "path": cmd.Path,
						"remote_addr": peer, "ran": ran, "status": w.Code}
					if ran && !live[u] {
						viol++
						r["k"] = "session-violation"
						emit(r)
					} else if !ran && live[u] {
						drift++
						r["k"] = "session-drift"
						r["why"] = "a user that logged in and did not log out is not recognised"
						emit(r)
					} else if requests == 7 {
						r["k"] = "session-sample"
						emit(r)
					}
				}
			}
		}
	}
	emit(map[string]interface{}{"k": "session-summary", "histories": len(tab.Histories), "steps": steps, "requests": requests,
		"logouts": logouts, "drift": drift, "violations": viol, "targets": len(targets)})
}

func TestVerifAccess(t *testing.T) {
	outPath := os.Getenv("VERIF_OUT")
	if outPath == "" {
		t.Skip("VERIF_OUT not set")
	}
	of, err := os.Create(outPath)
	if err != nil {
		t.Fatal(err)
	}
	defer of.Close()
	enc := json.NewEncoder(of)
	emit := func(v interface{}) { enc.Encode(v) }

	if p := os.Getenv("VERIF_CODEC_TABLE"); p != "" {
		verifAccessCodec(t, p, emit)
	}
	if p := os.Getenv("VERIF_SESSION_TABLE"); p != "" {
		verifAccessSessions(t, p, emit)
	}
	tp := os.Getenv("VERIF_TABLE")
	if tp == "" {
		return
	}
	var table verifAccessTable
	b, err := os.ReadFile(tp)
	if err != nil {
		t.Fatal(err)
	}
	if err := json.Unmarshal(b, &table); err != nil {
		t.Fatal(err)
	}
	rowsByClass := map[string][]verifAccessRow{}
	reqsByClass := map[string][]verifAccessReq{}
	for _, c := range table.Classes {
		rowsByClass[c.Ac.key()] = c.Rows
		rqs := make([]verifAccessReq, len(c.Rows))
		for i, row := range c.Rows {
			rqs[i] = verifAccessParseKey(row.K)
		}
		reqsByClass[c.Ac.key()] = rqs
	}

	// --- the world ------------------------------------------------------------------------------------
	st := state.New(nil)
	d := &Daemon{state: st}
	st.Lock()
	validUser, err := auth.NewUser(st, auth.NewUserParams{Username: "verif", Email: "verif@example.com", Macaroon: "m", Discharges: []string{"d"}})
	if err != nil {
		t.Fatal(err)
	}
	removedUser, err := auth.NewUser(st, auth.NewUserParams{Username: "gone", Email: "gone@example.com", Macaroon: "m2", Discharges: []string{"d"}})
	if err != nil {
		t.Fatal(err)
	}
	if _, err := auth.RemoveUser(st, removedUser.ID); err != nil {
		t.Fatal(err)
	}
	st.Unlock()
	st2 := state.New(nil)
	st2.Lock()
	forgedUser, err := auth.NewUser(st2, auth.NewUserParams{Username: "verif", Email: "verif@example.com", Macaroon: "m", Discharges: []string{"d"}})
	st2.Unlock()
	if err != nil {
		t.Fatal(err)
	}
	authHeader := map[string]string{
		"none":    "",
		"valid":   fmt.Sprintf(`Macaroon root="%s"`, validUser.Macaroon),
		"garbage": `Macaroon root="verif-garbage"`,
		"removed": fmt.Sprintf(`Macaroon root="%s"`, removedUser.Macaroon),
		"forged":  fmt.Sprintf(`Macaroon root="%s"`, forgedUser.Macaroon),
	}

	var polkitAnswer string
	var polkitCalls []string
	oldPolkit := polkitCheckAuthorization
	polkitCheckAuthorization = func(pid int32, uid uint32, actionId string, details map[string]string, flags polkit.CheckFlags) (bool, error) {
		polkitCalls = append(polkitCalls, fmt.Sprintf("%d/%d/%s", pid, uid, actionId))
		switch polkitAnswer {
		case "yes":
			return true, nil
		case "no":
			return false, nil
		case "dismissed":
			return false, polkit.ErrDismissed
		}
		return false, errors.New("verif: polkit unreachable")
	}
	defer func() { polkitCheckAuthorization = oldPolkit }()
	var notSnap bool
	oldCgroup := cgroupSnapNameFromPid
	cgroupSnapNameFromPid = func(pid int) (string, error) {
		if notSnap {
			return "", errors.New("verif: not a snap")
		}
		return verifAccessCaller, nil
	}
	defer func() { cgroupSnapNameFromPid = oldCgroup }()

	verifAccessListener(t, d, rowsByClass, emit)

	const pid = 4242
	sockets := map[string][]string{"snapd": {dirs.SnapdSocket}, "snap": {dirs.SnapSocket}, "other": {"/run/verif-other.socket", ""}}
	uids := map[string]uint32{"root": 0, "user": 1000}
	remoteAddr := func(rq verifAccessReq, variant int) string {
		socks := sockets[rq.socket]
		sock := socks[variant%len(socks)]
		uc := &ucrednet{Pid: pid, Uid: uids[rq.uid], Socket: sock}
		switch rq.cred {
		case "valid":
			return uc.String()
		case "missing":
			return (*ucrednet)(nil).String()
		case "garbage":
			return []string{"127.0.0.1:4242", "", "@"}[variant%3]
		case "trailing":
			return uc.String() + []string{"x", "\n", "iface=a;iface=b;"}[variant%3]
		case "leading":
			return []string{"x", "\n", ";"}[variant%3] + uc.String()
		case "nopid":
			uc.Pid = ucrednetNoProcess
			return uc.String()
		case "nouid":
			uc.Uid = ucrednetNobody
			return uc.String()
		}
		panic("unknown cred " + rq.cred)
	}

	// --- every endpoint x method ---------------------------------------------------------------------
	seed, _ := strconv.ParseInt(os.Getenv("VERIF_SEED"), 10, 64)
	rng := rand.New(rand.NewSource(seed))
	sample, _ := strconv.Atoi(os.Getenv("VERIF_SAMPLE")) // rows per endpoint x method once its exact declaration has been fully covered (0 = all)

	type rec map[string]interface{}
	// a seeded sample of the real observations, recorded for I->T validation by TraceApiAccess
	var obsEnc *json.Encoder
	obsStride, _ := strconv.Atoi(os.Getenv("VERIF_OBS_STRIDE"))
	if op := os.Getenv("VERIF_OBS"); op != "" && obsStride > 0 {
		obf, err := os.Create(op)
		if err != nil {
			t.Fatal(err)
		}
		defer obf.Close()
		obsEnc = json.NewEncoder(obf)
	}
	nobs := 0
	counts := map[string]int{}
	perClass := map[string]int{}
	runs, drift, viol := 0, 0, 0
	var endpoints []rec
	fullyCovered := map[string]bool{}
	statesCovered := map[string]bool{}
	samples := map[string]int{}
	var unmodelled []rec

	for _, cmd := range api {
		path := cmd.Path
		if path == "" {
			path = cmd.PathPrefix + "*"
		}
		for _, m := range []struct {
			method  string
			handler ResponseFunc
			access  accessChecker
		}{{"GET", cmd.GET, cmd.ReadAccess}, {"PUT", cmd.PUT, cmd.WriteAccess}, {"POST", cmd.POST, cmd.WriteAccess}} {
			if m.handler == nil {
				continue
			}
			cls, ifaces, action, note := verifAccessClassify(m.access)
			ep := rec{"path": path, "method": m.method, "class": cls, "interfaces": ifaces, "polkit_action": action}
			if cls.Nif > 2 {
				note = "more than 2 listed interfaces: the first two are exercised"
				cls.Nif = 2
			}
			rows, ok := rowsByClass[cls.key()]
			if !ok {
				ep["unmodelled"] = note
				unmodelled = append(unmodelled, ep)
				endpoints = append(endpoints, ep)
				continue
			}
			var ran bool
			var seenAddr string
			stub := func(c *Command, r *http.Request, user *auth.UserState) Response {
				ran = true
				seenAddr = r.RemoteAddr
				return verifAccessStubResponse{}
			}
			cc := *cmd
			cc.d = d
			if cc.GET != nil {
				cc.GET = stub
			}
			if cc.PUT != nil {
				cc.PUT = stub
			}
			if cc.POST != nil {
				cc.POST = stub
			}
			declKey := fmt.Sprintf("%s|%v|%s|%v", cls.key(), ifaces, action, m.method != "GET")
			full := !fullyCovered[declKey] || sample <= 0
			fullyCovered[declKey] = true
			nrun := 0
			lastConn := ""
			// rows sorted so that the connection scenario (state write) changes rarely
			idx := make([]int, 0, len(rows))
			reqs := reqsByClass[cls.key()]
			for i := range rows {
				rq := reqs[i]
				if rq.write != (m.method != "GET") {
					continue
				}
				idx = append(idx, i)
			}
			if !full && sample < len(idx) {
				rng.Shuffle(len(idx), func(i, j int) { idx[i], idx[j] = idx[j], idx[i] })
				idx = idx[:sample]
			}
			sort.SliceStable(idx, func(i, j int) bool {
				return reqs[idx[i]].conn < reqs[idx[j]].conn
			})
			for n, i := range idx {
				row := rows[i]
				rq := reqs[i]
				if rq.conn != lastConn {
					st.Lock()
					st.Set("conns", verifAccessConns(rq.conn, ifaces))
					st.Unlock()
					lastConn = rq.conn
				}
				notSnap = rq.conn == "notSnap"
				polkitAnswer = rq.polkit
				polkitCalls = nil
				if rq.degraded {
					d.degradedErr = errors.New("verif: degraded")
				} else {
					d.degradedErr = nil
				}
				req := httptest.NewRequest(m.method, "http://localhost/v2/verif", nil)
				req.RemoteAddr = remoteAddr(rq, n)
				if h := authHeader[rq.user]; h != "" {
					req.Header.Set("Authorization", h)
				}
				ran, seenAddr = false, ""
				w := httptest.NewRecorder()
				panicked := ""
				func() {
					// net/http recovers a panicking handler per connection: the request is simply not served
					defer func() {
						if e := recover(); e != nil {
							panicked = fmt.Sprint(e)
						}
					}()
					cc.ServeHTTP(w, req)
				}()
				nrun++
				runs++

				got := ""
				switch {
				case ran:
					got = "served"
				case panicked != "":
					got = "panic"
				case w.Code == 401:
					got = "unauthorized"
				case w.Code == 403:
					got = "forbidden"
					var body struct {
						Result struct{ Kind string } `json:"result"`
					}
					if json.Unmarshal(w.Body.Bytes(), &body) == nil && body.Result.Kind == "auth-cancelled" {
						got = "cancelled"
					}
				case w.Code == 500:
					got = "error500"
				default:
					got = fmt.Sprintf("status-%d", w.Code)
				}
				counts[got]++
				perClass[cls.Kind+":"+got]++
				if obsEnc != nil && rng.Intn(obsStride) == 0 {
					nobs++
					obsEnc.Encode(rec{"ev": "Serve", "case": nobs, "endpoint": m.method + " " + path, "ac": cls, "remote_addr": req.RemoteAddr,
						"rq": rec{"cred": rq.cred, "socket": rq.socket, "uid": rq.uid, "user": rq.user, "polkit": rq.polkit,
							"conn": rq.conn, "degraded": rq.degraded, "write": rq.write}, "out": got})
				}
				statesCovered[cls.key()+"|"+row.K] = true

				// (a) the statement, clause by clause, on the real observation
				bad := ""
				if ran {
					ifaceGated := cls.Kind == "ifaceOpen" || cls.Kind == "ifaceAuth"
					switch {
					case rq.cred != "valid":
						bad = "served without valid peer credentials"
					case rq.socket == "snap" && !(cls.Kind == "snap" || (ifaceGated && (rq.conn == "activeListed" || rq.conn == "bothListed"))):
						bad = "served on the snap socket without being snapctl or an interface-gated endpoint with an active listed connection"
					case cls.Kind == "root" && rq.uid != "root":
						bad = "root-only endpoint served a non-root uid"
					case (cls.Kind == "authenticated" || cls.Kind == "ifaceAuth") &&
						!(rq.uid == "root" || rq.user == "valid" || (cls.Polkit && rq.polkit == "yes" && len(polkitCalls) > 0)):
						bad = "authenticated endpoint served a caller that is neither root, nor a logged-in user, nor polkit-authorized"
					}
				}
				descr := func() rec {
					return rec{"path": path, "method": m.method, "class": cls, "interfaces": ifaces, "req": row.K,
						"remote_addr": req.RemoteAddr, "got": got, "status": w.Code, "spec": row.D, "polkit_calls": polkitCalls, "seen_addr": seenAddr}
				}
				if bad != "" {
					viol++
					if viol <= 300 {
						r := descr()
						r["k"] = "violation"
						r["what"] = bad
						emit(r)
					}
				}
				// (b) equality with the spec
				why := ""
				if got != row.D {
					why = "decision"
				} else if (len(polkitCalls) > 0) != row.P {
					why = "polkit-consulted"
				} else if len(polkitCalls) > 1 {
					why = "polkit-consulted-twice"
				} else if len(polkitCalls) == 1 && polkitCalls[0] != fmt.Sprintf("%d/%d/%s", pid, uids[rq.uid], action) {
					why = "polkit-arguments"
				} else if ran {
					uc, attached, err := ucrednetGetWithInterfaces(seenAddr)
					if err != nil || uc == nil || uc.Uid != uids[rq.uid] || uc.Pid != pid {
						why = "handler-sees-other-credentials"
					} else if len(attached) != row.A {
						why = "attached-interfaces"
					} else {
						for _, a := range attached {
							found := false
							for _, l := range ifaces {
								found = found || l == a
							}
							if !found {
								why = "attached-unlisted-interface"
							}
						}
					}
				}
				if why != "" {
					drift++
					if drift <= 200 {
						r := descr()
						r["k"] = "drift"
						r["why"] = why
						r["statement_violated"] = bad != ""
						emit(r)
					}
				}
				sk := cls.Kind + ":" + got
				if samples[sk] < 1 && n%7 == 3 {
					samples[sk]++
					r := descr()
					r["k"] = "sample"
					emit(r)
				}
			}
			ep["rows_run"] = nrun
			ep["full"] = full
			endpoints = append(endpoints, ep)
		}
	}
	d.degradedErr = nil
	emit(rec{"k": "summary", "runs": runs, "drift": drift, "violations": viol, "counts": counts, "per_class": perClass,
		"endpoints": endpoints, "unmodelled": unmodelled, "abstract_states_covered": len(statesCovered), "observations_recorded": nobs})
}
