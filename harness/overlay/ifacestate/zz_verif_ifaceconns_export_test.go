// verif C22 (IfaceConns.tla): in-package accessors used by zz_verif_ifaceconns_test.go.
// Compiled into package ifacestate's internal test package with `go test -overlay`; never part of a build.
package ifacestate

import (
	"github.com/snapcore/snapd/overlord/state"
)

// VerifConnsHandlers returns the REAL do/undo handlers the manager registered for the task kinds the
// C22 driver wraps (to be able to fail a task on entry). Mirrors the addHandler calls in Manager().
func VerifConnsHandlers(m *InterfaceManager) map[string][2]state.HandlerFunc {
	return map[string][2]state.HandlerFunc{
		"connect":            {m.doConnect, m.undoConnect},
		"disconnect":         {m.doDisconnect, m.undoDisconnect},
		"setup-profiles":     {m.doSetupProfiles, m.undoSetupProfiles},
		"remove-profiles":    {m.doRemoveProfiles, m.doSetupProfiles},
		"discard-conns":      {m.doDiscardConns, m.undoDiscardConns},
		"auto-connect":       {m.doAutoConnect, m.undoAutoConnect},
		"auto-disconnect":    {m.doAutoDisconnect, nil},
		"hotplug-disconnect": {m.doHotplugDisconnect, nil},
		"hotplug-connect":    {m.doHotplugConnect, nil},
		"hotplug-remove-slot": {m.doHotplugRemoveSlot, nil},
	}
}
