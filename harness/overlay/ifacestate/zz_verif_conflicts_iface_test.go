// -*- Mode: Go; indent-tabs-mode: t -*-

// C14 driver, ifacestate part (spec: /verif/spec/Conflicts.tla, same trace format as the snapstate driver).
// Connect / Disconnect requests are issued through the REAL ifacestate.Connect / ifacestate.Disconnect
// against in-progress changes of every relevant kind; other managers' changes are represented by
// changes whose tasks carry a snap-setup, as the conflict check sees them.

package ifacestate_test

import (
	"bufio"
	"encoding/json"
	"fmt"
	"math/rand"
	"os"
	"sort"
	"strconv"
	"testing"

	. "gopkg.in/check.v1"

	"github.com/snapcore/snapd/interfaces"
	"github.com/snapcore/snapd/interfaces/ifacetest"
	"github.com/snapcore/snapd/overlord/ifacestate"
	"github.com/snapcore/snapd/overlord/snapstate"
	"github.com/snapcore/snapd/overlord/state"
	"github.com/snapcore/snapd/snap"
)

var verifConfIfaceReal = map[string]string{"a": "consumer", "b": "producer", "c": "other-snap", "snapd": "snapd"}
var verifConfIfaceSpec = map[string]string{"consumer": "a", "producer": "b", "other-snap": "c", "snapd": "snapd"}

type verifConfIfaceChange struct {
	Kind  string   `json:"kind"`
	Ready bool     `json:"ready"`
	Snaps []string `json:"snaps"`
	Down  bool     `json:"down"`
	Done  []string `json:"done"`
}

type verifConfIfaceSt struct {
	Changes []verifConfIfaceChange `json:"changes"`
	ACfg    map[string][]string    `json:"acfg"`
	Status  map[string]string      `json:"status"`
	Same    bool                   `json:"same"`
	NChg    int                    `json:"nchg"`
}

type verifConfIfaceEv struct {
	Ev   string                 `json:"ev"`
	Case int                    `json:"case"`
	Args map[string]interface{} `json:"args"`
	Res  map[string]interface{} `json:"res"`
	St   verifConfIfaceSt       `json:"st"`
}

type verifConfIfaceSuite struct {
	interfaceManagerSuite
	w     *bufio.Writer
	caseN int
	chgs  []*state.Change

	requests, accepted, conflicts int
	classes                       map[string]bool
}

func (s *verifConfIfaceSuite) project(c *C, same bool) verifConfIfaceSt {
	ps := verifConfIfaceSt{Same: same, ACfg: map[string][]string{"new": {}, "drop": {}, "xsrc": {}, "xdst": {}}, NChg: len(s.state.Changes()), Changes: []verifConfIfaceChange{},
		Status: map[string]string{"a": "active", "b": "active", "c": "active", "snapd": "active"}}
	for _, chg := range s.chgs {
		pc := verifConfIfaceChange{Kind: chg.Kind(), Ready: chg.IsReady(), Snaps: []string{}, Done: []string{}}
		if pc.Ready {
			pc = verifConfIfaceChange{Kind: "done", Ready: true, Snaps: []string{}, Done: []string{}}
		} else {
			set := map[string]bool{}
			pending := map[string]bool{}
			for _, t := range chg.Tasks() {
				names, err := snapstate.SnapsAffectedByTask(t)
				c.Assert(err, IsNil)
				for _, n := range names {
					sn, ok := verifConfIfaceSpec[n]
					if !ok {
						sn = "?" + n
					}
					set[sn] = true
					if !t.Status().Ready() {
						pending[sn] = true
					}
				}
			}
			for n := range set {
				pc.Snaps = append(pc.Snaps, n)
				if !pending[n] {
					pc.Done = append(pc.Done, n)
				}
			}
			sort.Strings(pc.Snaps)
			sort.Strings(pc.Done)
		}
		ps.Changes = append(ps.Changes, pc)
	}
	return ps
}

func (s *verifConfIfaceSuite) emit(c *C, ev string, args, res map[string]interface{}, same bool) {
	if res == nil {
		res = map[string]interface{}{"result": "none"}
	}
	e := verifConfIfaceEv{Ev: ev, Case: s.caseN, Args: args, Res: res, St: s.project(c, same)}
	b, err := json.Marshal(e)
	c.Assert(err, IsNil)
	s.w.Write(b)
	s.w.WriteByte('\n')
}

func (s *verifConfIfaceSuite) live() []int {
	var out []int
	for i, chg := range s.chgs {
		if !chg.IsReady() {
			out = append(out, i+1)
		}
	}
	return out
}

// see verifConfAbort in the snapstate driver
func verifConfIfaceAbort(chg *state.Change) {
	fresh := true
	for _, t := range chg.Tasks() {
		if t.Status() != state.DoStatus {
			fresh = false
		}
	}
	if fresh {
		chg.Abort()
		return
	}
	for _, t := range chg.Tasks() {
		if t.Status() == state.DoneStatus {
			t.SetStatus(state.UndoneStatus)
		}
	}
	for _, t := range chg.Tasks() {
		if !t.Status().Ready() {
			t.SetStatus(state.HoldStatus)
		}
	}
}

func verifConfIfaceEnvInt(name string, def int) int {
	if v := os.Getenv(name); v != "" {
		if n, err := strconv.Atoi(v); err == nil {
			return n
		}
	}
	return def
}

func (s *verifConfIfaceSuite) TestVerifConflictsIfaceRun(c *C) {
	out := os.Getenv("VERIF_OUT")
	n := verifConfIfaceEnvInt("VERIF_N", 20)
	seed := verifConfIfaceEnvInt("VERIF_SEED", 1)
	f, err := os.Create(out)
	c.Assert(err, IsNil)
	defer f.Close()
	s.w = bufio.NewWriterSize(f, 1<<20)
	defer s.w.Flush()
	s.classes = map[string]bool{}
	r := rand.New(rand.NewSource(int64(seed)*3571 + 14))

	s.mockIfaces(&ifacetest.TestInterface{InterfaceName: "test"}, &ifacetest.TestInterface{InterfaceName: "test2"})
	plugAppSet := s.mockAppSet(c, consumerYaml)
	slotAppSet := s.mockAppSet(c, producerYaml)
	s.mockSnap(c, consumerYaml)
	s.mockSnap(c, producerYaml)
	_ = s.manager(c)
	conn := &interfaces.Connection{
		Plug: interfaces.NewConnectedPlug(plugAppSet.Info().Plugs["plug"], plugAppSet, nil, nil),
		Slot: interfaces.NewConnectedSlot(slotAppSet.Info().Slots["slot"], slotAppSet, nil, nil),
	}

	s.state.Lock()
	defer s.state.Unlock()

	ordinary := []string{"install-snap", "refresh-snap", "remove-snap", "enable-snap", "alias", "connect-snap", "some-other-kind"}
	exclusive := []string{"remodel", "create-recovery-system", "remove-recovery-system", "transition-ubuntu-core", "transition-to-snapd-snap"}
	irrelevant := []string{"pre-download", "become-operational"}

	inject := func(kind string, T []string) {
		chg := s.state.NewChange(kind, "...")
		if len(T) == 0 {
			chg.AddTask(s.state.NewTask("verif-task", "..."))
		}
		for _, sn := range T {
			t := s.state.NewTask("verif-task", "...")
			t.Set("snap-setup", &snapstate.SnapSetup{SideInfo: &snap.SideInfo{RealName: verifConfIfaceReal[sn], Revision: snap.R(3)}})
			chg.AddTask(t)
		}
		s.chgs = append(s.chgs, chg)
		if T == nil {
			T = []string{}
		}
		s.emit(c, "Inject", map[string]interface{}{"kind": kind, "T": T}, nil, true)
	}

	for i := 0; i < n; i++ {
		s.caseN = i
		for _, chg := range s.state.Changes() {
			if !chg.IsReady() {
				verifConfIfaceAbort(chg)
			}
			if !chg.IsReady() {
				c.Fatalf("cannot retire change %s (%s)", chg.Kind(), chg.Status())
			}
		}
		s.chgs = nil
		s.emit(c, "Reset", map[string]interface{}{}, nil, true)

		// in-progress changes of other managers: disjoint snaps; an exclusive one only first and alone
		free := []string{"a", "b", "c"}
		r.Shuffle(len(free), func(x, y int) { free[x], free[y] = free[y], free[x] })
		k := r.Intn(3)
		exclSeen := false
		for j := 0; j < k; j++ {
			p := r.Intn(10)
			switch {
			case p < 2 && j == 0:
				T := []string{}
				if r.Intn(2) == 0 {
					T = []string{free[0]}
					free = free[1:]
				}
				inject(exclusive[r.Intn(len(exclusive))], T)
				exclSeen = true
			case p < 5 || exclSeen:
				inject(irrelevant[r.Intn(len(irrelevant))], []string{[]string{"a", "b", "c"}[r.Intn(3)]})
			default:
				T := []string{free[0]}
				free = free[1:]
				if len(free) > 0 && r.Intn(2) == 0 {
					T = append(T, free[0])
					free = free[1:]
					sort.Strings(T)
				}
				inject(ordinary[r.Intn(len(ordinary))], T)
				if len(T) == 2 && r.Intn(3) != 0 {
					// the lane of one of the two snaps finishes, the change keeps running
					idx := len(s.chgs)
					sn := T[r.Intn(2)]
					for _, t := range s.chgs[idx-1].Tasks() {
						names, err := snapstate.SnapsAffectedByTask(t)
						c.Assert(err, IsNil)
						if len(names) == 1 && verifConfIfaceSpec[names[0]] == sn {
							t.SetStatus([]state.Status{state.DoneStatus, state.UndoneStatus, state.ErrorStatus, state.HoldStatus}[r.Intn(4)])
						}
					}
					c.Assert(s.chgs[idx-1].IsReady(), Equals, false)
					s.emit(c, "Partial", map[string]interface{}{"c": idx, "s": sn}, nil, true)
				}
			}
		}

		steps := 2 + r.Intn(4)
		for j := 0; j < steps; j++ {
			live := s.live()
			if len(live) > 0 && r.Intn(4) == 0 {
				idx := live[r.Intn(len(live))]
				chg := s.chgs[idx-1]
				how := "abort"
				if r.Intn(2) == 0 {
					how = "done"
					for _, t := range chg.Tasks() {
						t.SetStatus(state.DoneStatus)
					}
				} else {
					verifConfIfaceAbort(chg)
				}
				s.emit(c, "Progress", map[string]interface{}{"c": idx, "how": how}, nil, true)
				continue
			}
			op := []string{"connect", "disconnect"}[r.Intn(2)]
			nchg := len(s.state.Changes())
			var ts *state.TaskSet
			var err error
			if op == "connect" {
				ts, err = ifacestate.Connect(s.state, "consumer", "plug", "producer", "slot")
			} else {
				ts, err = ifacestate.Disconnect(s.state, conn)
			}
			result := "accepted"
			if err != nil {
				if _, ok := err.(*snapstate.ChangeConflictError); ok {
					result = "conflict"
				} else {
					result = "error: " + err.Error()
				}
			}
			s.requests++
			if result == "accepted" {
				s.accepted++
				chg := s.state.NewChange(op+"-snap", "...")
				chg.AddAll(ts)
				s.chgs = append(s.chgs, chg)
			} else if result == "conflict" {
				s.conflicts++
				if len(s.state.Changes()) != nchg {
					result = "conflict-but-created-change"
				}
			}
			lk := ""
			for _, li := range s.live() {
				lk += s.chgs[li-1].Kind() + ","
			}
			s.classes[op+"|"+result+"|"+lk] = true
			s.emit(c, "Request", map[string]interface{}{"op": op, "S": []string{"a", "b"}, "from": 0, "mutated": []string{}},
				map[string]interface{}{"result": result}, true)
		}
	}
	s.w.Flush()
	fmt.Printf("VERIF-STATS {\"traces\":%d,\"requests\":%d,\"accepted\":%d,\"conflicts\":%d,\"distinct_classes\":%d}\n",
		n, s.requests, s.accepted, s.conflicts, len(s.classes))
}

func TestVerifConflictsIface(t *testing.T) {
	if os.Getenv("VERIF_OUT") == "" {
		t.Skip("VERIF_OUT not set")
	}
	res := Run(&verifConfIfaceSuite{}, &RunConf{Output: os.Stdout, Verbose: true, Filter: "TestVerifConflictsIfaceRun"})
	if !res.Passed() {
		t.Fatalf("verif conflicts iface driver failed: %s", res.String())
	}
}
