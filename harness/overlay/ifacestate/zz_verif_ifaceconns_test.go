// verif C22 (spec/IfaceConns.tla, TraceIfaceConns.tla): driver for the REAL InterfaceManager + TaskRunner.
//
// Compiled into package ifacestate_test with `go test -overlay` (never part of /repo). It reuses the
// package's own suite infrastructure (interfaceManagerSuite: overlord.Mock, asserts mock, mockSnap,
// ifacetest.TestSecurityBackend) and drives ifacestate.Connect / Disconnect / Forget plus install / remove
// chains (real setup-profiles, auto-connect, auto-disconnect, remove-profiles handlers; link/unlink/discard
// are small stand-ins for the snapstate handlers, as in the package's own tests).
//
// Faults: fail a given task on entry (hooks through hookstate.MockRunHook, interface tasks through a wrapper
// around the real handler, stand-in tasks directly) or fail the k-th security backend Setup call made by a
// given task. After every task status change the projected state (state "conns", repository connections,
// last Setup per snap) is recorded under the state lock; after every settled change a fresh InterfaceManager
// is started on the same state (restart) and its repository recorded.
//
// Output: VERIF_OUT (NDJSON events for TraceIfaceConns.tla), VERIF_OUT+".ops" (one record per change with
// before/after projections for the direct evaluation of the C22 statement).
package ifacestate_test

import (
	"encoding/json"
	"fmt"
	"math/rand"
	"os"
	"reflect"
	"sort"
	"strconv"
	"strings"
	"sync"
	"time"

	. "gopkg.in/check.v1"
	"gopkg.in/tomb.v2"

	"github.com/snapcore/snapd/asserts/assertstest"
	"github.com/snapcore/snapd/interfaces"
	"github.com/snapcore/snapd/interfaces/ifacetest"
	"github.com/snapcore/snapd/overlord/hookstate"
	"github.com/snapcore/snapd/overlord/ifacestate"
	"github.com/snapcore/snapd/overlord/ifacestate/ifacerepo"
	"github.com/snapcore/snapd/overlord/snapstate"
	"github.com/snapcore/snapd/overlord/snapstate/snapstatetest"
	"github.com/snapcore/snapd/overlord/state"
	"github.com/snapcore/snapd/snap"
	"github.com/snapcore/snapd/snap/snaptest"
)

type verifConnsSuite struct{}

var _ = Suite(&verifConnsSuite{})

// ---------------------------------------------------------------------------------------------------
// The world (must agree with the constants of spec/IfaceConns.tla; the Start events carry the real task
// lists, so a disagreement is rejected by the trace spec).

const verifConnsBaseDecl = `
type: base-declaration
authority-id: canonical
series: 16
slots:
  verifa:
    allow-installation: true
    allow-connection: true
    allow-auto-connection: true
  verifb:
    allow-installation: true
    allow-connection: true
    allow-auto-connection: false
`

var verifConnsYaml = map[string]string{
	"cons": `
name: cons
version: 1
apps:
  app:
hooks:
  prepare-plug-pa:
  connect-plug-pa:
  disconnect-plug-pa:
plugs:
  pa:
    interface: verifa
    attr: cons-pa
  pb:
    interface: verifb
    attr: cons-pb
`,
	"prod": `
name: prod
version: 1
apps:
  app:
hooks:
  prepare-slot-sa:
  connect-slot-sa:
  disconnect-slot-sa:
slots:
  sa:
    interface: verifa
    attr: prod-sa
  sb:
    interface: verifb
    attr: prod-sb
`,
	"third": `
name: third
version: 1
apps:
  app:
plugs:
  pa:
    interface: verifa
    attr: third-pa
slots:
  sb:
    interface: verifb
    attr: third-sb
`,
}

var verifConnsSnaps = []string{"cons", "prod", "third"}

var verifConnsUniverse = []string{
	"cons:pa prod:sa",
	"cons:pb prod:sb",
	"third:pa prod:sa",
	"cons:pb third:sb",
}

func verifConnsIface(id string) string {
	if strings.Contains(id, ":pa ") {
		return "verifa"
	}
	return "verifb"
}

// initial worlds: installed snaps + persisted "conns" before the manager starts
type verifConnsWorldDef struct {
	Installed []string
	Conns     map[string]interface{}
}

func verifConnsConn(id string, auto, undesired bool) map[string]interface{} {
	m := map[string]interface{}{"interface": verifConnsIface(id)}
	if auto {
		m["auto"] = true
	}
	if undesired {
		m["undesired"] = true
	} else {
		ref, _ := interfaces.ParseConnRef(id)
		m["plug-static"] = map[string]interface{}{"attr": ref.PlugRef.Snap + "-" + ref.PlugRef.Name}
		m["slot-static"] = map[string]interface{}{"attr": ref.SlotRef.Snap + "-" + ref.SlotRef.Name}
	}
	return m
}

var verifConnsWorlds = map[string]verifConnsWorldDef{
	"W0": {Installed: []string{"cons", "prod", "third"}, Conns: map[string]interface{}{}},
	"W1": {Installed: []string{"cons", "prod"}, Conns: map[string]interface{}{
		"cons:pa prod:sa": verifConnsConn("cons:pa prod:sa", true, false),
		"cons:pb prod:sb": verifConnsConn("cons:pb prod:sb", false, false),
	}},
	"W2": {Installed: []string{"cons", "prod", "third"}, Conns: map[string]interface{}{
		"cons:pa prod:sa":  verifConnsConn("cons:pa prod:sa", true, true),
		"third:pa prod:sa": verifConnsConn("third:pa prod:sa", true, false),
		"cons:pb third:sb": verifConnsConn("cons:pb third:sb", false, false),
	}},
	"W3": {Installed: []string{"prod"}, Conns: map[string]interface{}{}},
}

// ---------------------------------------------------------------------------------------------------
// abstract identities

type verifConnsTask struct {
	Kind string `json:"kind"`
	C    string `json:"c"`
	S    string `json:"s"`
	Hook string `json:"hook"`
	Mode string `json:"mode"`
}

type verifConnsFault struct {
	Has bool           `json:"has"`
	T   verifConnsTask `json:"t"`
	At  int            `json:"at"` // 0: on entry; k>0: the k-th backend Setup call made by the task's do handler
}

type verifConnsOp struct {
	Name  string          `json:"name"` // connect | disconnect | forget | install | remove
	C     string          `json:"c"`
	S     string          `json:"s"`
	Fault verifConnsFault `json:"fault"`
}

type verifConnsScenario struct {
	World string         `json:"world"`
	Ops   []verifConnsOp `json:"ops"`
}

type verifConnsConnProj struct {
	Present   bool   `json:"present"`
	Iface     string `json:"iface"`
	Auto      bool   `json:"auto"`
	ByGadget  bool   `json:"bygadget"`
	Undesired bool   `json:"undesired"`
	Gone      bool   `json:"gone"`
	Attrs     string `json:"attrs"` // "set" | "nil"
}

type verifConnsProfile struct {
	Has   bool     `json:"has"`
	Conns []string `json:"conns"`
}

type verifConnsProj struct {
	Installed []string                      `json:"installed"`
	Conns     map[string]verifConnsConnProj `json:"conns"`
	Repo      []string                      `json:"repo"`
	Profiles  map[string]verifConnsProfile  `json:"profiles"`
	Extra     []string                      `json:"extra"` // conn ids outside the universe (must stay empty)
	RawConns  json.RawMessage               `json:"-"`
}

// ---------------------------------------------------------------------------------------------------
// one live world

type verifConnsWorld struct {
	c        *C
	s        *interfaceManagerSuite
	mgr      *ifacestate.InterfaceManager
	restores []func()

	mu       sync.Mutex
	profiles map[string]verifConnsProfile
	cur      *verifConnsTask // interface task whose do handler is running
	setupIdx int
	fault    verifConnsFault
	fired    bool
	chg      *state.Change
	known    map[string]bool // real task ids of chg already reported in Start / inj
	setups   map[string]int  // json(task identity) -> Setup calls made by its do handler

	caseName string
	opi      int
	events   *[]map[string]interface{}
	problems []string
}

func (w *verifConnsWorld) emit(ev string, args map[string]interface{}, st *verifConnsProj, cmp bool) {
	if args == nil {
		args = map[string]interface{}{}
	}
	line := map[string]interface{}{"ev": ev, "case": w.caseName, "opi": w.opi, "args": args, "cmp": cmp}
	if st != nil {
		line["st"] = st
	}
	*w.events = append(*w.events, line)
}

func verifConnsSortedCopy(l []string) []string {
	out := append([]string{}, l...)
	sort.Strings(out)
	return out
}

// project must be called with the state lock held.
func (w *verifConnsWorld) project(repo *interfaces.Repository) *verifConnsProj {
	st := w.s.state
	p := &verifConnsProj{
		Installed: []string{}, Conns: map[string]verifConnsConnProj{}, Repo: []string{},
		Profiles: map[string]verifConnsProfile{}, Extra: []string{},
	}
	for _, name := range verifConnsSnaps {
		var snapst snapstate.SnapState
		if err := snapstate.Get(st, name, &snapst); err == nil && snapst.IsInstalled() {
			p.Installed = append(p.Installed, name)
		}
	}
	var raw map[string]map[string]interface{}
	var rawMsg *json.RawMessage
	if err := st.Get("conns", &rawMsg); err == nil && rawMsg != nil {
		p.RawConns = append(json.RawMessage{}, (*rawMsg)...)
		json.Unmarshal(*rawMsg, &raw)
	}
	inUniverse := map[string]bool{}
	for _, id := range verifConnsUniverse {
		inUniverse[id] = true
		cp := verifConnsConnProj{Attrs: "nil"}
		if m, ok := raw[id]; ok {
			cp.Present = true
			cp.Iface, _ = m["interface"].(string)
			cp.Auto, _ = m["auto"].(bool)
			cp.ByGadget, _ = m["by-gadget"].(bool)
			cp.Undesired, _ = m["undesired"].(bool)
			cp.Gone, _ = m["hotplug-gone"].(bool)
			ps, _ := m["plug-static"].(map[string]interface{})
			ss, _ := m["slot-static"].(map[string]interface{})
			if len(ps) > 0 || len(ss) > 0 {
				cp.Attrs = "set"
			}
		}
		p.Conns[id] = cp
	}
	for id := range raw {
		if !inUniverse[id] {
			p.Extra = append(p.Extra, "conns:"+id)
		}
	}
	for _, cref := range repo.Interfaces().Connections {
		id := cref.ID()
		if !inUniverse[id] {
			p.Extra = append(p.Extra, "repo:"+id)
		}
		p.Repo = append(p.Repo, id)
	}
	sort.Strings(p.Repo)
	sort.Strings(p.Extra)
	w.mu.Lock()
	for _, name := range verifConnsSnaps {
		pr, ok := w.profiles[name]
		if !ok {
			pr = verifConnsProfile{Conns: []string{}}
		}
		p.Profiles[name] = verifConnsProfile{Has: pr.Has, Conns: verifConnsSortedCopy(pr.Conns)}
	}
	w.mu.Unlock()
	return p
}

func verifConnsSnapsup(name string) *snapstate.SnapSetup {
	return &snapstate.SnapSetup{SideInfo: &snap.SideInfo{RealName: name, Revision: snap.R(1)}}
}

var verifConnsTimes = map[string]time.Duration{}

func verifConnsTimed(name string, t0 time.Time) { verifConnsTimes[name] += time.Since(t0) }

func verifConnsNewWorld(c *C, def verifConnsWorldDef, events *[]map[string]interface{}) *verifConnsWorld {
	defer verifConnsTimed("newWorld", time.Now())
	w := &verifConnsWorld{c: c, s: &interfaceManagerSuite{}, profiles: map[string]verifConnsProfile{}, events: events}
	s := w.s
	s.SetUpTest(c)
	w.restores = append(w.restores, assertstest.MockBuiltinBaseDeclaration([]byte(verifConnsBaseDecl)))
	w.restores = append(w.restores, hookstate.MockRunHook(w.runHook))
	s.mockIfaces(&ifacetest.TestInterface{InterfaceName: "verifa"}, &ifacetest.TestInterface{InterfaceName: "verifb"})
	s.secBackend.BackendName = "verifbackend" // unnamed test backends are skipped by regenerateAllSecurityProfiles
	s.secBackend.SetupCallback = w.setupCallback
	s.secBackend.RemoveCallback = w.removeCallback
	// as on first boot / after a snapd upgrade: StartUp regenerates every profile, so the initial
	// "last Setup per snap" is defined
	regen := ifacestate.MockProfilesNeedRegeneration(func(*ifacestate.InterfaceManager) bool { return true })
	defer regen()

	installed := map[string]bool{}
	for _, name := range def.Installed {
		installed[name] = true
	}
	for _, name := range verifConnsSnaps {
		if installed[name] {
			s.mockSnap(c, verifConnsYaml[name])
		} else {
			snaptest.MockSnap(c, verifConnsYaml[name], &snap.SideInfo{RealName: name, Revision: snap.R(1)})
		}
	}
	s.state.Lock()
	s.state.Set("conns", def.Conns)
	s.state.Unlock()

	w.mgr = s.manager(c)

	// wrap the real do handlers (fail on entry / track the running interface task)
	runner := s.o.TaskRunner()
	for kind, h := range ifacestate.VerifConnsHandlers(w.mgr) {
		runner.AddHandler(kind, w.wrapDo(h[0]), h[1])
	}
	// stand-ins for the snapstate handlers of the install / remove chains
	runner.AddHandler("verif-link-snap", w.wrapDo(w.doLink), w.undoLink)
	runner.AddHandler("verif-post", w.wrapDo(func(*state.Task, *tomb.Tomb) error { return nil }), func(*state.Task, *tomb.Tomb) error { return nil })
	// a later task of the same change (as "error-trigger" in the package's own undo tests): the task sets
	// returned by Connect/Disconnect/Forget are composed with further tasks by their callers
	runner.AddHandler("verif-tail", w.wrapDo(func(*state.Task, *tomb.Tomb) error { return nil }), nil)
	runner.AddHandler("verif-unlink-snap", w.wrapDo(w.doUnlink), w.undoUnlink)
	runner.AddHandler("verif-discard-snap", w.wrapDo(w.doDiscard), nil)

	s.state.Lock()
	s.state.AddTaskStatusChangedHandler(w.statusChanged)
	s.state.Unlock()
	return w
}

func (w *verifConnsWorld) close() {
	defer verifConnsTimed("close", time.Now())
	for i := len(w.restores) - 1; i >= 0; i-- {
		w.restores[i]()
	}
	w.s.TearDownTest(w.c)
}

// --- stand-in handlers -----------------------------------------------------------------------------

func (w *verifConnsWorld) taskSnap(t *state.Task) string {
	snapsup, err := snapstate.TaskSnapSetup(t)
	if err != nil {
		return "?"
	}
	return snapsup.InstanceName()
}

func (w *verifConnsWorld) doLink(t *state.Task, _ *tomb.Tomb) error {
	st := t.State()
	st.Lock()
	defer st.Unlock()
	snapsup, err := snapstate.TaskSnapSetup(t)
	if err != nil {
		return err
	}
	snapstate.Set(st, snapsup.InstanceName(), &snapstate.SnapState{
		Active:   true,
		Sequence: snapstatetest.NewSequenceFromSnapSideInfos([]*snap.SideInfo{snapsup.SideInfo}),
		Current:  snapsup.SideInfo.Revision,
		SnapType: "app",
	})
	return ifacestate.OnSnapLinkageChanged(st, snapsup)
}

func (w *verifConnsWorld) undoLink(t *state.Task, _ *tomb.Tomb) error {
	st := t.State()
	st.Lock()
	defer st.Unlock()
	snapsup, err := snapstate.TaskSnapSetup(t)
	if err != nil {
		return err
	}
	snapstate.Set(st, snapsup.InstanceName(), nil)
	return ifacestate.OnSnapLinkageChanged(st, snapsup)
}

func (w *verifConnsWorld) setActive(t *state.Task, active bool) error {
	st := t.State()
	st.Lock()
	defer st.Unlock()
	snapsup, err := snapstate.TaskSnapSetup(t)
	if err != nil {
		return err
	}
	var snapst snapstate.SnapState
	if err := snapstate.Get(st, snapsup.InstanceName(), &snapst); err != nil {
		return err
	}
	snapst.Active = active
	snapstate.Set(st, snapsup.InstanceName(), &snapst)
	return ifacestate.OnSnapLinkageChanged(st, snapsup)
}

func (w *verifConnsWorld) doUnlink(t *state.Task, _ *tomb.Tomb) error   { return w.setActive(t, false) }
func (w *verifConnsWorld) undoUnlink(t *state.Task, _ *tomb.Tomb) error { return w.setActive(t, true) }

func (w *verifConnsWorld) doDiscard(t *state.Task, _ *tomb.Tomb) error {
	st := t.State()
	st.Lock()
	defer st.Unlock()
	snapsup, err := snapstate.TaskSnapSetup(t)
	if err != nil {
		return err
	}
	snapstate.Set(st, snapsup.InstanceName(), nil)
	return nil
}

// --- fault injection -------------------------------------------------------------------------------

func (w *verifConnsWorld) wrapDo(do state.HandlerFunc) state.HandlerFunc {
	return func(t *state.Task, tb *tomb.Tomb) error {
		st := t.State()
		st.Lock()
		spec := w.specTask(t)
		st.Unlock()
		w.mu.Lock()
		w.cur = &spec
		w.setupIdx = 0
		fail := w.fault.Has && !w.fired && w.fault.At == 0 && w.fault.T == spec
		if fail {
			w.fired = true
		}
		w.mu.Unlock()
		defer func() {
			w.mu.Lock()
			if w.setups != nil {
				k, _ := json.Marshal(spec)
				w.setups[string(k)] = w.setupIdx
			}
			w.cur = nil
			w.mu.Unlock()
		}()
		if fail {
			return fmt.Errorf("verif: injected failure on entry of %s", spec.Kind)
		}
		return do(t, tb)
	}
}

func (w *verifConnsWorld) runHook(ctx *hookstate.Context, _ *tomb.Tomb) ([]byte, error) {
	ctx.Lock()
	t, _ := ctx.Task()
	var spec verifConnsTask
	if t != nil {
		spec = w.specTask(t)
	}
	ctx.Unlock()
	w.mu.Lock()
	defer w.mu.Unlock()
	// only the do hook (not the undo hook run by the same task) is a fault point
	if t != nil && w.fault.Has && !w.fired && w.fault.At == 0 && w.fault.T == spec && ctx.HookName() == spec.Hook {
		w.fired = true
		return []byte("verif: injected hook failure"), fmt.Errorf("exit status 1")
	}
	return nil, nil
}

func (w *verifConnsWorld) setupCallback(appSet *interfaces.SnapAppSet, _ interfaces.ConfinementOptions, repo *interfaces.Repository) error {
	name := appSet.InstanceName()
	w.mu.Lock()
	defer w.mu.Unlock()
	w.setupIdx++
	if w.cur != nil && w.fault.Has && !w.fired && w.fault.At > 0 && w.fault.At == w.setupIdx && w.fault.T == *w.cur {
		w.fired = true
		return fmt.Errorf("verif: injected failure of Setup(%s)", name)
	}
	ids := []string{}
	if refs, err := repo.Connections(name); err == nil {
		for _, r := range refs {
			ids = append(ids, r.ID())
		}
	}
	sort.Strings(ids)
	w.profiles[name] = verifConnsProfile{Has: true, Conns: ids}
	return nil
}

func (w *verifConnsWorld) removeCallback(name string) error {
	w.mu.Lock()
	defer w.mu.Unlock()
	w.profiles[name] = verifConnsProfile{Has: false, Conns: []string{}}
	return nil
}

// --- task identities (state lock held) ---------------------------------------------------------------

func (w *verifConnsWorld) connOfTask(t *state.Task) string {
	var plugRef interfaces.PlugRef
	var slotRef interfaces.SlotRef
	if err := t.Get("plug", &plugRef); err != nil {
		return "?"
	}
	if err := t.Get("slot", &slotRef); err != nil {
		return "?"
	}
	return (&interfaces.ConnRef{PlugRef: plugRef, SlotRef: slotRef}).ID()
}

func verifConnsFlag(t *state.Task, key string) bool {
	var b bool
	t.Get(key, &b)
	return b
}

func (w *verifConnsWorld) specTask(t *state.Task) verifConnsTask {
	switch t.Kind() {
	case "connect":
		mode := "manual"
		auto, delayed := verifConnsFlag(t, "auto"), verifConnsFlag(t, "delayed-setup-profiles")
		switch {
		case auto && delayed:
			mode = "auto"
		case auto:
			mode = "auto-nodelay"
		case delayed:
			mode = "manual-delayed"
		}
		if verifConnsFlag(t, "by-gadget") {
			mode += "-gadget"
		}
		return verifConnsTask{Kind: "connect", C: w.connOfTask(t), Mode: mode}
	case "disconnect":
		mode := "manual"
		switch {
		case verifConnsFlag(t, "forget"):
			mode = "forget"
		case verifConnsFlag(t, "auto-disconnect"):
			mode = "autodisc"
		case verifConnsFlag(t, "by-hotplug"):
			mode = "hotplug"
		}
		return verifConnsTask{Kind: "disconnect", C: w.connOfTask(t), Mode: mode}
	case "run-hook":
		var hs hookstate.HookSetup
		t.Get("hook-setup", &hs)
		var hctx map[string]interface{}
		t.Get("hook-context", &hctx)
		conn := "?"
		if id, ok := hctx["attrs-task"].(string); ok {
			if at := t.State().Task(id); at != nil {
				conn = w.connOfTask(at)
			}
		}
		mode := ""
		if hs.IgnoreError {
			mode = "ignore"
		}
		return verifConnsTask{Kind: "hook", C: conn, S: hs.Snap, Hook: hs.Hook, Mode: mode}
	case "setup-profiles":
		mode := "auto"
		if verifConnsFlag(t, "verif-first") {
			mode = "first"
		}
		return verifConnsTask{Kind: "setup-profiles", S: w.taskSnap(t), Mode: mode}
	case "verif-link-snap":
		return verifConnsTask{Kind: "link-snap", S: w.taskSnap(t)}
	case "verif-unlink-snap":
		return verifConnsTask{Kind: "unlink-snap", S: w.taskSnap(t)}
	case "verif-discard-snap":
		return verifConnsTask{Kind: "discard-snap", S: w.taskSnap(t)}
	case "verif-post":
		return verifConnsTask{Kind: "post", S: w.taskSnap(t)}
	case "verif-tail":
		return verifConnsTask{Kind: "tail"}
	default:
		return verifConnsTask{Kind: t.Kind(), S: w.taskSnap(t)}
	}
}

func verifConnsIsHook(t verifConnsTask) bool { return t.Kind == "hook" }

// newTasks returns the spec identities of the tasks of the current change not reported before (sorted).
func (w *verifConnsWorld) newTasks() []verifConnsTask {
	out := []verifConnsTask{}
	for _, t := range w.chg.Tasks() {
		if !w.known[t.ID()] {
			w.known[t.ID()] = true
			out = append(out, w.specTask(t))
		}
	}
	sort.Slice(out, func(i, j int) bool { return fmt.Sprint(out[i]) < fmt.Sprint(out[j]) })
	return out
}

// statusChanged runs with the state lock held (inside Task.SetStatus).
func (w *verifConnsWorld) statusChanged(t *state.Task, old, new state.Status) {
	if w.chg == nil || t.Change() == nil || t.Change().ID() != w.chg.ID() || old == new {
		return
	}
	var ev string
	switch {
	case new == state.DoneStatus && (old == state.DoingStatus || old == state.DoStatus):
		ev = "Do"
	case new == state.UndoStatus && old == state.AbortStatus:
		ev = "Do" // "it was actually Done if it got here" (taskrunner): effects applied, now to be undone
	case new == state.ErrorStatus:
		ev = "Fail"
	case new == state.UndoneStatus:
		ev = "Undo"
	default:
		return
	}
	spec := w.specTask(t)
	args := map[string]interface{}{"t": spec, "inj": w.newTasks()}
	w.emit(ev, args, w.project(w.mgr.Repository()), !verifConnsIsHook(spec))
}

// --- operations ------------------------------------------------------------------------------------

func verifConnsRef(id string) *interfaces.ConnRef {
	ref, err := interfaces.ParseConnRef(id)
	if err != nil {
		panic(err)
	}
	return ref
}

// enabledOps lists the operations whose public entry point accepts the request in projection p.
func verifConnsEnabledOps(p *verifConnsProj) []verifConnsOp {
	inst := map[string]bool{}
	for _, s := range p.Installed {
		inst[s] = true
	}
	inRepo := map[string]bool{}
	for _, id := range p.Repo {
		inRepo[id] = true
	}
	var ops []verifConnsOp
	for _, id := range verifConnsUniverse {
		ref := verifConnsRef(id)
		both := inst[ref.PlugRef.Snap] && inst[ref.SlotRef.Snap]
		cp := p.Conns[id]
		if both && !(cp.Present && !cp.Undesired && !cp.Gone) {
			ops = append(ops, verifConnsOp{Name: "connect", C: id})
		}
		if both && inRepo[id] {
			ops = append(ops, verifConnsOp{Name: "disconnect", C: id})
		}
		if both && cp.Present {
			ops = append(ops, verifConnsOp{Name: "forget", C: id})
		}
	}
	for _, s := range verifConnsSnaps {
		if inst[s] {
			ops = append(ops, verifConnsOp{Name: "remove", S: s})
		} else {
			ops = append(ops, verifConnsOp{Name: "install", S: s})
		}
	}
	return ops
}

type verifConnsOpResult struct {
	Case     string           `json:"case"`
	Opi      int              `json:"opi"`
	World    string           `json:"world"`
	Op       verifConnsOp     `json:"op"`
	Scenario interface{}      `json:"scenario"`
	Status   string           `json:"status"`
	Fired    bool             `json:"fired"`
	Tasks    []verifConnsTask `json:"tasks"`  // every task the change had at the end (fault points for children)
	Setups   map[string]int   `json:"setups"` // per task (json of identity): number of Setup calls in its do handler
	Before   *verifConnsProj  `json:"before"`
	After    *verifConnsProj  `json:"after"`
	Restart  *verifConnsProj  `json:"restart"`
	Err      string           `json:"err"`
	Problems []string         `json:"problems"`
	RawEq    bool             `json:"raw_equal"` // state "conns" JSON byte-identical before/after
}

func (w *verifConnsWorld) buildChange(op verifConnsOp) (*state.Change, error) {
	st := w.s.state
	repo := w.mgr.Repository()
	switch op.Name {
	case "connect":
		ref := verifConnsRef(op.C)
		ts, err := ifacestate.Connect(st, ref.PlugRef.Snap, ref.PlugRef.Name, ref.SlotRef.Snap, ref.SlotRef.Name)
		if err != nil {
			return nil, err
		}
		chg := st.NewChange("connect-snap", "verif connect "+op.C)
		chg.AddAll(ts)
		w.addTail(chg, ts)
		return chg, nil
	case "disconnect":
		conn, err := repo.Connection(verifConnsRef(op.C))
		if err != nil {
			return nil, err
		}
		ts, err := ifacestate.Disconnect(st, conn)
		if err != nil {
			return nil, err
		}
		chg := st.NewChange("disconnect-snap", "verif disconnect "+op.C)
		chg.AddAll(ts)
		w.addTail(chg, ts)
		return chg, nil
	case "forget":
		ts, err := ifacestate.Forget(st, repo, verifConnsRef(op.C))
		if err != nil {
			return nil, err
		}
		chg := st.NewChange("disconnect-snap", "verif forget "+op.C)
		chg.AddAll(ts)
		w.addTail(chg, ts)
		return chg, nil
	case "install":
		if err := snapstate.CheckChangeConflict(st, op.S, nil); err != nil {
			return nil, err
		}
		snapsup := verifConnsSnapsup(op.S)
		chg := st.NewChange("install-snap", "verif install "+op.S)
		setup := st.NewTask("setup-profiles", "verif setup profiles")
		setup.Set("snap-setup", snapsup)
		setup.Set("verif-first", true)
		link := st.NewTask("verif-link-snap", "verif link")
		link.Set("snap-setup-task", setup.ID())
		link.WaitFor(setup)
		auto := st.NewTask("auto-connect", "verif auto-connect")
		auto.Set("snap-setup", snapsup)
		auto.WaitFor(link)
		post := st.NewTask("verif-post", "verif rest of the install chain (aliases, services, configure hook)")
		post.Set("snap-setup-task", setup.ID())
		post.WaitFor(auto)
		chg.AddAll(state.NewTaskSet(setup, link, auto, post))
		return chg, nil
	case "remove":
		if err := snapstate.CheckChangeConflict(st, op.S, nil); err != nil {
			return nil, err
		}
		snapsup := verifConnsSnapsup(op.S)
		chg := st.NewChange("remove-snap", "verif remove "+op.S)
		adisc := st.NewTask("auto-disconnect", "verif auto-disconnect")
		adisc.Set("snap-setup", snapsup)
		unlink := st.NewTask("verif-unlink-snap", "verif unlink")
		unlink.Set("snap-setup-task", adisc.ID())
		unlink.WaitFor(adisc)
		rmprof := st.NewTask("remove-profiles", "verif remove profiles")
		rmprof.Set("snap-setup-task", adisc.ID())
		rmprof.WaitFor(unlink)
		discard := st.NewTask("verif-discard-snap", "verif discard")
		discard.Set("snap-setup-task", adisc.ID())
		discard.WaitFor(rmprof)
		chg.AddAll(state.NewTaskSet(adisc, unlink, rmprof, discard))
		return chg, nil
	}
	return nil, fmt.Errorf("unknown op %q", op.Name)
}

// addTail appends a task that waits for the whole task set (same lane): a fault on its entry makes every
// task of the set run its undo handler, the last one included.
func (w *verifConnsWorld) addTail(chg *state.Change, ts *state.TaskSet) {
	tail := w.s.state.NewTask("verif-tail", "verif later task of the same change")
	tail.WaitAll(ts)
	chg.AddTask(tail)
}

func (w *verifConnsWorld) apply(op verifConnsOp) *verifConnsOpResult {
	s := w.s
	res := &verifConnsOpResult{Case: w.caseName, Opi: w.opi, Op: op, Setups: map[string]int{}}
	s.state.Lock()
	res.Before = w.project(w.mgr.Repository())
	chg, err := w.buildChange(op)
	if err != nil {
		s.state.Unlock()
		res.Status = "Rejected"
		res.Err = err.Error()
		res.After = res.Before
		return res
	}
	w.mu.Lock()
	w.fault, w.fired = op.Fault, false
	w.setups = res.Setups
	w.mu.Unlock()
	w.chg = chg
	w.known = map[string]bool{}
	w.emit("Start", map[string]interface{}{"op": map[string]string{"name": op.Name, "c": op.C, "s": op.S},
		"fault": op.Fault, "tasks": w.newTasks()}, res.Before, true)
	s.state.Unlock()

	t0 := time.Now()
	if err := s.o.Settle(20 * time.Second); err != nil {
		res.Problems = append(res.Problems, "settle: "+err.Error())
	}
	verifConnsTimed("settle", t0)

	s.state.Lock()
	res.Status = chg.Status().String()
	if e := chg.Err(); e != nil {
		res.Err = e.Error()
	}
	if !chg.IsReady() {
		res.Problems = append(res.Problems, "change not ready after settle: "+res.Status)
	}
	for _, t := range chg.Tasks() {
		res.Tasks = append(res.Tasks, w.specTask(t))
	}
	res.After = w.project(w.mgr.Repository())
	w.mu.Lock()
	res.Fired = w.fired
	w.setups = nil
	w.fault = verifConnsFault{}
	w.mu.Unlock()
	w.emit("Settle", map[string]interface{}{"status": res.Status}, res.After, true)
	w.chg = nil
	res.RawEq = verifConnsSameJSON(res.Before.RawConns, res.After.RawConns)
	res.Restart = w.restart()
	s.state.Unlock()
	return res
}

// verifConnsSameJSON: the two persisted "conns" values are equal as JSON values (every entry, every attribute).
func verifConnsSameJSON(a, b json.RawMessage) bool {
	var va, vb interface{}
	if len(a) > 0 {
		if err := json.Unmarshal(a, &va); err != nil {
			return false
		}
	}
	if len(b) > 0 {
		if err := json.Unmarshal(b, &vb); err != nil {
			return false
		}
	}
	if m, ok := va.(map[string]interface{}); ok && len(m) == 0 {
		va = nil
	}
	if m, ok := vb.(map[string]interface{}); ok && len(m) == 0 {
		vb = nil
	}
	return reflect.DeepEqual(va, vb)
}

// restart starts a fresh InterfaceManager on the same state (as after a snapd restart), projects its
// repository and the persisted conns as left by StartUp, then puts the persisted conns and the cached
// repository back so that the live world continues unaffected. State lock held on entry and exit.
func (w *verifConnsWorld) restart() *verifConnsProj {
	defer verifConnsTimed("restart", time.Now())
	st := w.s.state
	var saved *json.RawMessage
	st.Get("conns", &saved)
	restore := ifacestate.MockProfilesNeedRegeneration(func(*ifacestate.InterfaceManager) bool { return false })
	defer restore()
	mgr2, err := ifacestate.Manager(st, nil, state.NewTaskRunner(st), w.s.extraIfaces, nil)
	if err != nil {
		w.problems = append(w.problems, "restart: "+err.Error())
		return nil
	}
	st.Unlock()
	err = mgr2.StartUp()
	st.Lock()
	if err != nil {
		w.problems = append(w.problems, "restart startup: "+err.Error())
		return nil
	}
	p := w.project(mgr2.Repository())
	if saved != nil {
		st.Set("conns", saved)
	} else {
		st.Set("conns", nil)
	}
	ifacerepo.Replace(st, w.mgr.Repository())
	return p
}

// ---------------------------------------------------------------------------------------------------
// scenario runner and enumeration

type verifConnsRunner struct {
	c       *C
	events  []map[string]interface{}
	evOut   *os.File
	opsOut  *os.File
	nCases  int
	shard   int
	nOps    int
	maxOps  int
	started time.Time
	budget  time.Duration
}

func (r *verifConnsRunner) flush(results []*verifConnsOpResult) {
	enc := json.NewEncoder(r.evOut)
	for _, e := range r.events {
		if err := enc.Encode(e); err != nil {
			panic(err)
		}
	}
	r.events = r.events[:0]
	enc = json.NewEncoder(r.opsOut)
	for _, res := range results {
		if err := enc.Encode(res); err != nil {
			panic(err)
		}
	}
}

// run executes one scenario on a fresh world; the result of every op is returned.
func (r *verifConnsRunner) run(sc verifConnsScenario, record bool) ([]*verifConnsOpResult, *verifConnsProj) {
	def, ok := verifConnsWorlds[sc.World]
	if !ok {
		panic("unknown world " + sc.World)
	}
	var events []map[string]interface{}
	w := verifConnsNewWorld(r.c, def, &events)
	defer w.close()
	r.nCases++
	w.caseName = fmt.Sprintf("%s#%d.%d", sc.World, r.shard, r.nCases)
	w.s.state.Lock()
	init := w.project(w.mgr.Repository())
	w.s.state.Unlock()
	w.emit("Reset", map[string]interface{}{"world": sc.World}, init, true)
	var results []*verifConnsOpResult
	for i, op := range sc.Ops {
		w.opi = i + 1
		res := w.apply(op)
		res.World = sc.World
		res.Scenario = sc
		res.Problems = append(res.Problems, w.problems...)
		w.problems = nil
		results = append(results, res)
		if res.Status == "Rejected" {
			break
		}
	}
	// the restart of the last op is part of the trace (terminal event of the case)
	if n := len(results); n > 0 && results[n-1].Restart != nil && results[n-1].Status != "Rejected" {
		w.emit("Restart", nil, results[n-1].Restart, true)
	}
	if record {
		r.events = append(r.events, events...)
		r.nOps += len(results)
		r.flush(results)
	}
	return results, init
}

// faultsOf lists the fault points of an op given the tasks / Setup calls seen in its fault-free run.
func verifConnsFaultsOf(clean *verifConnsOpResult, setupFaults bool, setupCounts map[verifConnsTask]int) []verifConnsFault {
	var out []verifConnsFault
	for _, t := range clean.Tasks {
		out = append(out, verifConnsFault{Has: true, T: t, At: 0})
		if setupFaults {
			for k := 1; k <= setupCounts[t]; k++ {
				out = append(out, verifConnsFault{Has: true, T: t, At: k})
			}
		}
	}
	return out
}

func (vs *verifConnsSuite) TestVerifIfaceConns(c *C) {
	outPath := os.Getenv("VERIF_OUT")
	if outPath == "" {
		c.Skip("VERIF_OUT not set")
	}
	evOut, err := os.Create(outPath)
	c.Assert(err, IsNil)
	defer evOut.Close()
	opsOut, err := os.Create(outPath + ".ops")
	c.Assert(err, IsNil)
	defer opsOut.Close()
	r := &verifConnsRunner{c: c, evOut: evOut, opsOut: opsOut, started: time.Now()}

	if scs := os.Getenv("VERIF_SCENARIOS"); scs != "" {
		// replay mode: a JSON list of scenarios (T->I replay of TLC counterexamples, replay files)
		data, err := os.ReadFile(scs)
		c.Assert(err, IsNil)
		var list []verifConnsScenario
		c.Assert(json.Unmarshal(data, &list), IsNil)
		for _, sc := range list {
			r.run(sc, true)
		}
		fmt.Printf("VERIF-STATS cases=%d ops=%d\n", r.nCases, r.nOps)
		return
	}

	seed, _ := strconv.ParseInt(os.Getenv("VERIF_SEED"), 10, 64)
	maxChanges, _ := strconv.Atoi(os.Getenv("VERIF_N"))
	if maxChanges == 0 {
		maxChanges = 300
	}
	depth, _ := strconv.Atoi(os.Getenv("VERIF_DEPTH"))
	if depth == 0 {
		depth = 2
	}
	exhaustDepth, _ := strconv.Atoi(os.Getenv("VERIF_EXHAUST_DEPTH"))
	if exhaustDepth == 0 {
		exhaustDepth = 1
	}
	setupFaults := os.Getenv("VERIF_SETUP_FAULTS") != "0"
	shard, nshards := 0, 1
	if sh := os.Getenv("VERIF_SHARD"); sh != "" {
		fmt.Sscanf(sh, "%d/%d", &shard, &nshards)
	}
	r.shard = shard
	rng := rand.New(rand.NewSource(seed*1000 + int64(shard)))

	worlds := []string{}
	for name := range verifConnsWorlds {
		worlds = append(worlds, name)
	}
	sort.Strings(worlds)

	// Iterative deepening. Pass L records every scenario made of a fault-free prefix of L-1 changes (sometimes
	// with one failed change in it: the restored state must be fully functional) followed by one change run
	// fault-free and once per fault point. Passes up to exhaustDepth take every enabled op and every fault
	// point; deeper passes sample (seeded). Bounded by maxChanges executed changes per process.
	type probe struct {
		ok    bool
		after *verifConnsProj
		clean *verifConnsOpResult
	}
	cache := map[string]*probe{}
	runScenario := func(world string, seq []verifConnsOp, record bool) *probe {
		key, _ := json.Marshal(seq)
		ck := world + string(key)
		if pr, ok := cache[ck]; ok && !record {
			return pr
		}
		results, _ := r.run(verifConnsScenario{World: world, Ops: seq}, record)
		if !record {
			r.nOps += len(results) // probes are executed changes too (budget)
		}
		pr := &probe{}
		if len(results) == len(seq) && results[len(results)-1].Status != "Rejected" {
			pr.ok = true
			pr.clean = results[len(results)-1]
			pr.after = pr.clean.After
		}
		cache[ck] = pr
		return pr
	}
	var expand func(wi int, world string, prefix []verifConnsOp, after *verifConnsProj, level, pass int)
	expand = func(wi int, world string, prefix []verifConnsOp, after *verifConnsProj, level, pass int) {
		ops := verifConnsEnabledOps(after)
		sample := pass > exhaustDepth
		if sample && level > 1 {
			rng.Shuffle(len(ops), func(i, j int) { ops[i], ops[j] = ops[j], ops[i] })
			if len(ops) > 2 {
				ops = ops[:2]
			}
		}
		for oi, op := range ops {
			if r.nOps >= maxChanges {
				return
			}
			if level == 1 && (wi*100+oi)%nshards != shard {
				continue
			}
			seq := append(append([]verifConnsOp{}, prefix...), op)
			pr := runScenario(world, seq, level == pass)
			if !pr.ok {
				continue
			}
			faults := verifConnsFaultsOf(pr.clean, setupFaults, verifConnsSetupCounts(pr.clean))
			if level < pass {
				expand(wi, world, seq, pr.after, level+1, pass)
				// sometimes continue below a failed change instead
				if len(faults) > 0 && rng.Intn(4) == 0 && r.nOps < maxChanges {
					fop := op
					fop.Fault = faults[rng.Intn(len(faults))]
					fseq := append(append([]verifConnsOp{}, prefix...), fop)
					// (only when the failed change restored everything: a state already reported as not
					// restored is not explored further, like the spec's ~taintConns guard)
					if fpr := runScenario(world, fseq, false); fpr.ok && verifConnsRestored(fpr.clean) {
						expand(wi, world, fseq, fpr.after, level+1, pass)
					}
				}
				continue
			}
			if sample {
				rng.Shuffle(len(faults), func(i, j int) { faults[i], faults[j] = faults[j], faults[i] })
				if len(faults) > 4 {
					faults = faults[:4]
				}
			}
			for _, f := range faults {
				if r.nOps >= maxChanges {
					return
				}
				fop := op
				fop.Fault = f
				runScenario(world, append(append([]verifConnsOp{}, prefix...), fop), true)
			}
		}
	}
	inits := map[string]*verifConnsProj{}
	for _, world := range worlds {
		_, inits[world] = r.run(verifConnsScenario{World: world}, shard == 0)
	}
	for pass := 1; pass <= depth; pass++ {
		for wi, world := range worlds {
			expand(wi, world, nil, inits[world], 1, pass)
		}
	}
	fmt.Printf("VERIF-STATS cases=%d ops=%d wall=%.1fs times=%v\n", r.nCases, r.nOps, time.Since(r.started).Seconds(), verifConnsTimes)
}

// verifConnsRestored: the change left persisted conns, repository, installed snaps as before, profiles match
// the repository and active persisted == in-memory.
func verifConnsRestored(res *verifConnsOpResult) bool {
	b, a := res.Before, res.After
	if !reflect.DeepEqual(b.Conns, a.Conns) || !reflect.DeepEqual(b.Repo, a.Repo) || !reflect.DeepEqual(b.Installed, a.Installed) || !res.RawEq {
		return false
	}
	active := []string{}
	for _, id := range verifConnsUniverse {
		if cp := a.Conns[id]; cp.Present && !cp.Undesired && !cp.Gone {
			active = append(active, id)
		}
	}
	sort.Strings(active)
	if !reflect.DeepEqual(active, a.Repo) {
		return false
	}
	for _, s := range a.Installed {
		want := []string{}
		for _, id := range a.Repo {
			ref := verifConnsRef(id)
			if ref.PlugRef.Snap == s || ref.SlotRef.Snap == s {
				want = append(want, id)
			}
		}
		if pr := a.Profiles[s]; !pr.Has || !reflect.DeepEqual(pr.Conns, want) {
			return false
		}
	}
	return true
}

// verifConnsSetupCounts: number of Setup calls made by the do handler of each task in a fault-free run,
// derived from the world model of the handlers (connect manual: 2; disconnect in repo: 2; setup-profiles:
// one per affected snap; remove-profiles: one per affected peer). Measured, not assumed: the driver counts
// the calls per task in the fault-free run (see Setups).
func verifConnsSetupCounts(clean *verifConnsOpResult) map[verifConnsTask]int {
	out := map[verifConnsTask]int{}
	for k, v := range clean.Setups {
		var t verifConnsTask
		if err := json.Unmarshal([]byte(k), &t); err == nil {
			out[t] = v
		}
	}
	return out
}
