package snapdtool

// C33 consumer: the re-exec gate systemSnapSupportsReExec must use VersionCompare with the sign
// convention "our Version newer than the snap's => do not re-exec". Driven by /verif/props/c33.py.

import (
	"bufio"
	"encoding/json"
	"os"
	"path/filepath"
	"testing"

	"github.com/snapcore/snapd/strutil"
)

func TestVerifC33ReExec(t *testing.T) {
	var pairs []struct{ A, B string }
	data, err := os.ReadFile(os.Getenv("VERIF_PAIRS"))
	if err != nil {
		t.Fatal(err)
	}
	if err := json.Unmarshal(data, &pairs); err != nil {
		t.Fatal(err)
	}
	f, err := os.Create(os.Getenv("VERIF_OUT"))
	if err != nil {
		t.Fatal(err)
	}
	defer f.Close()
	w := bufio.NewWriter(f)
	defer w.Flush()
	enc := json.NewEncoder(w)
	for _, p := range pairs {
		dir := t.TempDir()
		d := filepath.Join(dir, "usr/lib/snapd")
		if err := os.MkdirAll(d, 0755); err != nil {
			t.Fatal(err)
		}
		if err := os.WriteFile(filepath.Join(d, "info"), []byte("VERSION="+p.B+"\n"), 0644); err != nil {
			t.Fatal(err)
		}
		restore := MockVersion(p.A)
		got := systemSnapSupportsReExec(dir)
		restore()
		cmp, cerr := strutil.VersionCompare(p.A, p.B)
		if cerr != nil {
			cmp = 2
		}
		enc.Encode(map[string]interface{}{"kind": "consumer", "a": p.A, "b": p.B, "got": got, "cmp": cmp})
	}
}
