// -*- Mode: Go; indent-tabs-mode: t -*-

// verif driver for property C31 (spec: /verif/spec/Download.tla).
//
// Compiled INTO package store with `go test -overlay` (never written to /repo).
// It reads test cases (NDJSON, VERIF_CASES), runs the real Store.Download against
// a scripted httptest server with the real SHA3-384 of the concrete content and a
// pre-seeded ".partial" file, and records one NDJSON event per linearization
// point (VERIF_OUT):
//
//	Open  – the inputs of the case
//	Resp  – one per request that reached the scripted server: what the server
//	        observed (Range header, bytes of the .partial file on disk at
//	        that instant) and the concrete response it sent
//	Done  – the real outcome (error class, target bytes, partial bytes)
//
// The trace is validated against TraceDownload.tla; the statement of C31 is
// evaluated directly on the Done records by props/_download.py.
package store

import (
	"bufio"
	"context"
	"encoding/json"
	"fmt"
	"net/http"
	"net/http/httptest"
	"os"
	"path/filepath"
	"strconv"
	"strings"
	"sync"
	"testing"
	"time"

	"golang.org/x/crypto/sha3"
	"gopkg.in/retry.v1"

	"github.com/snapcore/snapd/logger"
	"github.com/snapcore/snapd/snap"
)

type vdResp struct {
	// kind: "raw" (status/body/end as given), "range206" (honest server:
	// 206 + content[range:] when a Range header is present, else 200 + content),
	// "full200" (ignores Range: 200 + content). The reactive kinds are then
	// modified by Trunc/Short/Corrupt/Extra.
	Kind    string `json:"kind"`
	Status  int    `json:"status"` // raw: 200, 206, 500, 404, ...; 0 = close the connection without any response
	Body    string `json:"body"`   // raw: abstract symbols
	End     string `json:"end"`    // "ok": Content-Length == len(body); "drop": declared longer, connection closed after body
	Redir   bool   `json:"redir"`  // answer via one 302 hop first
	Trunc   int    `json:"trunc"`  // >=0: send only the first k symbols, then drop the connection
	Short   int    `json:"short"`  // >=0: send only the first k symbols as a complete body
	Corrupt int    `json:"corrupt"` // >=0: flip symbol j of the body (if in range)
	Extra   string `json:"extra"`  // symbols appended to the body
}

type vdCase struct {
	Case    string   `json:"case"`
	Content string   `json:"content"`
	Partial *string  `json:"partial"` // nil: no .partial file
	Leave   bool     `json:"leave"`
	MaxAtt  int      `json:"maxatt"`
	Block   int      `json:"block"` // every abstract symbol is Block real bytes
	Script  []vdResp `json:"script"`
}

type vdRun struct {
	c       *vdCase
	mu      sync.Mutex
	next    int
	partial string // path
	events  []map[string]interface{}
}

func vdExpand(sym string, block int) []byte {
	out := make([]byte, 0, len(sym)*block)
	for i := 0; i < len(sym); i++ {
		for j := 0; j < block; j++ {
			out = append(out, sym[i])
		}
	}
	return out
}

// vdCompress maps real bytes back to abstract symbols; a block that is not
// uniform, or a ragged tail, becomes "?" (never part of the spec alphabet).
func vdCompress(b []byte, block int) []string {
	out := []string{}
	for i := 0; i < len(b); i += block {
		j := i + block
		if j > len(b) {
			out = append(out, "?")
			break
		}
		c := b[i]
		uniform := true
		for k := i; k < j; k++ {
			if b[k] != c {
				uniform = false
				break
			}
		}
		if uniform && (c == 'x' || c == 'y') {
			out = append(out, string([]byte{c}))
		} else {
			out = append(out, "?")
		}
	}
	return out
}

func vdSyms(s string) []string {
	out := []string{}
	for i := 0; i < len(s); i++ {
		out = append(out, s[i:i+1])
	}
	return out
}

func vdFileObs(path string, block int) map[string]interface{} {
	b, err := os.ReadFile(path)
	if err != nil {
		return map[string]interface{}{"present": false, "bytes": []string{}}
	}
	return map[string]interface{}{"present": true, "bytes": vdCompress(b, block)}
}

func vdFlip(c byte) byte {
	if c == 'x' {
		return 'y'
	}
	return 'x'
}

// concrete computes the concrete (status, body symbols, end) of a script entry
// given the Range offset (in symbols; -1: no Range header).
func (r *vdResp) concrete(content string, rng int) (int, string, string) {
	if r.Kind == "" || r.Kind == "raw" {
		end := r.End
		if end == "" {
			end = "ok"
		}
		return r.Status, r.Body, end
	}
	status := 200
	body := content
	if r.Kind == "range206" && rng >= 0 {
		status = 206
		if rng <= len(content) {
			body = content[rng:]
		} else {
			body = ""
		}
	}
	if r.Corrupt >= 0 && r.Corrupt < len(body) {
		bb := []byte(body)
		bb[r.Corrupt] = vdFlip(bb[r.Corrupt])
		body = string(bb)
	}
	body += r.Extra
	end := "ok"
	if r.Short >= 0 && r.Short < len(body) {
		body = body[:r.Short]
	}
	if r.Trunc >= 0 {
		if r.Trunc < len(body) {
			body = body[:r.Trunc]
		}
		end = "drop"
	}
	return status, body, end
}

type vdServer struct {
	mu   sync.Mutex
	runs map[string]*vdRun
}

func (s *vdServer) ServeHTTP(w http.ResponseWriter, req *http.Request) {
	parts := strings.Split(strings.TrimPrefix(req.URL.Path, "/"), "/")
	if len(parts) != 2 {
		http.Error(w, "bad path", 400)
		return
	}
	s.mu.Lock()
	run := s.runs[parts[1]]
	s.mu.Unlock()
	if run == nil {
		http.Error(w, "unknown case", 400)
		return
	}
	run.mu.Lock()
	defer run.mu.Unlock()
	c := run.c
	var ent vdResp
	if run.next < len(c.Script) {
		ent = c.Script[run.next]
	} else {
		// script exhausted: a plain 404 ends the download
		ent = vdResp{Kind: "raw", Status: 404, End: "ok"}
	}
	if ent.Redir && parts[0] == "c" {
		http.Redirect(w, req, "/r/"+parts[1], http.StatusFound)
		return
	}
	run.next++

	rng := -1
	rawRange := req.Header.Get("Range")
	hasRange := rawRange != ""
	rangeObs := 0
	if hasRange {
		var off int
		if _, err := fmt.Sscanf(rawRange, "bytes=%d-", &off); err != nil || off%c.Block != 0 {
			rangeObs = 1000000 + off // never matches the spec
		} else {
			rng = off / c.Block
			rangeObs = rng
		}
	}
	status, body, end := ent.concrete(c.Content, rng)
	run.events = append(run.events, map[string]interface{}{
		"ev": "Resp", "case": c.Case,
		"obs": map[string]interface{}{
			"hasrange": hasRange, "range": rangeObs, "rawrange": rawRange,
			"file":   vdFileObs(run.partial, c.Block)["bytes"],
			"viahop": parts[0] == "r",
		},
		"args": map[string]interface{}{"status": status, "body": vdSyms(body), "end": end, "redir": ent.Redir},
	})

	real := vdExpand(body, c.Block)
	if status == 0 || end == "drop" {
		hj, ok := w.(http.Hijacker)
		if !ok {
			panic("verif: cannot hijack")
		}
		conn, buf, err := hj.Hijack()
		if err != nil {
			panic(err)
		}
		if status != 0 {
			fmt.Fprintf(buf, "HTTP/1.1 %d verif\r\nContent-Length: %d\r\nConnection: close\r\n\r\n", status, len(real)+7*c.Block)
			buf.Write(real)
			buf.Flush()
		}
		conn.Close()
		return
	}
	w.Header().Set("Content-Length", strconv.Itoa(len(real)))
	w.WriteHeader(status)
	w.Write(real)
}

func vdErrClass(err error) string {
	if err == nil {
		return "none"
	}
	if _, ok := err.(HashError); ok {
		return "hash"
	}
	return "other"
}

func TestVerifDownload(t *testing.T) {
	casesPath := os.Getenv("VERIF_CASES")
	outPath := os.Getenv("VERIF_OUT")
	if casesPath == "" || outPath == "" {
		t.Skip("VERIF_CASES / VERIF_OUT not set")
	}
	par := 8
	if v, err := strconv.Atoi(os.Getenv("VERIF_PAR")); err == nil && v > 0 {
		par = v
	}
	os.Setenv("SNAPD_USE_DELTAS_EXPERIMENTAL", "0")
	logger.SetLogger(logger.NullLogger)

	var cases []*vdCase
	f, err := os.Open(casesPath)
	if err != nil {
		t.Fatal(err)
	}
	sc := bufio.NewScanner(f)
	sc.Buffer(make([]byte, 1<<20), 1<<24)
	for sc.Scan() {
		line := strings.TrimSpace(sc.Text())
		if line == "" {
			continue
		}
		c := &vdCase{}
		if err := json.Unmarshal([]byte(line), c); err != nil {
			t.Fatalf("bad case line %q: %v", line, err)
		}
		if c.Block <= 0 {
			c.Block = 1
		}
		if c.MaxAtt <= 0 {
			c.MaxAtt = 7
		}
		cases = append(cases, c)
	}
	f.Close()

	srv := &vdServer{runs: map[string]*vdRun{}}
	hs := httptest.NewUnstartedServer(srv)
	hs.Config.SetKeepAlivesEnabled(false)
	hs.Start()
	defer hs.Close()

	root := t.TempDir()
	results := make([][]map[string]interface{}, len(cases))

	// the retry strategy is a package global: run the cases grouped by limit
	byLimit := map[int][]int{}
	limits := []int{}
	for i, c := range cases {
		if _, ok := byLimit[c.MaxAtt]; !ok {
			limits = append(limits, c.MaxAtt)
		}
		byLimit[c.MaxAtt] = append(byLimit[c.MaxAtt], i)
	}
	oldStrategy := downloadRetryStrategy
	defer func() { downloadRetryStrategy = oldStrategy }()

	sto := New(nil, nil)

	runOne := func(i int) {
		c := cases[i]
		dir := filepath.Join(root, strconv.Itoa(i))
		if err := os.MkdirAll(dir, 0755); err != nil {
			panic(err)
		}
		target := filepath.Join(dir, "foo_1.snap")
		partial := target + ".partial"
		var partialSyms interface{} = map[string]interface{}{"present": false, "bytes": []string{}}
		if c.Partial != nil {
			if err := os.WriteFile(partial, vdExpand(*c.Partial, c.Block), 0600); err != nil {
				panic(err)
			}
			partialSyms = map[string]interface{}{"present": true, "bytes": vdSyms(*c.Partial)}
		}
		real := vdExpand(c.Content, c.Block)
		id := strconv.Itoa(i)
		run := &vdRun{c: c, partial: partial}
		srv.mu.Lock()
		srv.runs[id] = run
		srv.mu.Unlock()

		info := &snap.DownloadInfo{
			DownloadURL: hs.URL + "/c/" + id,
			Size:        int64(len(real)),
			Sha3_384:    fmt.Sprintf("%x", sha3.Sum384(real)),
		}
		var opts *DownloadOptions
		if c.Leave {
			opts = &DownloadOptions{LeavePartialOnError: true}
		}
		ctx, cancel := context.WithTimeout(context.Background(), 60*time.Second)
		err := sto.Download(ctx, "foo", target, info, nil, nil, opts)
		timedOut := ctx.Err() != nil
		cancel()

		srv.mu.Lock()
		delete(srv.runs, id)
		srv.mu.Unlock()
		run.mu.Lock()
		evs := run.events
		run.mu.Unlock()

		open := map[string]interface{}{
			"ev": "Open", "case": c.Case,
			"args": map[string]interface{}{
				"content": vdSyms(c.Content), "partial": partialSyms, "leave": c.Leave, "maxatt": c.MaxAtt,
			},
			"block": c.Block,
		}
		errmsg := ""
		if err != nil {
			errmsg = err.Error()
		}
		done := map[string]interface{}{
			"ev": "Done", "case": c.Case,
			"obs": map[string]interface{}{
				"ok": err == nil, "err": vdErrClass(err),
				"target":  vdFileObs(target, c.Block),
				"partial": vdFileObs(partial, c.Block),
			},
			"errmsg": errmsg, "timeout": timedOut, "nreq": len(evs), "script_len": len(c.Script),
		}
		all := append([]map[string]interface{}{open}, evs...)
		all = append(all, done)
		results[i] = all
		os.RemoveAll(dir)
	}

	for _, lim := range limits {
		downloadRetryStrategy = retry.LimitCount(lim, retry.Exponential{Initial: time.Microsecond, Factor: 1})
		idx := byLimit[lim]
		var wg sync.WaitGroup
		ch := make(chan int)
		for w := 0; w < par; w++ {
			wg.Add(1)
			go func() {
				defer wg.Done()
				for i := range ch {
					runOne(i)
				}
			}()
		}
		for _, i := range idx {
			ch <- i
		}
		close(ch)
		wg.Wait()
	}

	out, err := os.Create(outPath)
	if err != nil {
		t.Fatal(err)
	}
	bw := bufio.NewWriterSize(out, 1<<20)
	n := 0
	for _, evs := range results {
		for _, ev := range evs {
			b, err := json.Marshal(ev)
			if err != nil {
				t.Fatal(err)
			}
			bw.Write(b)
			bw.WriteByte('\n')
		}
		n++
	}
	if err := bw.Flush(); err != nil {
		t.Fatal(err)
	}
	out.Close()
	fmt.Printf("VERIF-DOWNLOAD cases=%d\n", n)
}
