// -*- Mode: Go; indent-tabs-mode: t -*-

// C18 driver (T->I): materialises every row of the decision table computed by TLC from
// spec/AssertCheck.tla with real RSA keys, real account / account-key assertions (since/until,
// constraints, trusted or stored), real signed assertions, applies the row's mutation to the ENCODED
// bytes and records the verdicts of the real Decode + Database.Check + Database.Add.
//
// Input  VERIF_IN : NDJSON rows (see vckRow).   Output VERIF_OUT: NDJSON results (see vckOut).

package asserts_test

import (
	"bufio"
	"bytes"
	"crypto"
	"crypto/rsa"
	"encoding/base64"
	"encoding/json"
	"fmt"
	"os"
	"strconv"
	"strings"
	"testing"
	"time"

	"golang.org/x/crypto/openpgp/packet"

	"github.com/snapcore/snapd/asserts"
	"github.com/snapcore/snapd/asserts/assertstest"
)

type vckKey struct {
	Where string `json:"where"`
	Owner string `json:"owner"`
	Until int    `json:"until"`
	Cons  string `json:"cons"`
}

type vckRow struct {
	I     int    `json:"i"`
	Key   vckKey `json:"key"`
	Mode  string `json:"mode"`
	Clock int    `json:"clock"`
	Cls   string `json:"cls"`
	Ts    int    `json:"ts"`
	FmtOK bool   `json:"fmtOK"`
	Mut   string `json:"mut"`
	// binding parameters chosen by the props file
	Npos  int `json:"npos"`  // byte classes: -1 = every byte position, else that many spread positions
	Bits  int `json:"bits"`  // byte classes: how many different bits to flip per position (1..8)
	Since int `json:"since"` // abstract "since" of the keys
}

type vckOut struct {
	I        int            `json:"i"`
	Variants int            `json:"variants"`           // encoded inputs judged for this row
	Check    string         `json:"check"`              // verdict of Decode+Check: accept iff ANY variant accepted
	Add      string         `json:"add"`                // verdict of Decode+Add
	Reasons  map[string]int `json:"reasons"`            // reject reason classes seen (Check)
	Accepted []string       `json:"accepted,omitempty"` // descriptors of accepted variants (byte classes: region:pos:bit)
	Region   int            `json:"region"`             // size in bytes of the mutated region
	Sample   string         `json:"sample,omitempty"`   // first variant, for replay files
}

const vckInf = 1000000

var vckT0 = time.Date(2020, time.January, 1, 0, 0, 0, 0, time.UTC)

func vckTime(t int) time.Time { return vckT0.AddDate(0, 0, t) }

type vckWorld struct {
	rootKey, k, k2       asserts.PrivateKey
	kRSA, k2RSA          *rsa.PrivateKey
	rootSigning          *assertstest.SigningDB
	trustedAcct          asserts.Assertion
	trustedKey           asserts.Assertion
	accts                []asserts.Assertion
	dbs                  map[string]*asserts.Database
	base                 map[string][]byte
	stackKeys            map[string]asserts.Assertion // zz_verif_assertstack_test.go
	seed                 int
	since                int
	nDecode, nCheck, nDB int
}

func vckMust(err error, what string) {
	if err != nil {
		panic(fmt.Sprintf("harness: %s: %v", what, err))
	}
}

func newVckWorld(seed, since int) *vckWorld {
	w := &vckWorld{dbs: map[string]*asserts.Database{}, base: map[string][]byte{}, seed: seed, since: since}
	w.rootKey, _ = assertstest.GenerateKey(1024)
	w.k, w.kRSA = assertstest.GenerateKey(752)
	w.k2, w.k2RSA = assertstest.GenerateKey(752)
	w.rootSigning = assertstest.NewSigningDB("canonical", w.rootKey)
	w.trustedAcct = asserts.BootstrapAccountForTest("canonical")
	w.trustedKey = asserts.BootstrapAccountKeyForTest("canonical", w.rootKey.PublicKey())
	for _, id := range []string{"auth", "other"} {
		w.accts = append(w.accts, assertstest.NewAccount(w.rootSigning, id, map[string]interface{}{
			"account-id": id,
			"timestamp":  vckTime(1).Format(time.RFC3339),
		}, ""))
	}
	return w
}

func (w *vckWorld) accountKey(pub asserts.PublicKey, owner string, until int, cons string) asserts.Assertion {
	hdrs := map[string]interface{}{
		"authority-id":        "canonical",
		"account-id":          owner,
		"public-key-sha3-384": pub.ID(),
		"since":               vckTime(w.since).Format(time.RFC3339),
	}
	if until != vckInf {
		hdrs["until"] = vckTime(until).Format(time.RFC3339)
	}
	mk := func(pairs ...string) []interface{} {
		var l []interface{}
		for i := 0; i < len(pairs); i += 2 {
			h := map[string]interface{}{"type": pairs[i]}
			if pairs[i+1] != "" {
				h["class"] = pairs[i+1]
			}
			l = append(l, map[string]interface{}{"headers": h})
		}
		return l
	}
	switch cons {
	case "none":
	case "match":
		hdrs["constraints"] = mk("test-only", "plain.*", "snap-build", "plainval")
	case "nomatch-type":
		hdrs["constraints"] = mk("model", "", "serial", "")
	case "nomatch-header":
		hdrs["constraints"] = mk("test-only", "other", "snap-build", "plainvalx")
	default:
		panic("harness: unknown constraints class " + cons)
	}
	if cons != "none" {
		hdrs["format"] = "1"
	}
	body, err := asserts.EncodePublicKey(pub)
	vckMust(err, "EncodePublicKey")
	a, err := w.rootSigning.Sign(asserts.AccountKeyType, hdrs, body, "")
	vckMust(err, "sign account-key")
	return a
}

// dbFor builds (once per key situation) a real database: trusted = canonical account + root key
// (+ the key under test when where=trusted); stored = accounts auth/other, K2 (always valid key of
// auth) and the key under test when where=stored.
func (w *vckWorld) dbFor(key vckKey) *asserts.Database {
	ck := fmt.Sprintf("%s/%s/%d/%s", key.Where, key.Owner, key.Until, key.Cons)
	if db, ok := w.dbs[ck]; ok {
		return db
	}
	trusted := []asserts.Assertion{w.trustedAcct, w.trustedKey}
	var kAK asserts.Assertion
	if key.Where != "unknown" {
		kAK = w.accountKey(w.k.PublicKey(), key.Owner, key.Until, key.Cons)
	}
	if key.Where == "trusted" {
		trusted = append(trusted, kAK)
	}
	db, err := asserts.OpenDatabase(&asserts.DatabaseConfig{Backstore: asserts.NewMemoryBackstore(), Trusted: trusted})
	vckMust(err, "OpenDatabase")
	restore := asserts.MockTimeNow(vckTime(w.since + 1))
	defer restore()
	for _, a := range w.accts {
		vckMust(db.Add(a), "add account")
	}
	vckMust(db.Add(w.accountKey(w.k2.PublicKey(), "auth", vckInf, "none")), "add account-key K2")
	if key.Where == "stored" {
		vckMust(db.Add(kAK), "add account-key K")
	}
	w.dbs[ck] = db
	w.nDB++
	return db
}

func vckEncodeV1(data []byte, cols int) []byte {
	flat := base64.StdEncoding.EncodeToString(append([]byte{0x1}, data...))
	var buf bytes.Buffer
	for off := 0; off < len(flat); off += cols {
		end := off + cols
		if end > len(flat) {
			end = len(flat)
		}
		if off > 0 {
			buf.WriteByte('\n')
		}
		buf.WriteString(flat[off:end])
	}
	return buf.Bytes()
}

// vckRawSign signs content exactly like asserts/crypto.go:signContent but with an arbitrary key
// (to build "content names key K, signature made by K2").
func vckRawSign(content []byte, rsaKey *rsa.PrivateKey) []byte {
	privk := packet.NewRSAPrivateKey(asserts.V1FixedTimestamp, rsaKey)
	cfg := &packet.Config{DefaultHash: crypto.SHA512}
	sig := new(packet.Signature)
	sig.PubKeyAlgo = privk.PubKeyAlgo
	sig.Hash = crypto.SHA512
	sig.CreationTime = time.Now()
	h := crypto.SHA512.New()
	h.Write(content)
	vckMust(sig.Sign(h, privk, cfg), "raw sign")
	var buf bytes.Buffer
	vckMust(sig.Serialize(&buf), "serialize signature")
	return append(vckEncodeV1(buf.Bytes(), 76), '\n')
}

// baseEncoded returns the encoding of a real assertion signed by K for the row's class.
func (w *vckWorld) baseEncoded(r *vckRow) []byte {
	ck := fmt.Sprintf("%s/%d/%v", r.Cls, r.Ts, r.FmtOK)
	if b, ok := w.base[ck]; ok {
		return b
	}
	var typ *asserts.AssertionType
	var hdrs map[string]interface{}
	var body []byte
	switch r.Cls {
	case "plain":
		typ = asserts.TestOnlyType
		hdrs = map[string]interface{}{"authority-id": "auth", "primary-key": "x", "class": "plainval", "revision": "1"}
		body = []byte("BODY line one\nline two")
	case "timestamped":
		typ = asserts.SnapBuildType
		hdrs = map[string]interface{}{
			"authority-id":  "auth",
			"snap-sha3-384": strings.Repeat("a", 64),
			"snap-id":       "snapidsnapidsnapidsnapidsnapidsn",
			"grade":         "stable",
			"snap-size":     "1025",
			"class":         "plainval",
			"timestamp":     vckTime(r.Ts).Format(time.RFC3339),
		}
		body = []byte("future body")
	case "noauth":
		typ = asserts.AccountKeyRequestType
		hdrs = map[string]interface{}{
			"account-id":          "auth",
			"name":                "default",
			"public-key-sha3-384": w.k.PublicKey().ID(),
			"since":               vckTime(w.since).Format(time.RFC3339),
		}
		var err error
		body, err = asserts.EncodePublicKey(w.k.PublicKey())
		vckMust(err, "EncodePublicKey")
	default:
		panic("harness: unknown class " + r.Cls)
	}
	if !r.FmtOK {
		f := typ.MaxSupportedFormat() + 1
		hdrs["format"] = strconv.Itoa(f)
		restore := asserts.MockMaxSupportedFormat(typ, f)
		defer restore()
	}
	a, err := asserts.AssembleAndSignInTest(typ, hdrs, body, w.k)
	vckMust(err, "sign base assertion "+ck)
	enc := asserts.Encode(a)
	w.base[ck] = enc
	return enc
}

func vckSplit(enc []byte) (content, sig []byte) {
	i := bytes.LastIndex(enc, []byte("\n\n"))
	return enc[:i], enc[i+2:]
}

func vckJoin(content, sig []byte) []byte {
	out := make([]byte, 0, len(content)+2+len(sig))
	out = append(out, content...)
	out = append(out, '\n', '\n')
	return append(out, sig...)
}

func vckDecodeSig(sig []byte) []byte {
	flat := strings.Replace(strings.TrimSpace(string(sig)), "\n", "", -1)
	raw, err := base64.StdEncoding.DecodeString(flat)
	vckMust(err, "decode base signature")
	if raw[0] != 0x1 {
		panic("harness: unexpected signature version")
	}
	return raw[1:]
}

type vckVariant struct {
	desc string
	enc  []byte
}

func (w *vckWorld) positions(n, npos int) []int {
	if npos < 0 || npos >= n {
		ps := make([]int, n)
		for i := range ps {
			ps[i] = i
		}
		return ps
	}
	ps := make([]int, 0, npos)
	for j := 0; j < npos; j++ {
		ps = append(ps, (j*n/npos+w.seed*7)%n)
	}
	return ps
}

// variants applies the row's mutation to the encoded bytes.
func (w *vckWorld) variants(r *vckRow) (vs []vckVariant, region int) {
	enc := w.baseEncoded(r)
	content, sig := vckSplit(enc)
	flipAll := func(name string, buf []byte, rebuild func(mut []byte) []byte) {
		region = len(buf)
		bits := r.Bits
		if bits < 1 {
			bits = 1
		}
		for _, p := range w.positions(len(buf), r.Npos) {
			for b := 0; b < bits; b++ {
				bit := uint((p + w.seed + b) % 8)
				mut := append([]byte(nil), buf...)
				mut[p] ^= 1 << bit
				vs = append(vs, vckVariant{fmt.Sprintf("%s:%d:%d", name, p, bit), rebuild(mut)})
			}
		}
	}
	hb := bytes.Index(content, []byte("\n\n"))
	switch r.Mut {
	case "none":
		vs = append(vs, vckVariant{"none", enc})
	case "hdr-byte":
		flipAll("hdr", content[:hb], func(m []byte) []byte { return vckJoin(append(m, content[hb:]...), sig) })
	case "body-byte":
		flipAll("body", content[hb+2:], func(m []byte) []byte {
			c := append(append([]byte(nil), content[:hb+2]...), m...)
			return vckJoin(c, sig)
		})
	case "sig-byte":
		raw := vckDecodeSig(sig)
		flipAll("sig", raw, func(m []byte) []byte { return vckJoin(content, append(vckEncodeV1(m, 76), '\n')) })
	case "sig-alias":
		// change bytes of the decoded signature that carry no signature material
		raw := vckDecodeSig(sig)
		region = len(raw)
		if raw[0] != 0xC2 || raw[2] != 4 || len(raw) != 2+int(raw[1]) || raw[1] >= 191 {
			panic(fmt.Sprintf("harness: unexpected signature packet layout % x", raw[:8]))
		}
		m1 := append([]byte(nil), raw...)
		m1[1]++ // declared packet length one more than what follows
		vs = append(vs, vckVariant{"packet-length+1", vckJoin(content, append(vckEncodeV1(m1, 76), '\n'))})
		// MPI bit count: another value needing the same number of bytes
		hashedLen := int(raw[6])<<8 | int(raw[7])
		off := 8 + hashedLen
		unhashedLen := int(raw[off])<<8 | int(raw[off+1])
		off += 2 + unhashedLen + 2 // unhashed subpackets, 2 bytes hash tag
		bl := int(raw[off])<<8 | int(raw[off+1])
		if off+2+(bl+7)/8 != len(raw) {
			panic("harness: unexpected signature MPI layout")
		}
		bl2 := bl - 1
		if bl2 <= 0 || (bl2+7)/8 != (bl+7)/8 {
			bl2 = bl + 1
		}
		m2 := append([]byte(nil), raw...)
		m2[off], m2[off+1] = byte(bl2>>8), byte(bl2)
		vs = append(vs, vckVariant{"mpi-bitcount", vckJoin(content, append(vckEncodeV1(m2, 76), '\n'))})
	case "sig-reencode":
		raw := vckDecodeSig(sig)
		vs = append(vs, vckVariant{"reencode-64", vckJoin(content, append(vckEncodeV1(raw, 64), '\n'))})
		vs = append(vs, vckVariant{"reencode-nonl", vckJoin(content, vckEncodeV1(raw, 1<<20))})
		region = len(raw)
	case "signkey-swap":
		old := []byte("sign-key-sha3-384: " + w.k.PublicKey().ID())
		if !bytes.Contains(content, old) {
			panic("harness: sign-key header not found")
		}
		c := bytes.Replace(content, old, []byte("sign-key-sha3-384: "+w.k2.PublicKey().ID()), 1)
		vs = append(vs, vckVariant{"signkey-swap", vckJoin(c, sig)})
	case "authority-swap":
		old := []byte("authority-id: auth\n")
		if !bytes.Contains(content, old) {
			panic("harness: authority header not found")
		}
		c := bytes.Replace(content, old, []byte("authority-id: other\n"), 1)
		vs = append(vs, vckVariant{"authority-swap", vckJoin(c, sig)})
	case "wrong-signer":
		vs = append(vs, vckVariant{"wrong-signer", vckJoin(content, vckRawSign(content, w.k2RSA))})
	default:
		panic("harness: unknown mutation " + r.Mut)
	}
	return vs, region
}

func vckReason(err error) string {
	if err == nil {
		return "accept"
	}
	if _, ok := err.(*asserts.UnsupportedFormatError); ok {
		return "reject:format"
	}
	m := err.Error()
	switch {
	case strings.Contains(m, "no matching public key"):
		return "reject:nokey"
	case strings.Contains(m, "but expected it from"):
		return "reject:owner"
	case strings.Contains(m, "signed with expired public key"):
		return "reject:expired"
	case strings.Contains(m, "does not match signing constraints"):
		return "reject:constraints"
	case strings.Contains(m, "does not match public key from"):
		return "reject:owner"
	case strings.Contains(m, "failed signature verification"), strings.Contains(m, "cannot decode signature"),
		strings.Contains(m, "unsupported signature format"), strings.Contains(m, "signature has spurious trailing data"),
		strings.Contains(m, "expected signature, got instead"):
		return "reject:signature"
	case strings.Contains(m, "outside of signing key validity"):
		return "reject:timestamp"
	}
	return "reject:other:" + m
}

func (w *vckWorld) judge(db *asserts.Database, r *vckRow, enc []byte) (check, add string) {
	restore := asserts.MockTimeNow(vckTime(r.Clock))
	defer restore()
	w.nDecode++
	a, err := asserts.Decode(enc)
	if err != nil {
		return "reject:decode", "reject:decode"
	}
	w.nCheck++
	sdb := db.WithStackedBackstore(asserts.NewMemoryBackstore())
	if r.Mode == "earliest" {
		sdb.SetEarliestTime(vckTime(r.Clock))
	}
	check = vckReason(sdb.Check(a))
	add = vckReason(sdb.Add(a))
	if add == "accept" {
		// it must really be there now
		if _, err := a.Ref().Resolve(sdb.Find); err != nil {
			add = "reject:other:added but not found: " + err.Error()
		}
	}
	return check, add
}

func TestVerifAssertCheck(t *testing.T) {
	in, out := os.Getenv("VERIF_IN"), os.Getenv("VERIF_OUT")
	if in == "" || out == "" {
		t.Skip("VERIF_IN/VERIF_OUT not set")
	}
	seed, _ := strconv.Atoi(os.Getenv("VERIF_SEED"))
	fin, err := os.Open(in)
	if err != nil {
		t.Fatal(err)
	}
	defer fin.Close()
	fout, err := os.Create(out)
	if err != nil {
		t.Fatal(err)
	}
	bw := bufio.NewWriter(fout)
	enc := json.NewEncoder(bw)
	var w *vckWorld
	sc := bufio.NewScanner(fin)
	sc.Buffer(make([]byte, 1<<20), 1<<26)
	nrows := 0
	for sc.Scan() {
		var r vckRow
		if err := json.Unmarshal(sc.Bytes(), &r); err != nil {
			t.Fatalf("bad input line: %v", err)
		}
		if w == nil {
			w = newVckWorld(seed, r.Since)
		}
		db := w.dbFor(r.Key)
		vs, region := w.variants(&r)
		o := vckOut{I: r.I, Variants: len(vs), Check: "reject", Add: "reject", Reasons: map[string]int{}, Region: region}
		for j, v := range vs {
			c, a := w.judge(db, &r, v.enc)
			if j == 0 && len(vs) == 1 {
				o.Check, o.Add = c, a
			}
			o.Reasons[c]++
			if c == "accept" || a == "accept" {
				if len(o.Accepted) < 64 {
					o.Accepted = append(o.Accepted, v.desc)
				}
				if o.Sample == "" {
					o.Sample = string(v.enc)
				}
				if c == "accept" {
					o.Check = "accept"
				}
				if a == "accept" {
					o.Add = "accept"
				}
			}
		}
		if r.Mut == "sig-reencode" {
			// every re-encoding must behave alike: report the first non-accepting verdict if any
			for _, v := range vs {
				c, a := w.judge(db, &r, v.enc)
				if c != "accept" || a != "accept" {
					o.Check, o.Add = c, a
					break
				}
			}
		}
		nrows++
		if err := enc.Encode(&o); err != nil {
			t.Fatal(err)
		}
	}
	if err := sc.Err(); err != nil {
		t.Fatal(err)
	}
	if err := bw.Flush(); err != nil {
		t.Fatal(err)
	}
	fout.Close()
	if w != nil {
		fmt.Printf("VERIF-STATS rows=%d decodes=%d checks=%d dbs=%d\n", nrows, w.nDecode, w.nCheck, w.nDB)
	}
}
