// -*- Mode: Go; indent-tabs-mode: t -*-

// C19 driver (T->I): replays operation sequences computed by TLC from spec/AssertDB.tla against
// TWO real assertion databases (memory backstore, filesystem backstore) and records the real
// result of every operation. The comparison with the spec is done by props/_assertdb.py.
//
// Input  VERIF_IN : NDJSON, one operation per line (see vdbOp), "Reset" starts a new behaviour.
// Output VERIF_OUT: NDJSON, the same lines with "mem" and "fs" results added.

package asserts_test

import (
	"bufio"
	"encoding/json"
	"fmt"
	"os"
	"path/filepath"
	"sort"
	"strconv"
	"strings"
	"testing"
	"time"

	"github.com/snapcore/snapd/asserts"
	"github.com/snapcore/snapd/asserts/assertstest"
)

type vdbID struct {
	T string `json:"t"`
	K string `json:"k"`
	N int    `json:"n"`
}

type vdbOp struct {
	Case  int    `json:"case"`
	I     int    `json:"i"`
	Op    string `json:"op"`
	ID    *vdbID `json:"id,omitempty"`
	Rev   int    `json:"rev"`
	Fmt   int    `json:"fmt"`
	Mf    int    `json:"mf"`
	After int    `json:"after"`
	Par   int    `json:"par"`
	Typ   string `json:"typ,omitempty"`
	Key   string `json:"key,omitempty"`
	// expected result as computed by the spec, passed through untouched
	Exp json.RawMessage `json:"exp,omitempty"`
	// PredefRev is given on Reset lines
	PredefRev int `json:"predef_rev"`
	// SeqMap is given on Reset lines: abstract sequence number i (1-based) is materialised as the
	// concrete sequence number SeqMap[i-1] (strictly increasing; chosen to straddle digit counts,
	// e.g. 2,10,100) for the whole behaviour
	SeqMap []int `json:"seqmap,omitempty"`

	Mem *vdbRes `json:"mem,omitempty"`
	Fs  *vdbRes `json:"fs,omitempty"`
}

type vdbHit struct {
	ID  vdbID `json:"id"`
	Rev int   `json:"rev"`
	Fmt int   `json:"fmt"`
}

type vdbRes struct {
	R    string   `json:"r"`
	Rev  int      `json:"rev"`
	Fmt  int      `json:"fmt"`
	N    int      `json:"n"`
	Cur  int      `json:"cur"`
	Upd  bool     `json:"upd"`
	Many []vdbHit `json:"many"`
	Msg  string   `json:"msg,omitempty"`
}

// order-preserving materialisation of abstract sequence numbers (see vdbOp.SeqMap)
var vdbSeqMap []int

func vdbConc(n int) int {
	if n >= 1 && n <= len(vdbSeqMap) {
		return vdbSeqMap[n-1]
	}
	return n
}

func vdbAbs(c int) int {
	if len(vdbSeqMap) == 0 {
		return c
	}
	for i, x := range vdbSeqMap {
		if x == c {
			return i + 1
		}
	}
	return -1000 - c // not a materialised number: shows up as a wrong identity
}

// vdbAfter materialises the `after` argument of FindSequence: -1 stays -1; abstract a >= 1 becomes the
// concrete number of a or, on odd steps and when there is a gap, a value strictly between a and a+1;
// 0 becomes 0 or a value just below the first member.
func vdbAfter(after, step int) int {
	if after < 0 || len(vdbSeqMap) == 0 {
		return after
	}
	if after == 0 {
		if step%2 == 1 && vdbConc(1) > 1 {
			return vdbConc(1) - 1
		}
		return 0
	}
	c := vdbConc(after)
	if step%2 == 1 && (after >= len(vdbSeqMap) || vdbConc(after+1) > c+1) {
		return c + 1
	}
	return c
}

type vdbWorld struct {
	ss    *assertstest.StoreStack
	cache map[string]asserts.Assertion
}

func (w *vdbWorld) typeOf(id vdbID) *asserts.AssertionType {
	switch id.T {
	case "plain", "predef":
		return asserts.TestOnlyType
	case "seq":
		return asserts.TestOnlySeqType
	case "trusted":
		return asserts.AccountType
	}
	panic("unknown identity kind " + id.T)
}

// assertion returns a real signed assertion for (identity, revision, format), signed by the
// trusted root key. Formats above the max supported one are signed under a temporarily raised
// MaxSupportedFormat (the production signer refuses them otherwise).
func (w *vdbWorld) assertion(id vdbID, rev, format int) asserts.Assertion {
	ck := fmt.Sprintf("%s/%s/%d/%d/%d", id.T, id.K, vdbConc(id.N), rev, format)
	if a, ok := w.cache[ck]; ok {
		return a
	}
	typ := w.typeOf(id)
	hdrs := map[string]interface{}{
		"authority-id": "canonical",
		"revision":     strconv.Itoa(rev),
		"par":          strconv.Itoa(rev % 2),
	}
	if format > 0 {
		hdrs["format"] = strconv.Itoa(format)
	}
	switch id.T {
	case "plain", "predef":
		hdrs["primary-key"] = id.K
	case "seq":
		hdrs["n"] = id.K
		hdrs["sequence"] = strconv.Itoa(vdbConc(id.N))
	case "trusted":
		hdrs["account-id"] = id.K
		hdrs["display-name"] = "Canonical"
		hdrs["validation"] = "verified"
		hdrs["timestamp"] = time.Now().Format(time.RFC3339)
	}
	if format > typ.MaxSupportedFormat() {
		restore := asserts.MockMaxSupportedFormat(typ, format)
		defer restore()
	}
	a, err := w.ss.RootSigning.Sign(typ, hdrs, nil, "")
	if err != nil {
		panic(fmt.Sprintf("harness: cannot sign %v rev %d format %d: %v", id, rev, format, err))
	}
	w.cache[ck] = a
	return a
}

func (w *vdbWorld) headers(id vdbID) map[string]string {
	switch id.T {
	case "plain", "predef":
		return map[string]string{"primary-key": id.K}
	case "seq":
		return map[string]string{"n": id.K, "sequence": strconv.Itoa(vdbConc(id.N))}
	case "trusted":
		return map[string]string{"account-id": id.K}
	}
	panic("unknown identity kind " + id.T)
}

// idOf projects a real assertion back to a spec identity.
func vdbIDOf(a asserts.Assertion) vdbID {
	switch a.Type() {
	case asserts.TestOnlyType:
		k := a.HeaderString("primary-key")
		if k == "p" {
			return vdbID{T: "predef", K: k}
		}
		return vdbID{T: "plain", K: k}
	case asserts.TestOnlySeqType:
		return vdbID{T: "seq", K: a.HeaderString("n"), N: vdbAbs(a.(asserts.SequenceMember).Sequence())}
	case asserts.AccountType:
		return vdbID{T: "trusted", K: a.HeaderString("account-id")}
	}
	return vdbID{T: "?" + a.Type().Name}
}

func vdbFound(a asserts.Assertion, want *vdbID) *vdbRes {
	got := vdbIDOf(a)
	res := &vdbRes{R: "found", Rev: a.Revision(), Fmt: a.Format(), N: got.N, Cur: -1}
	if want != nil && got != *want {
		res.R = "wrong-identity"
		res.Msg = fmt.Sprintf("asked %v got %v", *want, got)
	}
	// the header that encodes the revision must belong to the same revision (detects a store
	// handing out a mixture)
	if a.Type() != asserts.AccountType && a.HeaderString("par") != strconv.Itoa(a.Revision()%2) {
		res.R = "inconsistent-assertion"
	}
	return res
}

func vdbErr(err error) *vdbRes {
	if _, ok := err.(*asserts.NotFoundError); ok {
		return &vdbRes{R: "notfound", Rev: -1, Fmt: -1, Cur: -1}
	}
	return &vdbRes{R: "error", Rev: -1, Fmt: -1, Cur: -1, Msg: err.Error()}
}

func (w *vdbWorld) apply(db *asserts.Database, op *vdbOp) *vdbRes {
	switch op.Op {
	case "Add":
		a := w.assertion(*op.ID, op.Rev, op.Fmt)
		err := db.Add(a)
		res := &vdbRes{Rev: op.Rev, Fmt: op.Fmt, N: op.ID.N, Cur: -1}
		switch e := err.(type) {
		case nil:
			res.R = "ok"
		case *asserts.RevisionError:
			res.R = "revision"
			res.Rev = e.Used
			res.Cur = e.Current
		case *asserts.UnsupportedFormatError:
			res.R = "unsupported"
			res.Fmt = e.Format
			res.Upd = e.Update
		default:
			switch {
			case strings.Contains(err.Error(), "clashing with a trusted assertion"):
				res.R = "clash-trusted"
			case strings.Contains(err.Error(), "clashing with a predefined assertion"):
				res.R = "clash-predefined"
			default:
				res.R = "error"
				res.Msg = err.Error()
			}
		}
		return res
	case "Find", "FindMaxFormat", "FindPredefined", "FindTrusted":
		typ := w.typeOf(*op.ID)
		hdrs := w.headers(*op.ID)
		var a asserts.Assertion
		var err error
		switch op.Op {
		case "Find":
			a, err = db.Find(typ, hdrs)
		case "FindMaxFormat":
			a, err = db.FindMaxFormat(typ, hdrs, op.Mf)
		case "FindPredefined":
			a, err = db.FindPredefined(typ, hdrs)
		case "FindTrusted":
			a, err = db.FindTrusted(typ, hdrs)
		}
		if err != nil {
			return vdbErr(err)
		}
		return vdbFound(a, op.ID)
	case "FindMany":
		typ := asserts.TestOnlyType
		hdrs := map[string]string{}
		if op.Typ == "seq" {
			typ = asserts.TestOnlySeqType
			if op.Key != "" {
				hdrs["n"] = op.Key
			}
		} else if op.Key != "" {
			hdrs["primary-key"] = op.Key
		}
		if op.Par >= 0 {
			hdrs["par"] = strconv.Itoa(op.Par)
		}
		as, err := db.FindMany(typ, hdrs)
		if err != nil {
			return vdbErr(err)
		}
		res := &vdbRes{R: "found", Rev: -1, Fmt: -1, Cur: -1}
		for _, a := range as {
			one := vdbFound(a, nil)
			if one.R != "found" {
				return one
			}
			res.Many = append(res.Many, vdbHit{ID: vdbIDOf(a), Rev: a.Revision(), Fmt: a.Format()})
		}
		sort.Slice(res.Many, func(i, j int) bool {
			x, y := res.Many[i], res.Many[j]
			if x.ID != y.ID {
				return fmt.Sprint(x.ID) < fmt.Sprint(y.ID)
			}
			return x.Rev < y.Rev
		})
		return res
	case "FindSequence":
		a, err := db.FindSequence(asserts.TestOnlySeqType, map[string]string{"n": op.Key}, vdbAfter(op.After, op.I), op.Mf)
		if err != nil {
			return vdbErr(err)
		}
		res := vdbFound(a, nil)
		if got := vdbIDOf(a); got.T != "seq" || got.K != op.Key {
			res.R = "wrong-identity"
			res.Msg = fmt.Sprintf("asked sequence %q got %v", op.Key, got)
		}
		return res
	}
	return &vdbRes{R: "error", Msg: "harness: unknown op " + op.Op}
}

func (w *vdbWorld) open(bs asserts.Backstore, predefRev int) *asserts.Database {
	db, err := asserts.OpenDatabase(&asserts.DatabaseConfig{
		Backstore:       bs,
		Trusted:         w.ss.Trusted,
		OtherPredefined: []asserts.Assertion{w.assertion(vdbID{T: "predef", K: "p"}, predefRev, 0)},
	})
	if err != nil {
		panic(fmt.Sprintf("harness: OpenDatabase: %v", err))
	}
	return db
}

func TestVerifAssertDB(t *testing.T) {
	in, out, tmp := os.Getenv("VERIF_IN"), os.Getenv("VERIF_OUT"), os.Getenv("VERIF_TMP")
	if in == "" || out == "" || tmp == "" {
		t.Skip("VERIF_IN/VERIF_OUT/VERIF_TMP not set")
	}
	w := &vdbWorld{ss: assertstest.NewStoreStack("canonical", nil), cache: map[string]asserts.Assertion{}}
	fin, err := os.Open(in)
	if err != nil {
		t.Fatal(err)
	}
	defer fin.Close()
	fout, err := os.Create(out)
	if err != nil {
		t.Fatal(err)
	}
	bw := bufio.NewWriter(fout)
	enc := json.NewEncoder(bw)

	var memDB, fsDB *asserts.Database
	fsDir := ""
	nops, ncases := 0, 0
	sc := bufio.NewScanner(fin)
	sc.Buffer(make([]byte, 1<<20), 1<<26)
	for sc.Scan() {
		var op vdbOp
		if err := json.Unmarshal(sc.Bytes(), &op); err != nil {
			t.Fatalf("bad input line: %v", err)
		}
		if op.Op == "Reset" {
			if fsDir != "" {
				os.RemoveAll(fsDir)
			}
			fsDir = filepath.Join(tmp, fmt.Sprintf("fs%d", op.Case))
			if err := os.MkdirAll(fsDir, 0755); err != nil {
				t.Fatal(err)
			}
			fsbs, err := asserts.OpenFSBackstore(fsDir)
			if err != nil {
				t.Fatalf("OpenFSBackstore: %v", err)
			}
			vdbSeqMap = op.SeqMap
			memDB = w.open(asserts.NewMemoryBackstore(), op.PredefRev)
			fsDB = w.open(fsbs, op.PredefRev)
			ncases++
			continue
		}
		op.Mem = w.apply(memDB, &op)
		op.Fs = w.apply(fsDB, &op)
		nops++
		if err := enc.Encode(&op); err != nil {
			t.Fatal(err)
		}
	}
	if err := sc.Err(); err != nil {
		t.Fatal(err)
	}
	if fsDir != "" {
		os.RemoveAll(fsDir)
	}
	if err := bw.Flush(); err != nil {
		t.Fatal(err)
	}
	fout.Close()
	fmt.Printf("VERIF-STATS cases=%d ops=%d signed=%d\n", ncases, nops, len(w.cache))
}
