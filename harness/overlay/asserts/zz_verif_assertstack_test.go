// -*- Mode: Go; indent-tabs-mode: t -*-

// C18 driver, part 2 (T->I): histories computed by TLC from spec/AssertStack.tla are replayed on real
// STACKED databases (Database.WithStackedBackstore over memory backstores): "stack" stacks a new
// database on the top handle, "key-<kind>" adds the next revision of the real account-key of the key
// under test through the top handle.  After the last action, through EVERY handle, a real assertion
// signed with that key is judged by Check, by a fresh WithStackedBackstore + Check, by Batch precheck,
// by Batch.CommitTo(Precheck) on a fresh stacked database, and by Add; Find reports the visible
// account-key revision.  Uses the helpers of zz_verif_assertcheck_test.go (same package).

package asserts_test

import (
	"bufio"
	"encoding/json"
	"fmt"
	"os"
	"strconv"
	"strings"
	"testing"
	"time"

	"github.com/snapcore/snapd/asserts"
)

type vstRow struct {
	I   int      `json:"i"`
	Ops []string `json:"ops"`
	Now int      `json:"now"`
}

type vstHandle struct {
	Check      string `json:"check"`
	FreshCheck string `json:"fresh_check"`
	Precheck   string `json:"precheck"`
	Commit     string `json:"commit"`
	Add        string `json:"add"`
	KeyRev     int    `json:"key_rev"` // revision of the account-key Find returns through this handle, -1 none
}

type vstOut struct {
	I       int         `json:"i"`
	Setup   string      `json:"setup"` // "ok" or the first action that the real code refused
	Handles []vstHandle `json:"handles"`
}

func (w *vckWorld) stackKey(rev int, kind string) asserts.Assertion {
	ck := fmt.Sprintf("stackkey/%d/%s", rev, kind)
	if a, ok := w.stackKeys[ck]; ok {
		return a
	}
	hdrs := map[string]interface{}{
		"authority-id":        "canonical",
		"account-id":          "auth",
		"public-key-sha3-384": w.k.PublicKey().ID(),
		"since":               vckTime(w.since).Format(time.RFC3339),
		"revision":            strconv.Itoa(rev),
	}
	cons := func(typ, class string) []interface{} {
		h := map[string]interface{}{"type": typ}
		if class != "" {
			h["class"] = class
		}
		return []interface{}{map[string]interface{}{"headers": h}}
	}
	switch kind {
	case "valid":
	case "expired":
		hdrs["until"] = vckTime(w.since + 2).Format(time.RFC3339)
	case "constrained":
		hdrs["constraints"] = cons("model", "")
		hdrs["format"] = "1"
	case "validcons":
		hdrs["constraints"] = cons("test-only", "plain.*")
		hdrs["format"] = "1"
	default:
		panic("harness: unknown key kind " + kind)
	}
	body, err := asserts.EncodePublicKey(w.k.PublicKey())
	vckMust(err, "EncodePublicKey")
	a, err := w.rootSigning.Sign(asserts.AccountKeyType, hdrs, body, "")
	vckMust(err, "sign account-key revision")
	if w.stackKeys == nil {
		w.stackKeys = map[string]asserts.Assertion{}
	}
	w.stackKeys[ck] = a
	return a
}

// Batch sorts by prerequisites first: an unknown signing key surfaces there, before Check is reached.
func vstBatchReason(err error) string {
	if err != nil && strings.Contains(err.Error(), "cannot resolve prerequisite assertion: account-key") {
		return "reject:nokey"
	}
	return vckReason(err)
}

func TestVerifAssertStack(t *testing.T) {
	in, out := os.Getenv("VERIF_IN"), os.Getenv("VERIF_OUT")
	if in == "" || out == "" {
		t.Skip("VERIF_IN/VERIF_OUT not set")
	}
	seed, _ := strconv.Atoi(os.Getenv("VERIF_SEED"))
	fin, err := os.Open(in)
	if err != nil {
		t.Fatal(err)
	}
	defer fin.Close()
	fout, err := os.Create(out)
	if err != nil {
		t.Fatal(err)
	}
	bw := bufio.NewWriter(fout)
	enc := json.NewEncoder(bw)
	w := newVckWorld(seed, 10)
	// the candidate: a real test-only assertion signed with K (decoded from its encoding, as received)
	cand, err := asserts.Decode(w.baseEncoded(&vckRow{Cls: "plain", FmtOK: true}))
	vckMust(err, "decode candidate")
	nchecks := 0
	sc := bufio.NewScanner(fin)
	sc.Buffer(make([]byte, 1<<20), 1<<26)
	nrows := 0
	for sc.Scan() {
		var r vstRow
		if err := json.Unmarshal(sc.Bytes(), &r); err != nil {
			t.Fatalf("bad input line: %v", err)
		}
		restore := asserts.MockTimeNow(vckTime(r.Now))
		base, err := asserts.OpenDatabase(&asserts.DatabaseConfig{
			Backstore: asserts.NewMemoryBackstore(),
			Trusted:   []asserts.Assertion{w.trustedAcct, w.trustedKey},
		})
		vckMust(err, "OpenDatabase")
		for _, a := range w.accts {
			vckMust(base.Add(a), "add account")
		}
		handles := []*asserts.Database{base}
		o := vstOut{I: r.I, Setup: "ok"}
		nextRev := 0
		for j, op := range r.Ops {
			top := handles[len(handles)-1]
			if op == "stack" {
				handles = append(handles, top.WithStackedBackstore(asserts.NewMemoryBackstore()))
				continue
			}
			kind := strings.TrimPrefix(op, "key-")
			if err := top.Add(w.stackKey(nextRev, kind)); err != nil {
				o.Setup = fmt.Sprintf("action %d %s (revision %d) refused: %v", j, op, nextRev, err)
				break
			}
			nextRev++
		}
		if o.Setup == "ok" {
			o.Handles = make([]vstHandle, len(handles))
			// top-down, Add last: an Add through handle d must not be visible to the judgements through lower handles
			for d := len(handles) - 1; d >= 0; d-- {
				h := handles[d]
				var res vstHandle
				res.Check = vckReason(h.Check(cand))
				res.FreshCheck = vckReason(h.WithStackedBackstore(asserts.NewMemoryBackstore()).Check(cand))
				b := asserts.NewBatch(nil)
				vckMust(b.Add(cand), "batch add")
				res.Precheck = vstBatchReason(b.DoPrecheck(h))
				b2 := asserts.NewBatch(nil)
				vckMust(b2.Add(cand), "batch add")
				res.Commit = vstBatchReason(b2.CommitTo(h.WithStackedBackstore(asserts.NewMemoryBackstore()), &asserts.CommitOptions{Precheck: true}))
				res.Add = vckReason(h.Add(cand))
				res.KeyRev = -1
				if ak, err := h.Find(asserts.AccountKeyType, map[string]string{"public-key-sha3-384": w.k.PublicKey().ID()}); err == nil {
					res.KeyRev = ak.Revision()
				}
				nchecks += 5
				o.Handles[d] = res
			}
		}
		restore()
		nrows++
		if err := enc.Encode(&o); err != nil {
			t.Fatal(err)
		}
	}
	if err := sc.Err(); err != nil {
		t.Fatal(err)
	}
	if err := bw.Flush(); err != nil {
		t.Fatal(err)
	}
	fout.Close()
	fmt.Printf("VERIF-STATS rows=%d judgements=%d\n", nrows, nchecks)
}
