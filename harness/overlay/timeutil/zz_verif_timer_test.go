// -*- Mode: Go; indent-tabs-mode: t -*-

// C16 driver (overlay, compiled into package timeutil by /verif/props/c16.py).
//
// VERIF_MODE=queries : read the schedule-AST menu exported by TLC (TimerMenu.tla), render each
//                      AST with the real String(), parse it with the real ParseSchedule, and
//                      evaluate Schedule.Next / timeutil.Next on a grid of (last, now, max);
//                      one NDJSON record per query for TimerQueries.tla, one round-trip record
//                      per timer for TimerRoundTrip.tla.
// VERIF_MODE=tokens  : read the token alphabet exported by TLC (TimerTokens.tla), run the real
//                      ParseSchedule on every token string up to the given length, write the
//                      accepted ones (+ round-trip records for them).
//
// Times are logged as seconds since 2018-01-01T00:00:00Z, all in UTC.

package timeutil

import (
	"bufio"
	"encoding/json"
	"fmt"
	"math/rand"
	"os"
	"reflect"
	"strconv"
	"strings"
	"testing"
	"time"

	"github.com/snapcore/snapd/randutil"
)

var verifTimerEpoch = time.Date(2018, 1, 1, 0, 0, 0, 0, time.UTC)

type verifTimerWS struct {
	Swd  int `json:"swd"`
	Spos int `json:"spos"`
	Ewd  int `json:"ewd"`
	Epos int `json:"epos"`
}

type verifTimerCS struct {
	S      int  `json:"s"`
	E      int  `json:"e"`
	Split  int  `json:"split"`
	Spread bool `json:"spread"`
}

type verifTimerSched struct {
	WS []verifTimerWS `json:"ws"`
	CS []verifTimerCS `json:"cs"`
}

type verifTimerWin struct {
	S int64 `json:"s"`
	E int64 `json:"e"`
}

func verifTimerSec(t time.Time) int64 { return t.Unix() - verifTimerEpoch.Unix() }
func verifTimerAt(sec int64) time.Time {
	return verifTimerEpoch.Add(time.Duration(sec) * time.Second)
}

// AST (spec shape) -> real Schedule
func verifTimerToReal(s verifTimerSched) *Schedule {
	out := &Schedule{}
	for _, w := range s.WS {
		out.WeekSpans = append(out.WeekSpans, WeekSpan{
			Start: Week{Weekday: time.Weekday(w.Swd), Pos: uint(w.Spos)},
			End:   Week{Weekday: time.Weekday(w.Ewd), Pos: uint(w.Epos)},
		})
	}
	for _, c := range s.CS {
		out.ClockSpans = append(out.ClockSpans, ClockSpan{
			Start:  Clock{Hour: c.S / 60, Minute: c.S % 60},
			End:    Clock{Hour: c.E / 60, Minute: c.E % 60},
			Split:  uint(c.Split),
			Spread: c.Spread,
		})
	}
	return out
}

// real Schedule -> AST (spec shape)
func verifTimerFromReal(s *Schedule) verifTimerSched {
	out := verifTimerSched{WS: []verifTimerWS{}, CS: []verifTimerCS{}}
	for _, w := range s.WeekSpans {
		out.WS = append(out.WS, verifTimerWS{int(w.Start.Weekday), int(w.Start.Pos), int(w.End.Weekday), int(w.End.Pos)})
	}
	for _, c := range s.ClockSpans {
		out.CS = append(out.CS, verifTimerCS{c.Start.Hour*60 + c.Start.Minute, c.End.Hour*60 + c.End.Minute, int(c.Split), c.Spread})
	}
	return out
}

func verifTimerASTs(ss []*Schedule) []verifTimerSched {
	out := make([]verifTimerSched, 0, len(ss))
	for _, s := range ss {
		out = append(out, verifTimerFromReal(s))
	}
	return out
}

// fields without any effect on the meaning are normalised before comparing ASTs: a split of a
// point span or a split by one, and the spread flag of a point span.
func verifTimerNorm(ss []verifTimerSched) []verifTimerSched {
	out := make([]verifTimerSched, len(ss))
	for i, s := range ss {
		n := verifTimerSched{WS: append([]verifTimerWS{}, s.WS...), CS: []verifTimerCS{}}
		for _, c := range s.CS {
			if c.S == c.E {
				c.Split, c.Spread = 0, false
			}
			if c.Split == 1 {
				c.Split = 0
			}
			n.CS = append(n.CS, c)
		}
		out[i] = n
	}
	return out
}

func verifTimerString(ss []*Schedule) string {
	parts := make([]string, len(ss))
	for i, s := range ss {
		parts[i] = s.String()
	}
	return strings.Join(parts, ",,")
}

type verifTimerOut struct {
	f *os.File
	w *bufio.Writer
	n int
}

func verifTimerCreate(t *testing.T, env string) *verifTimerOut {
	p := os.Getenv(env)
	if p == "" {
		t.Fatalf("%s not set", env)
	}
	f, err := os.Create(p)
	if err != nil {
		t.Fatal(err)
	}
	return &verifTimerOut{f: f, w: bufio.NewWriterSize(f, 1<<20)}
}

func (o *verifTimerOut) put(v interface{}) {
	b, err := json.Marshal(v)
	if err != nil {
		panic(err)
	}
	o.w.Write(b)
	o.w.WriteByte('\n')
	o.n++
}

func (o *verifTimerOut) close() {
	o.w.Flush()
	o.f.Close()
}

func verifTimerEnvInt(name string, def int) int {
	if v := os.Getenv(name); v != "" {
		n, err := strconv.Atoi(v)
		if err == nil {
			return n
		}
	}
	return def
}

// round-trip record: a = reference AST, b = AST of Parse(String(a)); c must equal b
type verifTimerRT struct {
	Case     string            `json:"case"`
	Str      string            `json:"str"`
	Str2     string            `json:"str2"`
	A        []verifTimerSched `json:"a"`
	B        []verifTimerSched `json:"b"`
	D1       int               `json:"d1"`
	D2       int               `json:"d2"`
	ASTEqual bool              `json:"ast_equal"`
	Err      string            `json:"err,omitempty"`
}

func verifTimerRoundTrip(cas string, str string, a []*Schedule, refAST []verifTimerSched, d1 int) verifTimerRT {
	rec := verifTimerRT{Case: cas, Str: str, A: refAST, B: []verifTimerSched{}, D1: d1, D2: d1 + 59}
	s2 := verifTimerString(a)
	rec.Str2 = s2
	b, err := ParseSchedule(s2)
	if err != nil {
		rec.Err = fmt.Sprintf("ParseSchedule(%q) of formatted timer failed: %v", s2, err)
		return rec
	}
	rec.B = verifTimerASTs(b)
	rec.ASTEqual = reflect.DeepEqual(verifTimerNorm(refAST), verifTimerNorm(rec.B))
	// and once more: formatting is stable
	if s3 := verifTimerString(b); s3 != s2 {
		c, err := ParseSchedule(s3)
		if err != nil || !reflect.DeepEqual(verifTimerNorm(verifTimerASTs(c)), verifTimerNorm(rec.B)) {
			rec.ASTEqual = false
		}
	}
	return rec
}

var verifTimerDays = []string{
	"2018-07-27", "2018-07-30", "2018-07-31", "2018-08-01", "2018-08-03", "2018-08-06", "2018-08-24",
	"2018-08-30", "2018-09-30", "2018-12-31", "2019-01-01", "2019-02-22", "2019-02-25", "2019-02-28",
	"2019-03-01", "2019-03-31", "2019-04-01", "2019-09-29", "2019-09-30", "2019-12-29", "2020-01-31",
	"2020-02-23", "2020-02-24", "2020-02-28", "2020-02-29", "2020-03-01", "2020-03-02", "2020-05-31",
	"2020-06-01", "2020-08-31",
}

// seconds of the day
var verifTimerClocks = []int{0, 1, 30 * 60, 3600, 8*3600 + 59*60 + 30, 9 * 3600, 9*3600 + 1, 10 * 3600, 10*3600 + 30,
	11 * 3600, 12 * 3600, 18 * 3600, 23 * 3600, 23*3600 + 30*60, 86399}

type verifTimerQuery struct {
	Case string          `json:"case"`
	T    int             `json:"t"`
	Last int64           `json:"last"`
	Now  int64           `json:"now"`
	Max  int64           `json:"max"`
	W    []verifTimerWin `json:"w"`
	Dlo  int64           `json:"dlo"`
	Dhi  int64           `json:"dhi"`
}

func verifTimerEval(timer []*Schedule, last, now, max int64) ([]verifTimerWin, int64, int64) {
	nowT := verifTimerAt(now)
	lastT := verifTimerAt(last)
	restore := MockTimeNow(func() time.Time { return nowT })
	defer restore()
	ws := make([]verifTimerWin, len(timer))
	for i, s := range timer {
		w := s.Next(lastT)
		ws[i] = verifTimerWin{verifTimerSec(w.Start), verifTimerSec(w.End)}
	}
	d := Next(timer, lastT, time.Duration(max)*time.Second)
	dlo := int64(d / time.Second)
	dhi := dlo
	if d%time.Second != 0 {
		dhi++
	}
	return ws, dlo, dhi
}

func TestVerifTimer(t *testing.T) {
	seed := int64(verifTimerEnvInt("VERIF_SEED", 1))
	// the spread component comes from randutil (global math/rand): force its one-time reseed, then seed
	randutil.RandomDuration(time.Second)
	rand.Seed(seed)
	rng := rand.New(rand.NewSource(seed))
	switch os.Getenv("VERIF_MODE") {
	case "queries":
		verifTimerQueries(t, rng)
	case "tokens":
		verifTimerTokens(t, rng)
	default:
		t.Skip("VERIF_MODE not set")
	}
}

func verifTimerQueries(t *testing.T, rng *rand.Rand) {
	var menu struct {
		Eventsets []verifTimerSched `json:"eventsets"`
	}
	b, err := os.ReadFile(os.Getenv("VERIF_MENU"))
	if err != nil {
		t.Fatal(err)
	}
	if err := json.Unmarshal(b, &menu); err != nil {
		t.Fatal(err)
	}
	nSingles := verifTimerEnvInt("VERIF_SINGLES", len(menu.Eventsets))
	nPairs := verifTimerEnvInt("VERIF_PAIRS", 100)
	nQueries := verifTimerEnvInt("VERIF_N", 10000)

	// choose the timers: a seeded sample of single event sets, plus seeded pairs
	var timers [][]verifTimerSched
	perm := rng.Perm(len(menu.Eventsets))
	if nSingles > len(perm) {
		nSingles = len(perm)
	}
	for _, i := range perm[:nSingles] {
		timers = append(timers, []verifTimerSched{menu.Eventsets[i]})
	}
	for i := 0; i < nPairs; i++ {
		a, b := rng.Intn(len(menu.Eventsets)), rng.Intn(len(menu.Eventsets))
		timers = append(timers, []verifTimerSched{menu.Eventsets[a], menu.Eventsets[b]})
	}
	perTimer := nQueries/len(timers) + 1

	scheds := verifTimerCreate(t, "VERIF_SCHEDS")
	defer scheds.close()
	out := verifTimerCreate(t, "VERIF_OUT")
	defer out.close()
	rt := verifTimerCreate(t, "VERIF_RT")
	defer rt.close()

	var days []int64
	for _, d := range verifTimerDays {
		tm, err := time.ParseInLocation("2006-01-02", d, time.UTC)
		if err != nil {
			t.Fatal(err)
		}
		days = append(days, verifTimerSec(tm))
	}
	maxes := []int64{95 * 86400, 95 * 86400, 95 * 86400, 3 * 86400, 6 * 3600, 35 * 86400}

	for ti, ast := range timers {
		real := make([]*Schedule, len(ast))
		for i := range ast {
			real[i] = verifTimerToReal(ast[i])
		}
		str := verifTimerString(real)
		parsed, err := ParseSchedule(str)
		rtrec := verifTimerRoundTrip(fmt.Sprintf("menu:%s", str), str, real, ast, rng.Intn(900))
		if err != nil {
			rtrec.Err = fmt.Sprintf("ParseSchedule(%q) failed: %v", str, err)
			rtrec.ASTEqual = false
		}
		rt.put(rtrec)
		if err != nil {
			// a rendered menu timer is not accepted: reported via the round-trip record; no queries
			scheds.put(map[string]interface{}{"id": ti + 1, "str": str, "timer": ast})
			continue
		}
		// the queries are evaluated on what the real parser returned
		scheds.put(map[string]interface{}{"id": ti + 1, "str": str, "timer": verifTimerASTs(parsed)})

		var spanClocks []int64
		for _, s := range parsed {
			for _, c := range s.ClockSpans {
				st := int64(c.Start.Hour*3600 + c.Start.Minute*60)
				en := int64(c.End.Hour*3600 + c.End.Minute*60)
				for _, x := range []int64{st - 1, st, en - 60, en, en + 1, en + 120, en + 300} {
					spanClocks = append(spanClocks, (x+86400)%86400)
				}
			}
		}
		emitted := 0
		emit := func(last, now, max int64) {
			if now < 0 || last < 0 || now > 1200*86400 || last > 1200*86400 {
				return
			}
			ws, dlo, dhi := verifTimerEval(parsed, last, now, max)
			out.put(verifTimerQuery{
				Case: fmt.Sprintf("%s last=%s now=%s max=%ds", str, verifTimerAt(last).Format("2006-01-02T15:04:05"),
					verifTimerAt(now).Format("2006-01-02T15:04:05"), max),
				T: ti + 1, Last: last, Now: now, Max: max, W: ws, Dlo: dlo, Dhi: dhi,
			})
			emitted++
		}
		for emitted < perTimer {
			// a base instant: an interesting (or random) day at an interesting (or random) time
			var day int64
			if rng.Intn(4) == 0 {
				day = int64(40+rng.Intn(900)) * 86400 // (not the first weeks of the spec calendar: spans anchored in December 2017)
			} else {
				day = days[rng.Intn(len(days))]
			}
			var clk int64
			if k := rng.Intn(6); k == 0 {
				clk = int64(rng.Intn(86400))
			} else if k == 1 && len(spanClocks) > 0 {
				// around the configured ends of the timer's own clock spans (just after a window's end)
				clk = spanClocks[rng.Intn(len(spanClocks))]
			} else {
				clk = int64(verifTimerClocks[rng.Intn(len(verifTimerClocks))])
			}
			base := day + clk
			max := maxes[rng.Intn(len(maxes))]
			// probe: the windows seen from `base` give the edges to test around
			ws, _, _ := verifTimerEval(parsed, base, base, max)
			var edges []int64
			for _, w := range ws {
				mid := (w.S + w.E) / 2
				edges = append(edges, w.S-60, w.S-1, w.S, w.S+1, mid, w.E-1, w.E, w.E+1, w.E+60)
			}
			lasts := []int64{base}
			// also a last refresh sitting on a window edge (exercises the "same window as last" skip)
			if len(edges) > 0 {
				lasts = append(lasts, edges[rng.Intn(len(edges))])
			}
			for _, last := range lasts {
				nows := []int64{last, last + 1, last + 3600, last + 86400, last + 7*86400, last + 33*86400,
					last + max - 1, last + max, last + max + 1, last + max + 1800, last + max + 7200}
				nows = append(nows, edges...)
				// a handful per base, seeded
				for k := 0; k < 5 && emitted < perTimer; k++ {
					now := nows[rng.Intn(len(nows))]
					if now < last {
						now = last
					}
					emit(last, now, max)
				}
			}
		}
	}
	t.Logf("VERIF timers=%d queries=%d roundtrips=%d", len(timers), out.n, rt.n)
}

func verifTimerTokens(t *testing.T, rng *rand.Rand) {
	var in struct {
		Alphabet []string `json:"alphabet"`
		Maxlen   int      `json:"maxlen"`
	}
	b, err := os.ReadFile(os.Getenv("VERIF_TOKENS"))
	if err != nil {
		t.Fatal(err)
	}
	if err := json.Unmarshal(b, &in); err != nil {
		t.Fatal(err)
	}
	out := verifTimerCreate(t, "VERIF_OUT")
	defer out.close()
	rt := verifTimerCreate(t, "VERIF_RT")
	defer rt.close()

	n := len(in.Alphabet)
	total := 0
	accepted := 0
	idx := make([]int, 0, in.Maxlen)
	var rec func()
	rec = func() {
		if len(idx) > 0 {
			total++
			var sb strings.Builder
			for _, i := range idx {
				sb.WriteString(in.Alphabet[i])
			}
			s := sb.String()
			sched, err := ParseSchedule(s)
			if err == nil {
				accepted++
				one := make([]int, len(idx))
				for k, i := range idx {
					one[k] = i + 1 // 1-based like the TLA+ side
				}
				out.put(map[string]interface{}{"toks": one, "str": s})
				rt.put(verifTimerRoundTrip("tokens:"+s, s, sched, verifTimerASTs(sched), rng.Intn(900)))
			}
		}
		if len(idx) == in.Maxlen {
			return
		}
		for i := 0; i < n; i++ {
			idx = append(idx, i)
			rec()
			idx = idx[:len(idx)-1]
		}
	}
	rec()
	t.Logf("VERIF total=%d accepted=%d", total, accepted)
}
