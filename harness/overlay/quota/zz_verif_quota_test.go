// -*- Mode: Go; indent-tabs-mode: t -*-

// C36 driver (verification harness, compiled into package quota with `go test -overlay`; never part of /repo).
//
// Drives the REAL quota.NewGroup / (*Group).NewSubGroup / (*Group).UpdateQuotaLimits (and the production update
// sequence of overlord/servicestate.quotaUpdateGroupLimits: ValidateChange + Resources.Change +
// UpdateQuotaLimits(merged)) with seeded random, enumerated (exhaustive one-step request domain on random base
// trees) or replayed (TLC behaviours / counterexamples) request sequences, and records one NDJSON event per
// request: the request, accept/refuse, and the projection of the real forest (GetQuotaResources per group,
// sub-group structure, real CPU allocation).  The statement (Fits) is also evaluated directly on the real
// forest here; the trace is validated against spec/TraceQuotaTree.tla by props/c36.py.
package quota

import (
	"bufio"
	"encoding/json"
	"fmt"
	"math/rand"
	"os"
	"reflect"
	"sort"
	"strconv"
	"testing"

	"github.com/snapcore/snapd/gadget/quantity"
)

const vqOmit = -1

type vqReq struct {
	Mem    int   `json:"mem"`
	Thr    int   `json:"thr"`
	Cnt    int   `json:"cnt"`
	Pct    int   `json:"pct"`
	HasSet bool  `json:"hasSet"`
	Cpus   []int `json:"cpus"`
	Other  bool  `json:"other"`
}

type vqOp struct {
	Op   string `json:"op"`   // "new" | "update"
	G    int    `json:"g"`    // new: parent id (0 = top-level); update: group id
	Path string `json:"path"` // "direct" | "merged"
	Req  vqReq  `json:"req"`
}

type vqRec struct {
	Parent int   `json:"parent"`
	Mem    int   `json:"mem"`
	Thr    int   `json:"thr"`
	Cnt    int   `json:"cnt"`
	Pct    int   `json:"pct"`
	Cpus   []int `json:"cpus"`
	Other  bool  `json:"other"`
	Alloc  int   `json:"alloc"`
}

type vqEvent struct {
	Ev        string   `json:"ev"`
	Case      string   `json:"case"`
	I         int      `json:"i"`
	Op        string   `json:"op"`
	G         int      `json:"g"`
	Path      string   `json:"path"`
	Req       vqReq    `json:"req"`
	Ok        bool     `json:"ok"`
	Err       string   `json:"err"`
	Fits      bool     `json:"fits"`
	Broken    []string `json:"broken"` // clauses of the statement violated on the REAL forest after this request
	Cls       []string `json:"cls"`    // named deviation classes of the breaking step (mechanism)
	Unch      bool     `json:"unch"`   // projection identical before/after
	NCPU      int      `json:"ncpu"`   // Reset only: the bounds the driver works in
	MaxGroups int      `json:"maxGroups"`
	MaxDepth  int      `json:"maxDepth"`
	MaxRoots  int      `json:"maxRoots"`
	St        []vqRec  `json:"st"`
}

type vqForest struct {
	known []*Group // accepted creations, in creation order; id = index+1
}

func vqEnvInt(name string, def int) int {
	if v := os.Getenv(name); v != "" {
		n, err := strconv.Atoi(v)
		if err != nil {
			panic(fmt.Sprintf("bad %s=%q", name, v))
		}
		return n
	}
	return def
}

func vqResources(r vqReq) Resources {
	var res Resources
	if r.Mem != vqOmit {
		res.Memory = &ResourceMemory{Limit: quantity.Size(r.Mem) * quantity.SizeMiB}
	}
	if r.Pct != vqOmit {
		res.CPU = &ResourceCPU{Count: r.Cnt, Percentage: r.Pct}
	}
	if r.HasSet {
		res.CPUSet = &ResourceCPUSet{CPUs: append([]int{}, r.Cpus...)}
	}
	if r.Thr != vqOmit {
		res.Threads = &ResourceThreads{Limit: r.Thr}
	}
	if r.Other {
		res.Journal = &ResourceJournal{}
	}
	return res
}

func vqReqOf(res Resources) vqReq {
	r := vqReq{Mem: vqOmit, Thr: vqOmit, Cnt: vqOmit, Pct: vqOmit, Cpus: []int{}}
	if res.Memory != nil {
		r.Mem = vqMiB(res.Memory.Limit)
	}
	if res.CPU != nil {
		r.Cnt, r.Pct = res.CPU.Count, res.CPU.Percentage
	}
	if res.CPUSet != nil {
		r.HasSet = true
		r.Cpus = vqSorted(res.CPUSet.CPUs)
	}
	if res.Threads != nil {
		r.Thr = res.Threads.Limit
	}
	r.Other = res.Journal != nil
	return r
}

func vqMiB(s quantity.Size) int {
	if s%quantity.SizeMiB != 0 {
		return -2 // never produced by the driver's requests: will be rejected by the trace spec
	}
	return int(s / quantity.SizeMiB)
}

func vqSorted(in []int) []int {
	out := append([]int{}, in...)
	sort.Ints(out)
	return out
}

// all groups reachable from the known roots through the REAL subGroups links; groups that are linked but were
// never returned by an accepted creation ("leaked") are appended after the known ones.
func (f *vqForest) reachable() []*Group {
	seen := map[*Group]bool{}
	var leaked []*Group
	var walk func(g *Group)
	walk = func(g *Group) {
		if seen[g] {
			return
		}
		seen[g] = true
		for _, s := range g.subGroups {
			walk(s)
		}
	}
	for _, g := range f.known {
		if g.parentGroup == nil {
			walk(g)
		}
	}
	out := []*Group{}
	isKnown := map[*Group]bool{}
	for _, g := range f.known {
		isKnown[g] = true
		out = append(out, g) // known groups are always projected (an unlinked known group shows up via structure())
	}
	for g := range seen {
		if !isKnown[g] {
			leaked = append(leaked, g)
		}
	}
	sort.Slice(leaked, func(i, j int) bool { return leaked[i].Name < leaked[j].Name })
	return append(out, leaked...)
}

func (f *vqForest) project() []vqRec {
	all := f.reachable()
	idx := map[*Group]int{}
	for i, g := range all {
		idx[g] = i + 1
	}
	out := make([]vqRec, 0, len(all))
	for _, g := range all {
		res := g.GetQuotaResources()
		r := vqReqOf(res)
		rec := vqRec{Parent: idx[g.parentGroup], Cpus: r.Cpus, Other: r.Other, Alloc: g.getCurrentCPUAllocation()}
		if r.Mem != vqOmit {
			rec.Mem = r.Mem
		}
		if r.Thr != vqOmit {
			rec.Thr = r.Thr
		}
		if r.Pct != vqOmit {
			rec.Cnt, rec.Pct = r.Cnt, r.Pct
		}
		out = append(out, rec)
	}
	return out
}

// structure checks that names/pointers of the real forest are mutually consistent (SubGroups vs subGroups vs
// parentGroup/ParentGroup); returns a description of the first inconsistency.
func (f *vqForest) structure() string {
	for _, g := range f.reachable() {
		if len(g.SubGroups) != len(g.subGroups) {
			return fmt.Sprintf("group %s: SubGroups %v vs %d sub-group objects", g.Name, g.SubGroups, len(g.subGroups))
		}
		for i, s := range g.subGroups {
			if g.SubGroups[i] != s.Name || s.parentGroup != g || s.ParentGroup != g.Name {
				return fmt.Sprintf("group %s: sub-group %d (%s) inconsistent links", g.Name, i, s.Name)
			}
		}
		if g.parentGroup != nil {
			n := 0
			for _, s := range g.parentGroup.subGroups {
				if s == g {
					n++
				}
			}
			if n != 1 {
				return fmt.Sprintf("group %s is linked %d times into its parent %s", g.Name, n, g.parentGroup.Name)
			}
		} else if g.ParentGroup != "" {
			return fmt.Sprintf("group %s: ParentGroup %q without parent object", g.Name, g.ParentGroup)
		}
	}
	return ""
}

// ---- the statement, evaluated on the real forest (independent of the algorithm under test) ----

type vqLim struct{ mem, thr, cpu int }

func vqLimits(g *Group) vqLim {
	cnt, pct := g.GetLocalCPUQuota()
	return vqLim{mem: vqMiB(g.MemoryLimit), thr: g.ThreadLimit, cpu: cnt * pct}
}

func vqMax(a, b int) int {
	if a > b {
		return a
	}
	return b
}

// effective reservation of g: max(own limit, sum of the children's effective reservations)
func vqEffective(g *Group, broken map[string]bool) vqLim {
	var sum vqLim
	for _, s := range g.subGroups {
		e := vqEffective(s, broken)
		sum.mem += e.mem
		sum.thr += e.thr
		sum.cpu += e.cpu
	}
	l := vqLimits(g)
	if l.mem != 0 && sum.mem > l.mem {
		broken["mem"] = true
	}
	if l.thr != 0 && sum.thr > l.thr {
		broken["thr"] = true
	}
	if l.cpu != 0 && sum.cpu > l.cpu {
		broken["cpu"] = true
	}
	return vqLim{mem: vqMax(l.mem, sum.mem), thr: vqMax(l.thr, sum.thr), cpu: vqMax(l.cpu, sum.cpu)}
}

func vqSubset(a, b []int) bool {
	for _, x := range a {
		found := false
		for _, y := range b {
			if x == y {
				found = true
			}
		}
		if !found {
			return false
		}
	}
	return true
}

func (f *vqForest) fits() []string {
	broken := map[string]bool{}
	for _, g := range f.reachable() {
		if g.parentGroup == nil {
			vqEffective(g, broken)
		}
		// cpu-set of a group lies within the nearest cpu-set above it
		own := g.GetLocalCPUSetQuota()
		if len(own) != 0 {
			for p := g.parentGroup; p != nil; p = p.parentGroup {
				if ps := p.GetLocalCPUSetQuota(); len(ps) != 0 {
					if !vqSubset(own, ps) {
						broken["set"] = true
					}
					break
				}
			}
		}
	}
	out := []string{}
	for k := range broken {
		out = append(out, k)
	}
	sort.Strings(out)
	return out
}

// ---- mechanism classification of a Fits-breaking accepted step (mirrors Drift/Shadow of QuotaTree.tla) ----

// cpuRequested as validateCPUResourceFit computes it, from the state BEFORE the request
func vqCpuRequested(q vqReq, inheritedSetSize int, ncpu int) int {
	if q.Cnt != 0 {
		return q.Cnt * q.Pct
	}
	if inheritedSetSize == 0 {
		return ncpu * q.Pct
	}
	return inheritedSetSize * q.Pct
}

type vqPre struct {
	alloc     map[*Group]int
	setSize   int  // len(GetCPUSetQuota()) of the subject (for a new group: of its parent chain)
	shadowed  bool // nearest ancestor with CPU quota or cpu-set has only a cpu-set, and a CPU quota exists above it
	subjAlloc int
}

func (f *vqForest) pre(subject *Group, parent *Group) vqPre {
	p := vqPre{alloc: map[*Group]int{}}
	for _, g := range f.reachable() {
		p.alloc[g] = g.getCurrentCPUAllocation()
	}
	start := parent
	if subject != nil {
		p.setSize = len(subject.GetCPUSetQuota())
		p.subjAlloc = p.alloc[subject]
		start = subject.parentGroup
	} else if parent != nil {
		p.setSize = len(parent.GetCPUSetQuota())
	}
	for a := start; a != nil; a = a.parentGroup {
		if a.getCurrentCPUAllocation() != 0 {
			break
		}
		if len(a.GetLocalCPUSetQuota()) != 0 {
			for b := a.parentGroup; b != nil; b = b.parentGroup {
				if b.getCurrentCPUAllocation() != 0 {
					p.shadowed = true
				}
			}
			break
		}
	}
	return p
}

func (f *vqForest) classify(pre vqPre, subject *Group, eff vqReq, ncpu int) []string {
	cls := []string{}
	driftSelf, driftDesc := false, false
	for _, g := range f.reachable() {
		now := g.getCurrentCPUAllocation()
		if g == subject {
			assumed := pre.alloc[g] // 0 for a new group
			if eff.Pct != vqOmit {
				assumed = 0
				if eff.Pct != 0 {
					assumed = vqCpuRequested(eff, pre.setSize, ncpu)
				}
			}
			if now != assumed {
				driftSelf = true
			}
		} else if now != pre.alloc[g] {
			driftDesc = true
		}
	}
	if driftDesc {
		cls = append(cls, "drift-desc")
	}
	if driftSelf {
		cls = append(cls, "drift-self")
	}
	if pre.shadowed && eff.Pct != vqOmit && eff.Pct != 0 {
		cls = append(cls, "shadow")
	}
	if len(cls) == 0 {
		cls = append(cls, "unclassified")
	}
	return cls
}

// ---- applying one request to the real code ----

type vqRun struct {
	t       *testing.T
	w       *bufio.Writer
	ncpu    int
	nameSeq int
	nOps    int
	nAcc    int
	nBroken int
}

func (r *vqRun) emit(e vqEvent) {
	if e.Req.Cpus == nil {
		e.Req.Cpus = []int{}
	}
	if e.Broken == nil {
		e.Broken = []string{}
	}
	if e.Cls == nil {
		e.Cls = []string{}
	}
	if e.St == nil {
		e.St = []vqRec{}
	}
	b, err := json.Marshal(e)
	if err != nil {
		r.t.Fatalf("marshal: %v", err)
	}
	r.w.Write(b)
	r.w.WriteByte('\n')
}

func (r *vqRun) reset(cs string, d vqDom) {
	r.emit(vqEvent{Ev: "Reset", Case: cs, NCPU: r.ncpu, MaxGroups: d.maxGroups, MaxDepth: d.maxDepth, MaxRoots: d.maxRoots})
}

// apply performs op on the real forest and returns the event describing it.
func (r *vqRun) apply(f *vqForest, cs string, i int, op vqOp) vqEvent {
	before := f.project()
	ev := vqEvent{Ev: "Op", Case: cs, I: i, Op: op.Op, G: op.G, Path: op.Path, Req: op.Req}
	var err error
	var subject *Group
	var pre vqPre
	eff := op.Req
	switch op.Op {
	case "new":
		r.nameSeq++
		name := fmt.Sprintf("g%d", r.nameSeq)
		var grp *Group
		if op.G == 0 {
			pre = f.pre(nil, nil)
			grp, err = NewGroup(name, vqResources(op.Req))
		} else {
			parent := f.known[op.G-1]
			pre = f.pre(nil, parent)
			grp, err = parent.NewSubGroup(name, vqResources(op.Req))
		}
		if err == nil {
			f.known = append(f.known, grp)
			subject = grp
		}
	case "update":
		g := f.known[op.G-1]
		pre = f.pre(g, nil)
		subject = g
		if op.Path == "merged" {
			// overlord/servicestate/quota_handlers.go: quotaUpdateGroupLimits (no journal limits involved)
			cur := g.GetQuotaResources()
			limits := vqResources(op.Req)
			err = cur.ValidateChange(limits)
			if err == nil {
				err = cur.Change(limits)
			}
			if err == nil {
				eff = vqReqOf(cur)
				err = g.UpdateQuotaLimits(cur)
			}
		} else {
			err = g.UpdateQuotaLimits(vqResources(op.Req))
		}
	default:
		r.t.Fatalf("bad op %q", op.Op)
	}
	r.nOps++
	ev.Ok = err == nil
	if err != nil {
		ev.Err = err.Error()
	} else {
		r.nAcc++
	}
	ev.St = f.project()
	ev.Unch = reflect.DeepEqual(before, ev.St)
	ev.Broken = f.fits()
	if s := f.structure(); s != "" {
		ev.Broken = append(ev.Broken, "structure: "+s)
	}
	ev.Fits = len(ev.Broken) == 0
	if !ev.Fits {
		r.nBroken++
		if ev.Ok {
			ev.Cls = f.classify(pre, subject, eff, r.ncpu)
		}
	}
	return ev
}

// ---- request generation ----

type vqDom struct {
	mem, thr, cnt, pct []int
	cores              int
	maxGroups          int
	maxDepth           int
	maxRoots           int
}

func (f *vqForest) depth(id int) int {
	d := 0
	for g := f.known[id-1]; g != nil; g = g.parentGroup {
		d++
	}
	return d
}

func (f *vqForest) nroots() int {
	n := 0
	for _, g := range f.known {
		if g.parentGroup == nil {
			n++
		}
	}
	return n
}

func vqPick(rnd *rand.Rand, vals []int) int { return vals[rnd.Intn(len(vals))] }

func vqRandReq(rnd *rand.Rand, d vqDom, create bool) vqReq {
	q := vqReq{Mem: vqOmit, Thr: vqOmit, Cnt: vqOmit, Pct: vqOmit, Cpus: []int{}}
	p := 35
	if rnd.Intn(100) < p {
		q.Mem = vqPick(rnd, d.mem)
	}
	if rnd.Intn(100) < p {
		q.Thr = vqPick(rnd, d.thr)
	}
	if rnd.Intn(100) < p+10 {
		q.Cnt, q.Pct = vqPick(rnd, d.cnt), vqPick(rnd, d.pct)
	}
	if rnd.Intn(100) < p+5 {
		q.HasSet = true
		for c := 0; c < d.cores; c++ {
			if rnd.Intn(2) == 0 {
				q.Cpus = append(q.Cpus, c)
			}
		}
	}
	if create && rnd.Intn(2) == 0 {
		q.Other = true
	}
	return q
}

func (f *vqForest) createTargets(d vqDom) []int {
	t := []int{}
	if len(f.known) >= d.maxGroups {
		return t
	}
	if f.nroots() < d.maxRoots {
		t = append(t, 0)
	}
	for id := range f.known {
		if f.depth(id+1) < d.maxDepth {
			t = append(t, id+1)
		}
	}
	return t
}

func vqRandOp(rnd *rand.Rand, f *vqForest, d vqDom) vqOp {
	ct := f.createTargets(d)
	if len(f.known) == 0 || (len(ct) > 0 && rnd.Intn(100) < 35) {
		return vqOp{Op: "new", G: ct[rnd.Intn(len(ct))], Path: "direct", Req: vqRandReq(rnd, d, true)}
	}
	path := "direct"
	if rnd.Intn(2) == 0 {
		path = "merged"
	}
	return vqOp{Op: "update", G: 1 + rnd.Intn(len(f.known)), Path: path, Req: vqRandReq(rnd, d, false)}
}

func vqAllReqs(d vqDom, create bool) []vqReq {
	var out []vqReq
	mems := append([]int{vqOmit}, d.mem...)
	thrs := append([]int{vqOmit}, d.thr...)
	type cp struct{ c, p int }
	cpus := []cp{{vqOmit, vqOmit}}
	for _, c := range d.cnt {
		for _, p := range d.pct {
			cpus = append(cpus, cp{c, p})
		}
	}
	type st struct {
		has bool
		s   []int
	}
	sets := []st{{false, []int{}}}
	for m := 0; m < 1<<uint(d.cores); m++ {
		s := []int{}
		for c := 0; c < d.cores; c++ {
			if m&(1<<uint(c)) != 0 {
				s = append(s, c)
			}
		}
		sets = append(sets, st{true, s})
	}
	others := []bool{false}
	if create {
		others = []bool{false, true}
	}
	for _, m := range mems {
		for _, th := range thrs {
			for _, c := range cpus {
				for _, s := range sets {
					for _, o := range others {
						out = append(out, vqReq{Mem: m, Thr: th, Cnt: c.c, Pct: c.p, HasSet: s.has, Cpus: s.s, Other: o})
					}
				}
			}
		}
	}
	return out
}

func vqInts(name string, def []int) []int {
	v := os.Getenv(name)
	if v == "" {
		return def
	}
	var out []int
	if err := json.Unmarshal([]byte(v), &out); err != nil {
		panic(fmt.Sprintf("bad %s=%q: %v", name, v, err))
	}
	return out
}

// rebuild replays accepted ops on fresh real objects; every op must be accepted again.
func (r *vqRun) rebuild(ops []vqOp) *vqForest {
	f := &vqForest{}
	save := *r
	for _, op := range ops {
		ev := r.apply(f, "", 0, op)
		if !ev.Ok {
			r.t.Fatalf("harness: rebuilding a base tree refused %+v: %s", op, ev.Err)
		}
	}
	// rebuilding is bookkeeping, not an observed execution
	r.nOps, r.nAcc, r.nBroken = save.nOps, save.nAcc, save.nBroken
	return f
}

func TestVerifQuota(t *testing.T) {
	out := os.Getenv("VERIF_OUT")
	if out == "" {
		t.Skip("VERIF_OUT not set")
	}
	ncpu := vqEnvInt("VERIF_NCPU", 3)
	restore := runtimeNumCPUMock(ncpu)
	defer restore()

	fh, err := os.Create(out)
	if err != nil {
		t.Fatal(err)
	}
	defer fh.Close()
	r := &vqRun{t: t, w: bufio.NewWriterSize(fh, 1<<20), ncpu: ncpu}
	defer r.w.Flush()

	d := vqDom{
		mem:       vqInts("VERIF_MEMVALS", []int{0, 1, 2, 3, 4}),
		thr:       vqInts("VERIF_THRVALS", []int{0, 1, 2, 3, 4}),
		cnt:       vqInts("VERIF_CNTVALS", []int{0, 1, 2}),
		pct:       vqInts("VERIF_PCTVALS", []int{0, 50, 100}),
		cores:     vqEnvInt("VERIF_CORES", 3),
		maxGroups: vqEnvInt("VERIF_MAXGROUPS", 4),
		maxDepth:  vqEnvInt("VERIF_MAXDEPTH", 3),
		maxRoots:  vqEnvInt("VERIF_MAXROOTS", 2),
	}
	seed := int64(vqEnvInt("VERIF_SEED", 1))
	n := vqEnvInt("VERIF_N", 100)
	length := vqEnvInt("VERIF_LEN", 12)
	mode := os.Getenv("VERIF_MODE")
	nTraces := 0

	switch mode {
	case "", "random":
		rnd := rand.New(rand.NewSource(seed))
		for k := 0; k < n; k++ {
			cs := fmt.Sprintf("r%d.%d", seed, k)
			r.reset(cs, d)
			f := &vqForest{}
			nTraces++
			for i := 0; i < length; i++ {
				ev := r.apply(f, cs, i, vqRandOp(rnd, f, d))
				r.emit(ev)
				if !ev.Fits {
					break // the spec claims nothing after the first Fits-breaking step
				}
			}
		}
	case "enum":
		// exhaustive one-step request domain from random reachable base trees
		rnd := rand.New(rand.NewSource(seed))
		budget := vqEnvInt("VERIF_ENUM_BUDGET", 5000) // max number of emitted events
		emitted := 0
		for k := 0; k < n && emitted < budget; k++ {
			cs := fmt.Sprintf("e%d.%d", seed, k)
			// base: random accepted ops (no events), keep only Fits-preserving ones
			var base []vqOp
			f := &vqForest{}
			save := *r
			for i := 0; i < length; i++ {
				op := vqRandOp(rnd, f, d)
				ev := r.apply(f, cs, i, op)
				if ev.Ok && ev.Fits {
					base = append(base, op)
				} else if ev.Ok {
					f = r.rebuild(base)
				}
			}
			r.nOps, r.nAcc, r.nBroken = save.nOps, save.nAcc, save.nBroken
			// replay the base with events so that the trace spec reaches the same state
			r.reset(cs, d)
			f = &vqForest{}
			for i, op := range base {
				r.emit(r.apply(f, cs, i, op))
				emitted++
			}
			r.emit(vqEvent{Ev: "Mark", Case: cs, St: f.project()})
			nTraces++
			i := len(base)
			try := func(op vqOp) {
				if emitted >= budget {
					return
				}
				ev := r.apply(f, cs, i, op)
				i++
				r.emit(ev)
				emitted++
				if ev.Ok || !ev.Unch {
					f = r.rebuild(base)
					r.emit(vqEvent{Ev: "Restore", Case: cs, St: f.project()})
				}
			}
			for _, tgt := range f.createTargets(d) {
				for _, q := range vqAllReqs(d, true) {
					try(vqOp{Op: "new", G: tgt, Path: "direct", Req: q})
				}
			}
			for id := 1; id <= len(f.known); id++ {
				for _, path := range []string{"direct", "merged"} {
					for _, q := range vqAllReqs(d, false) {
						try(vqOp{Op: "update", G: id, Path: path, Req: q})
					}
				}
			}
		}
	case "directed":
		// Directed family: every depth-3 shape  P(limit LP) > [unlimited] > G(limit M) > [unlimited] > leaf(limit C)
		// plus a sibling S of G that leaves P nearly (or exactly) full, for memory, threads and CPU; then limit raises
		// of the MID-LEVEL group G (both update paths) over every value from M to LP+1 -- i.e. across the
		// boundaries room-1, room, room+1, room+C, room+C+1 of P's remaining room -- and raises of the leaf across
		// G's limit.  This is the history that exercises "subtract the group's own reservation
		// max(limit, reservedByChildren)" for a group that has BOTH an own limit and reserving sub-groups.
		lps := vqInts("VERIF_DIR_LPS", []int{5})
		allS := vqEnvInt("VERIF_DIR_ALLS", 0) != 0
		lim := func(res string, v int, other bool) vqReq {
			q := vqReq{Mem: vqOmit, Thr: vqOmit, Cnt: vqOmit, Pct: vqOmit, Cpus: []int{}, Other: other}
			switch res {
			case "mem":
				q.Mem = v
			case "thr":
				q.Thr = v
			case "cpu":
				q.Cnt, q.Pct = 1, 10*v
			}
			return q
		}
		unlimited := vqReq{Mem: vqOmit, Thr: vqOmit, Cnt: vqOmit, Pct: vqOmit, Cpus: []int{}, Other: true}
		for _, res := range []string{"mem", "thr", "cpu"} {
			for shape := 0; shape < 4; shape++ {
				for _, lp := range lps {
					for m := 1; m <= 3 && m < lp; m++ {
						for c := 1; c <= m; c++ {
							for sib := 0; sib <= lp-m; sib++ {
								if !allS && sib < lp-m-1 {
									continue
								}
								cs := fmt.Sprintf("d.%s.s%d.P%d.G%d.L%d.S%d", res, shape, lp, m, c, sib)
								var base []vqOp
								add := func(parent int, q vqReq) int {
									base = append(base, vqOp{Op: "new", G: parent, Path: "direct", Req: q})
									return len(base)
								}
								pID := add(0, lim(res, lp, false))
								above := pID
								if shape&1 != 0 {
									above = add(pID, unlimited)
								}
								gID := add(above, lim(res, m, false))
								below := gID
								if shape&2 != 0 {
									below = add(gID, unlimited)
								}
								leafID := add(below, lim(res, c, false))
								if sib > 0 {
									add(pID, lim(res, sib, false))
								}
								r.reset(cs, d)
								f := &vqForest{}
								nTraces++
								okBase := true
								for i, op := range base {
									ev := r.apply(f, cs, i, op)
									r.emit(ev)
									if !ev.Ok || !ev.Fits {
										okBase = false // reported through the event itself / the trace validation
										break
									}
								}
								if !okBase {
									continue
								}
								r.emit(vqEvent{Ev: "Mark", Case: cs, St: f.project()})
								i := len(base)
								try := func(op vqOp) {
									ev := r.apply(f, cs, i, op)
									i++
									r.emit(ev)
									if ev.Ok || !ev.Unch {
										f = r.rebuild(base)
										r.emit(vqEvent{Ev: "Restore", Case: cs, St: f.project()})
									}
								}
								for _, path := range []string{"direct", "merged"} {
									for v := m; v <= lp+1; v++ {
										try(vqOp{Op: "update", G: gID, Path: path, Req: lim(res, v, false)})
									}
								}
								for v := c; v <= m+1; v++ {
									try(vqOp{Op: "update", G: leafID, Path: "merged", Req: lim(res, v, false)})
								}
							}
						}
					}
				}
			}
		}
	case "replay":
		in, err := os.Open(os.Getenv("VERIF_OPS"))
		if err != nil {
			t.Fatal(err)
		}
		defer in.Close()
		sc := bufio.NewScanner(in)
		sc.Buffer(make([]byte, 1<<20), 1<<26)
		for sc.Scan() {
			var c struct {
				Case string `json:"case"`
				Ops  []vqOp `json:"ops"`
			}
			if err := json.Unmarshal(sc.Bytes(), &c); err != nil {
				t.Fatalf("bad ops line: %v", err)
			}
			r.reset(c.Case, d)
			f := &vqForest{}
			nTraces++
			for i, op := range c.Ops {
				if op.Op == "update" && (op.G < 1 || op.G > len(f.known)) || op.Op == "new" && op.G > len(f.known) {
					// a previous request of the behaviour was refused by the real code: the rest cannot be replayed
					r.emit(vqEvent{Ev: "Abort", Case: c.Case, I: i, St: f.project()})
					break
				}
				ev := r.apply(f, c.Case, i, op)
				r.emit(ev)
				if !ev.Fits {
					break
				}
			}
		}
	default:
		t.Fatalf("bad VERIF_MODE %q", mode)
	}
	fmt.Printf("VERIF-QUOTA traces=%d ops=%d accepted=%d broken=%d\n", nTraces, r.nOps, r.nAcc, r.nBroken)
}

func runtimeNumCPUMock(n int) func() {
	old := runtimeNumCPU
	runtimeNumCPU = func() int { return n }
	return func() { runtimeNumCPU = old }
}
