// C30, state level: registrystate.SetViaView / GetViaView on a real state.State with TWO signed registry
// assertions ("rega", "regb") of one account, both carrying the same view and storage schema.
//
// Every call is logged as the sequence of RegistryView steps it is made of, on transaction slot 1:
//
//	SetViaView(reg, {req: val})  = Begin ; Set|Unset ; [Commit] ; End
//	GetViaView(reg, [req])       = Begin ; Get ; End
//
// Only rega is followed by the trace spec ("st.stored" = rega's stored databag read back from the state's
// "registry-databags"); calls on regb are logged as "Other" steps (rega's stored databag must not move).
// Every line also carries the raw stored bytes of both registries ("bags"), compared directly by the check.
package registrystate_test

import (
	"bufio"
	"encoding/json"
	"errors"
	"fmt"
	"math/rand"
	"os"
	"sort"
	"strconv"
	"strings"
	"testing"

	"github.com/snapcore/snapd/asserts"
	"github.com/snapcore/snapd/asserts/assertstest"
	"github.com/snapcore/snapd/overlord"
	"github.com/snapcore/snapd/overlord/assertstate"
	"github.com/snapcore/snapd/overlord/assertstate/assertstatetest"
	"github.com/snapcore/snapd/overlord/registrystate"
	"github.com/snapcore/snapd/overlord/state"
	"github.com/snapcore/snapd/registry"
)

type vTval = map[string]interface{}

func vLeaf(s string) vTval { return vTval{"t": "l", "v": s} }

func vTag(v interface{}) vTval {
	switch x := v.(type) {
	case nil:
		return vLeaf("null")
	case json.Number:
		return vLeaf(x.String())
	case float64:
		return vLeaf(strconv.FormatFloat(x, 'f', -1, 64))
	case int:
		return vLeaf(strconv.Itoa(x))
	case string:
		return vLeaf(x)
	case map[string]interface{}:
		keys := make([]string, 0, len(x))
		for k := range x {
			keys = append(keys, k)
		}
		sort.Strings(keys)
		m := make([]interface{}, 0, len(keys))
		for _, k := range keys {
			m = append(m, map[string]interface{}{"k": k, "v": vTag(x[k])})
		}
		return vTval{"t": "m", "m": m}
	}
	return vLeaf(fmt.Sprintf("?%T:%v", v, v))
}

type vRule struct {
	Req     []string `json:"req"`
	Stor    []string `json:"stor"`
	Acc     string   `json:"acc"`
	Content []vRule  `json:"content"`
}

func (r vRule) header() map[string]interface{} {
	m := map[string]interface{}{
		"request": strings.Join(r.Req, "."),
		"storage": strings.Join(r.Stor, "."),
		"access":  r.Acc,
	}
	if len(r.Content) > 0 {
		var c []interface{}
		for _, n := range r.Content {
			c = append(c, n.header())
		}
		m["content"] = c
	}
	return m
}

var vAccs = []string{"read-write", "read", "write"}

func vShape(r *rand.Rand) vRule {
	a := vAccs[r.Intn(3)]
	none := []vRule{}
	switch r.Intn(13) {
	case 10, 11:
		return vRule{[]string{"{k}", "z"}, []string{"v", "{k}", "z"}, a, none}
	case 12:
		return vRule{[]string{"e", "x", "{k}"}, []string{"w", "x", "{k}"}, a, none}
	case 0:
		return vRule{[]string{"a"}, []string{"n"}, a, none}
	case 1:
		return vRule{[]string{"b"}, []string{"s"}, a, none}
	case 2:
		return vRule{[]string{"c", "{k}"}, []string{"m", "{k}"}, a, none}
	case 3:
		return vRule{[]string{"c"}, []string{"m"}, a, none}
	case 4:
		return vRule{[]string{"d"}, []string{"o"}, a, []vRule{{[]string{"p"}, []string{"p"}, vAccs[r.Intn(3)], none}}}
	case 5:
		return vRule{[]string{"d", "q"}, []string{"o", "q"}, a, none}
	case 6:
		return vRule{[]string{"e"}, []string{"w"}, a, none}
	case 7:
		return vRule{[]string{"e", "{k}"}, []string{"w", "{k}"}, a, none}
	case 8:
		return vRule{[]string{"f"}, []string{"n"}, a, none}
	default:
		return vRule{[]string{"h"}, []string{"o", "p"}, a, none}
	}
}

func vFlatReqs(prefix []string, defs []vRule) [][]string {
	var out [][]string
	for _, d := range defs {
		req := append(append([]string{}, prefix...), d.Req...)
		out = append(out, req)
		out = append(out, vFlatReqs(req, d.Content)...)
	}
	return out
}

var vSub = []string{"x", "y", "p", "q", "z"}
var vTop = []string{"a", "b", "c", "d", "e", "f", "h", "z"}

func vReq(r *rand.Rand, reqs [][]string) []string {
	if r.Intn(100) < 80 && len(reqs) > 0 {
		pat := reqs[r.Intn(len(reqs))]
		n := len(pat)
		if n > 1 && r.Intn(3) == 0 {
			n--
		}
		req := make([]string, n)
		for i := 0; i < n; i++ {
			if strings.HasPrefix(pat[i], "{") {
				req[i] = vSub[r.Intn(len(vSub))]
			} else {
				req[i] = pat[i]
			}
		}
		return req
	}
	if r.Intn(2) == 0 {
		return []string{vTop[r.Intn(len(vTop))], vSub[r.Intn(len(vSub))]}
	}
	return []string{vTop[r.Intn(len(vTop))]}
}

func vVal(r *rand.Rand, depth int) interface{} {
	if depth == 0 || r.Intn(100) < 50 {
		switch r.Intn(4) {
		case 0:
			return 1
		case 1:
			return 2
		case 2:
			return "s"
		default:
			return "t"
		}
	}
	m := map[string]interface{}{}
	n := r.Intn(3)
	if n == 0 && depth < 2 {
		// no nested empty maps here: a regression of the checkForUnusedBranches endless loop (fixed in
		// c238b8d, probed by the registryview driver under a watchdog) would make SetViaView hang holding the
		// state lock and turn a reportable violation into a dead driver
		n = 1
	}
	for i := 0; i < n; i++ {
		m[vSub[r.Intn(len(vSub))]] = vVal(r, depth-1)
	}
	return m
}

func vClassify(err error) string {
	switch {
	case err == nil:
		return "ok"
	case errors.Is(err, &registry.NotFoundError{}):
		return "notfound"
	case errors.Is(err, &registry.BadRequestError{}):
		return "badrequest"
	}
	var verr *registry.ValidationError
	if errors.As(err, &verr) {
		return "invalid"
	}
	return "error"
}

const vSchema = `{"schema": {"n": "int", "s": "string", "m": {"values": "int"}, "o": {"schema": {"p": "int", "q": "string"}}, "w": "any", "v": "any"}}`

type vEnv struct {
	storeSigning *assertstest.StoreStack
	signingDB    *assertstest.SigningDB
	devAcc       asserts.Assertion
	devAccKey    *asserts.AccountKey
}

func vNewEnv(t *testing.T) *vEnv {
	storeSigning := assertstest.NewStoreStack("can0nical", nil)
	devAcc := assertstest.NewAccount(storeSigning, "developer1", nil, "")
	devPrivKey, _ := assertstest.GenerateKey(752)
	devAccKey := assertstest.NewAccountKey(storeSigning, devAcc, nil, devPrivKey.PublicKey(), "")
	signingDB := assertstest.NewSigningDB("developer1", devPrivKey)
	return &vEnv{storeSigning, signingDB, devAcc, devAccKey}
}

// newState builds a fresh state whose assertion database knows registries rega and regb with the given view.
func (e *vEnv) newState(t *testing.T, defs []vRule) (*state.State, string, error) {
	st := overlord.Mock().State()
	st.Lock()
	defer st.Unlock()
	db, err := asserts.OpenDatabase(&asserts.DatabaseConfig{
		Backstore: asserts.NewMemoryBackstore(),
		Trusted:   e.storeSigning.Trusted,
	})
	if err != nil {
		t.Fatal(err)
	}
	if err := db.Add(e.storeSigning.StoreAccountKey("")); err != nil {
		t.Fatal(err)
	}
	assertstate.ReplaceDB(st, db)
	assertstatetest.AddMany(st, e.storeSigning.StoreAccountKey(""), e.devAcc, e.devAccKey)

	var rules []interface{}
	for _, d := range defs {
		rules = append(rules, d.header())
	}
	var schema interface{}
	if err := json.Unmarshal([]byte(vSchema), &schema); err != nil {
		t.Fatal(err)
	}
	body, err := json.MarshalIndent(map[string]interface{}{"storage": schema}, "", "  ")
	if err != nil {
		t.Fatal(err)
	}
	for _, name := range []string{"rega", "regb"} {
		headers := map[string]interface{}{
			"authority-id": e.devAccKey.AccountID(),
			"account-id":   e.devAccKey.AccountID(),
			"name":         name,
			"views":        map[string]interface{}{"v": map[string]interface{}{"rules": rules}},
			"timestamp":    "2030-11-06T09:16:26Z",
		}
		as, err := e.signingDB.Sign(asserts.RegistryType, headers, body, "")
		if err != nil {
			return nil, "", err // the view is not acceptable to registry.New
		}
		if err := assertstate.Add(st, as); err != nil {
			return nil, "", err
		}
	}
	return st, e.devAccKey.AccountID(), nil
}

// bags reads the stored databags of both registries back from the state (raw bytes, "" when absent).
func vBags(st *state.State, acc string) (map[string]string, vTval) {
	out := map[string]string{"rega": "", "regb": ""}
	var databags map[string]map[string]json.RawMessage
	decoded := vTag(map[string]interface{}{})
	if err := st.Get("registry-databags", &databags); err == nil {
		for _, name := range []string{"rega", "regb"} {
			if raw, ok := databags[acc][name]; ok {
				out[name] = string(raw)
			}
		}
	}
	if out["rega"] != "" {
		var dec interface{}
		if err := json.Unmarshal([]byte(out["rega"]), &dec); err != nil {
			panic(err)
		}
		decoded = vTag(dec)
	}
	return out, decoded
}

func TestVerifRegistryState(t *testing.T) {
	out := os.Getenv("VERIF_OUT")
	if out == "" {
		t.Skip("VERIF_OUT not set")
	}
	f, err := os.Create(out)
	if err != nil {
		t.Fatal(err)
	}
	defer f.Close()
	bw := bufio.NewWriterSize(f, 1<<20)
	defer bw.Flush()
	enc := json.NewEncoder(bw)
	atoi := func(name string, def int) int {
		if n, err := strconv.Atoi(os.Getenv(name)); err == nil {
			return n
		}
		return def
	}
	seed := int64(atoi("VERIF_SEED", 1))
	ntr := atoi("VERIF_N", 40)
	length := atoi("VERIF_LEN", 10)
	r := rand.New(rand.NewSource(seed*15485863 + 11))
	env := vNewEnv(t)
	ncalls := 0

	for c := 1; c <= ntr; c++ {
		var st *state.State
		var acc string
		var defs []vRule
		for st == nil {
			defs = nil
			n := 1 + r.Intn(3)
			for i := 0; i < n; i++ {
				defs = append(defs, vShape(r))
			}
			s, a, err := env.newState(t, defs)
			if err != nil {
				continue
			}
			st, acc = s, a
		}
		reqs := vFlatReqs(nil, defs)
		st.Lock()
		bags, dec := vBags(st, acc)
		emit := func(ev map[string]interface{}, stored vTval, bags map[string]string, same bool) {
			ev["case"] = c
			ev["touched"] = []interface{}{}
			ev["notouch"] = true
			ev["notx"] = true
			ev["bytes_same"] = same
			ev["bags"] = bags
			ev["st"] = map[string]interface{}{"stored": stored, "raw": bags["rega"], "txbag": []interface{}{}}
			if err := enc.Encode(ev); err != nil {
				t.Fatal(err)
			}
		}
		emit(map[string]interface{}{"ev": "Reset", "view": defs, "res": map[string]interface{}{"k": "ok"}}, dec, bags, true)

		for i := 0; i < length; i++ {
			reg := "rega"
			if r.Intn(100) < 30 {
				reg = "regb"
			}
			req := vReq(r, reqs)
			reqS := strings.Join(req, ".")
			preBags, preDec := vBags(st, acc)
			var steps []map[string]interface{}
			var call, callres string
			switch x := r.Intn(100); {
			case x < 55: // set
				val := vVal(r, 2)
				call = fmt.Sprintf("SetViaView(%s,%s=%v)", reg, reqS, val)
				err := registrystate.SetViaView(st, acc, reg, "v", map[string]interface{}{reqS: val})
				callres = vClassify(err)
				steps = append(steps, map[string]interface{}{"ev": "Begin", "t": 1})
				set := map[string]interface{}{"ev": "Set", "t": 1, "req": req, "val": vTag(val)}
				if callres == "notfound" || callres == "badrequest" {
					set["res"] = map[string]interface{}{"k": callres}
					steps = append(steps, set)
				} else {
					set["res"] = map[string]interface{}{"k": "ok"}
					steps = append(steps, set, map[string]interface{}{"ev": "Commit", "t": 1, "res": map[string]interface{}{"k": callres}})
				}
			case x < 70: // unset
				call = fmt.Sprintf("SetViaView(%s,%s=nil)", reg, reqS)
				err := registrystate.SetViaView(st, acc, reg, "v", map[string]interface{}{reqS: nil})
				callres = vClassify(err)
				steps = append(steps, map[string]interface{}{"ev": "Begin", "t": 1})
				un := map[string]interface{}{"ev": "Unset", "t": 1, "req": req}
				if callres == "notfound" || callres == "badrequest" {
					un["res"] = map[string]interface{}{"k": callres}
					steps = append(steps, un)
				} else {
					un["res"] = map[string]interface{}{"k": "ok"}
					steps = append(steps, un, map[string]interface{}{"ev": "Commit", "t": 1, "res": map[string]interface{}{"k": callres}})
				}
			default: // get
				call = fmt.Sprintf("GetViaView(%s,%s)", reg, reqS)
				res, err := registrystate.GetViaView(st, acc, reg, "v", []string{reqS})
				callres = vClassify(err)
				get := map[string]interface{}{"ev": "Get", "t": 1, "req": req}
				if err == nil {
					m, ok := res.(map[string]interface{})
					if !ok || len(m) != 1 {
						t.Fatalf("GetViaView returned %T %v for one field", res, res)
					}
					callres = "val"
					get["res"] = map[string]interface{}{"k": "val", "v": vTag(m[reqS])}
				} else {
					get["res"] = map[string]interface{}{"k": callres}
				}
				steps = append(steps, map[string]interface{}{"ev": "Begin", "t": 1}, get)
			}
			steps = append(steps, map[string]interface{}{"ev": "End", "t": 1})
			ncalls++
			postBags, postDec := vBags(st, acc)
			// no stored databag yet and an empty stored databag are the same abstract data
			sameA := preBags["rega"] == postBags["rega"] ||
				(preBags["rega"] == "" && postBags["rega"] == "{}") || (preBags["rega"] == "{}" && postBags["rega"] == "")
			if reg == "regb" {
				// not followed by the trace spec: one step during which rega's stored data must not move
				emit(map[string]interface{}{"ev": "Other", "what": call, "call": call, "callres": callres, "reg": reg,
					"last_of_call": true}, postDec, postBags, sameA)
				continue
			}
			for j, s := range steps {
				s["call"], s["callres"], s["reg"] = call, callres, reg
				last := j == len(steps)-1
				s["last_of_call"] = last
				if j < len(steps)-2 {
					emit(s, preDec, preBags, true)
				} else if j == len(steps)-2 {
					// the step that decides the call: the stored data after the call is its effect
					emit(s, postDec, postBags, sameA)
				} else {
					emit(s, postDec, postBags, true)
				}
			}
		}
		st.Unlock()
	}
	fmt.Printf("VERIF-STATS calls=%d traces=%d mode=state\n", ncalls, ntr)
}
