// C28 driver (MountPlan.tla / TraceMountPlan.tla). Compiled INTO cmd/snap-update-ns (package main) with
// `go test -overlay`; nothing is written under /repo.
//
// For histories of desired mount profiles (enumerated, seeded random, or replayed from a JSON file produced
// from TLC behaviours) it runs the REAL executeMountProfileUpdate -> REAL neededChanges for every update,
// chaining the current profile through the REAL SaveMountProfileText / LoadMountProfileText, and writes one
// NDJSON record per update: (current, desired, plan, per-change outcome and synthesised entries, result).
//
// Only Change.Perform is simulated (no mount(2) here): the simulated namespace is an immutable, read-only
// base tree of real directories/files/symlinks under a per-run temp root plus the list of live mounts. A
// mount whose target is missing below a read-only directory calls the REAL createWritableMimic (which
// lstat()s/readdir()s the real base tree), so synthetic entries are produced by production code.
package main

import (
	"bufio"
	"encoding/json"
	"errors"
	"fmt"
	"math/rand"
	"os"
	"path/filepath"
	"sort"
	"strconv"
	"strings"
	"testing"

	"github.com/snapcore/snapd/osutil"
)

// ---------------------------------------------------------------- abstract history description

type vSpecEntry struct {
	P      string `json:"p"`      // path relative to the root, e.g. "a/n"
	Typ    string `json:"typ"`    // bind rbind tmpfs symlink file ensure-dir
	Origin string `json:"origin"` // "" layout overname content
	V      int    `json:"v"`      // variant (source / mode / link target)
	ID     string `json:"id,omitempty"`
}

type vCase struct {
	Case    string         `json:"case"`
	Rootfs  bool           `json:"rootfs"`
	Updates [][]vSpecEntry `json:"updates"`
}

// ---------------------------------------------------------------- projected entries (trace format)

type vEnt struct {
	N  string   `json:"n"`
	D  string   `json:"d"`
	P  []string `json:"p"`
	T  string   `json:"t"`
	O  []string `json:"o"`
	K  string   `json:"k"`
	G  string   `json:"g"`
	S  bool     `json:"s"`
	NB string   `json:"nb"`
	ID string   `json:"id"`
	C  string   `json:"c"` // "n d t options" without x-snapd.detach: identity up to the detach marker
}

type vChange struct {
	Act   string `json:"act"`
	E     vEnt   `json:"e"`
	Ok    bool   `json:"ok"`
	Synth []vEnt `json:"synth"`
}

type vLine struct {
	Ev      string    `json:"ev"`
	Case    string    `json:"case"`
	Step    int       `json:"step"`
	Cur     []vEnt    `json:"cur"`
	Des     []vEnt    `json:"des"`
	Plan    []vChange `json:"plan"`
	Res     []vEnt    `json:"res"`
	Aborted bool      `json:"aborted"`
	RT      bool      `json:"rt"` // saved profile == re-loaded profile (modulo empty-field canonical form)
	Hist    string    `json:"hist"`
}

// ---------------------------------------------------------------- simulated namespace

type vWorld struct {
	root    string
	live    []osutil.MountEntry // live mounts in true mount order
	persist map[string]bool     // directories created by ensure-dir (never removed)
	depth   int                 // nesting of Perform calls (mimic construction calls Perform recursively)
	// per top-level change records of the update in progress
	rec []vChange
	// anomalies of the simulation itself (not property violations)
	unmountMissing int
}

var errVerifROFS = errors.New("verif: read-only file system")

func (w *vWorld) norm(s string) string {
	s = strings.ReplaceAll(s, w.root+"/", "/")
	s = strings.ReplaceAll(s, w.root, "/")
	return s
}

func (w *vWorld) project(e osutil.MountEntry) vEnt {
	v := vEnt{N: w.norm(e.Name), D: w.norm(e.Dir), T: e.Type, K: e.XSnapdKind(), G: e.XSnapdOrigin(),
		S: e.XSnapdSynthetic(), NB: w.norm(e.XSnapdNeededBy()), ID: w.norm(e.XSnapdEntryID())}
	// canonical form of empty fields as written to / read from a profile
	if v.N == "" {
		v.N = "none"
	}
	if v.T == "" {
		v.T = "none"
	}
	v.O = []string{}
	for _, o := range e.Options {
		v.O = append(v.O, w.norm(o))
	}
	if len(v.O) == 0 {
		v.O = []string{"defaults"}
	}
	var core []string
	for _, o := range v.O {
		if o != "x-snapd.detach" {
			core = append(core, o)
		}
	}
	v.C = v.N + " " + v.D + " " + v.T + " " + strings.Join(core, ",")
	v.P = []string{}
	for _, c := range strings.Split(strings.Trim(v.D, "/"), "/") {
		if c != "" {
			v.P = append(v.P, c)
		}
	}
	return v
}

func (w *vWorld) projectAll(es []osutil.MountEntry) []vEnt {
	out := []vEnt{}
	for _, e := range es {
		out = append(out, w.project(e))
	}
	return out
}

func vIsInternal(dir string) bool { return strings.HasPrefix(dir, "/tmp/.snap/") }

// kind of object a live mount leaves at its mount point
func vNature(e *osutil.MountEntry) string {
	switch e.XSnapdKind() {
	case "file":
		return "file"
	case "symlink":
		return "symlink"
	}
	return "dir"
}

// what exists at p in the simulated view: "", "dir", "file", "symlink"
func (w *vWorld) natureAt(p string) string {
	if fi, err := os.Lstat(p); err == nil {
		switch {
		case fi.IsDir():
			return "dir"
		case fi.Mode()&os.ModeSymlink != 0:
			return "symlink"
		default:
			return "file"
		}
	}
	if w.persist[p] {
		return "dir"
	}
	for i := range w.live {
		m := &w.live[i]
		if strings.HasPrefix(m.Dir, p+"/") {
			return "dir"
		}
		if m.Dir == p {
			return vNature(m)
		}
	}
	return ""
}

func (w *vWorld) isDir(p string) bool { return w.natureAt(p) == "dir" }

func (w *vWorld) inBase(p string) bool {
	_, err := os.Lstat(p)
	return err == nil
}

// writable: a tmpfs is mounted exactly there, or the directory is not part of the read-only base (so it was
// created inside something writable), or it lies in the writable base area root/h.
func (w *vWorld) writable(d string) bool {
	h := filepath.Join(w.root, "h")
	if d == h || strings.HasPrefix(d, h+"/") {
		return true
	}
	for i := range w.live {
		if w.live[i].Dir == d && w.live[i].Type == "tmpfs" {
			return true
		}
	}
	return !w.inBase(d)
}

func vCoreEqual(a, b *osutil.MountEntry) bool {
	can := func(s string) string {
		if s == "" {
			return "none"
		}
		return s
	}
	strip := func(o []string) []string {
		var out []string
		for _, x := range o {
			if x != "x-snapd.detach" {
				out = append(out, x)
			}
		}
		return out
	}
	if a.Dir != b.Dir || can(a.Type) != can(b.Type) || can(a.Name) != can(b.Name) {
		return false
	}
	ao, bo := strip(a.Options), strip(b.Options)
	if len(ao) != len(bo) {
		return false
	}
	for i := range ao {
		if ao[i] != bo[i] {
			return false
		}
	}
	return true
}

// perform replaces changePerform. Top-level calls (depth 0) come from executeMountProfileUpdate in plan order.
func (w *vWorld) perform(c *Change, as *Assumptions) ([]*Change, error) {
	top := w.depth == 0
	w.depth++
	synth, err := w.perform1(c, as)
	w.depth--
	if top {
		vc := vChange{Act: string(c.Action), E: w.project(c.Entry), Ok: err == nil, Synth: []vEnt{}}
		for _, s := range synth {
			vc.Synth = append(vc.Synth, w.project(s.Entry))
		}
		w.rec = append(w.rec, vc)
	}
	return synth, err
}

func (w *vWorld) perform1(c *Change, as *Assumptions) ([]*Change, error) {
	e := c.Entry
	switch c.Action {
	case Keep:
		return nil, nil
	case Unmount:
		if vIsInternal(e.Dir) {
			return nil, nil
		}
		if e.XSnapdKind() == "ensure-dir" {
			return nil, nil
		}
		for i := len(w.live) - 1; i >= 0; i-- {
			if vCoreEqual(&w.live[i], &e) {
				w.live = append(w.live[:i:i], w.live[i+1:]...)
				return nil, nil
			}
		}
		// like the real code (EINVAL from umount of something not mounted is consumed)
		w.unmountMissing++
		return nil, nil
	case Mount:
		if vIsInternal(e.Dir) {
			return nil, nil
		}
		kind := e.XSnapdKind()
		want := "dir"
		if kind == "file" || kind == "symlink" {
			want = kind
		}
		var synth []*Change
		have := w.natureAt(e.Dir)
		if have == "" {
			// first existing ancestor
			a := filepath.Dir(e.Dir)
			for !w.isDir(a) {
				if w.natureAt(a) != "" {
					return nil, fmt.Errorf("verif: %q is in the way", a)
				}
				a = filepath.Dir(a)
			}
			if !w.writable(a) {
				if kind == "ensure-dir" || e.XSnapdIgnoreMissing() {
					return nil, errVerifROFS
				}
				var err error
				synth, err = createWritableMimic(a, e.XSnapdEntryID(), as) // REAL
				if err != nil {
					return synth, err
				}
			}
		} else if have != want {
			return nil, fmt.Errorf("verif: cannot use %q as mount point: is a %s, want %s", e.Dir, have, want)
		}
		if kind == "ensure-dir" {
			for p := e.Dir; !w.inBase(p) && p != "/" && p != "."; p = filepath.Dir(p) {
				w.persist[p] = true
			}
			return synth, nil
		}
		le := e
		le.Options = append([]string(nil), e.Options...)
		if vIsInternal(le.Name) {
			le.Name = le.Dir // the shape recorded by execWritableMimic's undo plan
		}
		w.live = append(w.live, le)
		return synth, nil
	}
	return nil, fmt.Errorf("verif: unknown action %q", c.Action)
}

// ---------------------------------------------------------------- update context (real executeMountProfileUpdate)

type vUpCtx struct {
	curText, desText string
	saved            *osutil.MountProfile
	savedCalled      bool
}

func (u *vUpCtx) Lock() (func(), error)     { return func() {}, nil }
func (u *vUpCtx) Assumptions() *Assumptions { return &Assumptions{} }
func (u *vUpCtx) LoadDesiredProfile() (*osutil.MountProfile, error) {
	return osutil.LoadMountProfileText(u.desText)
}
func (u *vUpCtx) LoadCurrentProfile() (*osutil.MountProfile, error) {
	return osutil.LoadMountProfileText(u.curText)
}
func (u *vUpCtx) SaveCurrentProfile(p *osutil.MountProfile) error {
	text, err := osutil.SaveMountProfileText(p)
	if err != nil {
		return err
	}
	cp := &osutil.MountProfile{}
	for _, e := range p.Entries {
		e.Options = append([]string(nil), e.Options...)
		cp.Entries = append(cp.Entries, e)
	}
	u.saved = cp
	u.savedCalled = true
	u.curText = text
	return nil
}

// ---------------------------------------------------------------- building concrete entries

func vBuildRoot(t *testing.T, root string) {
	must := func(err error) {
		if err != nil {
			t.Fatalf("verif: cannot build base tree: %v", err)
		}
	}
	for _, d := range []string{"a/b/c", "d", "h", "src/s1", "src/s2"} {
		must(os.MkdirAll(filepath.Join(root, d), 0755))
	}
	for _, f := range []string{"a/f", "src/f1", "src/f2"} {
		must(os.WriteFile(filepath.Join(root, f), nil, 0644))
	}
	must(os.Symlink("t1", filepath.Join(root, "a/l")))
}

func vEntryText(root string, s vSpecEntry) string {
	dir := filepath.Join(root, s.P)
	var name, typ string
	var opts []string
	v := strconv.Itoa(s.V)
	switch s.Typ {
	case "bind", "rbind":
		name, typ, opts = filepath.Join(root, "src", "s"+v), "none", []string{s.Typ, "rw"}
	case "tmpfs":
		name, typ, opts = "tmpfs", "tmpfs", []string{"mode=075" + v}
	case "file":
		name, typ, opts = filepath.Join(root, "src", "f"+v), "none", []string{"bind", "rw", "x-snapd.kind=file"}
	case "symlink":
		name, typ, opts = "none", "none", []string{"x-snapd.kind=symlink", "x-snapd.symlink=t" + v}
	case "ensure-dir":
		name, typ, opts = "none", "none", []string{"x-snapd.kind=ensure-dir", "x-snapd.must-exist-dir=" + filepath.Join(root, "h")}
		if s.V != 1 {
			opts = append(opts, "x-verif.v="+v)
		}
	default:
		panic("verif: bad typ " + s.Typ)
	}
	if s.Origin != "" {
		opts = append(opts, "x-snapd.origin="+s.Origin)
	}
	if s.ID != "" {
		opts = append(opts, "x-snapd.id="+s.ID)
	}
	e := osutil.MountEntry{Name: name, Dir: dir, Type: typ, Options: opts}
	return e.String()
}

func vHistString(c vCase) string {
	var ups []string
	for _, u := range c.Updates {
		var es []string
		for _, s := range u {
			x := s.P + ":" + s.Typ + ":" + s.Origin + ":" + strconv.Itoa(s.V)
			if s.ID != "" {
				x += ":" + s.ID
			}
			es = append(es, x)
		}
		ups = append(ups, "["+strings.Join(es, " ")+"]")
	}
	r := ""
	if c.Rootfs {
		r = "rootfs "
	}
	return r + strings.Join(ups, " ")
}

// ---------------------------------------------------------------- running one history on the real code

type vStats struct {
	cases, lines, aborted, synthLines, keepLines, unmountLines, mountFailed, unmountMissing int
}

func vRunCase(t *testing.T, root string, c vCase, out *bufio.Writer, st *vStats) {
	w := &vWorld{root: root, persist: map[string]bool{}}
	up := &vUpCtx{}
	if c.Rootfs {
		e := osutil.MountEntry{Name: "tmpfs", Dir: root, Type: "tmpfs", Options: []string{"x-snapd.origin=rootfs"}}
		up.curText = e.String() + "\n"
		w.live = append(w.live, e)
	}
	oldPerform, oldNeeded, oldIsDir := changePerform, NeededChanges, osutilIsDirectory
	defer func() { changePerform, NeededChanges, osutilIsDirectory = oldPerform, oldNeeded, oldIsDir }()
	changePerform = w.perform
	osutilIsDirectory = w.isDir
	var plan []*Change
	NeededChanges = func(cur, des *osutil.MountProfile) []*Change {
		plan = neededChanges(cur, des) // REAL planner
		return plan
	}
	hist := vHistString(c)
	st.cases++
	for i, u := range c.Updates {
		var sb strings.Builder
		for _, s := range u {
			sb.WriteString(vEntryText(root, s))
			sb.WriteString("\n")
		}
		up.desText = sb.String()
		curBefore, err := osutil.LoadMountProfileText(up.curText)
		if err != nil {
			t.Fatalf("verif: cannot re-load current profile %q: %v", up.curText, err)
		}
		des, err := osutil.LoadMountProfileText(up.desText)
		if err != nil {
			t.Fatalf("verif: cannot load desired profile %q: %v", up.desText, err)
		}
		w.rec, w.depth, plan = nil, 0, nil
		up.savedCalled = false
		uerr := executeMountProfileUpdate(up) // REAL
		line := vLine{Ev: "Update", Case: c.Case, Step: i + 1, Cur: w.projectAll(curBefore.Entries),
			Des: w.projectAll(des.Entries), Plan: []vChange{}, Res: []vEnt{}, Hist: hist, RT: true}
		line.Plan = append(line.Plan, w.rec...)
		// changes planned but never performed because the update was aborted
		for j := len(w.rec); j < len(plan); j++ {
			line.Plan = append(line.Plan, vChange{Act: string(plan[j].Action), E: w.project(plan[j].Entry), Ok: false, Synth: []vEnt{}})
		}
		if uerr != nil || !up.savedCalled {
			line.Aborted = true
			st.aborted++
		} else {
			re, err := osutil.LoadMountProfileText(up.curText)
			if err != nil {
				t.Fatalf("verif: cannot re-load saved profile %q: %v", up.curText, err)
			}
			line.Res = w.projectAll(re.Entries)
			sv := w.projectAll(up.saved.Entries)
			a, _ := json.Marshal(sv)
			b, _ := json.Marshal(line.Res)
			line.RT = string(a) == string(b)
		}
		for _, ch := range line.Plan {
			switch {
			case len(ch.Synth) > 0:
				st.synthLines++
			case ch.Act == "keep":
				st.keepLines++
			case ch.Act == "unmount":
				st.unmountLines++
			}
			if ch.Act == "mount" && !ch.Ok {
				st.mountFailed++
			}
		}
		js, err := json.Marshal(line)
		if err != nil {
			t.Fatal(err)
		}
		out.Write(js)
		out.WriteByte('\n')
		st.lines++
		if line.Aborted {
			break
		}
	}
	st.unmountMissing += w.unmountMissing
}

// ---------------------------------------------------------------- generators

// small pool used for the exhaustive part: all histories of 3 updates whose profiles are subsets of a pair
// (quick) / triple (thorough) of pool entries with distinct mount points
var vEnumPool = []vSpecEntry{
	{P: "a/n", Typ: "bind", Origin: "layout", V: 1},
	{P: "a/n", Typ: "bind", Origin: "layout", V: 2},
	{P: "a/b", Typ: "rbind", Origin: "layout", V: 1},
	{P: "a/n/m", Typ: "bind", Origin: "layout", V: 1},
	{P: "a", Typ: "tmpfs", Origin: "layout", V: 1},
	{P: "a/b/c", Typ: "bind", Origin: "", V: 1},
	{P: "a", Typ: "rbind", Origin: "overname", V: 1},
	{P: "a/g", Typ: "file", Origin: "layout", V: 1},
	{P: "a/k", Typ: "symlink", Origin: "layout", V: 1},
	{P: "d/n", Typ: "bind", Origin: "", V: 1},
	{P: "a/b", Typ: "bind", Origin: "", V: 1},
	{P: "h/x", Typ: "ensure-dir", Origin: "", V: 1},
	{P: "a/b/n", Typ: "bind", Origin: "overname", V: 1},
	{P: "h/x/y", Typ: "ensure-dir", Origin: "", V: 1},
	{P: "h/x", Typ: "bind", Origin: "", V: 1},
}

// hand-written histories that are always run (regression seeds for behaviours first seen in random runs)
var vExtraCases = []vCase{
	{Case: "x-1", Updates: [][]vSpecEntry{
		{{P: "a/b/n", Typ: "file", V: 1}, {P: "a/b", Typ: "rbind", V: 2}},
		{{P: "a/b", Typ: "tmpfs", Origin: "layout", V: 2}, {P: "a/b/n", Typ: "file", V: 1}}}},
	{Case: "x-2", Updates: [][]vSpecEntry{
		{{P: "a", Typ: "tmpfs", Origin: "layout", V: 1}, {P: "a/b", Typ: "rbind", Origin: "layout", V: 1}},
		{{P: "a", Typ: "tmpfs", Origin: "layout", V: 1}, {P: "a/b", Typ: "rbind", Origin: "layout", V: 1}},
		{}}},
	{Case: "x-3", Rootfs: true, Updates: [][]vSpecEntry{
		{{P: "e", Typ: "bind", Origin: "layout", V: 1}, {P: "a/n", Typ: "symlink", Origin: "layout", V: 1}},
		{{P: "e", Typ: "bind", Origin: "layout", V: 2}, {P: "a/n", Typ: "symlink", Origin: "layout", V: 1}},
		{{P: "a/n", Typ: "symlink", Origin: "layout", V: 1}}}},
}

func vDistinctDirs(es []vSpecEntry) bool {
	seen := map[string]bool{}
	for _, e := range es {
		if seen[e.P] {
			return false
		}
		seen[e.P] = true
	}
	return true
}

func vEnumerate(k, poolSize int, emit func(vCase)) {
	vEnumPool := vEnumPool
	// VERIF_ENUM_POOL_IDX=0,2,4: use only these pool entries (quick tier)
	if s := os.Getenv("VERIF_ENUM_POOL_IDX"); s != "" && poolSize == 0 {
		var sel []vSpecEntry
		for _, x := range strings.Split(s, ",") {
			if i, err := strconv.Atoi(x); err == nil && i >= 0 && i < len(vEnumPool) {
				sel = append(sel, vEnumPool[i])
			}
		}
		vEnumPool = sel
	}
	n := len(vEnumPool)
	if poolSize > 0 && poolSize < n {
		n = poolSize
	}
	var pools [][]int
	var rec func(start int, cur []int)
	rec = func(start int, cur []int) {
		if len(cur) == k {
			pools = append(pools, append([]int(nil), cur...))
			return
		}
		for i := start; i < n; i++ {
			rec(i+1, append(cur, i))
		}
	}
	rec(0, nil)
	seen := map[string]bool{}
	for _, pool := range pools {
		var es []vSpecEntry
		for _, i := range pool {
			es = append(es, vEnumPool[i])
		}
		if !vDistinctDirs(es) {
			continue
		}
		if os.Getenv("VERIF_ENUM_RELATED") == "1" {
			top := strings.SplitN(es[0].P, "/", 2)[0]
			same := true
			for _, e := range es {
				if strings.SplitN(e.P, "/", 2)[0] != top {
					same = false
				}
			}
			if !same {
				continue
			}
		}
		nsub := 1 << uint(k)
		sub := func(mask int) []vSpecEntry {
			out := []vSpecEntry{}
			for b := 0; b < k; b++ {
				if mask&(1<<uint(b)) != 0 {
					out = append(out, es[b])
				}
			}
			return out
		}
		for m1 := 1; m1 < nsub; m1++ { // a first update with an empty profile on an empty namespace is a no-op
			for m2 := 0; m2 < nsub; m2++ {
				for m3 := 0; m3 < nsub; m3++ {
					c := vCase{Updates: [][]vSpecEntry{sub(m1), sub(m2), sub(m3)}}
					h := vHistString(c)
					if seen[h] {
						continue
					}
					seen[h] = true
					c.Case = fmt.Sprintf("e%d-%d", k, len(seen))
					emit(c)
				}
			}
		}
	}
}

type vPathDef struct {
	p    string
	typs []string
}

var vUniverse = []vPathDef{
	{"a", []string{"bind", "rbind", "tmpfs"}},
	{"a/b", []string{"bind", "rbind", "tmpfs"}},
	{"a/b/c", []string{"bind", "rbind", "tmpfs"}},
	{"a/b/n", []string{"bind", "rbind", "tmpfs", "file", "symlink"}},
	{"a/n", []string{"bind", "rbind", "tmpfs", "file", "symlink"}},
	{"a/n/m", []string{"bind", "rbind", "tmpfs", "file", "symlink"}},
	{"a/f", []string{"file"}},
	{"a/g", []string{"file"}},
	{"a/k", []string{"symlink"}},
	{"a/l", []string{"symlink"}},
	{"d", []string{"bind", "rbind", "tmpfs"}},
	{"d/n", []string{"bind", "rbind", "tmpfs", "file", "symlink"}},
	{"d/n/m", []string{"bind", "tmpfs"}},
	{"e", []string{"bind", "tmpfs"}},
	{"h/x", []string{"ensure-dir", "bind"}},
	{"h/x/y", []string{"ensure-dir"}},
}

var vOrigins = []string{"", "layout", "overname", "content", "layout", ""}

func vRandEntry(r *rand.Rand, pd vPathDef) vSpecEntry {
	e := vSpecEntry{P: pd.p, Typ: pd.typs[r.Intn(len(pd.typs))], V: 1 + r.Intn(2)}
	if e.Typ == "ensure-dir" {
		return e
	}
	if e.P == "a/l" {
		e.V = 1 // the pre-existing symlink points to t1
	}
	e.Origin = vOrigins[r.Intn(len(vOrigins))]
	if r.Intn(12) == 0 {
		e.ID = "id" + strconv.Itoa(1+r.Intn(2))
	}
	return e
}

func vRandProfile(r *rand.Rand, prev []vSpecEntry, maxN int) []vSpecEntry {
	out := []vSpecEntry{}
	used := map[string]bool{}
	ids := map[string]bool{}
	add := func(e vSpecEntry) {
		if len(out) >= maxN || used[e.P] || (e.ID != "" && ids[e.ID]) {
			return
		}
		used[e.P] = true
		if e.ID != "" {
			ids[e.ID] = true
		}
		out = append(out, e)
	}
	// keep / modify / drop previous entries
	for _, e := range prev {
		switch x := r.Intn(10); {
		case x < 6:
			add(e)
		case x < 8:
			for _, pd := range vUniverse {
				if pd.p == e.P {
					add(vRandEntry(r, pd))
				}
			}
		}
	}
	nnew := r.Intn(3)
	if len(prev) == 0 {
		nnew = 1 + r.Intn(maxN)
	}
	for i := 0; i < nnew; i++ {
		add(vRandEntry(r, vUniverse[r.Intn(len(vUniverse))]))
	}
	// nothing can be mounted beneath a file or a symlink of the same profile
	leaf := map[string]bool{}
	for _, e := range out {
		if e.Typ == "file" || e.Typ == "symlink" {
			leaf[e.P] = true
		}
	}
	kept := out[:0]
	for _, e := range out {
		under := false
		for p := filepath.Dir(e.P); p != "." && p != "/"; p = filepath.Dir(p) {
			if leaf[p] {
				under = true
			}
		}
		if !under {
			kept = append(kept, e)
		}
	}
	out = kept
	r.Shuffle(len(out), func(i, j int) { out[i], out[j] = out[j], out[i] })
	return out
}

func vRandom(seed int64, n, maxUpdates int, emit func(vCase)) {
	r := rand.New(rand.NewSource(seed))
	for i := 0; i < n; i++ {
		c := vCase{Case: fmt.Sprintf("r%d-%d", seed, i), Rootfs: r.Intn(4) == 0}
		var prev []vSpecEntry
		k := 2 + r.Intn(maxUpdates-1)
		for j := 0; j < k; j++ {
			if j > 0 && r.Intn(6) == 0 {
				// repeat the same desired profile (possibly re-ordered)
				p := append([]vSpecEntry(nil), prev...)
				r.Shuffle(len(p), func(a, b int) { p[a], p[b] = p[b], p[a] })
				c.Updates = append(c.Updates, p)
				continue
			}
			if j > 0 && r.Intn(10) == 0 {
				c.Updates = append(c.Updates, []vSpecEntry{})
				prev = nil
				continue
			}
			p := vRandProfile(r, prev, 4)
			c.Updates = append(c.Updates, p)
			prev = p
		}
		emit(c)
	}
}

// ---------------------------------------------------------------- entry point

func vEnvInt(name string, def int) int {
	if s := os.Getenv(name); s != "" {
		if n, err := strconv.Atoi(s); err == nil {
			return n
		}
	}
	return def
}

func TestVerifMountPlan(t *testing.T) {
	outPath := os.Getenv("VERIF_OUT")
	if outPath == "" {
		t.Skip("VERIF_OUT not set")
	}
	base, err := os.MkdirTemp(os.Getenv("VERIF_TMP"), "mp")
	if err != nil {
		t.Fatal(err)
	}
	defer os.RemoveAll(base)
	root := filepath.Join(base, "r")
	vBuildRoot(t, root)

	chunk := vEnvInt("VERIF_CHUNK", 4000) // cases per output file
	st := &vStats{}
	var f *os.File
	var bw *bufio.Writer
	nfile := 0
	var files []string
	closeFile := func() {
		if f != nil {
			bw.Flush()
			f.Close()
			f = nil
		}
	}
	inFile := 0
	emit := func(c vCase) {
		if f == nil || inFile >= chunk {
			closeFile()
			name := fmt.Sprintf("%s.%03d", outPath, nfile)
			nfile++
			inFile = 0
			var err error
			f, err = os.Create(name)
			if err != nil {
				t.Fatal(err)
			}
			bw = bufio.NewWriterSize(f, 1<<20)
			files = append(files, name)
		}
		inFile++
		vRunCase(t, root, c, bw, st)
	}

	if rp := os.Getenv("VERIF_REPLAY"); rp != "" {
		data, err := os.ReadFile(rp)
		if err != nil {
			t.Fatal(err)
		}
		var cases []vCase
		if err := json.Unmarshal(data, &cases); err != nil {
			t.Fatalf("verif: bad replay file: %v", err)
		}
		for _, c := range cases {
			emit(c)
		}
	} else {
		for _, c := range vExtraCases {
			emit(c)
		}
		if k := vEnvInt("VERIF_ENUM_K", 2); k > 0 {
			vEnumerate(k, 0, emit)
		}
		if p := vEnvInt("VERIF_ENUM3_POOL", 0); p > 0 {
			vEnumerate(3, p, emit)
		}
		seed := int64(vEnvInt("VERIF_SEED", 1))
		vRandom(seed, vEnvInt("VERIF_N", 500), 3, emit)
	}
	closeFile()
	sort.Strings(files)
	sum := map[string]interface{}{"files": files, "cases": st.cases, "lines": st.lines, "aborted": st.aborted,
		"changes_with_synth": st.synthLines, "keep_changes": st.keepLines, "unmount_changes": st.unmountLines,
		"mount_failed": st.mountFailed, "sim_unmount_of_unmounted": st.unmountMissing}
	js, _ := json.Marshal(sum)
	if err := os.WriteFile(outPath+".summary", js, 0644); err != nil {
		t.Fatal(err)
	}
	fmt.Printf("VERIF-SUMMARY %s\n", js)
}
