// C17 harness (BootTry.tla): drives the real boot package against the try-boot spec.
//
// Compiled INTO /repo/boot's test binary with `go test -overlay` (nothing is written to /repo).
// Input : VERIF_CASES  NDJSON, one case per line (produced by props/_boottry.py from TLC output)
// Output: VERIF_OUT    NDJSON, events for TraceBootTry.tla (kinds act/init) and verdict lines (kind beh)
//
// Every mutating bootloader call goes through a recording wrapper around the bootloadertest mocks;
// the modeenv file is compared before each call and at the end of an action so that the single
// modeenv write of an action is placed at its real position in the total order of durable writes.
package boot_test

import (
	"bufio"
	"encoding/json"
	"errors"
	"fmt"
	"os"
	"path/filepath"
	"reflect"
	"sort"
	"strconv"
	"strings"
	"testing"

	"github.com/snapcore/snapd/asserts"
	"github.com/snapcore/snapd/boot"
	"github.com/snapcore/snapd/bootloader"
	"github.com/snapcore/snapd/bootloader/bootloadertest"
	"github.com/snapcore/snapd/dirs"
	"github.com/snapcore/snapd/osutil/kcmdline"
	"github.com/snapcore/snapd/release"
	"github.com/snapcore/snapd/snap"
)

// ---------------------------------------------------------------- abstract state (same shape as the spec)

type vDisk struct {
	Kst  string `json:"kst"`
	Kcur int    `json:"kcur"`
	Ktry int    `json:"ktry"`
	Ck   []int  `json:"ck"`
	Bcur int    `json:"bcur"`
	Btry int    `json:"btry"`
	Bst  string `json:"bst"`
}

type vPres struct {
	K []int `json:"k"`
	B []int `json:"b"`
}

type vBoot struct {
	Phase     string `json:"phase"`
	Rk        int    `json:"rk"`
	Rb        int    `json:"rb"`
	Mk        int    `json:"mk"`
	Tryboot   bool   `json:"tryboot"`
	Cmdtrying bool   `json:"cmdtrying"`
	Why       string `json:"why"`
}

type vAct struct {
	Name string `json:"name"`
	Arg  int    `json:"arg"`
	Pc   int    `json:"pc"`
}

type vFull struct {
	D    vDisk `json:"d"`
	Pres vPres `json:"pres"`
	Boot vBoot `json:"boot"`
	Act  vAct  `json:"act"`
}

type vStep struct {
	Action string `json:"action"`
	Vars   vFull  `json:"vars"`
}

type vCase struct {
	ID      int             `json:"id"`
	Kind    string          `json:"kind"` // act | init | beh
	Variant string          `json:"variant"`
	Full    json.RawMessage `json:"full"`
	Steps   []vStep         `json:"steps"`
	Cut     int             `json:"cut"` // act: >=0 -> additionally interrupt the real call before write #cut+1 by panic

	// kind pipe: run the boot pipeline (firmware table + REAL initramfs code) from disk state D/Pres
	D         *vDisk `json:"d"`
	Pres      *vPres `json:"pres"`
	Start     string `json:"start"` // fw (after a power loss) | ins | ibase
	Cmdtrying bool   `json:"cmdtrying"`
	Rk        int    `json:"rk"`
	Goodk     []int  `json:"goodk"`
	Goodb     []int  `json:"goodb"`
	Reboot    bool   `json:"reboot"` // clean reboot requested by snapd (piboot: tryboot iff kernel_status=try) instead of a power loss
	Mark      bool   `json:"mark"`   // after a boot that reaches snapd run the real MarkBootSuccessful
}

// ---------------------------------------------------------------- device

type vDevice struct{ uc20 bool }

func (d *vDevice) RunMode() bool         { return true }
func (d *vDevice) Classic() bool         { return false }
func (d *vDevice) Kernel() string        { return "pc-kernel" }
func (d *vDevice) Base() string          { return "core20" }
func (d *vDevice) Gadget() string        { return "pc" }
func (d *vDevice) HasModeenv() bool      { return d.uc20 }
func (d *vDevice) IsCoreBoot() bool      { return true }
func (d *vDevice) IsClassicBoot() bool   { return false }
func (d *vDevice) Model() *asserts.Model { return nil }

func kfile(r int) string { return fmt.Sprintf("pc-kernel_%d.snap", r) }
func bfile(r int) string { return fmt.Sprintf("core20_%d.snap", r) }

func pinfo(fn string) snap.PlaceInfo {
	pi, err := snap.ParsePlaceInfoFromSnapFileName(fn)
	if err != nil {
		panic(err)
	}
	return pi
}

func revOf(fn string) int {
	if fn == "" {
		return 0
	}
	fn = strings.TrimSuffix(fn, ".snap")
	i := strings.LastIndex(fn, "_")
	n, err := strconv.Atoi(fn[i+1:])
	if err != nil {
		return -1
	}
	return n
}

// ---------------------------------------------------------------- world = mock bootloader + real modeenv + snap files

type vEvent struct {
	Op string `json:"op"`
	St vDisk  `json:"st"`
}

type vSnapshot struct {
	vars    map[string]string
	kern    snap.PlaceInfo
	tryKern snap.PlaceInfo
	modeenv []byte
}

type cutPanic struct{}

type world struct {
	variant string
	uc20    bool
	root    string
	dev     *vDevice
	cmdline string

	mb   *bootloadertest.MockBootloader
	grub *bootloadertest.MockExtractedRunKernelImageBootloader
	ns   *bootloadertest.MockNotScriptableBootloader

	// recording
	recording   bool
	lastModeenv []byte
	events      []vEvent
	snaps       []vSnapshot // snaps[i] = state after i writes
	cutAt       int         // -1: never; else panic before performing write number cutAt+1
	nwrites     int
	rebooted    bool

	curPres  vPres
	presInit bool
}

var errVerifReboot = errors.New("verif: initramfs reboot requested")

func newWorld(t *testing.T, variant string) *world {
	w := &world{variant: variant, uc20: variant != "UC16", cutAt: -1}
	w.root = t.TempDir()
	dirs.SetRootDir(w.root)
	w.dev = &vDevice{uc20: w.uc20}
	w.cmdline = filepath.Join(t.TempDir(), "cmdline")
	return w
}

func (w *world) modeenvBytes() []byte {
	if !w.uc20 {
		return nil
	}
	b, err := os.ReadFile(dirs.SnapModeenvFileUnder(w.root))
	if err != nil {
		return nil
	}
	return b
}

func writeModeenvText(root string, d vDisk) {
	var sb strings.Builder
	sb.WriteString("mode=run\n")
	sb.WriteString("base=" + bfile(d.Bcur) + "\n")
	if d.Btry != 0 {
		sb.WriteString("try_base=" + bfile(d.Btry) + "\n")
	}
	if d.Bst != "" {
		sb.WriteString("base_status=" + d.Bst + "\n")
	}
	ks := make([]string, 0, len(d.Ck))
	for _, r := range d.Ck {
		ks = append(ks, kfile(r))
	}
	sb.WriteString("current_kernels=" + strings.Join(ks, ",") + "\n")
	sb.WriteString("model_sign_key_id=verif\n")
	sb.WriteString("current_kernel_command_lines=[\"snapd_recovery_mode=run\"]\n")
	p := dirs.SnapModeenvFileUnder(root)
	if err := os.MkdirAll(filepath.Dir(p), 0755); err != nil {
		panic(err)
	}
	if err := os.WriteFile(p, []byte(sb.String()), 0644); err != nil {
		panic(err)
	}
}

func (w *world) setPresent(p vPres) {
	dir := dirs.SnapBlobDirUnder(w.root)
	if w.presInit && reflect.DeepEqual(w.curPres, p) {
		return
	}
	os.RemoveAll(dir)
	if err := os.MkdirAll(dir, 0755); err != nil {
		panic(err)
	}
	for _, r := range p.K {
		os.WriteFile(filepath.Join(dir, kfile(r)), nil, 0644)
	}
	for _, r := range p.B {
		os.WriteFile(filepath.Join(dir, bfile(r)), nil, 0644)
	}
	w.curPres = vPres{K: append([]int(nil), p.K...), B: append([]int(nil), p.B...)}
	w.presInit = true
}

func (w *world) present() vPres {
	p := vPres{K: []int{}, B: []int{}}
	ents, _ := os.ReadDir(dirs.SnapBlobDirUnder(w.root))
	for _, e := range ents {
		if strings.HasPrefix(e.Name(), "pc-kernel_") {
			p.K = append(p.K, revOf(e.Name()))
		} else if strings.HasPrefix(e.Name(), "core20_") {
			p.B = append(p.B, revOf(e.Name()))
		}
	}
	sort.Ints(p.K)
	sort.Ints(p.B)
	return p
}

// materialise builds fresh mocks + files for abstract state d/pres
func (w *world) materialise(d vDisk, p vPres) {
	w.setPresent(p)
	w.mb = bootloadertest.Mock("mock", filepath.Join(w.root, "boot"))
	w.grub, w.ns = nil, nil
	switch w.variant {
	case "UC20grub":
		w.grub = w.mb.WithExtractedRunKernelImage()
		w.mb.BootVars["kernel_status"] = d.Kst
		w.grub.SetEnabledKernel(pinfo(kfile(d.Kcur)))
		if d.Ktry != 0 {
			w.grub.SetEnabledTryKernel(pinfo(kfile(d.Ktry)))
		}
		bootloader.Force(&recGrub{MockExtractedRunKernelImageBootloader: w.grub, w: w})
		writeModeenvText(w.root, d)
	case "UC20ns":
		w.ns = w.mb.WithNotScriptable()
		w.mb.BootVars["kernel_status"] = d.Kst
		w.mb.BootVars["snap_kernel"] = kfile(d.Kcur)
		w.mb.BootVars["snap_try_kernel"] = ""
		if d.Ktry != 0 {
			w.mb.BootVars["snap_try_kernel"] = kfile(d.Ktry)
		}
		bootloader.Force(&recNs{MockNotScriptableBootloader: w.ns, w: w})
		writeModeenvText(w.root, d)
	case "UC16":
		w.mb.BootVars["snap_mode"] = d.Kst
		w.mb.BootVars["snap_kernel"] = kfile(d.Kcur)
		w.mb.BootVars["snap_core"] = bfile(d.Bcur)
		w.mb.BootVars["snap_try_kernel"] = ""
		w.mb.BootVars["snap_try_core"] = ""
		if d.Ktry != 0 {
			w.mb.BootVars["snap_try_kernel"] = kfile(d.Ktry)
		}
		if d.Btry != 0 {
			w.mb.BootVars["snap_try_core"] = bfile(d.Btry)
		}
		bootloader.Force(&rec16{MockBootloader: w.mb, w: w})
	default:
		panic("unknown variant " + w.variant)
	}
}

// project reads the real state back into the abstract shape
func (w *world) project() vDisk {
	d := vDisk{Ck: []int{}}
	switch w.variant {
	case "UC20grub":
		d.Kst = w.mb.BootVars["kernel_status"]
		k, err := w.grub.Kernel()
		if err != nil || k == nil {
			d.Kcur = -1
		} else {
			d.Kcur = revOf(k.Filename())
		}
		tk, err := w.grub.TryKernel()
		if err == nil && tk != nil {
			d.Ktry = revOf(tk.Filename())
		}
	case "UC20ns":
		d.Kst = w.mb.BootVars["kernel_status"]
		d.Kcur = revOf(w.mb.BootVars["snap_kernel"])
		d.Ktry = revOf(w.mb.BootVars["snap_try_kernel"])
	case "UC16":
		d.Kst = w.mb.BootVars["snap_mode"]
		d.Kcur = revOf(w.mb.BootVars["snap_kernel"])
		d.Ktry = revOf(w.mb.BootVars["snap_try_kernel"])
		d.Bcur = revOf(w.mb.BootVars["snap_core"])
		d.Btry = revOf(w.mb.BootVars["snap_try_core"])
	}
	if w.uc20 {
		m, err := boot.ReadModeenv(w.root)
		if err != nil {
			d.Bcur = -1
			return d
		}
		d.Bcur = revOf(m.Base)
		d.Btry = revOf(m.TryBase)
		d.Bst = m.BaseStatus
		for _, k := range m.CurrentKernels {
			d.Ck = append(d.Ck, revOf(k))
		}
	}
	return d
}

func (w *world) snapshot() vSnapshot {
	s := vSnapshot{vars: map[string]string{}, modeenv: w.modeenvBytes()}
	for k, v := range w.mb.BootVars {
		s.vars[k] = v
	}
	if w.grub != nil {
		s.kern, _ = w.grub.Kernel()
		tk, err := w.grub.TryKernel()
		if err == nil {
			s.tryKern = tk
		}
	}
	return s
}

func (w *world) restore(s vSnapshot) {
	for k := range w.mb.BootVars {
		delete(w.mb.BootVars, k)
	}
	for k, v := range s.vars {
		w.mb.BootVars[k] = v
	}
	if w.grub != nil {
		w.grub.SetEnabledKernel(s.kern)
		w.grub.SetEnabledTryKernel(s.tryKern)
	}
	if w.uc20 {
		if err := os.WriteFile(dirs.SnapModeenvFileUnder(w.root), s.modeenv, 0644); err != nil {
			panic(err)
		}
	}
}

// ---- recording of durable writes

func (w *world) startRecording(cutAt int) {
	w.recording = true
	w.events = nil
	w.nwrites = 0
	w.cutAt = cutAt
	w.lastModeenv = w.modeenvBytes()
	w.snaps = []vSnapshot{w.snapshot()}
}

func (w *world) emit(op string) {
	w.nwrites++
	w.events = append(w.events, vEvent{Op: op, St: w.project()})
	w.snaps = append(w.snaps, w.snapshot())
}

// noteModeenv turns a change of the modeenv file since the last look into a write event at this position
func (w *world) noteModeenv() {
	if !w.recording || !w.uc20 {
		return
	}
	cur := w.modeenvBytes()
	if string(cur) != string(w.lastModeenv) {
		w.lastModeenv = cur
		w.emit("modeenv")
	}
}

func (w *world) pre() {
	if !w.recording {
		return
	}
	w.noteModeenv()
	if w.cutAt >= 0 && w.nwrites >= w.cutAt {
		panic(cutPanic{})
	}
}

func (w *world) post(op string) {
	if !w.recording {
		return
	}
	w.emit(op)
}

func (w *world) stopRecording() {
	w.noteModeenv()
	w.recording = false
}

type recGrub struct {
	*bootloadertest.MockExtractedRunKernelImageBootloader
	w *world
}

func (b *recGrub) SetBootVars(v map[string]string) error {
	b.w.pre()
	err := b.MockExtractedRunKernelImageBootloader.SetBootVars(v)
	b.w.post("status")
	return err
}
func (b *recGrub) EnableKernel(s snap.PlaceInfo) error {
	b.w.pre()
	err := b.MockExtractedRunKernelImageBootloader.EnableKernel(s)
	b.w.post("enable")
	return err
}
func (b *recGrub) EnableTryKernel(s snap.PlaceInfo) error {
	b.w.pre()
	err := b.MockExtractedRunKernelImageBootloader.EnableTryKernel(s)
	b.w.post("enabletry")
	return err
}
func (b *recGrub) DisableTryKernel() error {
	b.w.pre()
	err := b.MockExtractedRunKernelImageBootloader.DisableTryKernel()
	b.w.post("disabletry")
	return err
}

type recNs struct {
	*bootloadertest.MockNotScriptableBootloader
	w *world
}

func (b *recNs) SetBootVars(v map[string]string) error {
	b.w.pre()
	err := b.MockNotScriptableBootloader.SetBootVars(v)
	b.w.post("env")
	return err
}
func (b *recNs) SetBootVarsFromInitramfs(v map[string]string) error {
	b.w.pre()
	err := b.MockNotScriptableBootloader.SetBootVarsFromInitramfs(v)
	b.w.post("envinit")
	return err
}

type rec16 struct {
	*bootloadertest.MockBootloader
	w *world
}

func (b *rec16) SetBootVars(v map[string]string) error {
	b.w.pre()
	err := b.MockBootloader.SetBootVars(v)
	b.w.post("env")
	return err
}

// ---- the real snapd entry points

// runAction calls the real function for spec action name(arg); returns (error, interrupted by cut)
func (w *world) runAction(name string, arg int, cutAt int) (err error, cut bool) {
	w.startRecording(cutAt)
	defer w.stopRecording()
	defer func() {
		if r := recover(); r != nil {
			if _, ok := r.(cutPanic); ok {
				cut = true
				// the modeenv lock is released by the deferred unlock of the real function
				return
			}
			panic(r)
		}
	}()
	switch name {
	case "SetNextK":
		_, err = boot.Participant(pinfo(kfile(arg)), snap.TypeKernel, w.dev).SetNextBoot(boot.NextBootContext{BootWithoutTry: false})
	case "UndoK":
		_, err = boot.Participant(pinfo(kfile(arg)), snap.TypeKernel, w.dev).SetNextBoot(boot.NextBootContext{BootWithoutTry: true})
	case "SetNextB":
		_, err = boot.Participant(pinfo(bfile(arg)), snap.TypeBase, w.dev).SetNextBoot(boot.NextBootContext{BootWithoutTry: false})
	case "UndoB":
		_, err = boot.Participant(pinfo(bfile(arg)), snap.TypeBase, w.dev).SetNextBoot(boot.NextBootContext{BootWithoutTry: true})
	case "Mark":
		err = boot.MarkBootSuccessful(w.dev)
	default:
		panic("unknown action " + name)
	}
	return err, false
}

func (w *world) inUse(typ snap.Type, name string, revs []int) ([]int, error) {
	f, err := boot.InUse(typ, w.dev)
	if err != nil {
		return nil, err
	}
	out := []int{}
	for _, r := range revs {
		if f(name, snap.R(r)) {
			out = append(out, r)
		}
	}
	return out, nil
}

func (w *world) setCmdline(trying bool) {
	c := "snapd_recovery_mode=run"
	if trying {
		c += " kernel_status=trying"
	}
	if err := os.WriteFile(w.cmdline, []byte(c), 0644); err != nil {
		panic(err)
	}
}

type initRes struct {
	Res string `json:"res"` // ok | reboot | halt
	Rev int    `json:"rev"`
	Msg string `json:"msg"`
}

func (w *world) initNs() error {
	return boot.InitramfsRunModeUpdateBootloaderVars()
}

// initSelect runs the real initramfs selection for one snap type on the modeenv object m
func (w *world) initSelect(typ snap.Type, m *boot.Modeenv) initRes {
	w.rebooted = false
	res, err := boot.InitramfsRunModeSelectSnapsToMount([]snap.Type{typ}, m, w.root)
	if w.rebooted {
		return initRes{Res: "reboot"}
	}
	if err != nil {
		return initRes{Res: "halt", Msg: err.Error()}
	}
	sn := res[typ]
	if sn == nil {
		return initRes{Res: "halt", Msg: "no snap selected"}
	}
	return initRes{Res: "ok", Rev: revOf(sn.Filename())}
}

// ---------------------------------------------------------------- firmware (environment side; spec tables)

// fw applies the firmware step of the spec to the real mock state (grub.cfg rules are compared with the
// spec table by the python side; UC16 and piboot firmware behaviour are assumptions of the spec).
// Returns the post-step boot record as the spec defines it (only phase/rk/rb/mk/cmdtrying).
func (w *world) fw(b vBoot, p vPres) vBoot {
	d := w.project()
	has := func(l []int, r int) bool {
		for _, x := range l {
			if x == r {
				return true
			}
		}
		return false
	}
	off := func(phase, why string) vBoot { return vBoot{Phase: phase, Why: why} }
	switch w.variant {
	case "UC20grub":
		img := d.Kcur
		fallback := false
		switch d.Kst {
		case "try":
			w.mb.BootVars["kernel_status"] = "trying"
			img = d.Ktry
			fallback = true
		case "":
		default:
			w.mb.BootVars["kernel_status"] = ""
		}
		if img != 0 && has(p.K, img) {
			nb := off("ibase", "")
			nb.Rk = img
			return nb
		}
		if fallback {
			return off("fw", "")
		}
		return off("halt", "kernel.efi missing")
	case "UC20ns":
		img := d.Kcur
		if b.Tryboot {
			img = d.Ktry
		}
		if img != 0 && has(p.K, img) {
			nb := off("ins", "")
			nb.Rk = img
			nb.Cmdtrying = b.Tryboot
			return nb
		}
		if b.Tryboot {
			return off("fw", "")
		}
		return off("halt", "kernel image missing")
	default: // UC16
		trying := d.Kst == "try"
		if trying {
			w.mb.BootVars["snap_mode"] = "trying"
		} else {
			w.mb.BootVars["snap_mode"] = ""
		}
		ik, ib := d.Kcur, d.Bcur
		if trying && d.Ktry != 0 {
			ik = d.Ktry
		}
		if trying && d.Btry != 0 {
			ib = d.Btry
		}
		if has(p.K, ik) && has(p.B, ib) {
			return vBoot{Phase: "result", Rk: ik, Mk: ik, Rb: ib}
		}
		if trying {
			return off("fw", "")
		}
		return off("halt", "boot snap missing")
	}
}


// ---------------------------------------------------------------- statement oracle: what does the device do from here?

type pBoot struct {
	Res string `json:"res"` // ok | halt | reboot | fwfallback
	Rk  int    `json:"rk"`
	Mk  int    `json:"mk"`
	Rb  int    `json:"rb"`
	Msg string `json:"msg"`
}

func hasInt(l []int, r int) bool {
	for _, x := range l {
		if x == r {
			return true
		}
	}
	return false
}

// pipeline boots the device from the current real state: firmware step per the spec's table, initramfs by the
// REAL code. failTrial: a boot that involves a revision outside goodk/goodb fails (reboot) - the worst case for a
// trial. Returns the sequence of boot attempts and how it ended: ok | halt | loop.
func (w *world) pipeline(start string, cmdtrying bool, rk int, tryboot bool, failTrial bool, goodk, goodb []int) (boots []pBoot, end string) {
	b := vBoot{Phase: start, Cmdtrying: cmdtrying, Rk: rk, Tryboot: tryboot}
	for n := 0; n < 8; n++ {
		if b.Phase == "fw" {
			nb := w.fw(b, w.present())
			if nb.Phase == "halt" {
				boots = append(boots, pBoot{Res: "halt", Msg: "firmware: " + nb.Why})
				return boots, "halt"
			}
			if nb.Phase == "fw" {
				boots = append(boots, pBoot{Res: "fwfallback"})
				b = nb
				continue
			}
			b = nb
		}
		var ok pBoot
		if b.Phase == "result" { // UC16: no initramfs logic in this repository
			ok = pBoot{Res: "ok", Rk: b.Rk, Mk: b.Mk, Rb: b.Rb}
		} else {
			w.setCmdline(b.Cmdtrying)
			if b.Phase == "ins" {
				if err := w.initNs(); err != nil {
					boots = append(boots, pBoot{Res: "halt", Rk: b.Rk, Msg: err.Error()})
					return boots, "halt"
				}
			}
			m, err := boot.ReadModeenv(w.root)
			if err != nil {
				boots = append(boots, pBoot{Res: "halt", Rk: b.Rk, Msg: err.Error()})
				return boots, "halt"
			}
			rb := w.initSelect(snap.TypeBase, m)
			if rb.Res != "ok" {
				boots = append(boots, pBoot{Res: "halt", Rk: b.Rk, Msg: rb.Msg})
				return boots, "halt"
			}
			rk := w.initSelect(snap.TypeKernel, m)
			if rk.Res == "halt" {
				boots = append(boots, pBoot{Res: "halt", Rk: b.Rk, Rb: rb.Rev, Msg: rk.Msg})
				return boots, "halt"
			}
			if rk.Res == "reboot" {
				boots = append(boots, pBoot{Res: "reboot", Rk: b.Rk, Rb: rb.Rev})
				b = vBoot{Phase: "fw"}
				continue
			}
			ok = pBoot{Res: "ok", Rk: b.Rk, Mk: rk.Rev, Rb: rb.Rev}
		}
		if failTrial && (!hasInt(goodk, ok.Rk) || !hasInt(goodb, ok.Rb)) {
			ok.Res = "bootfail"
			boots = append(boots, ok)
			b = vBoot{Phase: "fw"}
			continue
		}
		boots = append(boots, ok)
		return boots, "ok"
	}
	return boots, "loop"
}

func runPipeCase(w *world, c vCase, out *outw) {
	for pass := 1; pass <= 2; pass++ {
		w.materialise(*c.D, *c.Pres)
		tryboot := c.Reboot && w.variant == "UC20ns" && c.D.Kst == "try"
		boots, end := w.pipeline(c.Start, c.Cmdtrying, c.Rk, tryboot, pass == 2, c.Goodk, c.Goodb)
		booted := normCk(w.project())
		markErr := ""
		if end == "ok" && c.Mark {
			if err, _ := w.runAction("Mark", 0, -1); err != nil {
				markErr = err.Error()
			}
		}
		out.put(map[string]interface{}{"ev": "Pipe", "case": c.ID, "pass": pass, "boots": boots, "end": end,
			"booted": booted, "final": normCk(w.project()), "mark_err": markErr})
	}
}

// ---------------------------------------------------------------- case runners

type outw struct {
	f *bufio.Writer
	n int
}

func (o *outw) put(v interface{}) {
	b, err := json.Marshal(v)
	if err != nil {
		panic(err)
	}
	o.f.Write(b)
	o.f.WriteByte('\n')
	o.n++
}

func normCk(d vDisk) vDisk {
	if d.Ck == nil {
		d.Ck = []int{}
	}
	return d
}

func runActCase(w *world, c vCase, full vFull, out *outw) {
	w.materialise(full.D, full.Pres)
	out.put(map[string]interface{}{"ev": "Reset", "case": c.ID, "full": c.Full})
	// boot.InUse in the idle state the action starts from
	ik, err1 := w.inUse(snap.TypeKernel, "pc-kernel", []int{1, 2, 3, 4, 5})
	ib, err2 := w.inUse(snap.TypeBase, "core20", []int{1, 2, 3, 4, 5})
	if err1 != nil || err2 != nil {
		out.put(map[string]interface{}{"ev": "Err", "case": c.ID, "msg": fmt.Sprintf("InUse: %v %v", err1, err2)})
		return
	}
	out.put(map[string]interface{}{"ev": "InUse", "case": c.ID, "k": ik, "b": ib})
	err, _ := w.runAction(full.Act.Name, full.Act.Arg, -1)
	for _, e := range w.events {
		out.put(map[string]interface{}{"ev": "W", "case": c.ID, "op": e.Op, "st": normCk(e.St)})
	}
	if err != nil {
		out.put(map[string]interface{}{"ev": "Err", "case": c.ID, "msg": err.Error()})
		return
	}
	out.put(map[string]interface{}{"ev": "End", "case": c.ID, "st": normCk(w.project())})

	// independent cross-check of the snapshots: really interrupt the call before write #cut+1 with a panic
	// inside the mock bootloader and compare the state left behind with the recorded prefix state
	full_events := append([]vEvent(nil), w.events...)
	for cut := 0; cut < len(full_events); cut++ {
		if full_events[cut].Op == "modeenv" {
			continue // the modeenv write itself cannot be intercepted; cut lands before the next bootloader call
		}
		w.materialise(full.D, full.Pres)
		_, wasCut := w.runAction(full.Act.Name, full.Act.Arg, cut)
		got := normCk(w.project())
		want := normCk(full.D)
		if cut > 0 {
			want = normCk(full_events[cut-1].St)
		}
		if !wasCut || !reflect.DeepEqual(got, want) {
			out.put(map[string]interface{}{"ev": "Err", "case": c.ID,
				"msg": fmt.Sprintf("interrupting %s(%d) before write %d: cut=%v state %+v, recorded prefix %+v", full.Act.Name, full.Act.Arg, cut+1, wasCut, got, want)})
			return
		}
	}
}

func runInitCase(w *world, c vCase, full vFull, out *outw) {
	w.materialise(full.D, full.Pres)
	w.setCmdline(full.Boot.Cmdtrying)
	out.put(map[string]interface{}{"ev": "Reset", "case": c.ID, "full": c.Full})
	if full.Boot.Phase == "ins" {
		if err := w.initNs(); err != nil {
			out.put(map[string]interface{}{"ev": "Err", "case": c.ID, "msg": err.Error()})
			return
		}
		out.put(map[string]interface{}{"ev": "InitNs", "case": c.ID, "st": normCk(w.project())})
	}
	m, err := boot.ReadModeenv(w.root)
	if err != nil {
		out.put(map[string]interface{}{"ev": "Err", "case": c.ID, "msg": err.Error()})
		return
	}
	rb := w.initSelect(snap.TypeBase, m)
	out.put(map[string]interface{}{"ev": "InitBase", "case": c.ID, "res": rb.Res, "rev": rb.Rev, "msg": rb.Msg, "st": normCk(w.project())})
	if rb.Res != "ok" {
		return
	}
	rk := w.initSelect(snap.TypeKernel, m)
	out.put(map[string]interface{}{"ev": "InitKernel", "case": c.ID, "res": rk.Res, "rev": rk.Rev, "msg": rk.Msg, "st": normCk(w.project())})
}

// runBehCase replays one TLC behaviour on ONE persistent real state (no re-materialisation between steps
// except for the prefix restore of a power loss) and compares the projected state after every step.
func runBehCase(w *world, c vCase, out *outw) {
	if len(c.Steps) == 0 {
		return
	}
	init := c.Steps[0].Vars
	w.materialise(init.D, init.Pres)
	curBoot := init.Boot
	var modeenvObj *boot.Modeenv
	pending := false // an action was started on the real side: w.snaps holds its prefix states
	fail := func(i int, msg string, got interface{}) {
		out.put(map[string]interface{}{"ev": "Beh", "case": c.ID, "ok": false, "step": i, "action": c.Steps[i].Action,
			"msg": msg, "want": c.Steps[i].Vars, "got": got})
	}
	nreal := 0
	haltMsg := ""
	for i := 1; i < len(c.Steps); i++ {
		st := c.Steps[i]
		prev := c.Steps[i-1].Vars
		want := st.Vars
		switch st.Action {
		case "SetNextK", "UndoK", "SetNextB", "UndoB", "Mark", "SetNextKStale16", "SetNextBStale16":
			// run the real call to completion now; its writes become visible step by step below
			before := w.snapshot()
			err, _ := w.runAction(want.Act.Name, want.Act.Arg, -1)
			if err != nil {
				fail(i, "real call failed: "+err.Error(), nil)
				return
			}
			nreal++
			pending = true
			w.snaps[0] = before
			w.restore(w.snaps[0])
		case "Step":
			if !pending || want.Act.Pc >= len(w.snaps) {
				fail(i, fmt.Sprintf("spec performs write #%d but the real call made only %d writes", want.Act.Pc, len(w.snaps)-1), w.events)
				return
			}
			w.restore(w.snaps[want.Act.Pc])
		case "End":
			if pending && prev.Act.Pc != len(w.snaps)-1 {
				fail(i, fmt.Sprintf("spec ends the action after %d writes but the real call made %d", prev.Act.Pc, len(w.snaps)-1), w.events)
				return
			}
			pending = false
		case "PowerLoss", "PowerLossUndoWindow":
			// keep only the writes that were durable: state is already the prefix state snaps[pc]
			pending = false
			curBoot = want.Boot
		case "Reboot", "BootOK", "BootFail":
			curBoot = want.Boot
		case "RemoveK":
			w.presInit = false
			for _, r := range prev.Pres.K {
				os.Remove(filepath.Join(dirs.SnapBlobDirUnder(w.root), kfile(r)))
			}
			for _, r := range want.Pres.K {
				os.WriteFile(filepath.Join(dirs.SnapBlobDirUnder(w.root), kfile(r)), nil, 0644)
			}
		case "RemoveB":
			w.presInit = false
			for _, r := range prev.Pres.B {
				os.Remove(filepath.Join(dirs.SnapBlobDirUnder(w.root), bfile(r)))
			}
			for _, r := range want.Pres.B {
				os.WriteFile(filepath.Join(dirs.SnapBlobDirUnder(w.root), bfile(r)), nil, 0644)
			}
		case "Firmware":
			nb := w.fw(curBoot, w.present())
			if nb.Phase != want.Boot.Phase || nb.Rk != want.Boot.Rk {
				fail(i, "firmware emulation disagrees with spec", nb)
				return
			}
			curBoot = want.Boot
			modeenvObj = nil
		case "InitNs":
			w.setCmdline(prev.Boot.Cmdtrying)
			if err := w.initNs(); err != nil {
				fail(i, "InitramfsRunModeUpdateBootloaderVars: "+err.Error(), nil)
				return
			}
			nreal++
			curBoot = want.Boot
		case "InitBase":
			w.setCmdline(prev.Boot.Cmdtrying)
			m, err := boot.ReadModeenv(w.root)
			if err != nil {
				fail(i, "ReadModeenv: "+err.Error(), nil)
				return
			}
			modeenvObj = m
			r := w.initSelect(snap.TypeBase, m)
			nreal++
			if want.Boot.Phase == "halt" {
				if r.Res != "halt" {
					fail(i, "spec halts, real base selection does not", r)
					return
				}
				haltMsg = r.Msg
			} else if r.Res != "ok" || r.Rev != want.Boot.Rb {
				fail(i, "real initramfs base selection differs", r)
				return
			}
			curBoot = want.Boot
		case "InitKernel":
			if modeenvObj == nil {
				fail(i, "harness: InitKernel without InitBase", nil)
				return
			}
			r := w.initSelect(snap.TypeKernel, modeenvObj)
			nreal++
			switch want.Boot.Phase {
			case "halt":
				if r.Res != "halt" {
					fail(i, "spec halts, real kernel selection does not", r)
					return
				}
				haltMsg = r.Msg
			case "fw":
				if r.Res != "reboot" {
					fail(i, "spec reboots, real kernel selection does not", r)
					return
				}
			default:
				if r.Res != "ok" || r.Rev != want.Boot.Mk {
					fail(i, "real initramfs kernel selection differs", r)
					return
				}
			}
			curBoot = want.Boot
		default:
			fail(i, "harness: unknown spec action", nil)
			return
		}
		got := normCk(w.project())
		if !reflect.DeepEqual(got, normCk(want.D)) {
			fail(i, "projected real state differs from spec state", got)
			return
		}
		if gp := w.present(); !reflect.DeepEqual(gp.K, want.Pres.K) && !(len(gp.K) == 0 && len(want.Pres.K) == 0) {
			fail(i, "present kernel revisions differ", gp)
			return
		}
	}
	last := c.Steps[len(c.Steps)-1]
	out.put(map[string]interface{}{"ev": "Beh", "case": c.ID, "ok": true, "steps": len(c.Steps) - 1, "real_calls": nreal,
		"final_phase": last.Vars.Boot.Phase, "final_why": last.Vars.Boot.Why, "real_halt_msg": haltMsg,
		"final_real_state": normCk(w.project())})
}

func TestVerifBootTry(t *testing.T) {
	cases := os.Getenv("VERIF_CASES")
	outp := os.Getenv("VERIF_OUT")
	if cases == "" || outp == "" {
		t.Skip("VERIF_CASES / VERIF_OUT not set")
	}
	defer release.MockOnClassic(false)()
	defer dirs.SetRootDir("")
	defer bootloader.Force(nil)
	var w *world
	defer boot.MockInitramfsReboot(func() error {
		w.rebooted = true
		return errVerifReboot
	})()

	in, err := os.Open(cases)
	if err != nil {
		t.Fatal(err)
	}
	defer in.Close()
	of, err := os.Create(outp)
	if err != nil {
		t.Fatal(err)
	}
	defer of.Close()
	out := &outw{f: bufio.NewWriterSize(of, 1<<20)}
	defer out.f.Flush()

	sc := bufio.NewScanner(in)
	sc.Buffer(make([]byte, 1<<20), 1<<28)
	worlds := map[string]*world{}
	n := 0
	for sc.Scan() {
		line := sc.Bytes()
		if len(line) == 0 {
			continue
		}
		var c vCase
		if err := json.Unmarshal(line, &c); err != nil {
			t.Fatalf("bad case line: %v", err)
		}
		w = worlds[c.Variant]
		if w == nil {
			w = newWorld(t, c.Variant)
			worlds[c.Variant] = w
		}
		dirs.SetRootDir(w.root)
		restore := kcmdline.MockProcCmdline(w.cmdline)
		w.setCmdline(false)
		switch c.Kind {
		case "act", "init":
			var full vFull
			if err := json.Unmarshal(c.Full, &full); err != nil {
				t.Fatalf("bad full state: %v", err)
			}
			if c.Kind == "act" {
				runActCase(w, c, full, out)
			} else {
				runInitCase(w, c, full, out)
			}
		case "beh":
			runBehCase(w, c, out)
		case "pipe":
			runPipeCase(w, c, out)
		default:
			t.Fatalf("unknown case kind %q", c.Kind)
		}
		restore()
		n++
	}
	if err := sc.Err(); err != nil {
		t.Fatal(err)
	}
	t.Logf("verif boottry: %d cases, %d output lines", n, out.n)
}
