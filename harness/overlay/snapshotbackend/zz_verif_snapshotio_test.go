// -*- Mode: Go; indent-tabs-mode: t -*-

// verif driver for property C32 (spec: /verif/spec/SnapshotIO.tla).
//
// Compiled INTO package backend (overlord/snapshotstate/backend) with `go test -overlay`.
// Reads cases (NDJSON, VERIF_CASES) and writes a trace (NDJSON, VERIF_OUT).
//
// import cases : a tar stream is built member by member with archive/tar from the
//   abstract member records of the case and fed to the real Import() under a fresh
//   temp root.  The reader hands the stream out segment-wise, so the state of the
//   snapshots directory is observed every time the code asks for the next member
//   header.  The WHOLE temp root is walked before and after (type, mode, size,
//   content hash, symlink target): anything created/modified outside the
//   snapshots directory is reported in "outside".
// restore cases: a real Save() (real tar) of a small data tree for the system and one
//   user, the archive is then corrupted per class, the data trees are put into
//   the case's pre-state, Reader.Restore runs with the tarAsUser seam recording
//   (and optionally failing) every tar invocation, then Revert/Cleanup.  Full
//   digests of the data trees before/after are logged next to the abstract state.
package backend

import (
	"archive/tar"
	"archive/zip"
	"bufio"
	"bytes"
	"context"
	"crypto"
	"crypto/sha256"
	"encoding/json"
	"fmt"
	"hash/crc32"
	"io"
	"os"
	"os/exec"
	"os/user"
	"path/filepath"
	"sort"
	"strings"
	"testing"
	"time"

	"github.com/snapcore/snapd/client"
	"github.com/snapcore/snapd/dirs"
	"github.com/snapcore/snapd/logger"
	"github.com/snapcore/snapd/snap"
)

// ---------------------------------------------------------------------------- cases

type vsMember struct {
	// abstract description (echoed into the trace for the spec)
	Kind   string   `json:"kind"`   // "file" (name with an underscore), "content", "export", "nous" (no underscore)
	Before []string `json:"before"` // path components in front of the component holding the first underscore
	Key    string   `json:"key"`    // what follows "7_" in that component
	After  []string `json:"after"`  // path components behind it
	Type   string   `json:"type"`   // reg | dir | symlink | hardlink | fifo
	Body   string   `json:"body"`   // zip | trunc | garbage | empty | cjnew | cjdup | cjbad | export
	Cut    bool     `json:"cut"`    // the stream ends in the middle of this member's body (last member only)
}

type vsCase struct {
	Case string `json:"case"`
	Kind string `json:"kind"` // import | restore

	// import
	Members  []vsMember `json:"members"`
	End      string     `json:"end"`      // clean | cuthdr  (how the stream ends after the last member)
	NoDup    bool       `json:"nodup"`    // ImportFlags.NoDuplicatedImportCheck
	LockHeld bool       `json:"lockheld"` // <id>_importing already present
	SubDir   bool       `json:"subdir"`   // a directory <id>_d pre-exists in the snapshots directory

	// restore
	Entries   []string                     `json:"entries"`   // subset of ["sys","usr"] (all entries known to the case)
	Saved     map[string][]string          `json:"saved"`     // entry -> slots ("common","rev") that existed at save time
	Pre       map[string]map[string]string `json:"pre"`       // entry -> slot -> absent|old|blocked|oldfile
	ParentPre map[string]bool              `json:"parentpre"` // entry -> parent dir exists before the restore
	Corrupt   map[string]string            `json:"corrupt"`   // entry -> none|hash|tar|garbage|size
	TarFailAt int                          `json:"tarfailat"` // the k-th tar invocation (1-based) is made to fail; 0: none
	Current   string                       `json:"current"`   // unset | same | other
	AfterOp   string                       `json:"afterop"`   // none | revert | cleanup   (after a successful restore)
}

const (
	vsImportID = 5
	vsOtherID  = 3
	vsSnapName = "hello-snap"
)

// ---------------------------------------------------------------------------- tree walking

type vsEnt struct {
	Type string // d f l o
	Mode uint32
	Size int64
	Sum  string
}

func vsWalk(root string) map[string]vsEnt {
	out := map[string]vsEnt{}
	filepath.Walk(root, func(p string, fi os.FileInfo, err error) error {
		if err != nil {
			return nil
		}
		rel, _ := filepath.Rel(root, p)
		e := vsEnt{Mode: uint32(fi.Mode())}
		switch {
		case fi.Mode()&os.ModeSymlink != 0:
			e.Type = "l"
			e.Sum, _ = os.Readlink(p)
		case fi.IsDir():
			e.Type = "d"
		case fi.Mode().IsRegular():
			e.Type = "f"
			e.Size = fi.Size()
			b, _ := os.ReadFile(p)
			e.Sum = fmt.Sprintf("%x", sha256.Sum256(b))
		default:
			e.Type = "o"
		}
		out[rel] = e
		return nil
	})
	return out
}

// vsDiff lists the paths created, removed or modified between two walks.
func vsDiff(a, b map[string]vsEnt) []string {
	var out []string
	for p, eb := range b {
		if ea, ok := a[p]; !ok || ea != eb {
			out = append(out, p)
		}
	}
	for p := range a {
		if _, ok := b[p]; !ok {
			out = append(out, p)
		}
	}
	sort.Strings(out)
	return out
}

func vsDigest(w map[string]vsEnt, prefix string) string {
	var keys []string
	for k := range w {
		if k == prefix || strings.HasPrefix(k, prefix+"/") {
			keys = append(keys, k)
		}
	}
	sort.Strings(keys)
	h := sha256.New()
	for _, k := range keys {
		fmt.Fprintf(h, "%s|%v\n", k, w[k])
	}
	return fmt.Sprintf("%x", h.Sum(nil))[:16]
}

// ---------------------------------------------------------------------------- common fixture

type vsFixture struct {
	t       *testing.T
	zipData []byte // a valid snapshot file (Save output)
	garbage []byte
}

func vsMockSeams(home string, tarHook func(args []string) *exec.Cmd) (restore func()) {
	oldLookup, oldTar, oldYaml, oldTesting, oldUsers := userLookup, tarAsUser, snapReadSnapshotYaml, isTesting, usersForUsernames
	userLookup = func(username string) (*user.User, error) {
		if username != "u1" {
			return nil, user.UnknownUserError(username)
		}
		return &user.User{Uid: "0", Gid: "0", Username: "u1", HomeDir: home}, nil
	}
	usersForUsernames = usersForUsernamesImpl
	tarAsUser = func(username string, args ...string) *exec.Cmd {
		if tarHook != nil {
			if c := tarHook(args); c != nil {
				return c
			}
		}
		return exec.Command("tar", args...)
	}
	snapReadSnapshotYaml = func(si *snap.Info) (*snap.SnapshotOptions, error) { return &snap.SnapshotOptions{}, nil }
	isTesting = false
	return func() {
		userLookup, tarAsUser, snapReadSnapshotYaml, isTesting, usersForUsernames = oldLookup, oldTar, oldYaml, oldTesting, oldUsers
	}
}

func vsInfo() *snap.Info {
	return &snap.Info{SideInfo: snap.SideInfo{RealName: vsSnapName, Revision: snap.R(42), SnapID: "hello-id"}, Version: "v1"}
}

func vsMust(err error) {
	if err != nil {
		panic(err)
	}
}

func vsWriteTree(dir, marker string) {
	vsMust(os.MkdirAll(filepath.Join(dir, "sub"), 0755))
	vsMust(os.WriteFile(filepath.Join(dir, "data"), []byte(marker+"\n"), 0644))
	vsMust(os.WriteFile(filepath.Join(dir, "sub", "more"), []byte(marker+"-more\n"), 0600))
	vsMust(os.Chmod(filepath.Join(dir, "sub"), 0750))
}

func vsParent(root, entry string) string {
	if entry == "sys" {
		return filepath.Join(root, "var/snap", vsSnapName)
	}
	return filepath.Join(root, "home/u1/snap", vsSnapName)
}

// vsSave makes a real snapshot (set id `id`) of a tree in which the given slots exist.
func vsSave(root string, id uint64, saved map[string][]string) (*client.Snapshot, error) {
	for entry, slots := range saved {
		for _, slot := range slots {
			name := slot
			if slot == "rev" {
				name = "42"
			}
			vsWriteTree(filepath.Join(vsParent(root, entry), name), "saved-"+entry+"-"+slot)
		}
	}
	return Save(context.Background(), id, vsInfo(), map[string]interface{}{"k": "v"}, []string{"u1"}, nil, nil)
}

// ---------------------------------------------------------------------------- import

func vsMemberName(m *vsMember) string {
	switch m.Kind {
	case "content":
		return "content.json"
	case "export":
		return "export.json"
	case "nous":
		return strings.Join(append(append([]string{}, m.Before...), m.Key), "/")
	}
	comps := append([]string{}, m.Before...)
	comps = append(comps, "7_"+m.Key)
	comps = append(comps, m.After...)
	return strings.Join(comps, "/")
}

func (fx *vsFixture) body(m *vsMember, dupHash, newHash []byte) []byte {
	switch m.Body {
	case "zip":
		return fx.zipData
	case "trunc":
		return fx.zipData[:len(fx.zipData)/2]
	case "garbage":
		return fx.garbage
	case "cjnew":
		b, _ := json.Marshal(contentJSON{newHash})
		return b
	case "cjdup":
		b, _ := json.Marshal(contentJSON{dupHash})
		return b
	case "cjbad":
		return []byte("{not json")
	case "export":
		return []byte(`{"format":1,"files":[]}`)
	}
	return nil
}

func (fx *vsFixture) classify(b []byte) string {
	switch {
	case len(b) == 0:
		return "empty"
	case bytes.Equal(b, fx.zipData):
		return "zip"
	case bytes.Equal(b, fx.garbage):
		return "garbage"
	case len(b) < len(fx.zipData) && bytes.Equal(b, fx.zipData[:len(b)]):
		return "trunc"
	}
	return "other"
}

// segmented reader: calls hook(i) when the consumer starts reading segment i
type vsSegReader struct {
	data   []byte
	starts []int
	pos    int
	seg    int // next segment whose start has not been announced
	hook   func(i int)
}

func (r *vsSegReader) Read(p []byte) (int, error) {
	for r.seg < len(r.starts) && r.pos == r.starts[r.seg] {
		r.hook(r.seg)
		r.seg++
	}
	if r.pos >= len(r.data) {
		return 0, io.EOF
	}
	lim := len(r.data)
	if r.seg < len(r.starts) {
		lim = r.starts[r.seg]
	}
	n := copy(p, r.data[r.pos:lim])
	r.pos += n
	return n, nil
}

func vsTypeflag(t string) byte {
	switch t {
	case "dir":
		return tar.TypeDir
	case "symlink":
		return tar.TypeSymlink
	case "hardlink":
		return tar.TypeLink
	case "fifo":
		return tar.TypeFifo
	}
	return tar.TypeReg
}

func (fx *vsFixture) listSD() []map[string]interface{} {
	out := []map[string]interface{}{}
	filepath.Walk(dirs.SnapshotsDir, func(p string, fi os.FileInfo, err error) error {
		if err != nil || p == dirs.SnapshotsDir {
			return nil
		}
		rel, _ := filepath.Rel(dirs.SnapshotsDir, p)
		cls := "other"
		switch {
		case fi.IsDir():
			cls = "dir"
		case fi.Mode().IsRegular():
			b, _ := os.ReadFile(p)
			cls = fx.classify(b)
		}
		out = append(out, map[string]interface{}{"p": strings.Split(rel, "/"), "c": cls})
		return nil
	})
	return out
}

func (fx *vsFixture) runImport(c *vsCase, emit func(map[string]interface{})) {
	root, err := os.MkdirTemp("", "verif-c32-")
	vsMust(err)
	defer os.RemoveAll(root)
	dirs.SetRootDir(root)
	defer dirs.SetRootDir("")
	restore := vsMockSeams(filepath.Join(root, "home/u1"), nil)
	defer restore()

	// a populated system around the snapshots directory
	vsMust(os.MkdirAll(dirs.SnapshotsDir, 0700))
	vsMust(os.MkdirAll(filepath.Join(root, "home/u1"), 0755))
	vsMust(os.MkdirAll(filepath.Join(root, "etc"), 0755))
	vsMust(os.WriteFile(filepath.Join(root, "etc/passwd"), []byte("root:x:0:0\n"), 0644))
	vsMust(os.WriteFile(filepath.Join(filepath.Dir(dirs.SnapshotsDir), "state.json"), []byte("{}"), 0600))
	vsMust(os.WriteFile(filepath.Join(filepath.Dir(dirs.SnapshotsDir), "x"), []byte("x"), 0600))
	vsMust(os.WriteFile(filepath.Join(root, "x"), []byte("x"), 0600))
	// an existing snapshot set (id 3) with the same content as the "zip" body
	other := filepath.Join(dirs.SnapshotsDir, fmt.Sprintf("%d_s.zip", vsOtherID))
	vsMust(os.WriteFile(other, fx.zipData, 0600))
	rd, err := Open(other, vsOtherID)
	vsMust(err)
	dupHash, err := client.SnapshotSet{Snapshots: []*client.Snapshot{&rd.Snapshot}}.ContentHash()
	vsMust(err)
	rd.Close()
	newHash := sha256.Sum256([]byte("something else"))
	if c.SubDir {
		vsMust(os.Mkdir(filepath.Join(dirs.SnapshotsDir, fmt.Sprintf("%d_d", vsImportID)), 0755))
	}
	if c.LockHeld {
		vsMust(os.WriteFile(filepath.Join(dirs.SnapshotsDir, fmt.Sprintf("%d_importing", vsImportID)), nil, 0644))
	}

	// the stream
	var buf bytes.Buffer
	var starts []int
	for i := range c.Members {
		m := &c.Members[i]
		body := fx.body(m, dupHash, newHash[:])
		tf := vsTypeflag(m.Type)
		hdr := &tar.Header{Typeflag: tf, Name: vsMemberName(m), Mode: 0644, ModTime: time.Unix(1700000000, 0), Format: tar.FormatGNU}
		if tf == tar.TypeReg {
			hdr.Size = int64(len(body))
		} else {
			body = nil
			if tf == tar.TypeSymlink || tf == tar.TypeLink {
				hdr.Linkname = "/etc/passwd"
			}
		}
		var mb bytes.Buffer
		tw := tar.NewWriter(&mb)
		if err := tw.WriteHeader(hdr); err != nil {
			panic(fmt.Sprintf("cannot write tar header for %q: %v", hdr.Name, err))
		}
		hdrLen := mb.Len()
		if len(body) > 0 {
			tw.Write(body)
		}
		tw.Flush()
		starts = append(starts, buf.Len())
		if m.Cut && len(body) > 1 {
			buf.Write(mb.Bytes()[:hdrLen+len(body)/2])
		} else {
			buf.Write(mb.Bytes())
		}
	}
	starts = append(starts, buf.Len())
	lastCut := len(c.Members) > 0 && c.Members[len(c.Members)-1].Cut
	if !lastCut {
		if c.End == "cuthdr" {
			buf.Write(bytes.Repeat([]byte{'A'}, 100))
		} else {
			buf.Write(make([]byte, 1024))
		}
	}

	before := vsWalk(root)
	emit(map[string]interface{}{"ev": "IStart", "case": c.Case,
		"args": map[string]interface{}{"nodup": c.NoDup, "lockheld": c.LockHeld, "subdir": c.SubDir},
		"obs":  map[string]interface{}{"files": fx.listSD()}})

	reached := -1
	sr := &vsSegReader{data: buf.Bytes(), starts: starts}
	sr.hook = func(i int) {
		// the code asks for segment i: members 0..i-1 are done
		if i > 0 {
			emit(map[string]interface{}{"ev": "IObs", "case": c.Case, "obs": map[string]interface{}{"files": fx.listSD()}})
		}
		if i < len(c.Members) {
			reached = i
			if c.Members[i].Before == nil {
				c.Members[i].Before = []string{}
			}
			if c.Members[i].After == nil {
				c.Members[i].After = []string{}
			}
			emit(map[string]interface{}{"ev": "IMember", "case": c.Case, "args": c.Members[i], "name": vsMemberName(&c.Members[i])})
		}
	}
	names, ierr := Import(context.Background(), vsImportID, sr, &ImportFlags{NoDuplicatedImportCheck: c.NoDup})
	after := vsWalk(root)

	sdRel, _ := filepath.Rel(root, dirs.SnapshotsDir)
	outside := []string{}
	for _, p := range vsDiff(before, after) {
		if p == sdRel {
			// the directory itself (its mtime is not recorded; mode/type changes would show here)
			outside = append(outside, p)
			continue
		}
		if !strings.HasPrefix(p, sdRel+"/") {
			outside = append(outside, p)
		}
	}
	end := "notreached"
	if sr.seg > len(c.Members) {
		end = c.End
		if end == "" {
			end = "clean"
		}
	}
	errmsg := ""
	errcls := "none"
	if ierr != nil {
		errmsg = ierr.Error()
		errcls = "error"
		if _, ok := ierr.(DuplicatedSnapshotImportError); ok {
			errcls = "dup"
		}
	}
	if names == nil {
		names = []string{}
	}
	emit(map[string]interface{}{"ev": "IEnd", "case": c.Case,
		"args": map[string]interface{}{"end": end},
		"obs": map[string]interface{}{"err": errcls, "files": fx.listSD(), "outside": outside, "nnames": len(names)},
		"errmsg": errmsg, "reached": reached, "nmembers": len(c.Members)})
}

// ---------------------------------------------------------------------------- restore

func vsRewriteZip(path string, entryName string, how string) {
	zr, err := zip.OpenReader(path)
	vsMust(err)
	type mem struct {
		name string
		data []byte
	}
	var mems []mem
	lying := map[string]bool{} // members whose header size was already made to lie by an earlier rewrite
	for _, f := range zr.File {
		var b []byte
		if f.Method == zip.Store && f.UncompressedSize64 != f.CompressedSize64 {
			lying[f.Name] = true
			raw, err := f.OpenRaw()
			vsMust(err)
			b, err = io.ReadAll(raw)
			vsMust(err)
		} else {
			rc, err := f.Open()
			vsMust(err)
			b, err = io.ReadAll(rc)
			vsMust(err)
			rc.Close()
		}
		mems = append(mems, mem{f.Name, b})
	}
	zr.Close()
	var meta client.Snapshot
	var metaIdx, hashIdx, entIdx = -1, -1, -1
	for i, m := range mems {
		switch m.name {
		case metadataName:
			metaIdx = i
		case metaHashName:
			hashIdx = i
		case entryName:
			entIdx = i
		}
	}
	if metaIdx < 0 || hashIdx < 0 || entIdx < 0 {
		panic("verif: unexpected zip layout")
	}
	vsMust(json.Unmarshal(mems[metaIdx].data, &meta))
	lieSize := false
	switch how {
	case "hash":
		h := []byte(meta.SHA3_384[entryName])
		if h[0] == '0' {
			h[0] = '1'
		} else {
			h[0] = '0'
		}
		meta.SHA3_384[entryName] = string(h)
	case "tar":
		d := append([]byte{}, mems[entIdx].data...)
		d[len(d)/2] ^= 0xff
		d[len(d)-5] ^= 0xff // gzip trailer (crc)
		mems[entIdx].data = d
	case "garbage":
		mems[entIdx].data = []byte("this is not a gzip stream at all, just some bytes\n")
	case "size":
		lieSize = true
	}
	if how == "tar" || how == "garbage" {
		hh := crypto.SHA3_384.New()
		hh.Write(mems[entIdx].data)
		meta.SHA3_384[entryName] = fmt.Sprintf("%x", hh.Sum(nil))
	}
	var mb bytes.Buffer
	vsMust(json.NewEncoder(&mb).Encode(&meta))
	mems[metaIdx].data = mb.Bytes()
	hh := crypto.SHA3_384.New()
	hh.Write(mems[metaIdx].data)
	mems[hashIdx].data = []byte(fmt.Sprintf("%x\n", hh.Sum(nil)))

	out, err := os.Create(path + ".new")
	vsMust(err)
	zw := zip.NewWriter(out)
	for i, m := range mems {
		fh := &zip.FileHeader{Name: m.name, Method: zip.Store}
		fh.CRC32 = crc32.ChecksumIEEE(m.data)
		fh.CompressedSize64 = uint64(len(m.data))
		fh.UncompressedSize64 = uint64(len(m.data))
		if (lieSize && i == entIdx) || lying[m.name] {
			fh.UncompressedSize64 = uint64(len(m.data)) + 1
		}
		w, err := zw.CreateRaw(fh)
		vsMust(err)
		_, err = w.Write(m.data)
		vsMust(err)
	}
	vsMust(zw.Close())
	vsMust(out.Close())
	vsMust(os.Rename(path+".new", path))
}

func vsEntryArchive(entry string) string {
	if entry == "sys" {
		return archiveName
	}
	return filepath.Join(userArchivePrefix, "u1"+userArchiveSuffix)
}

func vsSlotPath(root, entry, slot, revName string) string {
	name := slot
	if slot == "rev" {
		name = revName
	}
	return filepath.Join(vsParent(root, entry), name)
}

// vsSlotClass abstracts the content of a data directory slot.
func vsSlotClass(p, entry, slot string) string {
	fi, err := os.Lstat(p)
	if err != nil {
		return "absent"
	}
	if fi.Mode()&os.ModeSymlink != 0 {
		return "blocked"
	}
	if fi.Mode().IsRegular() {
		b, _ := os.ReadFile(p)
		if string(b) == "oldfile-"+entry+"-"+slot+"\n" {
			return "oldfile"
		}
		return "other"
	}
	if !fi.IsDir() {
		return "other"
	}
	b, err := os.ReadFile(filepath.Join(p, "data"))
	b2, err2 := os.ReadFile(filepath.Join(p, "sub", "more"))
	if err != nil || err2 != nil {
		return "other"
	}
	for _, kind := range []string{"old", "saved"} {
		m := kind + "-" + entry + "-" + slot
		if string(b) == m+"\n" && string(b2) == m+"-more\n" {
			ents, _ := os.ReadDir(p)
			if len(ents) == 2 {
				return kind
			}
		}
	}
	return "other"
}

func (fx *vsFixture) runRestore(c *vsCase, emit func(map[string]interface{})) {
	root, err := os.MkdirTemp("", "verif-c32-")
	vsMust(err)
	defer os.RemoveAll(root)
	dirs.SetRootDir(root)
	defer dirs.SetRootDir("")
	home := filepath.Join(root, "home/u1")
	vsMust(os.MkdirAll(home, 0755))

	revName := "42"
	current := snap.R(0)
	switch c.Current {
	case "same":
		current = snap.R(42)
	case "other":
		current = snap.R(43)
		revName = "43"
	}

	snapshotState := func() map[string]interface{} {
		slots := map[string]interface{}{}
		parents := map[string]interface{}{}
		asides := map[string]interface{}{}
		for _, e := range c.Entries {
			_, perr := os.Stat(vsParent(root, e))
			parents[e] = perr == nil
			s := map[string]string{}
			for _, slot := range []string{"common", "rev"} {
				s[slot] = vsSlotClass(vsSlotPath(root, e, slot, revName), e, slot)
			}
			slots[e] = s
			// anything else in the parent (moved-aside data, temp dirs)
			n := 0
			ents, _ := os.ReadDir(vsParent(root, e))
			for _, ent := range ents {
				if ent.Name() != "common" && ent.Name() != revName && !strings.HasPrefix(ent.Name(), ".snapshot") {
					if !(c.Current == "other" && ent.Name() == "42") {
						n++
					}
				}
			}
			asides[e] = n
		}
		return map[string]interface{}{"slots": slots, "parents": parents, "asides": asides}
	}

	tarCalls := 0
	restoreSeams := vsMockSeams(home, func(args []string) *exec.Cmd {
		isExtract := false
		tmp := ""
		for i, a := range args {
			if a == "--extract" {
				isExtract = true
			}
			if a == "--directory" && i+1 < len(args) {
				tmp = args[i+1]
			}
		}
		if !isExtract {
			return nil
		}
		tarCalls++
		entry := "usr"
		if strings.HasPrefix(tmp, filepath.Join(root, "var/snap")) {
			entry = "sys"
		}
		emit(map[string]interface{}{"ev": "RTar", "case": c.Case, "args": map[string]interface{}{"entry": entry, "fail": tarCalls == c.TarFailAt},
			"obs": snapshotState()})
		if tarCalls == c.TarFailAt {
			// extract for real, then report failure: the fault hits after the data is in the temp dir
			sh := "tar \"$@\"; echo 'verif: injected tar failure' >&2; exit 2"
			return exec.Command("sh", append([]string{"-c", sh, "sh"}, args...)...)
		}
		return nil
	})
	defer restoreSeams()

	// 1. save-time tree and the real Save
	saved := map[string][]string{}
	for _, e := range c.Entries {
		saved[e] = c.Saved[e]
	}
	shot, err := vsSave(root, 9, saved)
	vsMust(err)
	zipPath := Filename(shot)
	inArchive := map[string]bool{}
	for _, e := range c.Entries {
		_, ok := shot.SHA3_384[vsEntryArchive(e)]
		inArchive[e] = ok
		if how := c.Corrupt[e]; ok && how != "" && how != "none" {
			vsRewriteZip(zipPath, vsEntryArchive(e), how)
		}
	}
	// 2. pre-state of the data trees
	vsMust(os.RemoveAll(filepath.Join(root, "var/snap")))
	vsMust(os.RemoveAll(filepath.Join(home, "snap")))
	for _, e := range c.Entries {
		if !c.ParentPre[e] {
			continue
		}
		vsMust(os.MkdirAll(vsParent(root, e), 0755))
		if c.Current == "other" {
			// data of the snapshot's own revision, must stay untouched
			vsWriteTree(filepath.Join(vsParent(root, e), "42"), "rev42-"+e)
		}
		for slot, cls := range c.Pre[e] {
			p := vsSlotPath(root, e, slot, revName)
			switch cls {
			case "old":
				vsWriteTree(p, "old-"+e+"-"+slot)
			case "blocked":
				vsMust(os.Symlink("/nonexistent/verif-dangling", p))
			case "oldfile":
				vsMust(os.WriteFile(p, []byte("oldfile-"+e+"-"+slot+"\n"), 0644))
			}
		}
	}
	digest := func() map[string]interface{} {
		w := vsWalk(root)
		out := map[string]interface{}{}
		for _, e := range c.Entries {
			rel, _ := filepath.Rel(root, vsParent(root, e))
			out[e] = vsDigest(w, rel)
		}
		// everything but the snapshots directory
		h := sha256.New()
		var keys []string
		sdRel, _ := filepath.Rel(root, dirs.SnapshotsDir)
		for k := range w {
			if k != sdRel && !strings.HasPrefix(k, sdRel+"/") {
				keys = append(keys, k)
			}
		}
		sort.Strings(keys)
		for _, k := range keys {
			fmt.Fprintf(h, "%s|%v\n", k, w[k])
		}
		out["all"] = fmt.Sprintf("%x", h.Sum(nil))[:16]
		return out
	}

	emit(map[string]interface{}{"ev": "RStart", "case": c.Case,
		"args": map[string]interface{}{"entries": c.Entries, "saved": c.Saved, "corrupt": c.Corrupt, "inarchive": inArchive,
			"current": c.Current, "tarfailat": c.TarFailAt},
		"obs": snapshotState(), "digest": digest()})

	rd, oerr := Open(zipPath, ExtractFnameSetID)
	if oerr != nil {
		emit(map[string]interface{}{"ev": "RDone", "case": c.Case, "args": map[string]interface{}{"opened": false},
			"obs": map[string]interface{}{"err": true, "state": snapshotState()}, "digest": digest(), "errmsg": oerr.Error()})
		return
	}
	defer rd.Close()
	logs := []string{}
	logf := func(format string, a ...interface{}) { logs = append(logs, fmt.Sprintf(format, a...)) }
	rs, rerr := rd.Restore(context.Background(), current, nil, logf, nil)
	errmsg := ""
	if rerr != nil {
		errmsg = rerr.Error()
	}
	emit(map[string]interface{}{"ev": "RDone", "case": c.Case, "args": map[string]interface{}{"opened": true},
		"obs": map[string]interface{}{"err": rerr != nil, "state": snapshotState()}, "digest": digest(), "errmsg": errmsg, "logs": logs})
	if rerr == nil && rs != nil && c.AfterOp != "" && c.AfterOp != "none" {
		if c.AfterOp == "revert" {
			rs.Revert()
		} else {
			rs.Cleanup()
		}
		emit(map[string]interface{}{"ev": "RAfter", "case": c.Case, "args": map[string]interface{}{"op": c.AfterOp},
			"obs": map[string]interface{}{"state": snapshotState()}, "digest": digest()})
	}
}

// ---------------------------------------------------------------------------- entry point

func TestVerifSnapshotIO(t *testing.T) {
	casesPath := os.Getenv("VERIF_CASES")
	outPath := os.Getenv("VERIF_OUT")
	if casesPath == "" || outPath == "" {
		t.Skip("VERIF_CASES / VERIF_OUT not set")
	}
	if _, err := exec.LookPath("tar"); err != nil {
		t.Fatalf("tar not found: %v", err)
	}
	logger.SetLogger(logger.NullLogger)

	// fixture: one real snapshot file
	fx := &vsFixture{t: t}
	{
		root := t.TempDir()
		dirs.SetRootDir(root)
		vsMust(os.MkdirAll(filepath.Join(root, "home/u1"), 0755))
		restore := vsMockSeams(filepath.Join(root, "home/u1"), nil)
		shot, err := vsSave(root, 7, map[string][]string{"sys": {"common", "rev"}, "usr": {"rev"}})
		if err != nil {
			t.Fatalf("fixture Save failed: %v", err)
		}
		fx.zipData, err = os.ReadFile(Filename(shot))
		vsMust(err)
		restore()
		dirs.SetRootDir("")
		fx.garbage = bytes.Repeat([]byte("garbage!"), len(fx.zipData)/8+8)
	}

	f, err := os.Open(casesPath)
	vsMust(err)
	defer f.Close()
	out, err := os.Create(outPath)
	vsMust(err)
	bw := bufio.NewWriterSize(out, 1<<20)
	emit := func(ev map[string]interface{}) {
		b, err := json.Marshal(ev)
		vsMust(err)
		bw.Write(b)
		bw.WriteByte('\n')
	}
	sc := bufio.NewScanner(f)
	sc.Buffer(make([]byte, 1<<20), 1<<24)
	n := 0
	for sc.Scan() {
		line := strings.TrimSpace(sc.Text())
		if line == "" {
			continue
		}
		c := &vsCase{}
		if err := json.Unmarshal([]byte(line), c); err != nil {
			t.Fatalf("bad case %q: %v", line, err)
		}
		done := make(chan struct{})
		go func() {
			defer close(done)
			if c.Kind == "import" {
				fx.runImport(c, emit)
			} else {
				fx.runRestore(c, emit)
			}
		}()
		select {
		case <-done:
		case <-time.After(120 * time.Second):
			emit(map[string]interface{}{"ev": "Timeout", "case": c.Case})
			bw.Flush()
			t.Fatalf("case %s: watchdog expired", c.Case)
		}
		n++
	}
	vsMust(bw.Flush())
	vsMust(out.Close())
	fmt.Printf("VERIF-SNAPSHOTIO cases=%d\n", n)
}
