// C23 end-to-end: the real seccomp backend synchronising its profile directory through its exported Setup,
// on a success path and on a failing write (a non-empty directory occupying a profile name).
// Added to the package's own external test package with `go test -overlay` (uses its backendSuite and mocks).
// The observations are mapped to the tokens of spec/SyncDir.tla and judged by TLC (spec/TraceSyncDir.tla);
// nothing is decided here.  Output: ndjson lines appended to VERIF_OUT.
package seccomp_test

import (
	"crypto/sha256"
	"encoding/json"
	"fmt"
	"os"
	"path/filepath"
	"sort"

	. "gopkg.in/check.v1"

	"github.com/snapcore/snapd/dirs"
	"github.com/snapcore/snapd/interfaces"
	"github.com/snapcore/snapd/interfaces/ifacetest"
)

type verifC23Obs struct {
	Case    string            `json:"case"`
	Backend string            `json:"backend"`
	Names   map[string]string `json:"names"` // abstract name -> real file name
	Init    map[string]string `json:"init"`
	Des     map[string]string `json:"des"`
	Dir     map[string]string `json:"dir"`
	Err     bool              `json:"err"`
	ErrMsg  string            `json:"errmsg"`
	Extra   []string          `json:"extra"` // entries that match the snap's patterns but are none of the known names
}

func verifC23Hash(p string) string {
	b, err := os.ReadFile(p)
	if err != nil {
		return "unreadable"
	}
	return fmt.Sprintf("%x", sha256.Sum256(b))
}

// token of dir/name relative to the wanted content hash: "a" is the content the backend generates
func verifC23Token(dir, name, wantHash string) string {
	p := filepath.Join(dir, name)
	fi, err := os.Lstat(p)
	if err != nil {
		return "none"
	}
	switch {
	case fi.Mode().IsRegular():
		c := "b"
		if wantHash != "" && verifC23Hash(p) == wantHash {
			c = "a"
		}
		return fmt.Sprintf("f:%s:%o", c, fi.Mode().Perm())
	case fi.IsDir():
		es, _ := os.ReadDir(p)
		if len(es) == 0 {
			return "edir"
		}
		return "ndir"
	case fi.Mode()&os.ModeSymlink != 0:
		return "l:nx"
	}
	return "other"
}

func (s *backendSuite) verifC23Scenario(c *C, scenario string) {
	dir := dirs.SnapSeccompDir
	opts := interfaces.ConfinementOptions{}
	// learn what the backend generates for this snap on a clean directory
	snapInfo := s.InstallSnap(c, opts, "", ifacetest.SambaYamlV1WithNmbd, 1)
	var desired []string
	for _, app := range snapInfo.Apps {
		desired = append(desired, app.SecurityTag()+".src")
	}
	
	sort.Strings(desired)
	c.Assert(len(desired), Equals, 2)
	stale := "snap.samba.stale-profile" + ".src"
	unrelated := "snap.samba-extra.app" + ".src"
	names := map[string]string{"m1": desired[0], "m2": desired[1], "m3": stale, "u1": unrelated}
	want := map[string]string{}
	for _, n := range desired {
		c.Assert(verifC23Token(dir, n, ""), Equals, "f:b:644", Commentf("backend did not generate %s", n))
		want[n] = verifC23Hash(filepath.Join(dir, n))
	}
	// arrange the initial directory of the scenario
	mustNil := func(err error) { c.Assert(err, IsNil) }
	mustNil(os.WriteFile(filepath.Join(dir, unrelated), []byte("unrelated"), 0600))
	mustNil(os.WriteFile(filepath.Join(dir, stale), []byte("stale"), 0644))
	switch scenario {
	case "resync": // m1 in place, m2 with foreign content and mode, stale file to be removed
		mustNil(os.WriteFile(filepath.Join(dir, desired[1]), []byte("tampered"), 0600))
		mustNil(os.Chmod(filepath.Join(dir, desired[1]), 0600))
	case "failclosed": // m1 in place, m2 occupied by a non-empty directory: its write must fail
		mustNil(os.Remove(filepath.Join(dir, desired[1])))
		mustNil(os.Mkdir(filepath.Join(dir, desired[1]), 0755))
		mustNil(os.WriteFile(filepath.Join(dir, desired[1], "keep"), []byte("k"), 0644))
	}
	obs := verifC23Obs{Case: "seccomp-" + scenario, Backend: "seccomp", Names: names, Init: map[string]string{}, Des: map[string]string{},
		Dir: map[string]string{}, Extra: []string{}}
	for a, n := range names {
		obs.Init[a] = verifC23Token(dir, n, want[n])
		obs.Des[a] = "absent"
	}
	obs.Des["m1"], obs.Des["m2"] = "f:a:644", "f:a:644"
	// the call under observation: Setup of the same snap again
	_, err := s.UpdateSnapMaybeErr(c, snapInfo, opts, ifacetest.SambaYamlV1WithNmbd, 1)
	if err != nil {
		obs.Err = true
		obs.ErrMsg = err.Error()
	}
	for a, n := range names {
		obs.Dir[a] = verifC23Token(dir, n, want[n])
	}
	known := map[string]bool{}
	for _, n := range names {
		known[n] = true
	}
	es, rerr := os.ReadDir(dir)
	mustNil(rerr)
	for _, e := range es {
		for _, pat := range []string{"snap.samba.*" + ".src", "snap-update-ns.samba" + ".src"} {
			if ok, _ := filepath.Match(pat, e.Name()); ok && !known[e.Name()] {
				obs.Extra = append(obs.Extra, e.Name())
			}
		}
	}
	f, ferr := os.OpenFile(os.Getenv("VERIF_OUT"), os.O_APPEND|os.O_CREATE|os.O_WRONLY, 0644)
	mustNil(ferr)
	defer f.Close()
	mustNil(json.NewEncoder(f).Encode(&obs))
}

func (s *backendSuite) TestVerifC23Resync(c *C)     { s.verifC23Scenario(c, "resync") }
func (s *backendSuite) TestVerifC23FailClosed(c *C) { s.verifC23Scenario(c, "failclosed") }

var _ = ifacetest.SambaYamlV1
var _ = dirs.GlobalRootDir
