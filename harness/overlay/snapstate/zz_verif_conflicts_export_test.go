// -*- Mode: Go; indent-tabs-mode: t -*-

// C14 driver support: exposes two unexported predicates of conflict.go / snapmgr.go to the external
// test package (same role as export_test.go; add-only overlay file).

package snapstate

var (
	VerifConfChangeIsSnapdDowngrade = changeIsSnapdDowngrade
	VerifConfChangeInFlight         = changeInFlight
)
