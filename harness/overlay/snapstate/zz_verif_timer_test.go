// -*- Mode: Go; indent-tabs-mode: t -*-

// C16 protocol-layer driver (overlay, compiled into the test binary of overlord/snapstate by
// /verif/props/c16.py).  Drives the real autoRefresh.Ensure with a fake store under seeded
// scenarios (timer, last-refresh, refresh.hold, change in flight, store outcome, metered) built
// around the real wall clock (Ensure reads time.Now() directly, so the clock cannot be mocked;
// instead everything else is placed relative to it), and records one event per step for
// TraceRefreshTimer.tla.  Times are seconds since 2018-01-01T00:00:00Z; -1 is the zero time.

package snapstate_test

import (
	"bufio"
	"context"
	"encoding/json"
	"fmt"
	"math/rand"
	"os"
	"strconv"
	"strings"
	"testing"
	"time"

	"github.com/snapcore/snapd/asserts"
	"github.com/snapcore/snapd/asserts/snapasserts"
	"github.com/snapcore/snapd/dirs"
	"github.com/snapcore/snapd/httputil"
	"github.com/snapcore/snapd/interfaces"
	"github.com/snapcore/snapd/logger"
	"github.com/snapcore/snapd/overlord/auth"
	"github.com/snapcore/snapd/overlord/configstate/config"
	"github.com/snapcore/snapd/overlord/ifacestate/ifacerepo"
	"github.com/snapcore/snapd/overlord/snapstate"
	"github.com/snapcore/snapd/overlord/snapstate/snapstatetest"
	"github.com/snapcore/snapd/overlord/state"
	"github.com/snapcore/snapd/snap"
	"github.com/snapcore/snapd/store"
	"github.com/snapcore/snapd/store/storetest"
	"github.com/snapcore/snapd/timeutil"
)

var verifTimerEpoch = time.Date(2018, 1, 1, 0, 0, 0, 0, time.UTC)

func verifTimerSec(t time.Time) int64 {
	if t.IsZero() {
		return -1
	}
	// floor to seconds
	return t.Unix() - verifTimerEpoch.Unix()
}

type verifTimerStore struct {
	storetest.Store
	calls int
	err   error
	hook  func()
}

func (r *verifTimerStore) SnapAction(ctx context.Context, currentSnaps []*store.CurrentSnap, actions []*store.SnapAction, assertQuery store.AssertionQuery, user *auth.UserState, opts *store.RefreshOptions) ([]store.SnapActionResult, []store.AssertionResult, error) {
	r.calls++
	if r.hook != nil {
		r.hook()
	}
	return nil, nil, r.err
}

type verifTimerOut struct {
	w *bufio.Writer
	n int
}

func (o *verifTimerOut) put(v interface{}) {
	b, err := json.Marshal(v)
	if err != nil {
		panic(err)
	}
	o.w.Write(b)
	o.w.WriteByte('\n')
	o.n++
}

type verifTimerWS struct {
	Swd  int `json:"swd"`
	Spos int `json:"spos"`
	Ewd  int `json:"ewd"`
	Epos int `json:"epos"`
}
type verifTimerCS struct {
	S      int  `json:"s"`
	E      int  `json:"e"`
	Split  int  `json:"split"`
	Spread bool `json:"spread"`
}
type verifTimerSched struct {
	WS []verifTimerWS `json:"ws"`
	CS []verifTimerCS `json:"cs"`
}

func verifTimerAST(ss []*timeutil.Schedule) []verifTimerSched {
	out := []verifTimerSched{}
	for _, s := range ss {
		a := verifTimerSched{WS: []verifTimerWS{}, CS: []verifTimerCS{}}
		for _, w := range s.WeekSpans {
			a.WS = append(a.WS, verifTimerWS{int(w.Start.Weekday), int(w.Start.Pos), int(w.End.Weekday), int(w.End.Pos)})
		}
		for _, c := range s.ClockSpans {
			a.CS = append(a.CS, verifTimerCS{c.Start.Hour*60 + c.Start.Minute, c.End.Hour*60 + c.End.Minute, int(c.Split), c.Spread})
		}
		out = append(out, a)
	}
	return out
}

func verifTimerClock(t time.Time) string { return t.Format("15:04") }

func verifTimerWday(t time.Time) string { return strings.ToLower(t.Weekday().String()[:3]) }

func verifTimerNth(t time.Time) int { return (t.Day()-1)/7 + 1 }

// a timer placed relative to `now` (UTC, minute grid; every edge at least 3 minutes away from now)
func verifTimerMake(rng *rand.Rand, now time.Time) string {
	m := func(lo, hi int) time.Duration { return time.Duration(lo+rng.Intn(hi-lo+1)) * time.Minute }
	base := now.Truncate(time.Minute)
	span := func() string {
		sep := "-"
		if rng.Intn(2) == 0 {
			sep = "~"
		}
		var s, e time.Time
		switch rng.Intn(4) {
		case 0: // contains now
			s, e = base.Add(-m(4, 90)), base.Add(m(4, 180))
		case 1: // later today / tomorrow
			s = base.Add(m(5, 20*60))
			e = s.Add(m(0, 120))
		case 2: // earlier
			e = base.Add(-m(4, 10*60))
			s = e.Add(-m(0, 120))
		default: // a point in time
			s = base.Add(m(5, 23*60))
			e = s
		}
		if e.Sub(s) >= 24*time.Hour {
			e = s.Add(23 * time.Hour)
		}
		out := verifTimerClock(s)
		if !e.Equal(s) {
			out += sep + verifTimerClock(e)
			if rng.Intn(3) == 0 && s.Day() == e.Day() {
				// only splits that divide the span evenly (minutes); a split span that crosses midnight is
				// left to the query layer (see notes/C16.md, finding 1)
				mins := int(e.Sub(s) / time.Minute)
				for _, n := range []int{2, 3, 4} {
					if mins%n == 0 && mins/n >= 8 {
						out += "/" + strconv.Itoa(n)
						break
					}
				}
			}
		}
		return out
	}
	week := func() string {
		day := now.AddDate(0, 0, rng.Intn(3)-1) // yesterday, today, tomorrow
		switch rng.Intn(5) {
		case 0:
			return verifTimerWday(day)
		case 1:
			return verifTimerWday(day) + strconv.Itoa(verifTimerNth(day))
		case 2:
			return verifTimerWday(day) + "-" + verifTimerWday(day.AddDate(0, 0, 1+rng.Intn(5)))
		case 3:
			return verifTimerWday(day) + strconv.Itoa(verifTimerNth(day)) + "-" + verifTimerWday(day.AddDate(0, 0, 1+rng.Intn(5)))
		default:
			return verifTimerWday(now.AddDate(0, 0, 3)) // no window for days
		}
	}
	eventset := func() string {
		var parts []string
		if rng.Intn(3) == 0 {
			parts = append(parts, week())
		}
		parts = append(parts, span())
		if rng.Intn(4) == 0 {
			parts = append(parts, span())
		}
		return strings.Join(parts, ",")
	}
	switch rng.Intn(8) {
	case 0:
		return "" // unset: the default timer
	case 1:
		return eventset() + ",," + eventset()
	case 2:
		return week()
	default:
		return eventset()
	}
}

const verifTimerDefault = "00:00~24:00/4"

func TestVerifTimer(t *testing.T) {
	outPath := os.Getenv("VERIF_OUT")
	timersPath := os.Getenv("VERIF_SCHEDS")
	if outPath == "" || timersPath == "" {
		t.Skip("VERIF_OUT / VERIF_SCHEDS not set")
	}
	seed, _ := strconv.ParseInt(os.Getenv("VERIF_SEED"), 10, 64)
	nScen, _ := strconv.Atoi(os.Getenv("VERIF_N"))
	if nScen == 0 {
		nScen = 50
	}
	rng := rand.New(rand.NewSource(seed))

	oldLocal := time.Local
	time.Local = time.UTC
	defer func() { time.Local = oldLocal }()

	_, restoreLog := logger.MockLogger()
	defer restoreLog()

	f, err := os.Create(outPath)
	if err != nil {
		t.Fatal(err)
	}
	defer f.Close()
	out := &verifTimerOut{w: bufio.NewWriter(f)}
	defer out.w.Flush()
	tf, err := os.Create(timersPath)
	if err != nil {
		t.Fatal(err)
	}
	defer tf.Close()
	timers := &verifTimerOut{w: bufio.NewWriter(tf)}
	defer timers.w.Flush()
	timerID := map[string]int{}
	idOf := func(str string) int {
		eff := str
		if eff == "" {
			eff = verifTimerDefault
		}
		if id, ok := timerID[eff]; ok {
			return id
		}
		sched, err := timeutil.ParseSchedule(eff)
		if err != nil {
			t.Fatalf("driver built an invalid timer %q: %v", eff, err)
		}
		timers.put(map[string]interface{}{"id": timers.n + 1, "str": eff, "timer": verifTimerAST(sched)})
		timerID[eff] = timers.n
		return timers.n
	}

	dirs.SetRootDir(t.TempDir())
	defer dirs.SetRootDir("")

	snapstate.CanAutoRefresh = func(*state.State) (bool, error) { return true, nil }
	defer func() { snapstate.CanAutoRefresh = nil }()
	snapstate.AutoAliases = func(*state.State, *snap.Info) (map[string]string, error) { return nil, nil }
	defer func() { snapstate.AutoAliases = nil }()
	metered := false
	restoreMetered := snapstate.MockIsOnMeteredConnection(func() (bool, error) { return metered, nil })
	defer restoreMetered()
	defer snapstatetest.MockDeviceModel(DefaultModel())()
	defer snapstate.MockEnforcedValidationSets(func(st *state.State, extraVss ...*asserts.ValidationSet) (*snapasserts.ValidationSets, error) {
		return snapasserts.NewValidationSets(), nil
	})()

	ensures := 0
	for sc := 0; sc < nScen; sc++ {
		st := state.New(nil)
		fstore := &verifTimerStore{}
		st.Lock()
		snapstate.ReplaceStore(st, fstore)
		ifacerepo.Replace(st, interfaces.NewRepository())
		snapstate.Set(st, "some-snap", &snapstate.SnapState{
			Active: true,
			Sequence: snapstatetest.NewSequenceFromSnapSideInfos([]*snap.SideInfo{
				{RealName: "some-snap", Revision: snap.R(5), SnapID: "some-snap-id"},
			}),
			Current:  snap.R(5),
			SnapType: "app",
			UserID:   1,
		})
		st.Set("seeded", true)
		st.Set("seed-time", time.Now())
		st.Set("refresh-privacy-key", "privacy-key")
		st.Unlock()

		af := snapstate.NewAutoRefresh(st)
		out.put(map[string]interface{}{"ev": "Restart", "case": fmt.Sprintf("s%d", sc)})

		var inflightChg *state.Change
		timerStr := ""
		// world as last written by the driver
		getWorld := func() (last, hold int64, inflight bool) {
			st.Lock()
			defer st.Unlock()
			var lr time.Time
			st.Get("last-refresh", &lr)
			last = verifTimerSec(lr)
			var hv string
			tr := config.NewTransaction(st)
			tr.Get("core", "refresh.hold", &hv)
			hold = -1
			if hv == "forever" {
				hold = 2000000000
			} else if hv != "" {
				ht, err := time.Parse(time.RFC3339, hv)
				if err != nil {
					t.Fatalf("bad hold %q", hv)
				}
				hold = verifTimerSec(ht)
			}
			for _, chg := range st.Changes() {
				if chg.Kind() == "auto-refresh" && !chg.IsReady() {
					inflight = true
				}
			}
			return
		}

		steps := 1 + rng.Intn(3)
		for step := 0; step < steps; step++ {
			now := time.Now().UTC()
			sec := func(d time.Duration) time.Time { return now.Add(d).Truncate(time.Second) }
			// --- environment step
			st.Lock()
			tr := config.NewTransaction(st)
			if step == 0 || rng.Intn(3) == 0 {
				timerStr = verifTimerMake(rng, now)
				if timerStr == "" {
					tr.Set("core", "refresh.timer", nil)
				} else {
					tr.Set("core", "refresh.timer", timerStr)
				}
			}
			if step == 0 || rng.Intn(2) == 0 {
				lasts := []time.Duration{-time.Minute, -7 * time.Minute, -2 * time.Hour, -26 * time.Hour, -30 * 24 * time.Hour,
					-95*24*time.Hour + 30*time.Minute, -95*24*time.Hour - 10*time.Minute, -94 * 24 * time.Hour, -200 * 24 * time.Hour}
				k := rng.Intn(len(lasts) + 1)
				if k == len(lasts) {
					if step == 0 {
						st.Set("last-refresh", nil)
					}
				} else {
					st.Set("last-refresh", sec(lasts[k]))
				}
			}
			switch rng.Intn(6) {
			case 0:
				tr.Set("core", "refresh.hold", sec(time.Hour))
			case 1:
				tr.Set("core", "refresh.hold", sec(-5*time.Minute))
			case 2:
				tr.Set("core", "refresh.hold", sec(-3*24*time.Hour))
			case 3:
				if rng.Intn(3) == 0 {
					tr.Set("core", "refresh.hold", "forever")
				}
			default:
				if step == 0 || rng.Intn(2) == 0 {
					tr.Set("core", "refresh.hold", nil)
				}
			}
			useMetered := rng.Intn(8) == 0
			if useMetered {
				tr.Set("core", "refresh.metered", "hold")
			} else {
				tr.Set("core", "refresh.metered", nil)
			}
			metered = useMetered
			tr.Commit()
			if inflightChg != nil && rng.Intn(2) == 0 {
				inflightChg.SetStatus(state.DoneStatus)
				inflightChg = nil
			} else if inflightChg == nil && rng.Intn(8) == 0 {
				inflightChg = st.NewChange("auto-refresh", "...")
				inflightChg.AddTask(st.NewTask("nop", "..."))
			}
			st.Unlock()
			// a previously computed nextRefresh that has become due in the meantime (time cannot be
			// advanced, so the field is moved instead)
			poked := false
			if step > 0 && rng.Intn(6) == 0 {
				snapstate.MockNextRefresh(af, sec(-time.Duration(10+rng.Intn(3*24*60))*time.Minute))
				poked = true
			}
			// store outcome
			outcome := "ok"
			fstore.err = nil
			fstore.hook = nil
			var heldTo time.Time
			switch rng.Intn(7) {
			case 0:
				outcome = "neterr"
				fstore.err = &httputil.PersistentNetworkError{Err: fmt.Errorf("verif")}
			case 1:
				outcome = "held"
				heldTo = sec(2 * time.Hour)
				fstore.hook = func() {
					st.Lock()
					tr := config.NewTransaction(st)
					tr.Set("core", "refresh.hold", heldTo)
					tr.Commit()
					st.Unlock()
				}
			case 2:
				outcome = "ok" // non-persistent error: still counts as a refresh attempt
				fstore.err = fmt.Errorf("verif: transient")
			}

			last, hold, inflight := getWorld()
			env := map[string]interface{}{"ev": "Env", "case": fmt.Sprintf("s%d.%d", sc, step), "sched": idOf(timerStr),
				"last": last, "hold": hold, "inflight": inflight, "poked": poked, "next": verifTimerSec(af.NextRefresh())}
			out.put(env)

			// --- the Ensure pass
			calls0 := fstore.calls
			t0 := time.Now()
			err := af.Ensure()
			t1 := time.Now()
			last1, hold1, inflight1 := getWorld()
			errStr := ""
			if err != nil {
				errStr = err.Error()
			}
			out.put(map[string]interface{}{"ev": "Ensure", "case": fmt.Sprintf("s%d.%d timer=%q", sc, step, timerStr),
				"now0": verifTimerSec(t0), "now1": verifTimerSec(t1), "out": outcome, "metered": useMetered,
				"next": verifTimerSec(af.NextRefresh()), "last": last1, "hold": hold1, "inflight": inflight1,
				"attempted": fstore.calls > calls0, "err": errStr,
				"slow": t1.Sub(t0) > 400*time.Millisecond})
			ensures++
			if inflight1 && inflightChg == nil {
				// a change created by the launch itself
				st.Lock()
				for _, chg := range st.Changes() {
					if chg.Kind() == "auto-refresh" && !chg.IsReady() {
						inflightChg = chg
					}
				}
				st.Unlock()
			}
		}
	}
	t.Logf("VERIF scenarios=%d ensures=%d timers=%d", nScen, ensures, timers.n)
}
