// -*- Mode: Go; indent-tabs-mode: t -*-

// C14 driver (spec: /verif/spec/Conflicts.tla). Compiled into overlord/snapstate's test binary with
// `go test -overlay`. Issues request histories through the REAL public entry points of snapstate with
// in-progress changes left unsettled (their tasks are never run), and records one NDJSON event per
// request with the observed outcome (accepted / *ChangeConflictError), and the real change list:
// kind, readiness and the union of SnapsAffectedByTask over each change's tasks.

package snapstate_test

import (
	"bufio"
	"context"
	"encoding/json"
	"fmt"
	"math/rand"
	"os"
	"sort"
	"strconv"
	"strings"
	"testing"

	. "gopkg.in/check.v1"

	"github.com/snapcore/snapd/overlord/auth"
	"github.com/snapcore/snapd/overlord/snapstate"
	"github.com/snapcore/snapd/overlord/snapstate/snapstatetest"
	"github.com/snapcore/snapd/overlord/state"
	"github.com/snapcore/snapd/snap"
	"github.com/snapcore/snapd/store"
)

// spec name -> real snap name (names the fake store can install and refresh)
var verifConfReal = map[string]string{"a": "some-snap", "b": "some-other-snap", "c": "services-snap", "snapd": "snapd"}
var verifConfSpec = map[string]string{"some-snap": "a", "some-other-snap": "b", "services-snap": "c", "snapd": "snapd"}
var verifConfSnaps = []string{"a", "b", "c"}

type verifConfStore struct {
	*fakeStore
	hook func()
}

func (f *verifConfStore) SnapAction(ctx context.Context, currentSnaps []*store.CurrentSnap, actions []*store.SnapAction, assertQuery store.AssertionQuery, user *auth.UserState, opts *store.RefreshOptions) ([]store.SnapActionResult, []store.AssertionResult, error) {
	if f.hook != nil {
		h := f.hook
		f.hook = nil
		h()
	}
	return f.fakeStore.SnapAction(ctx, currentSnaps, actions, assertQuery, user, opts)
}

type verifConfChange struct {
	Kind  string   `json:"kind"`
	Ready bool     `json:"ready"`
	Snaps []string `json:"snaps"`
	Down  bool     `json:"down"`
	Done  []string `json:"done"` // snaps all of whose tasks in this (unready) change are ready
}

// verifConfACfg is the automatic-alias situation of a history (spec variable acfg), in spec snap names
type verifConfACfg struct {
	New  []string `json:"new"`  // the snap-declaration gives these snaps a new automatic alias
	Drop []string `json:"drop"` // these snaps hold an automatic alias that is gone from their snap-declaration
	Xsrc []string `json:"xsrc"` // (at most one) holds automatic alias "verifmoved", which now belongs to ...
	Xdst []string `json:"xdst"` // ... this snap
}

func verifConfNoACfg() verifConfACfg {
	return verifConfACfg{New: []string{}, Drop: []string{}, Xsrc: []string{}, Xdst: []string{}}
}

func verifConfIn(l []string, x string) bool {
	for _, y := range l {
		if x == y {
			return true
		}
	}
	return false
}

type verifConfSt struct {
	Changes []verifConfChange `json:"changes"`
	ACfg    verifConfACfg     `json:"acfg"`
	Status  map[string]string `json:"status"`
	Same    bool              `json:"same"`
	NChg    int               `json:"nchg"`
}

type verifConfEv struct {
	Ev   string                 `json:"ev"`
	Case int                    `json:"case"`
	Args map[string]interface{} `json:"args"`
	Res  map[string]interface{} `json:"res"`
	St   verifConfSt            `json:"st"`
}

type verifConfSuite struct {
	snapmgrBaseTest
	vstore *verifConfStore
	w      *bufio.Writer
	caseN  int
	chgs   []*state.Change // changes of the current history, creation order
	acfg   verifConfACfg
	nextA  *verifConfACfg // alias situation for the next history (nil: none, or random for random histories)
	aliasH int
	// stats
	requests, accepted, conflicts int
	classes                       map[string]bool
}

// gocheck fixture hooks are overridden: the driver sets up a fresh fixture every VERIF_PER_FIXTURE histories
func (s *verifConfSuite) SetUpTest(c *C)    {}
func (s *verifConfSuite) TearDownTest(c *C) {}

func (s *verifConfSuite) fixtureUp(c *C) {
	s.snapmgrBaseTest.SetUpTest(c)
	s.vstore = &verifConfStore{fakeStore: s.fakeStore}
	s.state.Lock()
	snapstate.ReplaceStore(s.state, s.vstore)
	s.state.Unlock()
	// the snap-declaration side of the automatic aliases, per history (s.acfg)
	snapstate.AutoAliases = func(_ *state.State, info *snap.Info) (map[string]string, error) {
		sn, ok := verifConfSpec[info.InstanceName()]
		if !ok {
			return nil, nil
		}
		res := map[string]string{}
		if verifConfIn(s.acfg.New, sn) {
			res["verifnew-"+sn] = "cmd1"
		}
		if verifConfIn(s.acfg.Xdst, sn) {
			res["verifmoved"] = "cmd1"
		}
		return res, nil
	}
	baseRead := s.fakeBackend.ReadInfo
	s.AddCleanup(snapstate.MockSnapReadInfo(func(name string, si *snap.SideInfo) (*snap.Info, error) {
		if name == "snapd" {
			v := map[int]string{1: "2.56", 2: "2.57.1", 3: "2.58"}[si.Revision.N]
			return &snap.Info{SuggestedName: name, Version: v, Architectures: []string{"all"}, SideInfo: *si, SnapType: snap.TypeSnapd}, nil
		}
		return baseRead(name, si)
	}))
}

func (s *verifConfSuite) fixtureDown(c *C) {
	s.snapmgrBaseTest.TearDownTest(c)
}

func verifConfSeq(name string, revs ...int) *snapstate.SnapState {
	var sis []*snap.SideInfo
	for _, r := range revs {
		sis = append(sis, &snap.SideInfo{RealName: name, SnapID: name + "-id", Revision: snap.R(r), Channel: "latest/stable"})
	}
	return &snapstate.SnapState{
		Sequence:        snapstatetest.NewSequenceFromSnapSideInfos(sis),
		TrackingChannel: "latest/stable",
		SnapType:        "app",
	}
}

// state locked
func (s *verifConfSuite) setStatus(spec, status string) {
	name := verifConfReal[spec]
	if status == "absent" {
		snapstate.Set(s.state, name, nil)
		return
	}
	snapst := verifConfSeq(name, 5, 7)
	snapst.Current = snap.R(7)
	snapst.Active = status != "inactive"
	// "uptodate": the store has nothing newer than the current revision
	if s.fakeStore.refreshRevnos == nil {
		s.fakeStore.refreshRevnos = map[string]snap.Revision{}
	}
	if status == "uptodate" {
		s.fakeStore.refreshRevnos[name+"-id"] = snap.R(7)
	} else {
		delete(s.fakeStore.refreshRevnos, name+"-id")
	}
	// the recorded side of the automatic aliases
	if verifConfIn(s.acfg.Drop, spec) || verifConfIn(s.acfg.Xsrc, spec) {
		snapst.Aliases = map[string]*snapstate.AliasTarget{}
		if verifConfIn(s.acfg.Drop, spec) {
			snapst.Aliases["verifgone-"+spec] = &snapstate.AliasTarget{Auto: "cmd1"}
		}
		if verifConfIn(s.acfg.Xsrc, spec) {
			snapst.Aliases["verifmoved"] = &snapstate.AliasTarget{Auto: "cmd1"}
		}
	}
	snapstate.Set(s.state, name, snapst)
}

// state locked
func (s *verifConfSuite) status(spec string) string {
	var snapst snapstate.SnapState
	err := snapstate.Get(s.state, verifConfReal[spec], &snapst)
	if err != nil || !snapst.IsInstalled() {
		return "absent"
	}
	if snapst.Active {
		if s.fakeStore.refreshRevnos[verifConfReal[spec]+"-id"] == snapst.Current {
			return "uptodate"
		}
		return "active"
	}
	return "inactive"
}

func (s *verifConfSuite) snapsDigest() string {
	var raw map[string]*json.RawMessage
	s.state.Get("snaps", &raw)
	b, _ := json.Marshal(raw)
	return string(b)
}

// state locked
func (s *verifConfSuite) project(c *C, same bool) verifConfSt {
	var ps verifConfSt
	ps.Same = same
	ps.ACfg = s.acfg
	ps.NChg = len(s.state.Changes())
	ps.Status = map[string]string{}
	for _, n := range append(append([]string{}, verifConfSnaps...), "snapd") {
		ps.Status[n] = s.status(n)
	}
	ps.Changes = []verifConfChange{}
	for _, chg := range s.chgs {
		pc := verifConfChange{Kind: chg.Kind(), Ready: chg.IsReady(), Snaps: []string{}, Done: []string{}}
		if pc.Ready != chg.Status().Ready() {
			c.Fatalf("IsReady and Status().Ready() disagree for %s", chg.Kind())
		}
		if pc.Ready {
			pc = verifConfChange{Kind: "done", Ready: true, Snaps: []string{}, Done: []string{}}
		} else {
			set := map[string]bool{}
			pending := map[string]bool{}
			for _, t := range chg.Tasks() {
				names, err := snapstate.SnapsAffectedByTask(t)
				c.Assert(err, IsNil)
				for _, n := range names {
					sn, ok := verifConfSpec[n]
					if !ok {
						sn = "?" + n
					}
					set[sn] = true
					if !t.Status().Ready() {
						pending[sn] = true
					}
				}
			}
			for n := range set {
				pc.Snaps = append(pc.Snaps, n)
				if !pending[n] {
					pc.Done = append(pc.Done, n)
				}
			}
			sort.Strings(pc.Snaps)
			sort.Strings(pc.Done)
			if chg.Kind() == "refresh-snap" || chg.Kind() == "revert-snap" {
				down, err := snapstate.VerifConfChangeIsSnapdDowngrade(s.state, chg)
				c.Assert(err, IsNil)
				pc.Down = down
			}
		}
		ps.Changes = append(ps.Changes, pc)
	}
	return ps
}

func (s *verifConfSuite) emit(c *C, ev string, args, res map[string]interface{}, same bool) {
	if res == nil {
		res = map[string]interface{}{"result": "none"}
	}
	e := verifConfEv{Ev: ev, Case: s.caseN, Args: args, Res: res, St: s.project(c, same)}
	b, err := json.Marshal(e)
	c.Assert(err, IsNil)
	s.w.Write(b)
	s.w.WriteByte('\n')
}

func verifConfKind(op string) string {
	switch op {
	case "install", "install-many":
		return "install-snap"
	case "refresh", "refresh-many", "refresh-all", "refresh-from", "snapd-refresh-down", "snapd-refresh-up":
		return "refresh-snap"
	case "revert", "snapd-revert-down":
		return "revert-snap"
	case "remove", "remove-many":
		return "remove-snap"
	case "enable":
		return "enable-snap"
	case "disable":
		return "disable-snap"
	case "switch":
		return "switch-snap"
	case "prefer":
		return "prefer-aliases"
	}
	return op
}

func verifConfRealNames(S []string) []string {
	var out []string
	for _, n := range S {
		out = append(out, verifConfReal[n])
	}
	return out
}

// request issues op on S through the real entry point; returns task sets and error. state locked.
func (s *verifConfSuite) request(c *C, op string, S []string, from *state.Change, mutated []string) ([]*state.TaskSet, error) {
	st := s.state
	one := func(ts *state.TaskSet, err error) ([]*state.TaskSet, error) {
		if err != nil {
			return nil, err
		}
		return []*state.TaskSet{ts}, nil
	}
	name := ""
	if len(S) > 0 {
		name = verifConfReal[S[0]]
	}
	// the "somebody else changed the snap record while we were talking to the store" window
	var restore []func()
	if len(mutated) > 0 {
		s.vstore.hook = func() {
			st.Lock()
			defer st.Unlock()
			for _, m := range mutated {
				rn := verifConfReal[m]
				var old snapstate.SnapState
				err := snapstate.Get(st, rn, &old)
				if err != nil {
					// absent: somebody installed it meanwhile
					nu := verifConfSeq(rn, 7)
					nu.Current = snap.R(7)
					nu.Active = true
					snapstate.Set(st, rn, nu)
					restore = append(restore, func() { snapstate.Set(st, rn, nil) })
				} else {
					nu := old
					nu.CohortKey = "changed-meanwhile"
					snapstate.Set(st, rn, &nu)
					keep := old
					restore = append(restore, func() { snapstate.Set(st, rn, &keep) })
				}
			}
		}
	}
	defer func() {
		if s.vstore.hook != nil {
			c.Fatalf("store was not contacted by %s %v: mutation window not exercised", op, S)
		}
		for _, r := range restore {
			r()
		}
	}()
	fromID := ""
	if from != nil {
		fromID = from.ID()
	}
	switch op {
	case "install":
		return one(snapstate.Install(context.Background(), st, name, &snapstate.RevisionOptions{Channel: "stable"}, s.user.ID, snapstate.Flags{}))
	case "refresh":
		return one(snapstate.Update(st, name, &snapstate.RevisionOptions{Channel: "stable"}, s.user.ID, snapstate.Flags{}))
	case "refresh-from":
		return one(snapstate.UpdateWithDeviceContext(st, name, &snapstate.RevisionOptions{Channel: "stable"}, s.user.ID, snapstate.Flags{}, nil, nil, fromID))
	case "revert":
		return one(snapstate.Revert(st, name, snapstate.Flags{}, ""))
	case "remove":
		return one(snapstate.Remove(st, name, snap.R(0), nil))
	case "enable":
		return one(snapstate.Enable(st, name))
	case "disable":
		return one(snapstate.Disable(st, name))
	case "switch":
		return one(snapstate.Switch(st, name, &snapstate.RevisionOptions{Channel: "some-channel"}))
	case "alias":
		return one(snapstate.Alias(st, name, "cmd1", "verifalias"+S[0]))
	case "unalias":
		return one(snapstate.DisableAllAliases(st, name))
	case "prefer":
		return one(snapstate.Prefer(st, name))
	case "install-many":
		_, tss, err := snapstate.InstallMany(st, verifConfRealNames(S), nil, s.user.ID, &snapstate.Flags{})
		return tss, err
	case "refresh-many":
		_, tss, err := snapstate.UpdateMany(context.Background(), st, verifConfRealNames(S), nil, s.user.ID, &snapstate.Flags{})
		return tss, err
	case "refresh-all":
		_, tss, err := snapstate.UpdateMany(context.Background(), st, nil, nil, s.user.ID, &snapstate.Flags{})
		ntasks := 0
		for _, ts := range tss {
			ntasks += len(ts.Tasks())
		}
		if err == nil && ntasks == 0 {
			// the API layer creates no in-progress change when there are no task sets (the change is Done at once)
			return nil, nil
		}
		return tss, err
	case "remove-many":
		_, tss, err := snapstate.RemoveMany(st, verifConfRealNames(S), nil)
		return tss, err
	case "snapd-revert-down":
		return one(snapstate.Revert(st, "snapd", snapstate.Flags{}, ""))
	case "snapd-refresh-down":
		return one(snapstate.Update(st, "snapd", &snapstate.RevisionOptions{Revision: snap.R(1)}, s.user.ID, snapstate.Flags{}))
	case "snapd-refresh-up":
		return one(snapstate.Update(st, "snapd", &snapstate.RevisionOptions{Revision: snap.R(3)}, s.user.ID, snapstate.Flags{}))
	case "remodel", "create-recovery-system", "remove-recovery-system":
		// devicestate.Remodel / CreateRecoverySystem / RemoveRecoverySystem: exclusive check first, then
		// per-snap work through snapstate (conflict-checked per snap)
		if err := snapstate.CheckChangeConflictRunExclusively(st, op); err != nil {
			return nil, err
		}
		if err := snapstate.CheckChangeConflictMany(st, verifConfRealNames(S), ""); err != nil {
			return nil, err
		}
		return []*state.TaskSet{s.setupTasks(op+"-task", S)}, nil
	case "transition-ubuntu-core", "transition-to-snapd-snap":
		// SnapManager.ensureUbuntuCoreTransition / ensureSnapdSnapTransition: only when nothing is in flight
		if snapstate.VerifConfChangeInFlight(st) {
			return nil, &snapstate.ChangeConflictError{Message: "change in flight (transition postponed)"}
		}
		return []*state.TaskSet{state.NewTaskSet(st.NewTask("verif-transition-task", "..."))}, nil
	}
	c.Fatalf("unknown op %q", op)
	return nil, nil
}

func (s *verifConfSuite) setupTasks(kind string, S []string) *state.TaskSet {
	ts := state.NewTaskSet()
	if len(S) == 0 {
		ts.AddTask(s.state.NewTask(kind, "..."))
	}
	for _, n := range S {
		t := s.state.NewTask(kind, "...")
		t.Set("snap-setup", &snapstate.SnapSetup{SideInfo: &snap.SideInfo{RealName: verifConfReal[n], Revision: snap.R(11)}})
		ts.AddTask(t)
	}
	return ts
}

// partial finishes every task of chg that names snap sn (status st: Done / Undone / Error / Hold) provided the
// change stays unready afterwards (another lane, or trailing tasks naming no snap, still to do). state locked.
func (s *verifConfSuite) partial(c *C, idx int, sn string, st state.Status) bool {
	chg := s.chgs[idx-1]
	var mine []*state.Task
	rest := 0
	for _, t := range chg.Tasks() {
		names, err := snapstate.SnapsAffectedByTask(t)
		c.Assert(err, IsNil)
		hit := false
		for _, n := range names {
			if verifConfSpec[n] == sn {
				hit = true
			}
		}
		if hit && !t.Status().Ready() {
			mine = append(mine, t)
		} else if !t.Status().Ready() {
			rest++
		}
	}
	if len(mine) == 0 || rest == 0 {
		return false
	}
	for _, t := range mine {
		t.SetStatus(st)
	}
	c.Assert(chg.IsReady(), Equals, false)
	s.emit(c, "Partial", map[string]interface{}{"c": idx, "s": sn, "how": st.String()}, nil, true)
	return true
}

// partialCandidates lists (change index, snap) with unfinished tasks naming the snap
func (s *verifConfSuite) partialCandidates(c *C) [][2]interface{} {
	var out [][2]interface{}
	for _, idx := range s.live() {
		seen := map[string]bool{}
		for _, t := range s.chgs[idx-1].Tasks() {
			if t.Status().Ready() {
				continue
			}
			names, err := snapstate.SnapsAffectedByTask(t)
			c.Assert(err, IsNil)
			for _, n := range names {
				if sn, ok := verifConfSpec[n]; ok && !seen[sn] {
					seen[sn] = true
					out = append(out, [2]interface{}{idx, sn})
				}
			}
		}
	}
	return out
}

var verifConfReadyStatuses = []state.Status{state.DoneStatus, state.DoneStatus, state.UndoneStatus, state.ErrorStatus, state.HoldStatus}

// verifConfAbort makes an in-progress change ready the way an abort would: a fresh change through the real
// Change.Abort (Do -> Hold); a change with finished lanes by "running" their undo first (Done -> Undone) and then
// holding the rest (Change.Abort itself cannot be used there without a task runner: it passes through a state in
// which every task is ready before it flips the finished ones to Undo, which the state package rejects).
func verifConfAbort(chg *state.Change) {
	fresh := true
	for _, t := range chg.Tasks() {
		if t.Status() != state.DoStatus {
			fresh = false
		}
	}
	if fresh {
		chg.Abort()
		return
	}
	for _, t := range chg.Tasks() {
		if t.Status() == state.DoneStatus {
			t.SetStatus(state.UndoneStatus)
		}
	}
	for _, t := range chg.Tasks() {
		if !t.Status().Ready() {
			t.SetStatus(state.HoldStatus)
		}
	}
}

func verifConfPick(r *rand.Rand, l []string) string { return l[r.Intn(len(l))] }

func verifConfEnvInt(name string, def int) int {
	if v := os.Getenv(name); v != "" {
		if n, err := strconv.Atoi(v); err == nil {
			return n
		}
	}
	return def
}

func (s *verifConfSuite) snapsWith(pred func(string) bool) []string {
	var out []string
	for _, n := range verifConfSnaps {
		if pred(s.status(n)) {
			out = append(out, n)
		}
	}
	return out
}

func (s *verifConfSuite) live() []int {
	var out []int
	for i, chg := range s.chgs {
		if !chg.IsReady() {
			out = append(out, i+1)
		}
	}
	return out
}

func verifConfSubset(r *rand.Rand, l []string, min int) []string {
	if len(l) < min {
		return nil
	}
	for {
		var out []string
		for _, x := range l {
			if r.Intn(2) == 0 {
				out = append(out, x)
			}
		}
		if len(out) >= min {
			return out
		}
	}
}

// one random step of a history; state locked
func (s *verifConfSuite) step(c *C, r *rand.Rand) {
	active := s.snapsWith(func(x string) bool { return x == "active" })
	activeLike := s.snapsWith(func(x string) bool { return x == "active" || x == "uptodate" })
	inactive := s.snapsWith(func(x string) bool { return x == "inactive" })
	absent := s.snapsWith(func(x string) bool { return x == "absent" })
	installed := s.snapsWith(func(x string) bool { return x != "absent" })
	live := s.live()

	p := r.Intn(100)
	switch {
	case p < 12 && len(live) > 0:
		i := live[r.Intn(len(live))]
		chg := s.chgs[i-1]
		how := "abort"
		if r.Intn(2) == 0 {
			how = "done"
			for _, t := range chg.Tasks() {
				t.SetStatus(state.DoneStatus)
			}
		} else {
			verifConfAbort(chg)
		}
		s.emit(c, "Progress", map[string]interface{}{"c": i, "how": how}, nil, true)
		return
	case p < 26:
		// partial progress: one snap's lane of an in-progress change finishes, the change keeps running
		pcs := s.partialCandidates(c)
		r.Shuffle(len(pcs), func(i, j int) { pcs[i], pcs[j] = pcs[j], pcs[i] })
		for _, pc := range pcs {
			if s.partial(c, pc[0].(int), pc[1].(string), verifConfReadyStatuses[r.Intn(len(verifConfReadyStatuses))]) {
				return
			}
		}
		// nothing to advance partially: fall through to a request
	case p < 34:
		kind := verifConfPick(r, []string{"pre-download", "become-operational"})
		T := []string{verifConfPick(r, verifConfSnaps)}
		chg := s.state.NewChange(kind, "...")
		tk := "pre-download-snap"
		if kind == "become-operational" {
			tk = "verif-become-operational-task"
		}
		chg.AddAll(s.setupTasks(tk, T))
		s.chgs = append(s.chgs, chg)
		s.emit(c, "Inject", map[string]interface{}{"kind": kind, "T": T}, nil, true)
		return
	}

	// a request
	type cand struct {
		op      string
		S       []string
		from    int
		mutated []string
	}
	var cands []cand
	add := func(op string, S []string) {
		if S != nil {
			cands = append(cands, cand{op: op, S: S})
		}
	}
	one := func(l []string) []string {
		if len(l) == 0 {
			return nil
		}
		return []string{verifConfPick(r, l)}
	}
	for _, op := range []string{"refresh", "refresh"} {
		add(op, one(active))
	}
	for _, op := range []string{"revert", "disable", "switch", "alias", "unalias", "prefer"} {
		add(op, one(activeLike))
	}
	add("install", one(absent))
	add("install", one(absent))
	add("enable", one(inactive))
	add("remove", one(installed))
	add("remove", one(installed))
	add("install-many", verifConfSubset(r, absent, 2))
	add("refresh-many", verifConfSubset(r, active, 2))
	add("remove-many", verifConfSubset(r, installed, 2))
	if len(activeLike) > 0 {
		all := active
		if all == nil {
			all = []string{}
		}
		add("refresh-all", all)
		if len(s.acfg.New)+len(s.acfg.Drop)+len(s.acfg.Xsrc) > 0 {
			add("refresh-all", all)
			add("refresh-all", all)
		}
	}
	for _, op := range []string{"snapd-revert-down", "snapd-refresh-down", "snapd-refresh-up"} {
		cands = append(cands, cand{op: op, S: []string{"snapd"}})
	}
	for _, op := range []string{"remodel", "create-recovery-system", "remove-recovery-system"} {
		T := []string{}
		if r.Intn(2) == 0 {
			T = []string{verifConfPick(r, verifConfSnaps)}
		}
		cands = append(cands, cand{op: op, S: T})
	}
	cands = append(cands, cand{op: verifConfPick(r, []string{"transition-ubuntu-core", "transition-to-snapd-snap"}), S: []string{}})
	if len(live) > 0 && len(active) > 0 {
		for k := 0; k < 3; k++ {
			cands = append(cands, cand{op: "refresh-from", S: one(active), from: live[r.Intn(len(live))]})
		}
	}
	cd := cands[r.Intn(len(cands))]
	switch cd.op {
	case "install", "refresh", "install-many", "refresh-many", "refresh-all":
		if r.Intn(4) == 0 && len(cd.S) > 0 {
			cd.mutated = []string{verifConfPick(r, cd.S)}
		}
	}
	s.doRequest(c, cd.op, cd.S, cd.from, cd.mutated)
}

func (s *verifConfSuite) doRequest(c *C, op string, S []string, from int, mutated []string) {
	if mutated == nil {
		mutated = []string{}
	}
	var fromChg *state.Change
	if from > 0 {
		fromChg = s.chgs[from-1]
	}
	before := s.snapsDigest()
	nchg := len(s.state.Changes())
	tss, err := s.request(c, op, S, fromChg, mutated)
	result := "accepted"
	if err != nil {
		if _, ok := err.(*snapstate.ChangeConflictError); ok {
			result = "conflict"
		} else {
			result = "error: " + err.Error()
		}
	}
	s.requests++
	if result == "accepted" {
		s.accepted++
		if fromChg != nil {
			for _, ts := range tss {
				fromChg.AddAll(ts)
			}
		} else if len(tss) > 0 {
			// what the API layer does with the task sets of an accepted request
			chg := s.state.NewChange(verifConfKind(op), "...")
			for _, ts := range tss {
				chg.AddAll(ts)
			}
			s.chgs = append(s.chgs, chg)
		}
	} else if result == "conflict" {
		s.conflicts++
		if len(s.state.Changes()) != nchg {
			result = "conflict-but-created-change"
		}
	}
	same := before == s.snapsDigest()
	var liveKinds []string
	for _, i := range s.live() {
		liveKinds = append(liveKinds, s.chgs[i-1].Kind())
	}
	sort.Strings(liveKinds)
	s.classes[op+"|"+result+"|"+strings.Join(liveKinds, ",")] = true
	s.emit(c, "Request", map[string]interface{}{"op": op, "S": S, "from": from, "mutated": mutated},
		map[string]interface{}{"result": result}, same)
}

// ---- systematic part: every ordered pair (first request left in progress, second request) ----

type verifConfTmpl struct {
	op    string
	many  bool   // operates on {x, c}
	nosnp bool   // no ordinary snap argument (snapd ops, transitions, exclusive with T={})
	need  string // required status of its snaps
}

func verifConfTemplates() []verifConfTmpl {
	var out []verifConfTmpl
	for _, op := range []string{"install", "refresh", "revert", "remove", "enable", "disable", "switch", "alias", "unalias", "prefer"} {
		need := "active"
		if op == "install" {
			need = "absent"
		} else if op == "enable" {
			need = "inactive"
		}
		out = append(out, verifConfTmpl{op: op, need: need})
	}
	out = append(out, verifConfTmpl{op: "remove", need: "inactive"})
	out = append(out, verifConfTmpl{op: "install-many", many: true, need: "absent"})
	out = append(out, verifConfTmpl{op: "refresh-many", many: true, need: "active"})
	out = append(out, verifConfTmpl{op: "remove-many", many: true, need: "active"})
	out = append(out, verifConfTmpl{op: "refresh-all", need: "active"})
	for _, op := range []string{"snapd-revert-down", "snapd-refresh-down", "snapd-refresh-up", "transition-ubuntu-core", "transition-to-snapd-snap"} {
		out = append(out, verifConfTmpl{op: op, nosnp: true})
	}
	for _, op := range []string{"remodel", "create-recovery-system", "remove-recovery-system"} {
		out = append(out, verifConfTmpl{op: op, nosnp: true})
		out = append(out, verifConfTmpl{op: op, need: "any"})
	}
	for _, op := range []string{"pre-download", "become-operational"} {
		out = append(out, verifConfTmpl{op: op, need: "any"})
	}
	return out
}

func (t verifConfTmpl) args(x string) []string {
	switch {
	case t.nosnp && (t.op == "snapd-revert-down" || t.op == "snapd-refresh-down" || t.op == "snapd-refresh-up"):
		return []string{"snapd"}
	case t.nosnp:
		return []string{}
	case t.many:
		l := []string{x, "c"}
		sort.Strings(l)
		return l
	}
	return []string{x}
}

// runPairs: for every ordered pair of templates and same/other snap, with and without progress of the first
func (s *verifConfSuite) runPairs(c *C, newHistory func(status map[string]string)) int {
	tm := verifConfTemplates()
	n := 0
	variants := []string{"plain", "partial", "progress", "mutated"}
	if os.Getenv("VERIF_PAIRS") == "plain" {
		variants = []string{"plain", "partial", "mutated"}
	}
	sample := verifConfEnvInt("VERIF_PAIRS_SAMPLE", 1)
	offset := verifConfEnvInt("VERIF_SEED", 1)
	cand := 0
	for _, first := range tm {
		for _, second := range tm {
			if second.op == "pre-download" || second.op == "become-operational" {
				continue
			}
			for _, y := range []string{"a", "b"} {
				for _, variant := range variants {
					x := "a"
					status := map[string]string{"a": "active", "b": "active", "c": "active"}
					ok := true
					set := func(sn, need string) {
						if need == "any" || need == "" {
							return
						}
						if cur, fixed := status["!"+sn]; fixed && cur != need {
							ok = false
						}
						status[sn] = need
						status["!"+sn] = need
					}
					if !first.nosnp {
						set(x, first.need)
						if first.many {
							set("c", first.need)
						}
					}
					if !second.nosnp {
						set(y, second.need)
						if second.many {
							set("c", second.need)
						}
					}
					if !ok {
						continue
					}
					if second.nosnp && y == "b" {
						continue // no snap argument: one variant is enough
					}
					var mutated []string
					if variant == "mutated" {
						switch second.op {
						case "install", "refresh", "install-many", "refresh-many", "refresh-all":
							mutated = []string{y}
						default:
							continue
						}
					}
					cand++
					if sample > 1 && cand%sample != offset%sample {
						continue // quick tier: every sample-th candidate pair, rotating with the seed
					}
					newHistory(status)
					n++
					if first.op == "pre-download" || first.op == "become-operational" {
						chg := s.state.NewChange(first.op, "...")
						chg.AddAll(s.setupTasks("pre-download-snap", []string{x}))
						s.chgs = append(s.chgs, chg)
						s.emit(c, "Inject", map[string]interface{}{"kind": first.op, "T": []string{x}}, nil, true)
					} else {
						S := first.args(x)
						if first.op == "refresh-all" {
							S = s.snapsWith(func(v string) bool { return v == "active" })
						}
						s.doRequest(c, first.op, S, 0, nil)
					}
					if variant == "partial" {
						// the lane of the first request's snap finishes while its change keeps running
						// (multi-snap changes; single refresh: only check-rerefresh is left), then the
						// second request comes
						live := s.live()
						if first.nosnp || len(live) == 0 || !s.partial(c, live[0], x, verifConfReadyStatuses[n%len(verifConfReadyStatuses)]) {
							continue
						}
					}
					if variant == "progress" {
						live := s.live()
						if len(live) == 0 {
							continue
						}
						verifConfAbort(s.chgs[live[0]-1])
						s.emit(c, "Progress", map[string]interface{}{"c": live[0], "how": "abort"}, nil, true)
					}
					S := second.args(y)
					if second.op == "refresh-all" {
						S = s.snapsWith(func(v string) bool { return v == "active" })
					}
					s.doRequest(c, second.op, S, 0, mutated)
				}
			}
		}
	}
	return n
}

// runAliasDirected: a refresh also operates on snaps it does not refresh -- those whose automatic aliases changed
// (refresh-aliases) or moved away / vanished (prune-auto-aliases). Snap b is the "other" snap: it is left busy by a
// first request, then everything is refreshed (and, for transfers, the transfer target by name).
func (s *verifConfSuite) runAliasDirected(c *C, newHistory func(status map[string]string)) {
	type sit struct {
		a    verifConfACfg
		bSts []string
	}
	mk := func(nw, dr, xs, xd []string) verifConfACfg {
		a := verifConfNoACfg()
		if nw != nil {
			a.New = nw
		}
		if dr != nil {
			a.Drop = dr
		}
		if xs != nil {
			a.Xsrc, a.Xdst = xs, xd
		}
		return a
	}
	B := []string{"b"}
	sits := []sit{
		{mk(B, nil, nil, nil), []string{"uptodate", "active", "inactive"}},
		{mk(nil, B, nil, nil), []string{"uptodate", "active"}},
		{mk(nil, nil, B, []string{"a"}), []string{"uptodate", "active", "inactive"}},
		{mk(nil, nil, B, []string{"c"}), []string{"active"}},
		{mk(B, []string{"c"}, nil, nil), []string{"uptodate"}},
	}
	firsts := map[string][]string{
		"uptodate": {"", "disable", "remove", "switch", "alias", "revert", "remove-many", "remodel", "snapd-revert-down"},
		"active":   {"", "disable", "remove", "refresh", "refresh-many", "create-recovery-system"},
		"inactive": {"", "enable", "remove", "transition-ubuntu-core"},
	}
	for _, si := range sits {
		for _, bst := range si.bSts {
			for _, first := range firsts[bst] {
				for _, second := range []string{"refresh-all", "progress+refresh-all", "refresh-a"} {
					cst := "active"
					if verifConfIn(si.a.Drop, "c") {
						cst = "uptodate"
					}
					a := si.a
					s.nextA = &a
					newHistory(map[string]string{"a": "active", "b": bst, "c": cst})
					switch first {
					case "":
					case "remodel", "create-recovery-system", "transition-ubuntu-core":
						// an exclusive change is in progress: "refresh all" must then start nothing at all
						s.doRequest(c, first, []string{}, 0, nil)
					case "snapd-revert-down":
						s.doRequest(c, first, []string{"snapd"}, 0, nil)
					case "refresh-many", "remove-many":
						l := []string{"b", "c"}
						if first == "refresh-many" && cst != "active" {
							l = []string{"b"}
							first = "refresh"
						}
						s.doRequest(c, first, l, 0, nil)
					default:
						s.doRequest(c, first, []string{"b"}, 0, nil)
					}
					active := s.snapsWith(func(x string) bool { return x == "active" })
					if active == nil {
						active = []string{}
					}
					switch second {
					case "refresh-all":
						s.doRequest(c, "refresh-all", active, 0, nil)
					case "progress+refresh-all":
						if live := s.live(); len(live) > 0 {
							verifConfAbort(s.chgs[live[0]-1])
							s.emit(c, "Progress", map[string]interface{}{"c": live[0], "how": "abort"}, nil, true)
						}
						s.doRequest(c, "refresh-all", active, 0, nil)
					case "refresh-a":
						s.doRequest(c, "refresh", []string{"a"}, 0, nil)
					}
				}
			}
		}
	}
}

func (s *verifConfSuite) TestVerifConflictsRun(c *C) {
	out := os.Getenv("VERIF_OUT")
	n := verifConfEnvInt("VERIF_N", 20)
	length := verifConfEnvInt("VERIF_LEN", 8)
	seed := verifConfEnvInt("VERIF_SEED", 1)
	perFixture := verifConfEnvInt("VERIF_PER_FIXTURE", 25)
	f, err := os.Create(out)
	c.Assert(err, IsNil)
	defer f.Close()
	s.w = bufio.NewWriterSize(f, 1<<20)
	defer s.w.Flush()
	s.classes = map[string]bool{}
	r := rand.New(rand.NewSource(int64(seed)*6151 + 14))

	up := false
	hist := 0
	newHistory := func(status map[string]string) {
		if hist%perFixture == 0 {
			if up {
				s.state.Unlock()
				s.fixtureDown(c)
			}
			s.fixtureUp(c)
			s.state.Lock()
			up = true
		}
		s.caseN = hist
		hist++
		// make everything left over from the previous history ready, then forget it
		for _, chg := range s.state.Changes() {
			if !chg.IsReady() {
				verifConfAbort(chg)
			}
			if !chg.IsReady() {
				c.Fatalf("cannot retire change %s (%s)", chg.Kind(), chg.Status())
			}
		}
		s.chgs = nil
		if status == nil {
			status = map[string]string{}
			for _, sn := range verifConfSnaps {
				status[sn] = verifConfPick(r, []string{"absent", "active", "active", "active", "inactive", "uptodate"})
			}
			if s.nextA == nil && r.Intn(2) == 0 {
				// a random automatic-alias situation among the installed snaps
				var inst []string
				for _, sn := range verifConfSnaps {
					if status[sn] != "absent" {
						inst = append(inst, sn)
					}
				}
				a := verifConfNoACfg()
				if len(inst) > 0 {
					r.Shuffle(len(inst), func(i, j int) { inst[i], inst[j] = inst[j], inst[i] })
					switch k := r.Intn(4); {
					case k == 0:
						a.New = []string{inst[0]}
					case k == 1:
						a.Drop = []string{inst[0]}
					case k == 2 && len(inst) > 1:
						a.Xsrc, a.Xdst = []string{inst[0]}, []string{inst[1]}
					default:
						a.New = []string{inst[0]}
						if len(inst) > 1 {
							a.Drop = []string{inst[1]}
						}
					}
				}
				s.nextA = &a
			}
		}
		s.acfg = verifConfNoACfg()
		if s.nextA != nil {
			s.acfg = *s.nextA
			s.nextA = nil
			s.aliasH++
		}
		for _, sn := range verifConfSnaps {
			s.setStatus(sn, status[sn])
		}
		sd := verifConfSeq("snapd", 1, 2, 3)
		sd.Current = snap.R(2)
		sd.Active = true
		sd.SnapType = "snapd"
		// a snap-id the fake store has no update for, so "refresh all" leaves snapd alone
		for _, si := range sd.Sequence.SideInfos() {
			si.SnapID = "other-snap-id"
		}
		snapstate.Set(s.state, "snapd", sd)
		s.emit(c, "Reset", map[string]interface{}{}, nil, true)
	}
	// directed histories for the operations a refresh performs on OTHER snaps (automatic aliases): always run
	s.runAliasDirected(c, newHistory)
	pairs := 0
	if os.Getenv("VERIF_PAIRS") != "" && os.Getenv("VERIF_PAIRS") != "0" {
		pairs = s.runPairs(c, newHistory)
	}
	for i := 0; i < n; i++ {
		newHistory(nil)
		for k := 0; k < length; k++ {
			s.step(c, r)
		}
	}
	if up {
		s.state.Unlock()
		s.fixtureDown(c)
	}
	s.w.Flush()
	fmt.Printf("VERIF-STATS {\"traces\":%d,\"pairs\":%d,\"alias_histories\":%d,\"requests\":%d,\"accepted\":%d,\"conflicts\":%d,\"distinct_classes\":%d}\n",
		hist, pairs, s.aliasH, s.requests, s.accepted, s.conflicts, len(s.classes))
}

func TestVerifConflicts(t *testing.T) {
	if os.Getenv("VERIF_OUT") == "" {
		t.Skip("VERIF_OUT not set")
	}
	res := Run(&verifConfSuite{}, &RunConf{Output: os.Stdout, Verbose: true, Filter: "TestVerifConflictsRun"})
	if !res.Passed() {
		t.Fatalf("verif conflicts driver failed: %s", res.String())
	}
}
