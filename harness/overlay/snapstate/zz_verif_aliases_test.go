// -*- Mode: Go; indent-tabs-mode: t -*-

// E02 driver (spec: /verif/spec/Aliases.tla, trace spec: /verif/spec/TraceAliases.tla). Compiled into
// overlord/snapstate's test binary with `go test -overlay`.
//
// Drives the REAL snapstate.Alias / RemoveManualAlias / DisableAllAliases / Prefer / Install / Update / UpdateMany /
// Remove through the real task runner (snapmgrBaseTest fixture), with the snap-declaration auto-aliases mocked
// through the snapstate.AutoAliases hook, and with faults: a task failing on entry, or the j-th backend alias
// operation (UpdateAliases / RemoveSnapAliases) of a task failing.  The manager backend is the package's
// fakeSnappyBackend wrapped so that the two alias operations are ALSO performed by the real backend.Backend on
// the test root directory: the "system view" is read back from the symlinks in dirs.SnapBinariesDir (and, as a
// cross-check, folded from the fake backend's recorded ops).
//
// One NDJSON event per request / finished task / settle, each with the projected alias state of both snaps
// (snapstate.Get: AutoAliasesDisabled, AliasesPending, Aliases) and the system view.

package snapstate_test

import (
	"bufio"
	"context"
	"encoding/json"
	"errors"
	"fmt"
	"math/rand"
	"os"
	"path/filepath"
	"sort"
	"strconv"
	"strings"
	"testing"
	"time"

	"gopkg.in/check.v1"

	"github.com/snapcore/snapd/dirs"
	"github.com/snapcore/snapd/overlord/configstate/config"
	"github.com/snapcore/snapd/overlord/snapstate"
	"github.com/snapcore/snapd/overlord/snapstate/backend"
	"github.com/snapcore/snapd/overlord/snapstate/snapstatetest"
	"github.com/snapcore/snapd/overlord/state"
	"github.com/snapcore/snapd/progress"
	"github.com/snapcore/snapd/snap"
)

// spec name <-> real name
var verifAliasSnaps = []string{"s1", "s2"}
var verifAliasReal = map[string]string{"s1": "some-snap", "s2": "some-other-snap"}
var verifAliasSpec = map[string]string{"some-snap": "s1", "some-other-snap": "s2"}

// alias names: "s2" stands for an alias named like the second snap (command namespace checks)
var verifAliasNames = []string{"x", "y", "s2"}

func verifAliasRealName(n string) string {
	if n == "s2" {
		return "some-other-snap"
	}
	return n
}

func verifAliasSpecName(n string) string {
	if n == "some-other-snap" {
		return "s2"
	}
	return n
}

const verifAliasYaml = `name: %s
version: 1
apps:
  c1:
  c2:
  svc:
    daemon: simple
`

var verifAliasKinds = map[string]bool{
	"set-auto-aliases": true, "setup-aliases": true, "remove-aliases": true, "refresh-aliases": true,
	"prune-auto-aliases": true, "alias": true, "unalias": true, "disable-aliases": true, "prefer-aliases": true,
}

// ---------------------------------------------------------------------------
// backend wrapper

type verifAliasBackend struct {
	*fakeSnappyBackend
	real backend.Backend

	// fail the failJ-th backend alias operation performed while task failIdx runs
	failIdx  int
	failJ    int
	curIdx   *int
	opsInCur int
	lastIdx  int
	injected string
}

func (b *verifAliasBackend) arm(idx, j int) {
	b.failIdx, b.failJ, b.opsInCur, b.lastIdx, b.injected = idx, j, 0, 0, ""
}

func (b *verifAliasBackend) inject(op *fakeOp) error {
	if op.op != "update-aliases" && op.op != "remove-snap-aliases" {
		return nil
	}
	if b.curIdx == nil {
		return nil
	}
	if *b.curIdx != b.lastIdx {
		b.lastIdx = *b.curIdx
		b.opsInCur = 0
	}
	b.opsInCur++
	if b.injected == "" && b.failJ > 0 && *b.curIdx == b.failIdx && b.opsInCur == b.failJ {
		b.injected = op.op
		op.op = op.op + ".failed"
		return errors.New("verif: injected backend failure")
	}
	return nil
}

func (b *verifAliasBackend) UpdateAliases(add []*backend.Alias, remove []*backend.Alias) error {
	if err := b.fakeSnappyBackend.UpdateAliases(add, remove); err != nil {
		return err
	}
	return b.real.UpdateAliases(add, remove)
}

func (b *verifAliasBackend) RemoveSnapAliases(snapName string) error {
	if err := b.fakeSnappyBackend.RemoveSnapAliases(snapName); err != nil {
		return err
	}
	return b.real.RemoveSnapAliases(snapName)
}

// data directories are real (undoUnlinkSnap looks at them to decide whether a snap can be linked back)
func (b *verifAliasBackend) CopySnapData(newInfo, oldInfo *snap.Info, opts *dirs.SnapDirOptions, p progress.Meter) error {
	if err := b.fakeSnappyBackend.CopySnapData(newInfo, oldInfo, opts, p); err != nil {
		return err
	}
	for _, d := range []string{newInfo.DataDir(), newInfo.CommonDataDir()} {
		if err := os.MkdirAll(d, 0755); err != nil {
			panic(err)
		}
	}
	return nil
}

func (b *verifAliasBackend) RemoveSnapData(info *snap.Info, opts *dirs.SnapDirOptions) error {
	if err := b.fakeSnappyBackend.RemoveSnapData(info, opts); err != nil {
		return err
	}
	os.RemoveAll(info.DataDir())
	return nil
}

func (b *verifAliasBackend) RemoveSnapCommonData(info *snap.Info, opts *dirs.SnapDirOptions) error {
	if err := b.fakeSnappyBackend.RemoveSnapCommonData(info, opts); err != nil {
		return err
	}
	os.RemoveAll(info.CommonDataDir())
	return nil
}

// ---------------------------------------------------------------------------
// projection

type verifAliasEnt struct {
	M string `json:"m"`
	A string `json:"a"`
}

type verifAliasRec struct {
	Dis  bool                     `json:"dis"`
	Pend bool                     `json:"pend"`
	Act  bool                     `json:"act"`
	Al   map[string]verifAliasEnt `json:"al"`
}

type verifAliasTgt struct {
	S string `json:"s"`
	A string `json:"a"`
}

type verifAliasSt struct {
	Inst map[string]bool              `json:"inst"`
	Rec  map[string]*verifAliasRec    `json:"rec"`
	Sys  map[string]verifAliasTgt     `json:"sys"`
	Fold map[string]verifAliasTgt     `json:"fold"`
	Decl map[string]map[string]string `json:"decl"`
}

type verifAliasOp struct {
	Kind  string `json:"kind"`
	S     string `json:"s"`
	App   string `json:"app"`
	N     string `json:"n"`
	Flag  string `json:"flag"`
	FIdx  int    `json:"fidx"`  // >0: fault at this task (1-based, change order); adjusted to the chain at request time
	FMode string `json:"fmode"` // "entry", "op1", "op2"
	FAny  bool   `json:"fany"`  // FIdx counts over all tasks (else over alias-relevant tasks only)
}

type verifAliasSuite struct {
	snapmgrBaseTest
	vb     *verifAliasBackend
	out    *bufio.Writer
	rnd    *rand.Rand
	caseID string
	decl   map[string]map[string]string
	names  []string
	raaux  bool

	failTaskID string
	failedHow  string
	curChg     *state.Change
	curIdx     int
	chainIdx   map[string]int
	evErr      error
	nextRev    map[string]int
	lastNonNop int

	nEvents, nChanges, nFaults, nFailed, nRefused, nHist int
	kinds                                               map[string]int
	taskKinds                                           map[string]int
	distinct                                            map[string]bool
	failedKinds                                         map[string]int
}

func (s *verifAliasSuite) SetUpTest(c *check.C)    {}
func (s *verifAliasSuite) TearDownTest(c *check.C) {}

func verifAliasSplit(target string) (string, string) {
	i := strings.IndexByte(target, '.')
	if i < 0 {
		return target, ""
	}
	return target[:i], target[i+1:]
}

func (s *verifAliasSuite) tgt(target string) verifAliasTgt {
	sn, app := verifAliasSplit(target)
	sp, ok := verifAliasSpec[sn]
	if !ok {
		s.evErr = fmt.Errorf("case %s: alias target %q of unknown snap", s.caseID, target)
		return verifAliasTgt{S: "?", A: app}
	}
	return verifAliasTgt{S: sp, A: app}
}

// project must be called with the state lock held
func (s *verifAliasSuite) project() *verifAliasSt {
	st := s.state
	ps := &verifAliasSt{Inst: map[string]bool{}, Rec: map[string]*verifAliasRec{}, Sys: map[string]verifAliasTgt{},
		Fold: map[string]verifAliasTgt{}, Decl: map[string]map[string]string{}}
	for _, sp := range verifAliasSnaps {
		r := &verifAliasRec{Al: map[string]verifAliasEnt{}}
		for _, n := range s.names {
			r.Al[n] = verifAliasEnt{}
		}
		var snapst snapstate.SnapState
		err := snapstate.Get(st, verifAliasReal[sp], &snapst)
		if err == nil {
			ps.Inst[sp] = true
			r.Dis = snapst.AutoAliasesDisabled
			r.Pend = snapst.AliasesPending
			r.Act = snapst.Active
			for n, t := range snapst.Aliases {
				sn := verifAliasSpecName(n)
				if _, ok := r.Al[sn]; !ok {
					s.evErr = fmt.Errorf("case %s: unexpected alias name %q in state of %s", s.caseID, n, sp)
					continue
				}
				if t != nil {
					r.Al[sn] = verifAliasEnt{M: t.Manual, A: t.Auto}
				}
			}
		} else if errors.Is(err, state.ErrNoState) {
			ps.Inst[sp] = false
		} else {
			panic(err)
		}
		ps.Rec[sp] = r
		d := map[string]string{}
		for _, n := range s.names {
			d[n] = s.decl[sp][n]
		}
		ps.Decl[sp] = d
	}
	for _, n := range s.names {
		ps.Sys[n] = verifAliasTgt{}
		ps.Fold[n] = verifAliasTgt{}
	}
	// the system: symlinks created by the real backend
	ents, err := os.ReadDir(dirs.SnapBinariesDir)
	if err != nil {
		panic(err)
	}
	for _, e := range ents {
		target, err := os.Readlink(filepath.Join(dirs.SnapBinariesDir, e.Name()))
		if err != nil {
			s.evErr = fmt.Errorf("case %s: %s in the binaries directory is not a symlink", s.caseID, e.Name())
			continue
		}
		n := verifAliasSpecName(e.Name())
		if _, ok := ps.Sys[n]; !ok {
			s.evErr = fmt.Errorf("case %s: unexpected alias %q on disk", s.caseID, e.Name())
			continue
		}
		ps.Sys[n] = s.tgt(target)
	}
	// the same view folded from the ops the fake backend recorded
	s.fakeBackend.mu.Lock()
	for i := range s.fakeBackend.ops {
		op := &s.fakeBackend.ops[i]
		switch op.op {
		case "update-aliases":
			for _, a := range op.rmAliases {
				ps.Fold[verifAliasSpecName(a.Name)] = verifAliasTgt{}
			}
			for _, a := range op.aliases {
				ps.Fold[verifAliasSpecName(a.Name)] = s.tgt(a.Target)
			}
		case "remove-snap-aliases":
			for n, t := range ps.Fold {
				if t.S != "" && verifAliasReal[t.S] == op.name {
					ps.Fold[n] = verifAliasTgt{}
				}
			}
		}
	}
	s.fakeBackend.mu.Unlock()
	return ps
}

func (s *verifAliasSuite) emit(ev map[string]interface{}) {
	ev["case"] = s.caseID
	ps := s.project()
	ev["st"] = ps
	b, err := json.Marshal(ev)
	if err != nil {
		panic(err)
	}
	s.out.Write(b)
	s.out.WriteByte('\n')
	s.nEvents++
	if ev["ev"] == "Settle" || ev["ev"] == "Reset" {
		k, _ := json.Marshal([]interface{}{ps.Inst, ps.Rec, ps.Sys})
		s.distinct[string(k)] = true
	}
}

// called with the state lock held (from Task.SetStatus)
func (s *verifAliasSuite) taskStatusChanged(t *state.Task, old, new state.Status) {
	if s.curChg == nil || t.Change() == nil || t.Change().ID() != s.curChg.ID() {
		return
	}
	idx, ok := s.chainIdx[t.ID()]
	if !ok {
		// not logged: a task that does not touch aliases (whatever it did shows in the next logged state)
		if verifAliasKinds[t.Kind()] {
			s.evErr = fmt.Errorf("case %s: alias task %s injected at run time", s.caseID, t.Kind())
		}
		if new == state.DoingStatus || new == state.UndoingStatus {
			s.curIdx = 0
		}
		return
	}
	switch {
	case new == state.DoingStatus:
		s.curIdx = idx
	case new == state.UndoingStatus:
		s.curIdx = 0 // no faults are injected into undo handlers
	case new == state.DoneStatus && (old == state.DoingStatus || old == state.DoStatus):
		s.emit(map[string]interface{}{"ev": "Do", "idx": idx, "k": t.Kind()})
	case new == state.UndoneStatus, new == state.DoneStatus && old == state.UndoStatus:
		// Undo -> Done: a task without undo handler "reverts to done"
		s.emit(map[string]interface{}{"ev": "Undo", "idx": idx, "k": t.Kind()})
	case new == state.ErrorStatus:
		mode := "self"
		if old == state.UndoingStatus || old == state.UndoStatus {
			mode = "undo-error"
		} else if s.failedHow == "entry" {
			mode = "entry"
			s.failedHow = "entry-done"
		} else if s.vb.injected != "" && s.failedHow == "" {
			mode = "op"
			s.failedHow = "op-done"
		}
		s.emit(map[string]interface{}{"ev": "Fail", "idx": idx, "k": t.Kind(), "mode": mode, "log": strings.Join(t.Log(), " | ")})
	}
}

// blocked predicate: (1) one handler at a time, so that backend operations can be attributed to tasks;
// (2) makes one task fail on entry: replicates the error branch of TaskRunner.run (abortLanes, then ErrorStatus)
// without invoking the handler.
func (s *verifAliasSuite) blocked(t *state.Task, running []*state.Task) bool {
	if len(running) > 0 {
		return true
	}
	if s.failTaskID == "" || t.ID() != s.failTaskID || t.Status() != state.DoStatus {
		return false
	}
	s.failTaskID = ""
	s.failedHow = "entry"
	// as in TaskRunner.run: the lanes are aborted while the task is still unready (Doing)
	t.SetStatus(state.DoingStatus)
	t.Change().AbortLanes(t.Lanes())
	t.SetStatus(state.ErrorStatus)
	t.Errorf("verif: injected failure on entry")
	t.State().EnsureBefore(0)
	return true
}

// ---------------------------------------------------------------------------
// operations

func (s *verifAliasSuite) curRev(name string) int {
	var snapst snapstate.SnapState
	if err := snapstate.Get(s.state, name, &snapst); err != nil {
		return 0
	}
	return snapst.Current.N
}

// request issues op through the public entry point
func (s *verifAliasSuite) request(op *verifAliasOp) ([]*state.TaskSet, error) {
	st := s.state
	one := func(ts *state.TaskSet, err error) ([]*state.TaskSet, error) {
		if err != nil {
			return nil, err
		}
		return []*state.TaskSet{ts}, nil
	}
	name := verifAliasReal[op.S]
	switch op.Kind {
	case "alias":
		return one(snapstate.Alias(st, name, op.App, verifAliasRealName(op.N)))
	case "unalias":
		ts, _, err := snapstate.RemoveManualAlias(st, verifAliasRealName(op.N))
		return one(ts, err)
	case "disable":
		return one(snapstate.DisableAllAliases(st, name))
	case "prefer":
		return one(snapstate.Prefer(st, name))
	case "install":
		flags := snapstate.Flags{Unaliased: op.Flag == "unaliased", Prefer: op.Flag == "prefer"}
		return one(snapstate.Install(context.Background(), st, name, &snapstate.RevisionOptions{Revision: snap.R(1)}, s.user.ID, flags))
	case "remove":
		return one(snapstate.Remove(st, name, snap.R(0), nil))
	case "refresh":
		s.nextRev[name] = s.curRev(name) + 1
		s.fakeStore.refreshRevnos = map[string]snap.Revision{}
		for _, sp := range verifAliasSnaps {
			rn := verifAliasReal[sp]
			s.fakeStore.refreshRevnos[rn+"-id"] = snap.R(s.curRev(rn))
		}
		s.fakeStore.refreshRevnos[name+"-id"] = snap.R(s.nextRev[name])
		return one(snapstate.Update(st, name, &snapstate.RevisionOptions{}, s.user.ID, snapstate.Flags{}))
	case "refreshdecl":
		// refresh-all, the store has no new revision for anything
		s.fakeStore.refreshRevnos = map[string]snap.Revision{}
		for _, sp := range verifAliasSnaps {
			rn := verifAliasReal[sp]
			s.fakeStore.refreshRevnos[rn+"-id"] = snap.R(s.curRev(rn))
		}
		_, tts, err := snapstate.UpdateMany(context.Background(), st, nil, nil, s.user.ID, nil)
		if err != nil {
			return nil, err
		}
		if len(tts) == 0 {
			return nil, errors.New("verif: nothing to refresh")
		}
		return tts, nil
	}
	panic("unknown op kind " + op.Kind)
}

type verifAliasTask struct {
	K     string   `json:"k"`
	S     string   `json:"s"`
	Anc   []int    `json:"anc"`
	Lane  int      `json:"lane"`
	N     string   `json:"n"`
	App   string   `json:"app"`
	Which []string `json:"which"`
	Flag  string   `json:"flag"`
	Real  string   `json:"real"`
}

func verifAliasAnc(t *state.Task, idx map[string]int, memo map[string]map[int]bool) map[int]bool {
	if m, ok := memo[t.ID()]; ok {
		return m
	}
	m := map[int]bool{}
	memo[t.ID()] = m
	for _, w := range t.WaitTasks() {
		if i, ok := idx[w.ID()]; ok {
			m[i] = true
		}
		for i := range verifAliasAnc(w, idx, memo) {
			m[i] = true
		}
	}
	return m
}

func (s *verifAliasSuite) describe(op *verifAliasOp, tasks []*state.Task) []verifAliasTask {
	memo := map[string]map[int]bool{}
	out := make([]verifAliasTask, len(tasks))
	lastDiscard, lastClear := -1, -1
	for i, t := range tasks {
		if t.Kind() == "discard-snap" {
			lastDiscard = i
		}
		if t.Kind() == "clear-snap" {
			lastClear = i
		}
	}
	for i, t := range tasks {
		d := verifAliasTask{K: "nop", Anc: []int{}, Which: []string{}, Real: t.Kind()}
		if snapsup, err := snapstate.TaskSnapSetup(t); err == nil {
			d.S = verifAliasSpec[snapsup.InstanceName()]
			switch {
			case verifAliasKinds[t.Kind()]:
				d.K = t.Kind()
			case t.Kind() == "link-snap" && op.Kind == "install":
				d.K = "link-snap"
			case t.Kind() == "discard-snap" && op.Kind == "remove" && i == lastDiscard:
				d.K = "discard-snap"
			case t.Kind() == "clear-snap" && op.Kind == "remove" && i == lastClear:
				// removes the data of the current revision and the common data
				d.K = "clear-snap"
			case t.Kind() == "unlink-snap" && op.Kind == "remove":
				d.K = "unlink-snap"
			}
			switch t.Kind() {
			case "set-auto-aliases":
				switch {
				case snapsup.Unaliased:
					d.Flag = "unaliased"
				case snapsup.Prefer:
					d.Flag = "prefer"
				case op.Kind == "install":
					d.Flag = "plain"
				default:
					d.Flag = "refresh"
				}
			case "remove-aliases":
				t.Get("remove-reason", &d.Flag)
			case "alias":
				t.Get("alias", &d.N)
				t.Get("target", &d.App)
			case "unalias":
				t.Get("alias", &d.N)
			case "prune-auto-aliases":
				t.Get("aliases", &d.Which)
				for j := range d.Which {
					d.Which[j] = verifAliasSpecName(d.Which[j])
				}
				sort.Strings(d.Which)
			}
			d.N = verifAliasSpecName(d.N)
		}
		if d.K == "nop" {
			d.S = ""
		}
		for a := range verifAliasAnc(t, s.chainIdx, memo) {
			d.Anc = append(d.Anc, a)
		}
		sort.Ints(d.Anc)
		if l := t.Lanes(); len(l) > 0 && l[0] != 0 {
			d.Lane = 1
		}
		out[i] = d
	}
	return out
}

// runOp executes one operation (state lock held by caller) and logs its events.
func (s *verifAliasSuite) runOp(c *check.C, op *verifAliasOp) {
	st := s.state
	s.failTaskID = ""
	s.failedHow = ""
	s.vb.arm(0, 0)
	nChangesBefore := len(st.Changes())
	tss, err := s.request(op)
	s.kinds[op.Kind]++
	if err != nil {
		if len(st.Changes()) != nChangesBefore {
			s.evErr = fmt.Errorf("case %s: failed request created a change", s.caseID)
		}
		s.nRefused++
		s.emit(map[string]interface{}{"ev": "Request", "op": op, "ok": false, "err": err.Error(), "tasks": []interface{}{},
			"fault": map[string]interface{}{"idx": 0, "mode": "none"}})
		return
	}
	chg := st.NewChange(op.Kind, "verif "+op.Kind)
	for _, ts := range tss {
		chg.AddAll(ts)
	}
	tasks := chg.Tasks()
	s.chainIdx = map[string]int{}
	for i, t := range tasks {
		s.chainIdx[t.ID()] = i + 1
	}
	full := s.describe(op, tasks)
	// fault position (index into the full chain)
	ffull, fmode := 0, "none"
	if op.FIdx > 0 && op.FMode != "" {
		var cands []int
		for i, d := range full {
			if d.Real == "check-rerefresh" {
				continue
			}
			if op.FAny || d.K != "nop" {
				cands = append(cands, i+1)
			}
		}
		if len(cands) > 0 {
			ffull = cands[(op.FIdx-1)%len(cands)]
			fmode = op.FMode
		}
		s.lastNonNop = len(cands)
	}
	// the logged chain: the alias-relevant tasks plus the task the fault is aimed at; tasks that do not touch
	// aliases ("nop") are otherwise left out (what they wait for is kept transitively in anc)
	remap := map[int]int{}
	descr := []verifAliasTask{}
	var kept []*state.Task
	for i, d := range full {
		if d.K != "nop" || i+1 == ffull {
			remap[i+1] = len(descr) + 1
			descr = append(descr, d)
			kept = append(kept, tasks[i])
		}
	}
	s.chainIdx = map[string]int{}
	for i := range descr {
		var anc []int
		for _, a := range descr[i].Anc {
			if na, ok := remap[a]; ok {
				anc = append(anc, na)
			}
		}
		if anc == nil {
			anc = []int{}
		}
		descr[i].Anc = anc
		s.chainIdx[kept[i].ID()] = i + 1
		s.taskKinds[descr[i].K]++
	}
	fidx := remap[ffull]
	switch fmode {
	case "entry":
		s.failTaskID = kept[fidx-1].ID()
	case "op1":
		s.vb.arm(fidx, 1)
	case "op2":
		s.vb.arm(fidx, 2)
	}
	s.curIdx = 0
	s.curChg = chg
	s.emit(map[string]interface{}{"ev": "Request", "op": op, "ok": true, "tasks": descr,
		"fault": map[string]interface{}{"idx": fidx, "mode": fmode}})

	st.Unlock()
	err = s.o.Settle(3 * time.Minute)
	st.Lock()
	s.curChg = nil
	if err != nil {
		s.evErr = fmt.Errorf("case %s: settle: %v", s.caseID, err)
		return
	}
	s.nChanges++
	if s.vb.injected != "" || s.failedHow != "" {
		s.nFaults++
	}
	if chg.Status() == state.ErrorStatus {
		s.nFailed++
		s.failedKinds[op.Kind]++
	}
	s.emit(map[string]interface{}{"ev": "Settle", "status": chg.Status().String(), "kind": op.Kind, "injected": s.vb.injected})
}

func (s *verifAliasSuite) setDecl(sp string, d map[string]string) {
	nd := map[string]string{}
	for _, n := range s.names {
		nd[n] = d[n]
	}
	s.decl[sp] = nd
	s.emit(map[string]interface{}{"ev": "Decl", "s": sp, "d": nd})
}

// ---------------------------------------------------------------------------
// histories

func (s *verifAliasSuite) reset(c *check.C, installed []string) {
	if s.state != nil {
		s.snapmgrBaseTest.TearDownTest(c)
	}
	s.snapmgrBaseTest.SetUpTest(c)
	c.Assert(os.MkdirAll(dirs.SnapBinariesDir, 0755), check.IsNil)
	s.vb = &verifAliasBackend{fakeSnappyBackend: s.fakeBackend, curIdx: &s.curIdx}
	s.fakeBackend.maybeInjectErr = s.vb.inject
	snapstate.SetSnapManagerBackend(s.snapmgr, s.vb)
	s.o.TaskRunner().AddBlocked(s.blocked)
	s.fakeBackend.infos = map[string]*snap.Info{}
	for _, sp := range verifAliasSnaps {
		info, err := snap.InfoFromSnapYaml([]byte(fmt.Sprintf(verifAliasYaml, verifAliasReal[sp])))
		c.Assert(err, check.IsNil)
		s.fakeBackend.infos[verifAliasReal[sp]] = info
	}
	s.decl = map[string]map[string]string{"s1": {}, "s2": {}}
	s.nextRev = map[string]int{}
	snapstate.AutoAliases = func(st *state.State, info *snap.Info) (map[string]string, error) {
		sp, ok := verifAliasSpec[info.InstanceName()]
		if !ok {
			return nil, nil
		}
		out := map[string]string{}
		for n, app := range s.decl[sp] {
			if app != "" {
				out[verifAliasRealName(n)] = app
			}
		}
		return out, nil
	}
	s.AddCleanup(func() { snapstate.AutoAliases = nil })
	s.state.Lock()
	s.state.AddTaskStatusChangedHandler(s.taskStatusChanged)
	if s.raaux {
		tr := config.NewTransaction(s.state)
		c.Assert(tr.Set("core", "experimental.refresh-app-awareness", true), check.IsNil)
		c.Assert(tr.Set("core", "experimental.refresh-app-awareness-ux", true), check.IsNil)
		tr.Commit()
	}
	for _, sp := range installed {
		name := verifAliasReal[sp]
		si := &snap.SideInfo{RealName: name, SnapID: name + "-id", Revision: snap.R(1), Channel: "latest/stable"}
		snapstate.Set(s.state, name, &snapstate.SnapState{
			Active:          true,
			Sequence:        snapstatetest.NewSequenceFromSnapSideInfos([]*snap.SideInfo{si}),
			Current:         si.Revision,
			SnapType:        "app",
			TrackingChannel: "latest/stable",
		})
		c.Assert(os.MkdirAll(snap.DataDir(name, si.Revision), 0755), check.IsNil)
		c.Assert(os.MkdirAll(snap.CommonDataDir(name), 0755), check.IsNil)
	}
	s.state.Unlock()
	s.curChg = nil
}

type verifAliasStep struct {
	Decl *struct {
		S string            `json:"s"`
		D map[string]string `json:"d"`
	} `json:"decl,omitempty"`
	Op *verifAliasOp `json:"op,omitempty"`
}

type verifAliasHistory struct {
	ID    string           `json:"id"`
	Inst  []string         `json:"inst"`
	Steps []verifAliasStep `json:"steps"`
}

func (s *verifAliasSuite) runHistory(c *check.C, h *verifAliasHistory) {
	s.reset(c, h.Inst)
	s.caseID = h.ID
	s.nHist++
	s.state.Lock()
	defer s.state.Unlock()
	s.emit(map[string]interface{}{"ev": "Reset"})
	for i := range h.Steps {
		st := &h.Steps[i]
		if st.Decl != nil {
			s.setDecl(st.Decl.S, st.Decl.D)
		}
		if st.Op != nil {
			s.runOp(c, st.Op)
		}
		if s.evErr != nil {
			return
		}
	}
}

func (s *verifAliasSuite) randDecl() map[string]string {
	d := map[string]string{}
	for _, n := range s.names {
		switch s.rnd.Intn(10) {
		case 0, 1, 2, 3:
			d[n] = "c1"
		case 4:
			d[n] = "c2"
		}
		if n == "s2" && s.rnd.Intn(3) > 0 {
			delete(d, n)
		}
	}
	return d
}

func (s *verifAliasSuite) randName() string {
	n := s.names[s.rnd.Intn(len(s.names))]
	if n == "s2" && s.rnd.Intn(2) == 0 {
		n = s.names[0]
	}
	return n
}

func (s *verifAliasSuite) randFault(op *verifAliasOp) {
	switch s.rnd.Intn(10) {
	case 0, 1, 2:
		op.FMode = "entry"
	case 3, 4:
		op.FMode = "op1"
	case 5:
		op.FMode = "op2"
	default:
		return
	}
	op.FIdx = 1 + s.rnd.Intn(40)
	op.FAny = s.rnd.Intn(4) == 0
}

func (s *verifAliasSuite) randStep(installed map[string]bool) verifAliasStep {
	r := s.rnd
	sp := verifAliasSnaps[r.Intn(2)]
	var st verifAliasStep
	decl := func(who string) {
		st.Decl = &struct {
			S string            `json:"s"`
			D map[string]string `json:"d"`
		}{S: who, D: s.randDecl()}
	}
	if !installed[sp] && r.Intn(10) < 7 {
		flags := []string{"plain", "plain", "unaliased", "prefer", "prefer"}
		if r.Intn(2) == 0 {
			decl(sp)
		}
		st.Op = &verifAliasOp{Kind: "install", S: sp, Flag: flags[r.Intn(len(flags))]}
		s.randFault(st.Op)
		return st
	}
	p := r.Intn(100)
	switch {
	case p < 26:
		apps := []string{"c1", "c2", "c2", "c1", "svc", "nope"}
		app := apps[r.Intn(len(apps))]
		if (app == "svc" || app == "nope") && r.Intn(3) > 0 {
			app = "c2"
		}
		st.Op = &verifAliasOp{Kind: "alias", S: sp, App: app, N: s.randName()}
	case p < 34:
		st.Op = &verifAliasOp{Kind: "unalias", N: s.randName()}
	case p < 42:
		st.Op = &verifAliasOp{Kind: "disable", S: sp}
	case p < 54:
		st.Op = &verifAliasOp{Kind: "prefer", S: sp}
	case p < 72:
		if r.Intn(4) > 0 {
			decl(verifAliasSnaps[r.Intn(2)])
		}
		st.Op = &verifAliasOp{Kind: "refresh", S: sp}
	case p < 86:
		decl(verifAliasSnaps[r.Intn(2)])
		st.Op = &verifAliasOp{Kind: "refreshdecl"}
	case p < 90:
		decl(sp)
		return st
	case p < 96:
		st.Op = &verifAliasOp{Kind: "remove", S: sp}
	default:
		st.Op = &verifAliasOp{Kind: "install", S: sp, Flag: "plain"}
	}
	s.randFault(st.Op)
	return st
}

func verifAliasD(kv ...string) map[string]string {
	d := map[string]string{}
	for i := 0; i+1 < len(kv); i += 2 {
		d[kv[i]] = kv[i+1]
	}
	return d
}

// directed histories, always run (each also with every fault position of its last request)
func verifAliasDirected() []*verifAliasHistory {
	type D = struct {
		S string            `json:"s"`
		D map[string]string `json:"d"`
	}
	decl := func(s string, kv ...string) verifAliasStep { return verifAliasStep{Decl: &D{S: s, D: verifAliasD(kv...)}} }
	op := func(kind, s, app, n, flag string) verifAliasStep {
		return verifAliasStep{Op: &verifAliasOp{Kind: kind, S: s, App: app, N: n, Flag: flag}}
	}
	both := []string{"s1", "s2"}
	return []*verifAliasHistory{
		// manual alias over an auto alias survives a refresh that changes the declaration
		{ID: "d-manual-over-auto", Inst: both, Steps: []verifAliasStep{decl("s1", "x", "c1"), op("refresh", "s1", "", "", ""),
			op("alias", "s1", "c2", "x", ""), decl("s1", "x", "c1", "y", "c1"), op("refresh", "s1", "", "", "")}},
		// conflict refused, then resolved by prefer
		{ID: "d-prefer", Inst: both, Steps: []verifAliasStep{decl("s1", "x", "c1"), op("refresh", "s1", "", "", ""),
			op("alias", "s1", "c2", "y", ""), op("alias", "s2", "c1", "x", ""), op("disable", "s2", "", "", ""),
			decl("s2", "x", "c1", "y", "c1"), op("refresh", "s2", "", "", ""), op("prefer", "s2", "", "", "")}},
		// install --prefer over a snap with the same auto alias
		{ID: "d-install-prefer", Inst: []string{"s1"}, Steps: []verifAliasStep{decl("s1", "x", "c1"), op("refresh", "s1", "", "", ""),
			op("alias", "s1", "c2", "y", ""), decl("s2", "x", "c1"), op("install", "s2", "", "", "prefer")}},
		// install refused by a conflict, then unaliased
		{ID: "d-install-conflict", Inst: []string{"s1"}, Steps: []verifAliasStep{decl("s1", "x", "c1"), op("refresh", "s1", "", "", ""),
			decl("s2", "x", "c1"), op("install", "s2", "", "", "plain"), op("install", "s2", "", "", "unaliased"), op("prefer", "s2", "", "", "")}},
		// transfer of an auto alias from s1 to s2 (refresh of s2 / refresh-all)
		{ID: "d-transfer-refresh", Inst: both, Steps: []verifAliasStep{decl("s1", "x", "c1", "y", "c1"), op("refresh", "s1", "", "", ""),
			decl("s1", "y", "c1"), decl("s2", "x", "c1"), op("refresh", "s2", "", "", "")}},
		{ID: "d-transfer-all", Inst: both, Steps: []verifAliasStep{decl("s1", "x", "c1", "y", "c1"), op("refreshdecl", "", "", "", ""),
			decl("s1", "y", "c1"), decl("s2", "x", "c1"), op("refreshdecl", "", "", "", "")}},
		// transfer blocked by a manual alias of the source
		{ID: "d-transfer-manual", Inst: both, Steps: []verifAliasStep{decl("s1", "x", "c1"), op("refreshdecl", "", "", "", ""),
			op("alias", "s1", "c2", "x", ""), decl("s1"), decl("s2", "x", "c1"), op("refresh", "s2", "", "", "")}},
		// disabled auto aliases stay disabled across refreshes; unalias falls back to nothing
		{ID: "d-disabled", Inst: both, Steps: []verifAliasStep{decl("s1", "x", "c1"), op("refresh", "s1", "", "", ""), op("disable", "s1", "", "", ""),
			op("alias", "s1", "c2", "y", ""), decl("s1", "x", "c2", "y", "c1"), op("refresh", "s1", "", "", ""), op("unalias", "", "", "y", ""),
			op("prefer", "s1", "", "", "")}},
		// remove and reinstall
		{ID: "d-remove", Inst: both, Steps: []verifAliasStep{decl("s1", "x", "c1"), op("refresh", "s1", "", "", ""), op("alias", "s1", "c2", "y", ""),
			op("remove", "s1", "", "", ""), op("alias", "s2", "c1", "x", ""), op("install", "s1", "", "", "plain"), op("install", "s1", "", "", "unaliased")}},
		// a remove failing after clear-snap leaves the snap inactive; it is then removed for good
		{ID: "d-remove-late", Inst: both, Steps: []verifAliasStep{op("alias", "s2", "c1", "x", ""),
			{Op: &verifAliasOp{Kind: "remove", S: "s2", FIdx: 4, FMode: "entry"}}, op("alias", "s1", "c2", "y", ""), op("remove", "s2", "", "", "")}},
		// alias named like a snap
		{ID: "d-namespace", Inst: []string{"s1"}, Steps: []verifAliasStep{op("alias", "s1", "c1", "s2", ""), op("install", "s2", "", "", "plain"),
			op("unalias", "", "", "s2", ""), op("install", "s2", "", "", "plain"), op("alias", "s1", "c1", "s2", "")}},
	}
}

func verifAliasClone(h *verifAliasHistory) *verifAliasHistory {
	b, _ := json.Marshal(h)
	var out verifAliasHistory
	json.Unmarshal(b, &out)
	return &out
}

// every fault position of the last request of h
func (s *verifAliasSuite) enumerateFaults(c *check.C, h *verifAliasHistory) {
	last := len(h.Steps) - 1
	if last < 0 || h.Steps[last].Op == nil {
		return
	}
	for _, mode := range []string{"entry", "op1", "op2"} {
		for k := 1; k <= 12; k++ {
			cp := verifAliasClone(h)
			cp.ID = fmt.Sprintf("%s.%s%d", h.ID, mode, k)
			o := cp.Steps[last].Op
			o.FIdx, o.FMode, o.FAny = k, mode, false
			s.runHistory(c, cp)
			if s.evErr != nil {
				return
			}
			// the candidates wrap around: stop after one full round
			if n := s.lastAliasTasks(); k >= n {
				break
			}
		}
	}
	// and the first / last alias-irrelevant tasks
	for _, k := range []int{1, 1000003} {
		cp := verifAliasClone(h)
		cp.ID = fmt.Sprintf("%s.any%d", h.ID, k)
		o := cp.Steps[last].Op
		o.FIdx, o.FMode, o.FAny = k, "entry", true
		s.runHistory(c, cp)
		if s.evErr != nil {
			return
		}
	}
}

func (s *verifAliasSuite) lastAliasTasks() int {
	return s.lastNonNop
}

func (s *verifAliasSuite) TestVerifAliasesRun(c *check.C) {
	outPath := os.Getenv("VERIF_OUT")
	if outPath == "" {
		c.Skip("VERIF_OUT not set")
	}
	envInt := func(name string, def int) int {
		if v := os.Getenv(name); v != "" {
			if n, err := strconv.Atoi(v); err == nil {
				return n
			}
		}
		return def
	}
	seed := envInt("VERIF_SEED", 1)
	nHist := envInt("VERIF_N", 20)
	maxLen := envInt("VERIF_LEN", 7)
	nEnum := envInt("VERIF_ENUM", 4)
	s.raaux = os.Getenv("VERIF_RAAUX") == "1"
	s.names = verifAliasNames
	f, err := os.Create(outPath)
	c.Assert(err, check.IsNil)
	defer f.Close()
	s.out = bufio.NewWriterSize(f, 1<<20)
	defer s.out.Flush()
	s.rnd = rand.New(rand.NewSource(int64(seed)*1000003 + 2))
	s.kinds, s.taskKinds, s.distinct, s.failedKinds = map[string]int{}, map[string]int{}, map[string]bool{}, map[string]int{}
	t0 := time.Now()

	fail := func() {
		if s.evErr != nil {
			s.out.Flush()
			c.Fatalf("verif aliases driver: %v", s.evErr)
		}
	}
	if rp := os.Getenv("VERIF_REPLAY"); rp != "" {
		data, err := os.ReadFile(rp)
		c.Assert(err, check.IsNil)
		var hs []*verifAliasHistory
		c.Assert(json.Unmarshal(data, &hs), check.IsNil)
		for _, h := range hs {
			s.runHistory(c, h)
			fail()
		}
		nHist, nEnum = 0, 0
	} else if directed := envInt("VERIF_DIRECTED", 2); directed > 0 {
		for _, h := range verifAliasDirected() {
			s.runHistory(c, verifAliasClone(h))
			fail()
			if directed > 1 {
				s.enumerateFaults(c, h)
				fail()
			}
		}
	}
	gen := func(id string, n int) *verifAliasHistory {
		h := &verifAliasHistory{ID: id, Inst: []string{"s1", "s2"}}
		switch s.rnd.Intn(6) {
		case 0:
			h.Inst = []string{"s1"}
		case 1:
			h.Inst = []string{}
		}
		// generated adaptively: run the prefix to know what is installed
		s.reset(c, h.Inst)
		s.caseID = id
		s.nHist++
		s.state.Lock()
		s.emit(map[string]interface{}{"ev": "Reset"})
		for i := 0; i < n && s.evErr == nil; i++ {
			inst := map[string]bool{}
			for _, sp := range verifAliasSnaps {
				inst[sp] = s.curRev(verifAliasReal[sp]) > 0
			}
			st := s.randStep(inst)
			if st.Decl != nil {
				s.setDecl(st.Decl.S, st.Decl.D)
			}
			if st.Op != nil {
				s.runOp(c, st.Op)
			}
			h.Steps = append(h.Steps, st)
		}
		s.state.Unlock()
		return h
	}
	for i := 0; i < nHist; i++ {
		gen(fmt.Sprintf("r%d", i), 2+s.rnd.Intn(maxLen))
		fail()
	}
	for i := 0; i < nEnum; i++ {
		h := gen(fmt.Sprintf("e%d", i), 2+s.rnd.Intn(maxLen-1))
		fail()
		// drop trailing declaration-only steps, remove the faults of the prefix' last request
		for len(h.Steps) > 0 && h.Steps[len(h.Steps)-1].Op == nil {
			h.Steps = h.Steps[:len(h.Steps)-1]
		}
		if len(h.Steps) == 0 {
			continue
		}
		s.enumerateFaults(c, h)
		fail()
	}
	if s.state != nil {
		s.snapmgrBaseTest.TearDownTest(c)
		s.state = nil
	}
	s.out.Flush()
	stats := map[string]interface{}{"traces": s.nHist, "events": s.nEvents, "changes": s.nChanges, "faults": s.nFaults,
		"failed_changes": s.nFailed, "refused": s.nRefused, "distinct_settled_states": len(s.distinct),
		"request_kinds": s.kinds, "task_kinds": s.taskKinds, "failed_kinds": s.failedKinds, "wall_s": time.Since(t0).Seconds()}
	b, _ := json.Marshal(stats)
	fmt.Printf("VERIF-STATS %s\n", b)
}

func TestVerifAliases(t *testing.T) {
	if os.Getenv("VERIF_OUT") == "" {
		t.Skip("VERIF_OUT not set")
	}
	res := check.Run(&verifAliasSuite{}, &check.RunConf{Output: os.Stdout, Verbose: os.Getenv("VERIF_VERBOSE") != "", Filter: "TestVerifAliasesRun"})
	if !res.Passed() {
		t.Fatalf("verif aliases driver failed: %s", res.String())
	}
}
