// -*- Mode: Go; indent-tabs-mode: t -*-

// /verif harness for SnapSeq.tla (properties C10, C11, C12, C13).
//
// This file is compiled INTO package overlord/snapstate's external test package
// (snapstate_test) with `go test -overlay`; nothing is written to /repo.
//
// It drives the REAL SnapManager + TaskRunner through the public entry points
// (Install / Update / Revert / RevertToRevision / Remove / Enable / Disable,
// refresh.retain via config.Transaction on "core"), injects one fault per
// change (k-th task fails on entry, or the j-th backend operation of the
// change fails), settles, and records one NDJSON event per linearization
// point (request, every task completion / failure / undo, settle) with the
// projected abstract state (record from snapstate.Get + config, world folded
// from the fake backend's operation log and the data directories).
//
// All identifiers are prefixed verifSeq to avoid clashes with other overlays.

package snapstate_test

import (
	"bufio"
	"context"
	"encoding/json"
	"errors"
	"fmt"
	"math/rand"
	"os"
	"path/filepath"
	"sort"
	"strconv"
	"strings"
	"testing"
	"time"

	"gopkg.in/check.v1"

	"github.com/snapcore/snapd/dirs"
	"github.com/snapcore/snapd/osutil"
	"github.com/snapcore/snapd/overlord/configstate/config"
	"github.com/snapcore/snapd/overlord/snapstate"
	"github.com/snapcore/snapd/overlord/snapstate/backend"
	"github.com/snapcore/snapd/overlord/state"
	"github.com/snapcore/snapd/progress"
	"github.com/snapcore/snapd/release"
	"github.com/snapcore/snapd/snap"
	"github.com/snapcore/snapd/timings"

	"github.com/snapcore/snapd/boot"
)

const verifSeqMaxRev = 5

var verifSeqEpoch = time.Date(2030, 1, 1, 0, 0, 0, 0, time.UTC)

// ---------------------------------------------------------------------------
// backend wrapper: fault injection + real data directories

type verifSeqBackend struct {
	*fakeSnappyBackend

	// fault injection: fail the failAt-th injectable backend op since arm()
	failAt     int
	opCount    int
	injectedOp string
	// alternative addressing (replay of spec-level faults): fail backend op failOp while task failIdx is running
	failOp  string
	failIdx int
	curIdx  *int

	created map[string]bool // data dirs created by the pending copy-data (for undo)
}

// ops after which failing makes the handler return Retry (never settles): not injectable
var verifSeqNoInject = map[string]bool{
	"remove-snap-files": true,
	"discard-namespace": true,
	// read-only / bookkeeping
	"current":                     true,
	"candidate":                   true,
	"open-snap-file":              true,
	"cleanup-trash":               true,
	"current-snap-service-states": true,
}

func (b *verifSeqBackend) arm(failAt int) {
	b.failAt = failAt
	b.opCount = 0
	b.injectedOp = ""
	b.failOp = ""
	b.failIdx = 0
}

func (b *verifSeqBackend) inject(op *fakeOp) error {
	if b.injectedOp != "" {
		return nil
	}
	if verifSeqNoInject[op.op] || strings.HasPrefix(op.op, "storesvc-") {
		return nil
	}
	if b.failOp != "" {
		if op.op == b.failOp && b.curIdx != nil && *b.curIdx == b.failIdx {
			b.injectedOp = op.op
			op.op = op.op + ".failed"
			return errors.New("verif: injected backend failure")
		}
		return nil
	}
	if b.failAt <= 0 {
		return nil
	}
	b.opCount++
	if b.opCount == b.failAt {
		b.injectedOp = op.op
		op.op = op.op + ".failed"
		return errors.New("verif: injected backend failure")
	}
	return nil
}

func (b *verifSeqBackend) SetupSnap(snapFilePath, instanceName string, si *snap.SideInfo, dev snap.Device, opts *backend.SetupSnapOptions, p progress.Meter) (snap.Type, *backend.InstallRecord, error) {
	t, r, err := b.fakeSnappyBackend.SetupSnap(snapFilePath, instanceName, si, dev, opts, p)
	if err == nil {
		err = b.fakeSnappyBackend.maybeErrForLastOp()
	}
	return t, r, err
}

func (b *verifSeqBackend) LinkSnap(info *snap.Info, dev snap.Device, linkCtx backend.LinkContext, tm timings.Measurer) (boot.RebootInfo, error) {
	ri, err := b.fakeSnappyBackend.LinkSnap(info, dev, linkCtx, tm)
	if err == nil {
		err = b.fakeSnappyBackend.maybeErrForLastOp()
	}
	return ri, err
}

func (b *verifSeqBackend) CopySnapData(newInfo, oldInfo *snap.Info, opts *dirs.SnapDirOptions, p progress.Meter) error {
	if err := b.fakeSnappyBackend.CopySnapData(newInfo, oldInfo, opts, p); err != nil {
		return err
	}
	for _, d := range []string{newInfo.DataDir(), newInfo.CommonDataDir()} {
		if exists, _, _ := osutil.DirExists(d); !exists {
			b.created[d] = true
			if err := os.MkdirAll(d, 0755); err != nil {
				panic(err)
			}
		} else {
			delete(b.created, d)
		}
	}
	return nil
}

func (b *verifSeqBackend) UndoCopySnapData(newInfo, oldInfo *snap.Info, opts *dirs.SnapDirOptions, p progress.Meter) error {
	if err := b.fakeSnappyBackend.UndoCopySnapData(newInfo, oldInfo, opts, p); err != nil {
		return err
	}
	for _, d := range []string{newInfo.DataDir(), newInfo.CommonDataDir()} {
		if b.created[d] {
			os.RemoveAll(d)
			delete(b.created, d)
		}
	}
	return nil
}

func (b *verifSeqBackend) RemoveSnapData(info *snap.Info, opts *dirs.SnapDirOptions) error {
	if err := b.fakeSnappyBackend.RemoveSnapData(info, opts); err != nil {
		return err
	}
	os.RemoveAll(info.DataDir())
	return nil
}

func (b *verifSeqBackend) RemoveSnapCommonData(info *snap.Info, opts *dirs.SnapDirOptions) error {
	if err := b.fakeSnappyBackend.RemoveSnapCommonData(info, opts); err != nil {
		return err
	}
	os.RemoveAll(info.CommonDataDir())
	return nil
}

// ---------------------------------------------------------------------------
// projection

type verifSeqRec struct {
	Seq         []int  `json:"seq"`
	Cur         int    `json:"cur"`
	Active      bool   `json:"active"`
	Chan        string `json:"chan"`
	Dev         bool   `json:"dev"`
	Jail        bool   `json:"jail"`
	Classic     bool   `json:"classic"`
	Try         bool   `json:"try"`
	Ignv        bool   `json:"ignv"`
	Cohort      string `json:"cohort"`
	LastRefresh int    `json:"lastRefresh"`
	Inhibited   int    `json:"inhibited"`
	Rstat       []int  `json:"rstat"`
	Block       []int  `json:"block"`
	Cfg         int    `json:"cfg"`
	RevCfg      []int  `json:"revcfg"`
	Apend       bool   `json:"apend"`
	// world
	Mounted []int `json:"mounted"`
	Linked  int   `json:"linked"`
	Data    []int `json:"data"`
	Common  bool  `json:"common"`
}

type verifSeqRetain struct {
	T string `json:"t"` // none | num | str | other
	V int    `json:"v"`
}

type verifSeqState struct {
	Snaps     map[string]*verifSeqRec `json:"snaps"`
	Retain    verifSeqRetain          `json:"retain"`
	RetainEff int                     `json:"retainEff"`
	OnClassic bool                    `json:"onClassic"`
	Boot      []int                   `json:"boot"`
}

func verifSeqTime(t *time.Time) int {
	if t == nil || t.IsZero() {
		return 0
	}
	return int(t.Sub(verifSeqEpoch) / time.Hour)
}

func verifSeqCfgVal(raw *json.RawMessage) int {
	if raw == nil {
		return 0
	}
	var m map[string]interface{}
	if err := json.Unmarshal(*raw, &m); err != nil {
		return -1
	}
	v, ok := m["k"]
	if !ok {
		return -2 // present but without our key
	}
	f, ok := v.(float64)
	if !ok {
		return -3
	}
	return int(f)
}

type verifSeqSuite struct {
	snapmgrBaseTest
	vb      *verifSeqBackend
	out     *bufio.Writer
	rnd     *rand.Rand
	clock   int // logical hours since epoch
	caseID  string
	snaps   []string
	bootRev []int

	// per-change
	failTaskID string
	failedHow  string
	curChg     *state.Change
	curIdx     int
	chain      []*state.Task
	chainIdx   map[string]int
	evErr      error
	abandon    bool
	nEvents    int
	nChanges   int
	nFaults    int
}

func (s *verifSeqSuite) project() *verifSeqState {
	st := s.state
	out := &verifSeqState{Snaps: map[string]*verifSeqRec{}, OnClassic: release.OnClassic, Boot: append([]int{}, s.bootRev...)}
	var revisionConfig map[string]map[string]*json.RawMessage
	st.Get("revision-config", &revisionConfig)
	worlds := s.foldWorld()
	for _, name := range s.snaps {
		r := &verifSeqRec{Seq: []int{}, Rstat: []int{}, Block: []int{}, RevCfg: make([]int, verifSeqMaxRev), Mounted: []int{}, Data: []int{}}
		var snapst snapstate.SnapState
		err := snapstate.Get(st, name, &snapst)
		if err == nil {
			for _, rs := range snapst.Sequence.Revisions {
				r.Seq = append(r.Seq, rs.Snap.Revision.N)
			}
			r.Cur = snapst.Current.N
			r.Active = snapst.Active
			r.Chan = snapst.TrackingChannel
			r.Dev, r.Jail, r.Classic, r.Try = snapst.DevMode, snapst.JailMode, snapst.Classic, snapst.TryMode
			r.Ignv = snapst.IgnoreValidation
			r.Cohort = snapst.CohortKey
			r.LastRefresh = verifSeqTime(snapst.LastRefreshTime)
			r.Inhibited = verifSeqTime(snapst.RefreshInhibitedTime)
			for n, v := range snapst.RevertStatus {
				if v == snapstate.NotBlocked {
					r.Rstat = append(r.Rstat, n)
				} else {
					r.Rstat = append(r.Rstat, -n)
				}
			}
			sort.Ints(r.Rstat)
			for _, b := range snapst.Block() {
				r.Block = append(r.Block, b.N)
			}
			r.Apend = snapst.AliasesPending
		} else if !errors.Is(err, state.ErrNoState) {
			panic(err)
		}
		raw, err := config.GetSnapConfig(st, name)
		if err != nil {
			panic(err)
		}
		r.Cfg = verifSeqCfgVal(raw)
		for revStr, raw := range revisionConfig[name] {
			n, err := strconv.Atoi(revStr)
			if err != nil || n < 1 || n > verifSeqMaxRev {
				panic(fmt.Sprintf("unexpected revision-config key %q", revStr))
			}
			r.RevCfg[n-1] = verifSeqCfgVal(raw)
		}
		if w := worlds[name]; w != nil {
			for rev := 1; rev <= verifSeqMaxRev; rev++ {
				if w.mounted[rev] {
					r.Mounted = append(r.Mounted, rev)
				}
			}
			r.Linked = w.linked
		}
		for rev := 1; rev <= verifSeqMaxRev; rev++ {
			if ex, _, _ := osutil.DirExists(snap.DataDir(name, snap.R(rev))); ex {
				r.Data = append(r.Data, rev)
			}
		}
		r.Common, _, _ = osutil.DirExists(snap.CommonDataDir(name))
		out.Snaps[name] = r
	}
	// retain raw
	var val interface{}
	err := config.NewTransaction(st).Get("core", "refresh.retain", &val)
	if err != nil {
		out.Retain = verifSeqRetain{T: "none"}
	} else {
		switch v := val.(type) {
		case json.Number:
			n, _ := strconv.Atoi(string(v))
			out.Retain = verifSeqRetain{T: "num", V: n}
		case string:
			n, err := strconv.Atoi(v)
			if err != nil {
				out.Retain = verifSeqRetain{T: "other"}
			} else {
				out.Retain = verifSeqRetain{T: "str", V: n}
			}
		default:
			out.Retain = verifSeqRetain{T: "other"}
		}
	}
	out.RetainEff = snapstate.RefreshRetain(st)
	return out
}

type verifSeqWorld struct {
	mounted map[int]bool
	linked  int
}

// path is <SnapMountDir>/<name>/<rev>
func verifSeqSplitMount(path string) (string, int) {
	rev, err := strconv.Atoi(filepath.Base(path))
	if err != nil {
		return "", 0
	}
	return filepath.Base(filepath.Dir(path)), rev
}

func (s *verifSeqSuite) foldWorld() map[string]*verifSeqWorld {
	ws := map[string]*verifSeqWorld{}
	get := func(name string) *verifSeqWorld {
		w := ws[name]
		if w == nil {
			w = &verifSeqWorld{mounted: map[int]bool{}}
			ws[name] = w
		}
		return w
	}
	s.fakeBackend.mu.Lock()
	defer s.fakeBackend.mu.Unlock()
	for i := range s.fakeBackend.ops {
		op := &s.fakeBackend.ops[i]
		switch op.op {
		case "setup-snap":
			get(op.name).mounted[op.revno.N] = true
		case "undo-setup-snap", "remove-snap-files":
			name, rev := verifSeqSplitMount(op.path)
			delete(get(name).mounted, rev)
		case "link-snap":
			name, rev := verifSeqSplitMount(op.path)
			get(name).linked = rev
		case "unlink-snap":
			name, _ := verifSeqSplitMount(op.path)
			get(name).linked = 0
		}
	}
	return ws
}

// ---------------------------------------------------------------------------
// event log

func (s *verifSeqSuite) emit(ev map[string]interface{}) {
	ev["case"] = s.caseID
	ev["st"] = s.project()
	b, err := json.Marshal(ev)
	if err != nil {
		panic(err)
	}
	s.out.Write(b)
	s.out.WriteByte('\n')
	s.nEvents++
}

// called with the state lock held (from Task.SetStatus)
func (s *verifSeqSuite) taskStatusChanged(t *state.Task, old, new state.Status) {
	if s.curChg == nil || t.Change() == nil || t.Change().ID() != s.curChg.ID() {
		return
	}
	idx, ok := s.chainIdx[t.ID()]
	if !ok && (t.Kind() == "check-rerefresh" || t.Kind() == "auto-connect") {
		// not part of the chain: check-rerefresh waits (by retrying) for the rest of the change; auto-connect
		// is injected at run time by doLinkSnap when the change has setup-profiles but no auto-connect
		// (Enable). Both are no-ops here (interface tasks are fakes) and touch nothing we model.
		return
	}
	if !ok {
		// a task injected at run time: the spec does not know it
		s.emit(map[string]interface{}{"ev": "Unexpected", "what": "task " + t.Kind() + " not in chain"})
		return
	}
	switch {
	case new == state.DoingStatus:
		s.curIdx = idx
	case new == state.DoneStatus && (old == state.DoingStatus || old == state.DoStatus):
		s.emit(map[string]interface{}{"ev": "Do", "idx": idx})
	case new == state.UndoneStatus:
		s.emit(map[string]interface{}{"ev": "Undo", "idx": idx})
	case new == state.ErrorStatus:
		mode := "entry"
		if old == state.UndoingStatus || old == state.UndoStatus {
			mode = "undo-error"
		} else if s.vb.injectedOp != "" && s.failedHow == "" {
			mode = "op:" + s.vb.injectedOp
		} else if s.failedHow != "entry" {
			mode = "self" // the handler failed on its own
		}
		s.emit(map[string]interface{}{"ev": "Fail", "idx": idx, "mode": mode})
	}
}

// blocked predicate used to make one task fail on entry: replicates the error branch of TaskRunner.run
// (abortLanes, then ErrorStatus) without invoking the handler.
func (s *verifSeqSuite) blocked(t *state.Task, running []*state.Task) bool {
	if s.failTaskID == "" || t.ID() != s.failTaskID || t.Status() != state.DoStatus {
		return false
	}
	s.failTaskID = ""
	s.failedHow = "entry"
	t.Change().AbortLanes(t.Lanes())
	t.SetStatus(state.ErrorStatus)
	t.Errorf("verif: injected failure on entry")
	t.State().EnsureBefore(0)
	return true
}

// ---------------------------------------------------------------------------
// operations

type verifSeqOp struct {
	Kind   string `json:"kind"`
	Snap   string `json:"snap"`
	Rev    int    `json:"rev"`
	Chan   string `json:"chan"`
	Dev    bool   `json:"dev"`
	Jail   bool   `json:"jail"`
	Cohort string `json:"cohort"`
	Leave  bool   `json:"leave"`
	Ignv   bool   `json:"ignv"`
	NB     bool   `json:"nb"`
	Store  bool   `json:"store"` // refresh: let the (fake) store pick the revision instead of asking for it
	Val    int    `json:"val"`
	Str    bool   `json:"str"`
	FK     int    `json:"fk"` // fail the fk-th task of the chain on entry (0: none)
	FJ     int    `json:"fj"` // fail the fj-th injectable backend op of the change (0: none)
	FOp    string `json:"fop"` // with fk: fail backend op fop inside task fk instead of failing the task on entry
	Now    int    `json:"now"`
}

func verifSeqTaskLabel(t *state.Task) (string, int) {
	kind := t.Kind()
	rev := 0
	if kind == "run-hook" {
		var hs struct {
			Hook string `json:"hook"`
		}
		if err := t.Get("hook-setup", &hs); err == nil {
			kind = "run-hook[" + hs.Hook + "]"
		}
	}
	if kind == "clear-snap" || kind == "discard-snap" {
		if snapsup, err := snapstate.TaskSnapSetup(t); err == nil {
			rev = snapsup.Revision().N
		}
	}
	return kind, rev
}

func verifSeqDepth(t *state.Task, memo map[string]int) int {
	if d, ok := memo[t.ID()]; ok {
		return d
	}
	d := 1
	for _, w := range t.WaitTasks() {
		if wd := verifSeqDepth(w, memo) + 1; wd > d {
			d = wd
		}
	}
	memo[t.ID()] = d
	return d
}

// request issues op through the public entry point; returns the task set or the error
func (s *verifSeqSuite) request(op *verifSeqOp) (*state.TaskSet, error) {
	st := s.state
	flags := snapstate.Flags{DevMode: op.Dev, JailMode: op.Jail, IgnoreValidation: op.Ignv}
	switch op.Kind {
	case "install":
		return snapstate.Install(context.Background(), st, op.Snap, &snapstate.RevisionOptions{Channel: op.Chan, Revision: snap.R(op.Rev), CohortKey: op.Cohort}, s.user.ID, flags)
	case "refresh":
		if op.Store {
			s.fakeStore.refreshRevnos = map[string]snap.Revision{op.Snap + "-id": snap.R(op.Rev)}
			return snapstate.Update(st, op.Snap, &snapstate.RevisionOptions{Channel: op.Chan, CohortKey: op.Cohort, LeaveCohort: op.Leave}, s.user.ID, flags)
		}
		s.fakeStore.refreshRevnos = nil
		return snapstate.Update(st, op.Snap, &snapstate.RevisionOptions{Channel: op.Chan, Revision: snap.R(op.Rev), CohortKey: op.Cohort, LeaveCohort: op.Leave}, s.user.ID, flags)
	case "revert":
		if op.NB {
			flags.RevertStatus = snapstate.NotBlocked
		}
		if op.Rev == 0 {
			return snapstate.Revert(st, op.Snap, flags, "")
		}
		return snapstate.RevertToRevision(st, op.Snap, snap.R(op.Rev), flags, "")
	case "remove":
		return snapstate.Remove(st, op.Snap, snap.R(op.Rev), nil)
	case "enable":
		return snapstate.Enable(st, op.Snap)
	case "disable":
		return snapstate.Disable(st, op.Snap)
	}
	panic("unknown op kind " + op.Kind)
}

func (s *verifSeqSuite) requestNoPanic(op *verifSeqOp) (ts *state.TaskSet, err error, panicked string) {
	defer func() {
		if r := recover(); r != nil {
			panicked = fmt.Sprint(r)
		}
	}()
	ts, err = s.request(op)
	return ts, err, ""
}

// runOp executes one operation (state lock held by caller) and logs its events.
func (s *verifSeqSuite) runOp(c *check.C, op *verifSeqOp) {
	st := s.state
	s.clock++
	op.Now = s.clock
	switch op.Kind {
	case "setretain":
		tr := config.NewTransaction(st)
		var v interface{}
		switch {
		case op.Val == 0:
			v = nil
		case op.Str:
			v = strconv.Itoa(op.Val)
		default:
			v = op.Val
		}
		c.Assert(tr.Set("core", "refresh.retain", v), check.IsNil)
		tr.Commit()
		s.emit(map[string]interface{}{"ev": "SetRetain", "op": op})
		return
	case "setconfig":
		tr := config.NewTransaction(st)
		c.Assert(tr.Set(op.Snap, "k", op.Val), check.IsNil)
		tr.Commit()
		s.emit(map[string]interface{}{"ev": "SetConfig", "op": op})
		return
	case "candidates":
		// the refresh-all query: which revision does the store offer, and which blocked revisions was it told about
		s.fakeStore.refreshRevnos = map[string]snap.Revision{op.Snap + "-id": snap.R(op.Rev)}
		opsBefore := len(s.fakeBackend.ops)
		infos, err := snapstate.RefreshCandidates(st, s.user)
		offered := 0
		for _, info := range infos {
			if info.InstanceName() == op.Snap {
				offered = info.Revision.N
			}
		}
		var storeBlock []int
		asked := false
		s.fakeBackend.mu.Lock()
		for _, o := range s.fakeBackend.ops[opsBefore:] {
			if o.op == "storesvc-snap-action" {
				for _, cs := range o.curSnaps {
					if cs.InstanceName == op.Snap {
						asked = true
						storeBlock = []int{}
						for _, b := range cs.Block {
							storeBlock = append(storeBlock, b.N)
						}
					}
				}
			}
		}
		s.fakeBackend.mu.Unlock()
		ev := map[string]interface{}{"ev": "Candidates", "op": op, "offered": offered, "asked": asked, "storeBlock": storeBlock}
		if err != nil {
			ev["err"] = err.Error()
		}
		s.emit(ev)
		return
	case "setboot":
		// what boot.InUse reports for the kernel: snap_kernel=Rev, snap_try_kernel=Val (0: unset)
		s.bootRev = []int{}
		if op.Rev > 0 {
			s.bl.SetBootVars(map[string]string{"snap_kernel": fmt.Sprintf("kernel_%d.snap", op.Rev)})
			s.bootRev = append(s.bootRev, op.Rev)
		} else {
			s.bl.SetBootVars(map[string]string{"snap_kernel": ""})
		}
		if op.Val > 0 && op.Val != op.Rev {
			s.bl.SetBootVars(map[string]string{"snap_try_kernel": fmt.Sprintf("kernel_%d.snap", op.Val)})
			s.bootRev = append(s.bootRev, op.Val)
		} else {
			s.bl.SetBootVars(map[string]string{"snap_try_kernel": ""})
		}
		sort.Ints(s.bootRev)
		s.emit(map[string]interface{}{"ev": "SetBoot", "op": op, "boot": s.bootRev})
		return
	case "inhibit":
		var snapst snapstate.SnapState
		if err := snapstate.Get(st, op.Snap, &snapst); err == nil {
			now := verifSeqEpoch.Add(time.Duration(s.clock) * time.Hour)
			snapst.RefreshInhibitedTime = &now
			snapstate.Set(st, op.Snap, &snapst)
		}
		s.emit(map[string]interface{}{"ev": "Inhibit", "op": op})
		return
	}

	s.failTaskID = ""
	s.failedHow = ""
	s.vb.arm(0)
	opsBefore := len(s.fakeBackend.ops)
	nChangesBefore := len(st.Changes())
	ts, err, panicked := s.requestNoPanic(op)
	if panicked != "" {
		// the real entry point panicked (e.g. on an inconsistent record): report it, give up on this history
		s.emit(map[string]interface{}{"ev": "Panic", "op": op, "what": panicked})
		s.abandon = true
		return
	}
	if err != nil {
		if len(st.Changes()) != nChangesBefore {
			s.emit(map[string]interface{}{"ev": "Unexpected", "what": "failed request created a change"})
		}
		s.emit(map[string]interface{}{"ev": "Request", "op": op, "ok": false, "err": err.Error(), "tasks": []interface{}{}})
		return
	}
	chg := st.NewChange(op.Kind, "verif "+op.Kind)
	chg.AddAll(ts)
	// chain order
	memo := map[string]int{}
	var tasks []*state.Task
	for _, t := range chg.Tasks() {
		if t.Kind() != "check-rerefresh" {
			tasks = append(tasks, t)
		}
	}
	sort.SliceStable(tasks, func(i, j int) bool { return verifSeqDepth(tasks[i], memo) < verifSeqDepth(tasks[j], memo) })
	linear := true
	for i, t := range tasks {
		if verifSeqDepth(t, memo) != i+1 {
			linear = false
		}
	}
	s.chain = tasks
	s.chainIdx = map[string]int{}
	labels := make([]map[string]interface{}, len(tasks))
	for i, t := range tasks {
		s.chainIdx[t.ID()] = i + 1
		k, r := verifSeqTaskLabel(t)
		labels[i] = map[string]interface{}{"k": k, "r": r}
	}
	fk := 0
	if op.FK > 0 && op.FK <= len(tasks) {
		fk = op.FK
		if op.FOp == "" {
			s.failTaskID = tasks[fk-1].ID()
		}
	}
	op.FK = fk
	if fk > 0 && op.FOp != "" {
		s.vb.failOp = op.FOp
		s.vb.failIdx = fk
		op.FJ = 0
	} else if fk == 0 && op.FJ > 0 {
		s.vb.arm(op.FJ)
	} else {
		op.FJ = 0
	}
	s.curIdx = 0
	s.curChg = chg
	s.emit(map[string]interface{}{"ev": "Request", "op": op, "ok": true, "tasks": labels, "linear": linear})

	st.Unlock()
	err = s.o.Settle(30 * time.Second)
	st.Lock()
	s.curChg = nil
	if err != nil {
		s.evErr = fmt.Errorf("case %s: settle: %v", s.caseID, err)
		return
	}
	// backend operations of this change (for direct checks, e.g. no copy-data on revert)
	var opnames []string
	s.fakeBackend.mu.Lock()
	for _, o := range s.fakeBackend.ops[opsBefore:] {
		if strings.HasPrefix(o.op, "storesvc") || o.op == "current" || o.op == "candidate" {
			continue
		}
		opnames = append(opnames, o.op)
	}
	// store context of the last refresh query (blocked revisions)
	var storeBlock []int
	sawStore := false
	for _, o := range s.fakeBackend.ops[opsBefore:] {
		if o.op == "storesvc-snap-action" {
			for _, cs := range o.curSnaps {
				if cs.InstanceName == op.Snap {
					sawStore = true
					storeBlock = []int{}
					for _, b := range cs.Block {
						storeBlock = append(storeBlock, b.N)
					}
				}
			}
		}
	}
	s.fakeBackend.mu.Unlock()
	if s.vb.injectedOp != "" || s.failedHow != "" {
		s.nFaults++
	}
	s.nChanges++
	ev := map[string]interface{}{"ev": "Settle", "status": chg.Status().String(), "ops": opnames, "injected": s.vb.injectedOp, "kind": op.Kind, "snap": op.Snap}
	if sawStore {
		ev["storeBlock"] = storeBlock
	}
	s.emit(ev)
}

// ---------------------------------------------------------------------------
// histories

func (s *verifSeqSuite) reset(c *check.C, onClassic bool) {
	if s.state != nil {
		s.TearDownTest(c)
	}
	s.SetUpTest(c)
	s.AddCleanup(release.MockOnClassic(onClassic))
	s.vb = &verifSeqBackend{fakeSnappyBackend: s.fakeBackend, created: map[string]bool{}, curIdx: &s.curIdx}
	s.fakeBackend.maybeInjectErr = s.vb.inject
	snapstate.SetSnapManagerBackend(s.snapmgr, s.vb)
	s.o.TaskRunner().AddBlocked(s.blocked)
	s.clock = 0
	s.AddCleanup(snapstate.MockTimeNow(func() time.Time {
		return verifSeqEpoch.Add(time.Duration(s.clock) * time.Hour)
	}))
	s.state.Lock()
	s.state.AddTaskStatusChangedHandler(s.taskStatusChanged)
	s.state.Unlock()
	s.bootRev = []int{}
	s.curChg = nil
	s.abandon = false
	// the model's kernel: make the (fake) on-disk metadata say so consistently
	s.AddCleanup(snapstate.MockSnapReadInfo(func(name string, si *snap.SideInfo) (*snap.Info, error) {
		info, err := s.fakeBackend.ReadInfo(name, si)
		if err == nil && name == "kernel" {
			info.SnapType = snap.TypeKernel
		}
		return info, err
	}))
}

func (s *verifSeqSuite) installedRec(name string) *verifSeqRec {
	return s.project().Snaps[name]
}

func (s *verifSeqSuite) randomOp(name string) *verifSeqOp {
	r := s.rnd
	rec := s.installedRec(name)
	op := &verifSeqOp{Snap: name}
	chans := []string{"", "", "latest/stable", "latest/edge"}
	cohorts := []string{"", "", "c1", "c2"}
	installed := len(rec.Seq) > 0
	pick := r.Intn(100)
	switch {
	case !installed && pick < 85:
		op.Kind = "install"
		op.Rev = 1 + r.Intn(verifSeqMaxRev-1)
		op.Chan = chans[r.Intn(len(chans))]
		op.Dev = r.Intn(6) == 0
		op.Jail = !op.Dev && r.Intn(8) == 0
	case pick < 40:
		op.Kind = "refresh"
		op.Rev = 1 + r.Intn(verifSeqMaxRev)
		for op.Rev == rec.Cur {
			// refresh to the current revision is a metadata switch (or "no update"), not modelled
			op.Rev = 1 + r.Intn(verifSeqMaxRev)
		}
		op.Chan = chans[r.Intn(len(chans))]
		op.Store = r.Intn(2) == 0
		if op.Store {
			op.Cohort = cohorts[r.Intn(len(cohorts))]
			op.Leave = op.Cohort == "" && r.Intn(5) == 0
		}
		op.Dev = r.Intn(8) == 0
		op.Jail = !op.Dev && r.Intn(10) == 0
		op.Ignv = r.Intn(6) == 0
	case pick < 58:
		op.Kind = "revert"
		if r.Intn(2) == 0 {
			op.Rev = 1 + r.Intn(verifSeqMaxRev)
		}
		op.NB = r.Intn(3) == 0
		op.Dev = r.Intn(10) == 0
	case pick < 66:
		op.Kind = "remove"
		switch r.Intn(4) {
		case 0:
			op.Rev = 1 + r.Intn(verifSeqMaxRev)
		case 1, 2:
			if len(rec.Seq) > 0 {
				op.Rev = rec.Seq[r.Intn(len(rec.Seq))]
			}
		}
	case pick < 72:
		op.Kind = "disable"
		if !rec.Active && r.Intn(3) > 0 {
			op.Kind = "enable"
		}
	case pick < 78:
		op.Kind = "enable"
		if rec.Active && r.Intn(3) > 0 {
			op.Kind = "disable"
		}
	case pick < 86:
		op.Kind = "setconfig"
		op.Val = 1 + r.Intn(3)
		if !installed {
			op.Kind = "install"
			op.Rev = 1 + r.Intn(verifSeqMaxRev-1)
		}
	case pick < 94:
		op.Kind = "setretain"
		vals := []int{0, 2, 2, 3, 3, 4}
		op.Val = vals[r.Intn(len(vals))]
		op.Str = op.Val != 0 && r.Intn(3) == 0
	case pick < 97:
		op.Kind = "candidates"
		op.Rev = 1 + r.Intn(verifSeqMaxRev)
	default:
		op.Kind = "inhibit"
		if !installed {
			op.Kind = "install"
			op.Rev = 1 + r.Intn(verifSeqMaxRev-1)
		}
	}
	return op
}

func (s *verifSeqSuite) isChangeOp(op *verifSeqOp) bool {
	switch op.Kind {
	case "setretain", "setconfig", "inhibit", "setboot", "candidates":
		return false
	}
	return true
}

// runHistory replays ops on a fresh system; returns false if the run had to be abandoned
func (s *verifSeqSuite) runHistory(c *check.C, id string, onClassic bool, ops []*verifSeqOp) {
	s.reset(c, onClassic)
	s.caseID = id
	s.state.Lock()
	defer s.state.Unlock()
	s.emit(map[string]interface{}{"ev": "Reset"})
	for _, op := range ops {
		cp := *op
		s.runOp(c, &cp)
		*op = cp
		if s.evErr != nil || s.abandon {
			return
		}
	}
}

func (s *verifSeqSuite) TestVerifSeqHistories(c *check.C) {
	outPath := os.Getenv("VERIF_OUT")
	if outPath == "" {
		c.Skip("VERIF_OUT not set")
	}
	seed, _ := strconv.ParseInt(os.Getenv("VERIF_SEED"), 10, 64)
	nHist, _ := strconv.Atoi(os.Getenv("VERIF_N"))
	if nHist == 0 {
		nHist = 5
	}
	maxLen, _ := strconv.Atoi(os.Getenv("VERIF_LEN"))
	if maxLen == 0 {
		maxLen = 4
	}
	nEnum, _ := strconv.Atoi(os.Getenv("VERIF_ENUM"))
	f, err := os.Create(outPath)
	c.Assert(err, check.IsNil)
	defer f.Close()
	s.out = bufio.NewWriterSize(f, 1<<20)
	defer s.out.Flush()
	s.rnd = rand.New(rand.NewSource(seed))
	s.snaps = []string{"some-snap", "some-other-snap", "kernel"}

	t0 := time.Now()
	// (r) replay of given histories (TLC counterexamples, directed scenarios)
	if rp := os.Getenv("VERIF_REPLAY"); rp != "" {
		data, err := os.ReadFile(rp)
		c.Assert(err, check.IsNil)
		var hs []struct {
			ID        string        `json:"id"`
			OnClassic bool          `json:"onClassic"`
			Ops       []*verifSeqOp `json:"ops"`
		}
		c.Assert(json.Unmarshal(data, &hs), check.IsNil)
		for _, h := range hs {
			s.runHistory(c, h.ID, h.OnClassic, h.Ops)
			c.Assert(s.evErr, check.IsNil)
		}
		nHist, nEnum = 0, 0
	}
	// (a) random histories with random faults
	for h := 0; h < nHist; h++ {
		onClassic := s.rnd.Intn(2) == 0
		n := 2 + s.rnd.Intn(maxLen-1)
		s.reset(c, onClassic)
		s.caseID = fmt.Sprintf("r%d", h)
		s.state.Lock()
		s.emit(map[string]interface{}{"ev": "Reset"})
		for i := 0; i < n && s.evErr == nil && !s.abandon; i++ {
			name := s.snaps[0]
			if s.rnd.Intn(4) == 0 {
				name = s.snaps[1]
			}
			op := s.randomOp(name)
			if s.isChangeOp(op) {
				switch s.rnd.Intn(10) {
				case 0, 1, 2:
					op.FK = 1 + s.rnd.Intn(30)
				case 3, 4:
					op.FJ = 1 + s.rnd.Intn(14)
				}
			}
			s.runOp(c, op)
		}
		s.state.Unlock()
		c.Assert(s.evErr, check.IsNil)
	}
	// (b) random fault-free-ish prefix + every fault position of the last operation
	for h := 0; h < nEnum; h++ {
		onClassic := s.rnd.Intn(2) == 0
		n := 1 + s.rnd.Intn(maxLen)
		var ops []*verifSeqOp
		// first pass: generate the prefix adaptively and learn the size of the last change
		s.reset(c, onClassic)
		s.caseID = fmt.Sprintf("e%d.0", h)
		s.state.Lock()
		s.emit(map[string]interface{}{"ev": "Reset"})
		nTasks := 0
		for i := 0; i < n && s.evErr == nil && !s.abandon; i++ {
			op := s.randomOp(s.snaps[0])
			if i == n-1 {
				// make the last one a change
				for !s.isChangeOp(op) || op.Kind == "enable" || op.Kind == "disable" {
					op = s.randomOp(s.snaps[0])
				}
			} else if s.isChangeOp(op) && s.rnd.Intn(6) == 0 {
				op.FK = 1 + s.rnd.Intn(30)
			}
			s.runOp(c, op)
			ops = append(ops, op)
			if i == n-1 {
				nTasks = len(s.chain)
				if s.curChg == nil && len(s.chainIdx) == 0 {
					nTasks = 0
				}
			}
		}
		s.state.Unlock()
		c.Assert(s.evErr, check.IsNil)
		last := ops[len(ops)-1]
		if nTasks == 0 {
			continue
		}
		for k := 1; k <= nTasks; k++ {
			cp := make([]*verifSeqOp, len(ops))
			for i := range ops {
				o := *ops[i]
				cp[i] = &o
			}
			cp[len(cp)-1].FK = k
			cp[len(cp)-1].FJ = 0
			s.runHistory(c, fmt.Sprintf("e%d.k%d", h, k), onClassic, cp)
			c.Assert(s.evErr, check.IsNil)
		}
		for j := 1; j <= 40; j++ {
			cp := make([]*verifSeqOp, len(ops))
			for i := range ops {
				o := *ops[i]
				cp[i] = &o
			}
			cp[len(cp)-1].FK = 0
			cp[len(cp)-1].FJ = j
			s.runHistory(c, fmt.Sprintf("e%d.j%d", h, j), onClassic, cp)
			c.Assert(s.evErr, check.IsNil)
			if s.vb.injectedOp == "" {
				break // j exceeds the number of injectable operations
			}
		}
		_ = last
	}
	s.out.Flush()
	fmt.Printf("VERIF-SNAPSEQ events=%d changes=%d faults=%d wall=%.1fs\n", s.nEvents, s.nChanges, s.nFaults, time.Since(t0).Seconds())
}

func TestVerifSnapSeq(t *testing.T) {
	res := check.Run(&verifSeqSuite{}, &check.RunConf{Verbose: os.Getenv("VERIF_VERBOSE") != ""})
	if !res.Passed() {
		t.Fatalf("verifSeqSuite: %s", res.String())
	}
	fmt.Println("VERIF-SNAPSEQ", res.String())
}
