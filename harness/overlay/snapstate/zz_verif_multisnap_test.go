// -*- Mode: Go; indent-tabs-mode: t -*-

// /verif harness for MultiSnap.tla (extension E01: multi-snap changes, one lane per snap /
// one lane for all snaps when transactional).
//
// Compiled INTO package overlord/snapstate's external test package together with
// zz_verif_snapseq_test.go (whose suite, backend wrapper, projection and single-snap
// operations are reused; that file is not modified).  Nothing is written to /repo.
//
// A history is a list of steps: single-snap operations of the SnapSeq harness (used only to
// build a context: kept revisions, reverts, retain, config) and MULTI operations, which drive
// the real snapstate.InstallMany / UpdateMany / RemoveMany (Flags.Transaction per-snap or
// all-snaps) on 1..3 snaps with up to one injected fault per snap (k-th task of that snap's
// chain fails on entry, or a backend operation of that snap fails inside task k).  For a multi
// operation one NDJSON event is recorded per critical section of the task engine that touches
// the change (handler started, done, failed incl. the lane abort, undone, ...) with the status
// of every task of the change and the projected abstract state of every snap.
//
// All identifiers are prefixed verifMulti.

package snapstate_test

import (
	"bufio"
	"context"
	"encoding/json"
	"errors"
	"fmt"
	"os"
	"runtime/debug"
	"sort"
	"strings"
	"sync"
	"testing"
	"time"

	"gopkg.in/check.v1"

	"github.com/snapcore/snapd/client"
	"github.com/snapcore/snapd/dirs"
	"github.com/snapcore/snapd/overlord/snapstate"
	"github.com/snapcore/snapd/overlord/state"
	"github.com/snapcore/snapd/progress"
	"github.com/snapcore/snapd/snap"
)

// verifMultiBackend serialises the two operations of the SnapSeq harness's backend wrapper that keep a map of the
// data directories they created: here handlers of different snaps run concurrently.
type verifMultiBackend struct {
	*verifSeqBackend
	dataMu sync.Mutex
}

func (b *verifMultiBackend) CopySnapData(newInfo, oldInfo *snap.Info, opts *dirs.SnapDirOptions, p progress.Meter) error {
	b.dataMu.Lock()
	defer b.dataMu.Unlock()
	return b.verifSeqBackend.CopySnapData(newInfo, oldInfo, opts, p)
}

func (b *verifMultiBackend) UndoCopySnapData(newInfo, oldInfo *snap.Info, opts *dirs.SnapDirOptions, p progress.Meter) error {
	b.dataMu.Lock()
	defer b.dataMu.Unlock()
	return b.verifSeqBackend.UndoCopySnapData(newInfo, oldInfo, opts, p)
}

// watchdog only (the machine is shared and at times very loaded)
const verifMultiSettleTimeout = 90 * time.Second

type verifMultiSnapOp struct {
	Snap string `json:"snap"`
	Rev  int    `json:"rev"`
}

type verifMultiFault struct {
	S  int    `json:"s"`  // position (1-based) of the snap in the operation's snap list
	K  int    `json:"k"`  // index (1-based) of the task in that snap's chain
	Op string `json:"op"` // "" = the task fails on entry; else this backend operation of the snap fails
}

type verifMultiOp struct {
	Kind   string             `json:"kind"` // install-many | update-many | remove-many
	Txn    bool               `json:"txn"`  // Flags.Transaction = all-snaps
	Snaps  []verifMultiSnapOp `json:"snaps"`
	Faults []verifMultiFault  `json:"faults"`
	Now    int                `json:"now"`
	// NeedFault: do not run the change when none of the planned faults addresses a task (enumeration on one system)
	NeedFault bool `json:"needFault,omitempty"`
}

type verifMultiStep struct {
	Seq   *verifSeqOp   `json:"seq,omitempty"`
	Multi *verifMultiOp `json:"multi,omitempty"`
}

type verifMultiHistory struct {
	ID        string           `json:"id"`
	OnClassic bool             `json:"onClassic"`
	Enum      bool             `json:"enum"`    // enumerate every fault position of the LAST multi step
	Chain     bool             `json:"chain"`   // with enum: all attempts on ONE system (the context is built once; sound
	//                                             for transactional changes, which restore every snap when they fail)
	EnumOps   []string         `json:"enumOps"` // ... and these backend operations, for every snap
	EnumEvery int              `json:"enumEvery"` // > 1: only every n-th task index (1, 1+n, ...)
	Steps     []verifMultiStep `json:"steps"`
}

type verifMultiOpFault struct {
	snap  string
	op    string
	fired bool
}

type verifMultiSuite struct {
	verifSeqSuite

	mChg      *state.Change
	mTasks    []*state.Task  // global order: snaps in request order, chain order; extras last
	mIdx      map[string]int // task id -> 1-based global index
	mSnapOf   map[string]string
	mEntry    map[string]bool // task ids that fail on entry
	mEntryHit map[string]bool
	mOpFaults []*verifMultiOpFault
	mLens     []int // chain length per snap of the last multi request
	mLabels   [][]string
	mAbortMu  sync.Mutex
	mAborted  map[string]bool // snaps with a task that was told to undo / aborted (written under the state lock)
	mChanges  int
	mFaults   int
	mEvents   int
}

// ---------------------------------------------------------------------------
// fault injection

func verifMultiOpSnap(op *fakeOp) string {
	if op.name != "" {
		return op.name
	}
	if name, rev := verifSeqSplitMount(op.path); rev != 0 {
		return name
	}
	return ""
}

func (s *verifMultiSuite) multiInject(op *fakeOp) error {
	if s.mChg == nil {
		return nil
	}
	for _, f := range s.mOpFaults {
		if f.fired || f.op != op.op || verifMultiOpSnap(op) != f.snap {
			continue
		}
		// only do-handlers of a lane that has not been aborted are failed (an undo handler calls the same
		// backend operations)
		s.mAbortMu.Lock()
		aborted := s.mAborted[f.snap]
		s.mAbortMu.Unlock()
		if aborted {
			continue
		}
		f.fired = true
		op.op = op.op + ".failed"
		return errors.New("verif: injected backend failure")
	}
	return nil
}

// same technique as verifSeqSuite.blocked (replica of the error branch of TaskRunner.run), for several tasks
func (s *verifMultiSuite) multiBlocked(t *state.Task, running []*state.Task) bool {
	if s.mChg == nil || !s.mEntry[t.ID()] || t.Status() != state.DoStatus {
		return false
	}
	delete(s.mEntry, t.ID())
	s.mEntryHit[t.ID()] = true
	t.Change().AbortLanes(t.Lanes())
	t.SetStatus(state.ErrorStatus)
	t.Errorf("verif: injected failure on entry")
	t.State().EnsureBefore(0)
	return true
}

// ---------------------------------------------------------------------------
// events

func (s *verifMultiSuite) multiStatuses() []string {
	out := make([]string, len(s.mTasks))
	for i, t := range s.mTasks {
		out[i] = t.Status().String()
	}
	return out
}

func (s *verifMultiSuite) multiEmit(ev map[string]interface{}, withState bool) {
	ev["case"] = s.caseID
	if withState {
		ev["st"] = s.project()
	}
	if s.mChg != nil {
		ev["tst"] = s.multiStatuses()
	}
	b, err := json.Marshal(ev)
	if err != nil {
		panic(err)
	}
	s.out.Write(b)
	s.out.WriteByte('\n')
	s.mEvents++
}

// called with the state lock held (from Task.SetStatus)
func (s *verifMultiSuite) multiStatusChanged(t *state.Task, old, new state.Status) {
	if s.mChg == nil || t.Change() == nil || t.Change().ID() != s.mChg.ID() {
		return
	}
	idx, ok := s.mIdx[t.ID()]
	if !ok {
		// a task added to the change at run time: the spec does not know it
		s.multiEmit(map[string]interface{}{"ev": "MUnexpected", "what": fmt.Sprintf("task %s (%s -> %s) is not part of the requested graph", t.Kind(), old, new)}, false)
		return
	}
	name := s.mSnapOf[t.ID()]
	ev := map[string]interface{}{"t": idx, "snap": name}
	if new == state.UndoStatus || new == state.AbortStatus || new == state.UndoingStatus {
		s.mAbortMu.Lock()
		s.mAborted[name] = true
		s.mAbortMu.Unlock()
	}
	if old == state.DefaultStatus {
		old = state.DoStatus // a task that never had its status set reports Do
	}
	withState := true
	switch {
	case old == state.DoStatus && new == state.DoingStatus:
		ev["ev"], withState = "MStart", false
	case old == state.UndoStatus && new == state.UndoingStatus:
		ev["ev"], withState = "MStartUndo", false
	case old == state.DoingStatus && new == state.DoneStatus:
		ev["ev"] = "MDo"
	case old == state.AbortStatus && new == state.UndoStatus:
		// the handler returned nil while the task was being aborted: "it was actually Done if it got here"
		ev["ev"] = "MDoAborted"
	case new == state.UndoneStatus:
		ev["ev"] = "MUndo"
	case old == state.UndoStatus && new == state.DoneStatus:
		// Ensure: a task to be undone whose kind has no undo handler
		ev["ev"] = "MNoUndo"
	case old == state.AbortStatus && new == state.HoldStatus:
		ev["ev"] = "MAbortHold"
	case new == state.ErrorStatus:
		ev["ev"] = "MFail"
		mode := "self"
		switch {
		case old == state.UndoingStatus || old == state.UndoStatus:
			mode = "undo-error"
		case s.mEntryHit[t.ID()]:
			mode = "entry"
		default:
			for _, f := range s.mOpFaults {
				if f.fired && f.snap == name {
					mode = "op:" + f.op
				}
			}
		}
		ev["mode"] = mode
		ev["from"] = old.String()
	case (old == state.DoStatus && new == state.HoldStatus) || (old == state.DoneStatus && new == state.UndoStatus) ||
		(old == state.DoingStatus && new == state.AbortStatus):
		// Change.abortLanes inside the critical section of the failing task: part of its MFail step
		return
	default:
		ev["ev"] = "MUnexpected"
		ev["what"] = fmt.Sprintf("task %d (%s): status %s -> %s", idx, t.Kind(), old, new)
		withState = false
	}
	s.multiEmit(ev, withState)
}

// ---------------------------------------------------------------------------
// the multi-snap request

func (s *verifMultiSuite) multiRequest(op *verifMultiOp) (tss []*state.TaskSet, err error, panicked string) {
	defer func() {
		if r := recover(); r != nil {
			panicked = fmt.Sprint(r)
			if os.Getenv("VERIF_VERBOSE") != "" {
				fmt.Printf("VERIF-MULTISNAP request panicked: %v\n%s\n", r, debug.Stack())
			}
		}
	}()
	st := s.state
	flags := &snapstate.Flags{}
	if op.Txn {
		flags.Transaction = client.TransactionAllSnaps
	}
	names := make([]string, len(op.Snaps))
	revOpts := make([]*snapstate.RevisionOptions, len(op.Snaps))
	for i, so := range op.Snaps {
		names[i] = so.Snap
		revOpts[i] = &snapstate.RevisionOptions{Revision: snap.R(so.Rev)}
	}
	s.fakeStore.refreshRevnos = nil
	switch op.Kind {
	case "install-many":
		_, tss, err = snapstate.InstallMany(st, names, revOpts, s.user.ID, flags)
	case "update-many":
		_, tss, err = snapstate.UpdateMany(context.Background(), st, names, revOpts, s.user.ID, flags)
	case "remove-many":
		_, tss, err = snapstate.RemoveMany(st, names, nil)
	default:
		panic("unknown multi op kind " + op.Kind)
	}
	return tss, err, ""
}

func (s *verifMultiSuite) runMulti(c *check.C, op *verifMultiOp) {
	st := s.state
	s.clock++
	op.Now = s.clock
	s.mChg = nil
	if op.Faults == nil {
		op.Faults = []verifMultiFault{}
	}
	// the state every snap is in when the request is made (the trace spec adopts it: the context was built by
	// single-snap operations that C10-C13 are about)
	s.multiEmit(map[string]interface{}{"ev": "MCtx"}, true)

	nChangesBefore := len(st.Changes())
	tss, err, panicked := s.multiRequest(op)
	if panicked != "" {
		s.multiEmit(map[string]interface{}{"ev": "MPanic", "op": op, "what": panicked}, true)
		s.abandon = true
		return
	}
	if err != nil {
		if len(st.Changes()) != nChangesBefore {
			s.multiEmit(map[string]interface{}{"ev": "MUnexpected", "what": "failed request created a change"}, false)
		}
		s.multiEmit(map[string]interface{}{"ev": "MRequest", "op": op, "ok": false, "err": err.Error()}, true)
		return
	}
	chg := st.NewChange(op.Kind, "verif "+op.Kind)
	for _, ts := range tss {
		chg.AddAll(ts)
	}
	allTasks := chg.Tasks()
	// group the tasks per snap (by their snap-setup), chain order by dependency depth
	memo := map[string]int{}
	bySnap := map[string][]*state.Task{}
	var extras []*state.Task
	owner := map[string]string{}
	for _, t := range allTasks {
		if snapsup, err := snapstate.TaskSnapSetup(t); err == nil && snapsup != nil {
			owner[t.ID()] = snapsup.InstanceName()
			continue
		}
		var hs struct {
			Snap string `json:"snap"`
		}
		if err := t.Get("hook-setup", &hs); err == nil && hs.Snap != "" {
			owner[t.ID()] = hs.Snap
		}
	}
	// tasks that carry no snap name (the test fixture's save-snapshot): the snap of a neighbour in the graph
	for _, t := range allTasks {
		if owner[t.ID()] != "" {
			continue
		}
		for _, nb := range append(append([]*state.Task{}, t.WaitTasks()...), t.HaltTasks()...) {
			if owner[nb.ID()] != "" {
				owner[t.ID()] = owner[nb.ID()]
				break
			}
		}
	}
	for _, t := range allTasks {
		if n := owner[t.ID()]; n != "" {
			bySnap[n] = append(bySnap[n], t)
		} else {
			extras = append(extras, t)
		}
	}
	s.mTasks = nil
	s.mIdx = map[string]int{}
	s.mSnapOf = map[string]string{}
	s.mLens = make([]int, len(op.Snaps))
	s.mLabels = make([][]string, len(op.Snaps))
	for i, so := range op.Snaps {
		tasks := bySnap[so.Snap]
		delete(bySnap, so.Snap)
		sort.SliceStable(tasks, func(a, b int) bool { return verifSeqDepth(tasks[a], memo) < verifSeqDepth(tasks[b], memo) })
		s.mLens[i] = len(tasks)
		for _, t := range tasks {
			s.mTasks = append(s.mTasks, t)
			s.mIdx[t.ID()] = len(s.mTasks)
			s.mSnapOf[t.ID()] = so.Snap
			k, _ := verifSeqTaskLabel(t)
			s.mLabels[i] = append(s.mLabels[i], k)
		}
	}
	// tasks about snaps that were not requested, or without snap-setup (check-rerefresh)
	strays := []string{}
	for n, ts := range bySnap {
		strays = append(strays, n)
		extras = append(extras, ts...)
	}
	sort.Strings(strays)
	sort.SliceStable(extras, func(a, b int) bool { return extras[a].ID() < extras[b].ID() })
	for _, t := range extras {
		s.mTasks = append(s.mTasks, t)
		s.mIdx[t.ID()] = len(s.mTasks)
		s.mSnapOf[t.ID()] = ""
	}
	// lanes, renumbered by first appearance in global task order (0 stays 0: "no lane")
	laneNo := map[int]int{0: 0}
	norm := func(t *state.Task) []int {
		out := []int{}
		for _, l := range t.Lanes() {
			if _, ok := laneNo[l]; !ok {
				laneNo[l] = len(laneNo)
			}
			out = append(out, laneNo[l])
		}
		return out
	}
	waitsOf := func(t *state.Task) []int {
		out := []int{}
		for _, w := range t.WaitTasks() {
			out = append(out, s.mIdx[w.ID()])
		}
		sort.Ints(out)
		return out
	}
	graph := []map[string]interface{}{}
	pos := 0
	for i, so := range op.Snaps {
		tasks := []map[string]interface{}{}
		lanes := [][]int{}
		waits := [][]int{}
		for j := 0; j < s.mLens[i]; j++ {
			t := s.mTasks[pos]
			pos++
			k, r := verifSeqTaskLabel(t)
			tasks = append(tasks, map[string]interface{}{"k": k, "r": r})
			lanes = append(lanes, norm(t))
			waits = append(waits, waitsOf(t))
		}
		graph = append(graph, map[string]interface{}{"snap": so.Snap, "first": pos - s.mLens[i] + 1, "tasks": tasks, "lanes": lanes, "waits": waits})
	}
	extra := []map[string]interface{}{}
	for _, t := range extras {
		extra = append(extra, map[string]interface{}{"k": t.Kind(), "lanes": norm(t), "waits": waitsOf(t), "snap": s.mSnapOf[t.ID()]})
	}
	// faults (dropped when they address nothing)
	s.mEntry = map[string]bool{}
	s.mEntryHit = map[string]bool{}
	s.mAbortMu.Lock()
	s.mAborted = map[string]bool{}
	s.mAbortMu.Unlock()
	s.mOpFaults = nil
	eff := []verifMultiFault{}
	seenSnap := map[int]bool{}
	for _, f := range op.Faults {
		if f.S < 1 || f.S > len(op.Snaps) || f.K < 1 || f.K > s.mLens[f.S-1] || seenSnap[f.S] {
			continue
		}
		if f.Op != "" {
			// a backend operation is only failed if a task of this snap's chain calls it from its do-handler
			hosted := false
			for _, k := range s.mLabels[f.S-1] {
				for _, hk := range verifMultiOpHost[f.Op] {
					hosted = hosted || k == hk
				}
			}
			if !hosted {
				continue
			}
		}
		seenSnap[f.S] = true
		first := 0
		for i := 0; i < f.S-1; i++ {
			first += s.mLens[i]
		}
		t := s.mTasks[first+f.K-1]
		if f.Op == "" {
			s.mEntry[t.ID()] = true
		} else {
			s.mOpFaults = append(s.mOpFaults, &verifMultiOpFault{snap: op.Snaps[f.S-1].Snap, op: f.Op})
		}
		eff = append(eff, f)
	}
	if op.NeedFault && len(eff) == 0 {
		// an enumerated fault position that does not exist (any more): nothing to try.  Nothing of the change
		// has started: aborting it puts every task on Hold (the change is not observed: s.mChg is nil).
		chg.Abort()
		return
	}
	op.Faults = eff
	s.mChg = chg
	s.multiEmit(map[string]interface{}{"ev": "MRequest", "op": op, "ok": true, "graph": graph, "extra": extra, "strays": strays}, true)

	st.Unlock()
	err = s.o.Settle(verifMultiSettleTimeout)
	st.Lock()
	if err != nil {
		// watchdog: say what was still pending
		pending := []string{}
		for i, t := range s.mTasks {
			if !t.Status().Ready() {
				pending = append(pending, fmt.Sprintf("%d:%s:%s", i+1, t.Kind(), t.Status()))
			}
		}
		s.mChg = nil
		s.evErr = fmt.Errorf("case %s: settle: %v; change %s, pending tasks %v", s.caseID, err, chg.Status(), pending)
		return
	}
	fired := []string{}
	for _, f := range s.mOpFaults {
		if f.fired {
			fired = append(fired, f.snap+":"+f.op)
		}
	}
	if len(s.mEntryHit) > 0 || len(fired) > 0 {
		s.mFaults++
	}
	s.mChanges++
	s.multiEmit(map[string]interface{}{"ev": "MSettle", "status": chg.Status().String(), "ready": chg.IsReady(), "fired": fired, "entryHits": len(s.mEntryHit)}, true)
	s.mChg = nil
}

// ---------------------------------------------------------------------------
// histories

func (s *verifMultiSuite) multiReset(c *check.C, onClassic bool) {
	s.reset(c, onClassic)
	s.mChg = nil
	snapstate.SetSnapManagerBackend(s.snapmgr, &verifMultiBackend{verifSeqBackend: s.vb})
	s.fakeBackend.maybeInjectErr = func(op *fakeOp) error {
		if s.mChg != nil {
			return s.multiInject(op)
		}
		return s.vb.inject(op)
	}
	s.o.TaskRunner().AddBlocked(s.multiBlocked)
	s.state.Lock()
	s.state.AddTaskStatusChangedHandler(s.multiStatusChanged)
	s.state.Unlock()
}

func (s *verifMultiSuite) runMultiHistory(c *check.C, id string, onClassic bool, steps []verifMultiStep) {
	s.multiReset(c, onClassic)
	s.caseID = id
	s.state.Lock()
	defer s.state.Unlock()
	s.multiEmit(map[string]interface{}{"ev": "MReset"}, true)
	for _, step := range steps {
		switch {
		case step.Seq != nil:
			cp := *step.Seq
			s.runOp(c, &cp)
		case step.Multi != nil:
			cp := *step.Multi
			cp.Snaps = append([]verifMultiSnapOp{}, step.Multi.Snaps...)
			cp.Faults = append([]verifMultiFault{}, step.Multi.Faults...)
			s.runMulti(c, &cp)
		}
		if s.evErr != nil || s.abandon {
			return
		}
	}
}

// which task of a chain hosts a backend operation
var verifMultiOpHost = map[string][]string{
	"setup-snap":           {"mount-snap"},
	"copy-data":            {"copy-snap-data"},
	"setup-snap-save-data": {"copy-snap-data"},
	"link-snap":            {"link-snap"},
	"unlink-snap":          {"unlink-current-snap", "unlink-snap"},
	"remove-snap-data":     {"clear-snap"},
}

func (s *verifMultiSuite) TestVerifMultiHistories(c *check.C) {
	outPath := os.Getenv("VERIF_OUT")
	if outPath == "" {
		c.Skip("VERIF_OUT not set")
	}
	f, err := os.Create(outPath)
	c.Assert(err, check.IsNil)
	defer f.Close()
	s.out = bufio.NewWriterSize(f, 1<<20)
	defer s.out.Flush()
	s.snaps = []string{"some-snap", "some-other-snap", "snap-c"}

	data, err := os.ReadFile(os.Getenv("VERIF_HISTORIES"))
	c.Assert(err, check.IsNil)
	var hs []verifMultiHistory
	c.Assert(json.Unmarshal(data, &hs), check.IsNil)

	t0 := time.Now()
	nHist := 0
	for _, h := range hs {
		if len(h.Steps) == 0 {
			continue
		}
		if !h.Enum || h.Steps[len(h.Steps)-1].Multi == nil {
			s.runMultiHistory(c, h.ID, h.OnClassic, h.Steps)
			c.Assert(s.evErr, check.IsNil)
			nHist++
			continue
		}
		last := h.Steps[len(h.Steps)-1]
		prefix := h.Steps[:len(h.Steps)-1]
		// attempt runs the last multi step with the given faults: on a fresh system (after replaying the context),
		// or -- chain mode -- on the system the previous attempts left
		started := false
		attempt := func(id string, faults []verifMultiFault) {
			m := *last.Multi
			m.Faults = faults
			m.NeedFault = h.Chain && len(faults) > 0
			if !h.Chain {
				s.runMultiHistory(c, id, h.OnClassic, append(append([]verifMultiStep{}, prefix...), verifMultiStep{Multi: &m}))
			} else {
				if !started {
					s.runMultiHistory(c, id, h.OnClassic, prefix)
					started = true
				}
				if s.evErr == nil && !s.abandon {
					s.caseID = id
					s.state.Lock()
					s.runMulti(c, &m)
					s.state.Unlock()
				}
			}
			c.Assert(s.evErr, check.IsNil)
			nHist++
		}
		// the planned faults are dropped by runMulti when they address nothing: K beyond all chains learns the lengths
		s.mLens = nil
		if h.Chain {
			// a fault-free attempt would change the context: learn from the first failing attempt instead
			attempt(h.ID+".s1k1", []verifMultiFault{{S: 1, K: 1}})
		} else {
			attempt(h.ID+".0", []verifMultiFault{{S: 1, K: 1000}})
		}
		lens := append([]int{}, s.mLens...)
		labels := s.mLabels
		for si, n := range lens {
			// backend operations first: on one system (chain) a later entry fault may come after a completed,
			// irrevocable discard, which shortens the chain for the attempts that follow
			for _, opName := range h.EnumOps {
				for k := 1; k <= n; k++ {
					host := false
					for _, hk := range verifMultiOpHost[opName] {
						host = host || labels[si][k-1] == hk
					}
					if !host {
						continue
					}
					attempt(fmt.Sprintf("%s.s%dk%d:%s", h.ID, si+1, k, opName), []verifMultiFault{{S: si + 1, K: k, Op: opName}})
					break
				}
			}
			for k := 1; k <= n; k++ {
				if h.Chain && si == 0 && k == 1 {
					continue
				}
				if h.EnumEvery > 1 && (k-1)%h.EnumEvery != 0 {
					continue
				}
				attempt(fmt.Sprintf("%s.s%dk%d", h.ID, si+1, k), []verifMultiFault{{S: si + 1, K: k}})
			}
		}
		if h.Chain {
			// and once more without a fault: the change must now go through
			attempt(h.ID+".end", nil)
		}
	}
	s.out.Flush()
	fmt.Printf("VERIF-MULTISNAP histories=%d events=%d changes=%d faults=%d wall=%.1fs\n", nHist, s.mEvents, s.mChanges, s.mFaults, time.Since(t0).Seconds())
}

func TestVerifMultiSnap(t *testing.T) {
	res := check.Run(&verifMultiSuite{}, &check.RunConf{Filter: "TestVerifMultiHistories", Verbose: os.Getenv("VERIF_VERBOSE") != ""})
	if !res.Passed() {
		t.Fatalf("verifMultiSuite: %s", res.String())
	}
	fmt.Println("VERIF-MULTISNAP", res.String())
}

var _ = strings.HasPrefix
