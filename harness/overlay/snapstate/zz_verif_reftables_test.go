package snapstate_test

// C33 consumer (snapd downgrade exclusivity) and C34 (resolveChannel under a pinned track).
// Plain `testing` entry points (no gocheck suite) driven by /verif/props/c33.py and c34.py.

import (
	"bufio"
	"encoding/json"
	"fmt"
	"os"
	"path/filepath"
	"testing"

	"github.com/snapcore/snapd/asserts"
	"github.com/snapcore/snapd/dirs"
	"github.com/snapcore/snapd/overlord/snapstate"
	"github.com/snapcore/snapd/overlord/snapstate/snapstatetest"
	"github.com/snapcore/snapd/overlord/state"
	"github.com/snapcore/snapd/snap"
	"github.com/snapcore/snapd/strutil"
)

type verifOut struct {
	f *os.File
	w *bufio.Writer
	e *json.Encoder
}

func verifOpenOut(t *testing.T) *verifOut {
	f, err := os.Create(os.Getenv("VERIF_OUT"))
	if err != nil {
		t.Fatal(err)
	}
	w := bufio.NewWriter(f)
	e := json.NewEncoder(w)
	e.SetEscapeHTML(false)
	return &verifOut{f, w, e}
}

func (o *verifOut) close() { o.w.Flush(); o.f.Close() }

// TestVerifC33Downgrade: a pending refresh-snap change of snapd from version A (installed) to
// version B must count as an exclusive "snapd downgrade" exactly when A is newer than B.
// Observed through the public CheckChangeConflictRunExclusively (which calls changeIsSnapdDowngrade).
func TestVerifC33Downgrade(t *testing.T) {
	var pairs []struct{ A, B string }
	data, err := os.ReadFile(os.Getenv("VERIF_PAIRS"))
	if err != nil {
		t.Fatal(err)
	}
	if err := json.Unmarshal(data, &pairs); err != nil {
		t.Fatal(err)
	}
	out := verifOpenOut(t)
	defer out.close()
	for i, p := range pairs {
		dirs.SetRootDir(t.TempDir())
		st := state.New(nil)
		st.Lock()
		si := &snap.SideInfo{RealName: "snapd", Revision: snap.R(1), SnapID: "snapd-id"}
		verifMockSnap(t, "snapd", fmt.Sprintf("name: snapd\ntype: snapd\nversion: %s\n", yamlQuote(p.A)), si)
		snapstate.Set(st, "snapd", &snapstate.SnapState{
			Active:   true,
			Sequence: snapstatetest.NewSequenceFromSnapSideInfos([]*snap.SideInfo{si}),
			Current:  si.Revision,
			SnapType: "snapd",
		})
		chg := st.NewChange("refresh-snap", "refresh snapd")
		tsk := st.NewTask("download-snap", "download")
		tsk.Set("snap-setup", &snapstate.SnapSetup{
			SideInfo: &snap.SideInfo{RealName: "snapd", Revision: snap.R(2), SnapID: "snapd-id"},
			Version:  p.B,
			Type:     snap.TypeSnapd,
		})
		chg.AddTask(tsk)
		cerr := snapstate.CheckChangeConflictRunExclusively(st, "")
		st.Unlock()
		got := false
		failed := false
		if cerr != nil {
			if ce, ok := cerr.(*snapstate.ChangeConflictError); ok && ce.ChangeKind == "refresh-snap" {
				got = true
			} else {
				failed = true
			}
		}
		cmp, verr := strutil.VersionCompare(p.A, p.B)
		if verr != nil {
			cmp = 2
		}
		out.e.Encode(map[string]interface{}{"kind": "consumer", "case": i, "a": p.A, "b": p.B, "got": got, "failed": failed,
			"err": fmt.Sprint(cerr), "cmp": cmp})
	}
	dirs.SetRootDir("")
}

func yamlQuote(s string) string { return "'" + s + "'" }

// verifMockSnap does what snaptest.MockSnap does (which needs a *check.C): snap.yaml and a fake
// .snap file at the places snap.ReadInfo looks at.
func verifMockSnap(t *testing.T, name, yamlText string, si *snap.SideInfo) {
	meta := filepath.Join(snap.MountDir(name, si.Revision), "meta")
	if err := os.MkdirAll(meta, 0755); err != nil {
		t.Fatal(err)
	}
	if err := os.WriteFile(filepath.Join(meta, "snap.yaml"), []byte(yamlText), 0644); err != nil {
		t.Fatal(err)
	}
	mf := snap.MountFile(name, si.Revision)
	if err := os.MkdirAll(filepath.Dir(mf), 0755); err != nil {
		t.Fatal(err)
	}
	if err := os.WriteFile(mf, []byte("fake"), 0644); err != nil {
		t.Fatal(err)
	}
}

// TestVerifC34Resolve: snapstate.resolveChannel on (snap, current, requested, pinned track) cases.
func TestVerifC34Resolve(t *testing.T) {
	var cases []struct {
		Case              int
		Snap, Cur, New    string
		Kernel, Gadget    string
	}
	data, err := os.ReadFile(os.Getenv("VERIF_CASES"))
	if err != nil {
		t.Fatal(err)
	}
	if err := json.Unmarshal(data, &cases); err != nil {
		t.Fatal(err)
	}
	out := verifOpenOut(t)
	defer out.close()
	models := map[string]*asserts.Model{}
	for _, tc := range cases {
		key := tc.Kernel + "|" + tc.Gadget
		model := models[key]
		if model == nil {
			switch {
			case tc.Kernel != "":
				model = ModelWithKernelTrack(tc.Kernel)
			case tc.Gadget != "":
				model = ModelWithGadgetTrack(tc.Gadget)
			default:
				model = DefaultModel()
			}
			models[key] = model
		}
		deviceCtx := &snapstatetest.TrivialDeviceContext{DeviceModel: model}
		ch, rerr := snapstate.ResolveChannel(tc.Snap, tc.Cur, tc.New, deviceCtx)
		rec := map[string]interface{}{"kind": "resolve", "case": tc.Case, "snap": tc.Snap, "cur": tc.Cur, "new": tc.New,
			"kernel": tc.Kernel, "gadget": tc.Gadget, "out": ch, "err": rerr != nil}
		if rerr != nil {
			rec["errmsg"] = rerr.Error()
		}
		out.e.Encode(rec)
	}
}
