// -*- Mode: Go; indent-tabs-mode: t -*-

// C15 driver (spec: /verif/spec/RefreshHold.tla). Compiled into overlord/snapstate's test binary with
// `go test -overlay`; drives the REAL HoldRefresh / HoldRefreshesBySystem / ProceedWithRefresh /
// resetGatingForRefreshed / pruneGating / HeldSnaps / LongestGatingHold / SystemHold with a mocked clock
// and records one NDJSON event per call with the projected "snaps-hold" state and what HeldSnaps reports.

package snapstate_test

import (
	"bufio"
	"encoding/json"
	"fmt"
	"math/rand"
	"os"
	"path/filepath"
	"sort"
	"strconv"
	"testing"
	"time"

	. "gopkg.in/check.v1"

	"github.com/snapcore/snapd/overlord/configstate/config"
	"github.com/snapcore/snapd/overlord/snapstate"
	"github.com/snapcore/snapd/overlord/snapstate/snapstatetest"
	"github.com/snapcore/snapd/overlord/state"
	"github.com/snapcore/snapd/snap"
)

var verifHoldT0 = time.Date(2021, 5, 10, 0, 0, 0, 0, time.UTC)

const verifHoldForever = 9999999

var verifHoldSnaps = []string{"a", "b", "c"}

// real snap names (only the real-refresh suite uses names other than a/b/c)
var verifHoldReal = map[string]string{"a": "a", "b": "b", "c": "c"}

func verifHoldRealNames(S []string) []string {
	out := make([]string, 0, len(S))
	for _, s := range S {
		out = append(out, verifHoldReal[s])
	}
	return out
}

var verifHoldHolders = []string{"a", "b", "c", "system"}

type verifHoldEnt struct {
	First int64 `json:"first"`
	Until int64 `json:"until"`
	Level int   `json:"level"`
}

type verifHoldSt struct {
	Now         int64                              `json:"now"`
	LastRefresh map[string]int64                   `json:"lastRefresh"`
	Hold        map[string]map[string]verifHoldEnt `json:"hold"`
	Reported    []map[string][]string              `json:"reported"`
	Longest     map[string]int64                   `json:"longest"`
	SysHold     map[string]int64                   `json:"syshold"`
}

type verifHoldEv struct {
	Ev   string                 `json:"ev"`
	Case int                    `json:"case"`
	Args map[string]interface{} `json:"args"`
	Res  map[string]interface{} `json:"res"`
	St   verifHoldSt            `json:"st"`
}

type verifHoldDriver struct {
	st    *state.State
	now   time.Time
	w     *bufio.Writer
	caseN int
	fail  func(string, ...interface{})
	// counters
	calls    int
	refused  int
	distinct map[string]bool
}

func (d *verifHoldDriver) hours(t time.Time) int64 {
	if t.IsZero() {
		return -1
	}
	dur := t.Sub(verifHoldT0)
	h := int64(dur / time.Hour)
	if h > 2000000 {
		return verifHoldForever
	}
	if dur%time.Hour != 0 {
		d.fail("non-integral hour value %v", t)
	}
	return h
}

func (d *verifHoldDriver) reset() {
	d.st = state.New(nil)
	d.now = verifHoldT0
	d.st.Lock()
	for _, name := range verifHoldSnaps {
		si := &snap.SideInfo{RealName: name, SnapID: name + "-id", Revision: snap.R(1)}
		t0 := verifHoldT0
		snapstate.Set(d.st, name, &snapstate.SnapState{
			Active:          true,
			Sequence:        snapstatetest.NewSequenceFromSnapSideInfos([]*snap.SideInfo{si}),
			Current:         si.Revision,
			SnapType:        "app",
			LastRefreshTime: &t0,
		})
	}
	d.st.Unlock()
}

// project must be called with the state locked
func (d *verifHoldDriver) project() verifHoldSt {
	var ps verifHoldSt
	ps.Now = d.hours(d.now)
	ps.LastRefresh = map[string]int64{}
	ps.Hold = map[string]map[string]verifHoldEnt{}
	ps.Longest = map[string]int64{}
	ps.SysHold = map[string]int64{}
	var gating map[string]map[string]*snapstate.HoldState
	if err := d.st.Get("snaps-hold", &gating); err != nil && err != state.ErrNoState {
		if !isNoState(err) {
			d.fail("cannot read snaps-hold: %v", err)
		}
	}
	for _, s := range verifHoldSnaps {
		lr, err := snapstate.LastRefreshed(d.st, verifHoldReal[s])
		if err != nil {
			d.fail("LastRefreshed(%s): %v", s, err)
		}
		ps.LastRefresh[s] = d.hours(lr)
		ps.Hold[s] = map[string]verifHoldEnt{}
		for _, g := range verifHoldHolders {
			e := verifHoldEnt{-1, -1, -1}
			rg := g
			if g != "system" {
				rg = verifHoldReal[g]
			}
			if h := gating[verifHoldReal[s]][rg]; h != nil {
				e = verifHoldEnt{d.hours(h.FirstHeld), d.hours(h.HoldUntil), int(h.Level)}
			}
			ps.Hold[s][g] = e
		}
		lg, err := snapstate.LongestGatingHold(d.st, verifHoldReal[s])
		if err != nil {
			d.fail("LongestGatingHold: %v", err)
		}
		ps.Longest[s] = d.hours(lg)
		sh, err := snapstate.SystemHold(d.st, verifHoldReal[s])
		if err != nil {
			d.fail("SystemHold: %v", err)
		}
		ps.SysHold[s] = d.hours(sh)
	}
	for g := range gating {
		found := false
		for _, s := range verifHoldSnaps {
			if verifHoldReal[s] == g {
				found = true
			}
		}
		if !found {
			d.fail("unexpected held snap %q in snaps-hold", g)
		}
	}
	for _, lvl := range []snapstate.HoldLevel{snapstate.HoldAutoRefresh, snapstate.HoldGeneral} {
		held, err := snapstate.HeldSnaps(d.st, lvl)
		if err != nil {
			d.fail("HeldSnaps: %v", err)
		}
		m := map[string][]string{}
		back := map[string]string{"system": "system"}
		for _, s := range verifHoldSnaps {
			back[verifHoldReal[s]] = s
		}
		for _, s := range verifHoldSnaps {
			l := []string{}
			for _, h := range held[verifHoldReal[s]] {
				l = append(l, back[h])
			}
			sort.Strings(l)
			m[s] = l
		}
		ps.Reported = append(ps.Reported, m)
	}
	return ps
}

func isNoState(err error) bool {
	_, ok := err.(*state.NoStateError)
	return ok || err == state.ErrNoState
}

func (d *verifHoldDriver) emit(ev string, args, res map[string]interface{}) {
	if res == nil {
		res = map[string]interface{}{"ok": true, "rem": 0}
	}
	e := verifHoldEv{Ev: ev, Case: d.caseN, Args: args, Res: res, St: d.project()}
	b, err := json.Marshal(e)
	if err != nil {
		d.fail("marshal: %v", err)
	}
	d.w.Write(b)
	d.w.WriteByte('\n')
	hb, _ := json.Marshal(e.St.Hold)
	d.distinct[string(hb)] = true
}

func verifHoldSubset(r *rand.Rand, allowEmpty bool) []string {
	for {
		var out []string
		for _, s := range verifHoldSnaps {
			if r.Intn(2) == 0 {
				out = append(out, s)
			}
		}
		if len(out) > 0 || allowEmpty {
			if out == nil {
				out = []string{}
			}
			return out
		}
	}
}

var verifHoldTicks = []int64{1, 1, 2, 23, 24, 47, 47, 48, 49, 49, 30 * 24, 89 * 24, 90*24 - 1, 90 * 24, 91 * 24, 95 * 24, 96 * 24}

func (d *verifHoldDriver) holdResult(rem time.Duration, err error) map[string]interface{} {
	d.calls++
	if err != nil {
		if _, ok := err.(*snapstate.HoldError); !ok {
			d.fail("unexpected error type from HoldRefresh: %T %v", err, err)
		}
		d.refused++
		return map[string]interface{}{"ok": false, "rem": 0}
	}
	if rem%time.Hour != 0 {
		d.fail("non-integral remaining %v", rem)
	}
	return map[string]interface{}{"ok": true, "rem": int64(rem / time.Hour)}
}

func (d *verifHoldDriver) step(r *rand.Rand, explicit bool) {
	d.st.Lock()
	defer d.st.Unlock()
	p := r.Intn(100)
	gaters := verifHoldSnaps
	switch {
	case p < 30:
		g := gaters[r.Intn(len(gaters))]
		S := verifHoldSubset(r, false)
		rem, err := snapstate.HoldRefresh(d.st, snapstate.HoldAutoRefresh, g, 0, S...)
		d.emit("Hold", map[string]interface{}{"g": g, "S": S}, d.holdResult(rem, err))
	case p < 40:
		if !explicit {
			d.tick(r)
			return
		}
		g := gaters[r.Intn(len(gaters))]
		S := verifHoldSubset(r, false)
		durs := []int64{1, 24, 47, 48, 49, 30 * 24, 90 * 24, 90*24 + 1}
		dur := durs[r.Intn(len(durs))]
		rem, err := snapstate.HoldRefresh(d.st, snapstate.HoldAutoRefresh, g, time.Duration(dur)*time.Hour, S...)
		d.emit("HoldFor", map[string]interface{}{"g": g, "S": S, "d": dur}, d.holdResult(rem, err))
	case p < 50:
		S := verifHoldSubset(r, false)
		durs := []int64{1, 24, 49, 100 * 24, verifHoldForever}
		dur := durs[r.Intn(len(durs))]
		lvl := r.Intn(2)
		holdTime := "forever"
		if dur != verifHoldForever {
			holdTime = d.now.Add(time.Duration(dur) * time.Hour).Format(time.RFC3339)
		}
		err := snapstate.HoldRefreshesBySystem(d.st, snapstate.HoldLevel(lvl), holdTime, S)
		if err != nil {
			d.fail("HoldRefreshesBySystem: %v", err)
		}
		d.calls++
		d.emit("SystemHold", map[string]interface{}{"S": S, "d": dur, "lvl": lvl}, nil)
	case p < 58:
		holders := verifHoldHolders
		g := holders[r.Intn(len(holders))]
		S := verifHoldSubset(r, true)
		if err := snapstate.ProceedWithRefresh(d.st, g, S); err != nil {
			d.fail("ProceedWithRefresh: %v", err)
		}
		d.calls++
		d.emit("Proceed", map[string]interface{}{"g": g, "S": S}, nil)
	case p < 66:
		s := verifHoldSnaps[r.Intn(len(verifHoldSnaps))]
		// doInstall (refresh branch) -> resetGatingForRefreshed ; doLinkSnap -> LastRefreshTime = timeNow()
		if err := snapstate.ResetGatingForRefreshed(d.st, s); err != nil {
			d.fail("ResetGatingForRefreshed: %v", err)
		}
		var snapst snapstate.SnapState
		if err := snapstate.Get(d.st, s, &snapst); err != nil {
			d.fail("Get: %v", err)
		}
		now := d.now
		snapst.LastRefreshTime = &now
		snapstate.Set(d.st, s, &snapst)
		d.calls++
		d.emit("Refreshed", map[string]interface{}{"s": s}, nil)
	case p < 72:
		C := verifHoldSubset(r, true)
		cands := map[string]*snapstate.RefreshCandidate{}
		for _, s := range C {
			cands[s] = &snapstate.RefreshCandidate{}
		}
		if err := snapstate.PruneGating(d.st, cands); err != nil {
			d.fail("PruneGating: %v", err)
		}
		d.calls++
		d.emit("Prune", map[string]interface{}{"C": C}, nil)
	default:
		d.tickLocked(r)
	}
}

func (d *verifHoldDriver) tick(r *rand.Rand) { d.tickLocked(r) }

func (d *verifHoldDriver) tickLocked(r *rand.Rand) {
	dt := verifHoldTicks[r.Intn(len(verifHoldTicks))]
	d.now = d.now.Add(time.Duration(dt) * time.Hour)
	d.emit("Tick", map[string]interface{}{"d": dt}, nil)
}

func verifHoldEnvInt(name string, def int) int {
	if v := os.Getenv(name); v != "" {
		n, err := strconv.Atoi(v)
		if err == nil {
			return n
		}
	}
	return def
}

func TestVerifHold(t *testing.T) {
	out := os.Getenv("VERIF_OUT")
	if out == "" {
		t.Skip("VERIF_OUT not set")
	}
	n := verifHoldEnvInt("VERIF_N", 50)
	length := verifHoldEnvInt("VERIF_LEN", 30)
	seed := verifHoldEnvInt("VERIF_SEED", 1)
	explicit := os.Getenv("VERIF_EXPLICIT") == "1"

	f, err := os.Create(out)
	if err != nil {
		t.Fatal(err)
	}
	defer f.Close()
	d := &verifHoldDriver{w: bufio.NewWriterSize(f, 1<<20), distinct: map[string]bool{}}
	d.fail = func(format string, a ...interface{}) {
		d.w.Flush()
		t.Fatalf("verif hold driver: "+format, a...)
	}
	restore := snapstate.MockTimeNow(func() time.Time { return d.now })
	defer restore()

	// directed histories, always run: an expired hold entry must keep refusing further holds whatever other
	// snaps (or the administrator) do meanwhile
	nd := d.runDirected()
	r := rand.New(rand.NewSource(int64(seed)*7919 + 15))
	for i := nd; i < n+nd; i++ {
		d.caseN = i
		d.reset()
		d.st.Lock()
		d.emit("Reset", map[string]interface{}{}, nil)
		d.st.Unlock()
		for k := 0; k < length; k++ {
			d.step(r, explicit)
		}
	}
	d.w.Flush()
	fmt.Printf("VERIF-STATS {\"traces\":%d,\"calls\":%d,\"refused\":%d,\"distinct_hold_states\":%d}\n", n+nd, d.calls, d.refused, len(d.distinct))
}

type verifHoldStep struct {
	op  string // hold, tick, proceed, syshold, refreshed
	g   string
	S   []string
	d   int64
	lvl int
}

func verifHoldDirected() [][]verifHoldStep {
	H := func(g string, S ...string) verifHoldStep { return verifHoldStep{op: "hold", g: g, S: S} }
	T := func(d int64) verifHoldStep { return verifHoldStep{op: "tick", d: d} }
	P := func(g string, S ...string) verifHoldStep {
		if S == nil {
			S = []string{}
		}
		return verifHoldStep{op: "proceed", g: g, S: S}
	}
	Sys := func(d int64, S ...string) verifHoldStep { return verifHoldStep{op: "syshold", S: S, d: d, lvl: 1} }
	var out [][]verifHoldStep
	// X=b holds A=a; clock passes t0+48h; somebody else proceeds; X asks again (must be refused); two cycles
	for _, other := range [][]verifHoldStep{
		{P("c")},              // another gating snap proceeds on everything (hook exit 0 / --proceed)
		{P("c", "a")},         // ... on the held snap explicitly
		{P("system")},         // the administrator unholds everything
		{P("system", "a")},    // ... the held snap
		{P("a")},              // the held snap itself proceeds
		{H("c", "c"), P("c")}, // the other snap held something of its own
		{P("c"), P("system"), P("a")},
	} {
		for _, pre := range [][]verifHoldStep{{}, {Sys(24, "a")}, {H("c", "a")}, {H("b", "c")}} {
			var h []verifHoldStep
			h = append(h, pre...)
			h = append(h, H("b", "a"), T(49))
			h = append(h, other...)
			h = append(h, H("b", "a"), T(1), T(46), T(2))
			h = append(h, other...)
			h = append(h, H("b", "a"), T(47), H("b", "a"), T(2))
			out = append(out, h)
		}
	}
	// the same around the 90-day bound for a snap holding itself
	out = append(out, []verifHoldStep{H("a", "a"), T(90*24 + 1), P("c"), H("a", "a"), T(24), P("system"), H("a", "a"), T(1)})
	// exactly at the bound
	out = append(out, []verifHoldStep{H("b", "a"), T(48), P("c"), H("b", "a"), T(1), H("b", "a")})
	return out
}

func (d *verifHoldDriver) runDirected() int {
	hs := verifHoldDirected()
	for i, h := range hs {
		d.caseN = i
		d.reset()
		d.st.Lock()
		d.emit("Reset", map[string]interface{}{}, nil)
		for _, st := range h {
			switch st.op {
			case "hold":
				rem, err := snapstate.HoldRefresh(d.st, snapstate.HoldAutoRefresh, st.g, 0, st.S...)
				d.emit("Hold", map[string]interface{}{"g": st.g, "S": st.S}, d.holdResult(rem, err))
			case "tick":
				d.now = d.now.Add(time.Duration(st.d) * time.Hour)
				d.emit("Tick", map[string]interface{}{"d": st.d}, nil)
			case "proceed":
				if err := snapstate.ProceedWithRefresh(d.st, st.g, st.S); err != nil {
					d.fail("ProceedWithRefresh: %v", err)
				}
				d.calls++
				d.emit("Proceed", map[string]interface{}{"g": st.g, "S": st.S}, nil)
			case "syshold":
				holdTime := d.now.Add(time.Duration(st.d) * time.Hour).Format(time.RFC3339)
				if err := snapstate.HoldRefreshesBySystem(d.st, snapstate.HoldLevel(st.lvl), holdTime, st.S); err != nil {
					d.fail("HoldRefreshesBySystem: %v", err)
				}
				d.calls++
				d.emit("SystemHold", map[string]interface{}{"S": st.S, "d": st.d, "lvl": st.lvl}, nil)
			}
		}
		d.st.Unlock()
	}
	return len(hs)
}

// ---------------------------------------------------------------------------------------------------------
// The same protocol with refreshes going through the real request + task runner: snapstate.Update (doInstall
// resets the gating of the refreshed snap when experimental.gate-auto-refresh-hook is set) and the real
// link-snap handler (records LastRefreshTime from the mocked clock).
// ---------------------------------------------------------------------------------------------------------

type verifHoldRealSuite struct {
	snapmgrBaseTest
}

// gocheck fixture hooks are overridden: a fresh snapmgrBaseTest fixture is set up every few histories (a state
// that accumulates hundreds of finished changes makes Settle slow)
func (s *verifHoldRealSuite) SetUpTest(c *C)    {}
func (s *verifHoldRealSuite) TearDownTest(c *C) {}

type verifHoldRealStep struct {
	op string // hold, tick, refresh, failed
	g  string // holder, or the snap refreshed
	S  []string
	d  int64
}

// directed histories for the real-refresh driver (always run first): a failed-and-undone refresh must not move the
// 90-day bound, in particular for snaps without a recorded last-refresh-time
func verifHoldRealDirected() [][]verifHoldRealStep {
	H := func(g string, S ...string) verifHoldRealStep { return verifHoldRealStep{op: "hold", g: g, S: S} }
	T := func(d int64) verifHoldRealStep { return verifHoldRealStep{op: "tick", d: d} }
	F := func(sn string) verifHoldRealStep { return verifHoldRealStep{op: "failed", g: sn} }
	R := func(sn string) verifHoldRealStep { return verifHoldRealStep{op: "refresh", g: sn} }
	const D = 24
	return [][]verifHoldRealStep{
		// the snap holds itself after a failed refresh at day 80
		{T(80 * D), F("a"), T(D), H("a", "a"), T(19 * D), H("a", "a"), T(D)},
		// another snap holds it: the 90-day cut-off wins over the 48h
		{T(89 * D), F("a"), H("b", "a"), T(2 * D), H("b", "a"), H("a", "a")},
		// control: the same as the first with recorded last-refresh-times
		{T(80 * D), F("a"), T(D), H("a", "a"), T(19 * D), H("a", "a"), T(D)},
		// a successful refresh moves the bound, a later failed one does not
		{T(10 * D), R("a"), T(80 * D), F("a"), T(D), H("a", "a"), T(10 * D), H("a", "a"), F("a"), H("a", "a")},
	}
}

func (s *verifHoldRealSuite) TestVerifHoldRealRun(c *C) {
	out := os.Getenv("VERIF_OUT")
	n := verifHoldEnvInt("VERIF_N", 5)
	length := verifHoldEnvInt("VERIF_LEN", 14)
	seed := verifHoldEnvInt("VERIF_SEED", 1)
	perFixture := verifHoldEnvInt("VERIF_PER_FIXTURE", 4)
	f, err := os.Create(out)
	c.Assert(err, IsNil)
	defer f.Close()
	d := &verifHoldDriver{w: bufio.NewWriterSize(f, 1<<20), distinct: map[string]bool{}}
	d.fail = func(format string, a ...interface{}) {
		d.w.Flush()
		c.Fatalf("verif hold driver: "+format, a...)
	}
	old := verifHoldReal
	verifHoldReal = map[string]string{"a": "some-snap", "b": "some-other-snap", "c": "services-snap"}
	defer func() { verifHoldReal = old }()
	d.now = verifHoldT0
	defer snapstate.MockTimeNow(func() time.Time { return d.now })()
	r := rand.New(rand.NewSource(int64(seed)*104729 + 15))
	refreshes := 0
	nextRev := 20

	directed := verifHoldRealDirected()
	failed := 0
	n += len(directed)
	for i := 0; i < n; i++ {
		if i%perFixture == 0 {
			if i > 0 {
				s.state.Unlock()
				s.snapmgrBaseTest.TearDownTest(c)
			}
			s.snapmgrBaseTest.SetUpTest(c)
			s.fakeStore.refreshRevnos = map[string]snap.Revision{}
			s.state.Lock()
			tr := config.NewTransaction(s.state)
			c.Assert(tr.Set("core", "experimental.gate-auto-refresh-hook", true), IsNil)
			tr.Commit()
			nextRev = 20
		}
		st := s.state
		d.st = st
		d.caseN = i
		var script []verifHoldRealStep
		if i < len(directed) {
			script = directed[i]
		}
		// which snaps have NO recorded last-refresh-time (installed before the attribute existed): their last
		// refresh is the modification time of the blob of the current revision
		nilLRT := map[string]bool{}
		for _, sn := range verifHoldSnaps {
			if script != nil {
				nilLRT[sn] = i != 2 // the third directed history is the control with recorded times
			} else {
				nilLRT[sn] = r.Intn(2) == 0
			}
		}
		d.now = verifHoldT0
		st.Set("snaps-hold", nil)
		for _, sn := range verifHoldSnaps {
			name := verifHoldReal[sn]
			si := &snap.SideInfo{RealName: name, SnapID: name + "-id", Revision: snap.R(7), Channel: "latest/stable"}
			t0 := verifHoldT0
			snapst := &snapstate.SnapState{
				Active:          true,
				Sequence:        snapstatetest.NewSequenceFromSnapSideInfos([]*snap.SideInfo{si}),
				Current:         si.Revision,
				SnapType:        "app",
				TrackingChannel: "latest/stable",
			}
			if nilLRT[sn] {
				blob := snap.MountFile(name, si.Revision)
				c.Assert(os.MkdirAll(filepath.Dir(blob), 0755), IsNil)
				c.Assert(os.WriteFile(blob, nil, 0644), IsNil)
				c.Assert(os.Chtimes(blob, t0, t0), IsNil)
			} else {
				snapst.LastRefreshTime = &t0
			}
			snapstate.Set(st, name, snapst)
		}
		d.emit("Reset", map[string]interface{}{}, nil)

		hold := func(g string, S []string) {
			rem, err := snapstate.HoldRefresh(st, snapstate.HoldAutoRefresh, verifHoldReal[g], 0, verifHoldRealNames(S)...)
			d.emit("Hold", map[string]interface{}{"g": g, "S": S}, d.holdResult(rem, err))
		}
		tick := func(dt int64) {
			d.now = d.now.Add(time.Duration(dt) * time.Hour)
			d.emit("Tick", map[string]interface{}{"d": dt}, nil)
		}
		// a refresh through the real request and the real task runner; fail: a task after link-snap fails, so that
		// the whole change, link-snap included, is undone by the real undo handlers
		refresh := func(sn string, fail bool) {
			name := verifHoldReal[sn]
			var before snapstate.SnapState
			c.Assert(snapstate.Get(st, name, &before), IsNil)
			nextRev++
			s.fakeStore.refreshRevnos[name+"-id"] = snap.R(nextRev)
			ts, err := snapstate.Update(st, name, nil, s.user.ID, snapstate.Flags{})
			c.Assert(err, IsNil)
			chg := st.NewChange("refresh-snap", "...")
			chg.AddAll(ts)
			if fail {
				terr := st.NewTask("error-trigger", "provoking total undo")
				for _, t := range ts.Tasks() {
					if t.Kind() != "check-rerefresh" { // nothing may wait for the re-refresh check
						terr.WaitFor(t)
					}
				}
				// same lane(s) as the refresh, so that its failure undoes the refresh
				for _, l := range ts.Tasks()[0].Lanes() {
					if l != 0 {
						terr.JoinLane(l)
					}
				}
				chg.AddTask(terr)
			}
			// like snapmgrBaseTest.settle, with a watchdog that tolerates an overloaded machine
			st.Unlock()
			serr := s.o.Settle(3 * time.Minute)
			st.Lock()
			c.Assert(serr, IsNil)
			refreshes++
			d.calls++
			var after snapstate.SnapState
			c.Assert(snapstate.Get(st, name, &after), IsNil)
			if fail {
				c.Assert(chg.Status(), Equals, state.ErrorStatus)
				c.Assert(after.Current, Equals, before.Current)
				linked := false
				for _, t := range chg.Tasks() {
					if t.Kind() == "link-snap" {
						c.Assert(t.Status(), Equals, state.UndoneStatus)
						linked = true
					}
				}
				c.Assert(linked, Equals, true)
				failed++
				d.emit("FailedRefresh", map[string]interface{}{"s": sn}, nil)
			} else {
				c.Assert(chg.Err(), IsNil)
				c.Assert(chg.Status(), Equals, state.DoneStatus)
				d.emit("Refreshed", map[string]interface{}{"s": sn}, nil)
			}
		}

		if script != nil {
			for _, stp := range script {
				switch stp.op {
				case "hold":
					hold(stp.g, stp.S)
				case "tick":
					tick(stp.d)
				case "refresh":
					refresh(stp.g, false)
				case "failed":
					refresh(stp.g, true)
				}
			}
			continue
		}
		for k := 0; k < length; k++ {
			p := r.Intn(100)
			switch {
			case p < 35:
				hold(verifHoldSnaps[r.Intn(3)], verifHoldSubset(r, false))
			case p < 45:
				S := verifHoldSubset(r, false)
				durs := []int64{24, 100 * 24, verifHoldForever}
				dur := durs[r.Intn(len(durs))]
				lvl := r.Intn(2)
				holdTime := "forever"
				if dur != verifHoldForever {
					holdTime = d.now.Add(time.Duration(dur) * time.Hour).Format(time.RFC3339)
				}
				c.Assert(snapstate.HoldRefreshesBySystem(st, snapstate.HoldLevel(lvl), holdTime, verifHoldRealNames(S)), IsNil)
				d.calls++
				d.emit("SystemHold", map[string]interface{}{"S": S, "d": dur, "lvl": lvl}, nil)
			case p < 60:
				refresh(verifHoldSnaps[r.Intn(3)], false)
			case p < 70:
				refresh(verifHoldSnaps[r.Intn(3)], true)
			default:
				tick(verifHoldTicks[r.Intn(len(verifHoldTicks))])
			}
		}
	}
	if n > 0 {
		s.state.Unlock()
		s.snapmgrBaseTest.TearDownTest(c)
	}
	d.w.Flush()
	fmt.Printf("VERIF-STATS {\"traces\":%d,\"calls\":%d,\"refused\":%d,\"distinct_hold_states\":%d,\"real_refreshes\":%d,\"failed_undone_refreshes\":%d}\n", n, d.calls, d.refused, len(d.distinct), refreshes, failed)
}

func TestVerifHoldReal(t *testing.T) {
	if os.Getenv("VERIF_OUT") == "" {
		t.Skip("VERIF_OUT not set")
	}
	res := Run(&verifHoldRealSuite{}, &RunConf{Output: os.Stdout, Verbose: true, Filter: "TestVerifHoldRealRun"})
	if !res.Passed() {
		t.Fatalf("verif hold (real refresh) driver failed: %s", res.String())
	}
}
