// -*- Mode: Go; indent-tabs-mode: t -*-

// C15 driver for the snap-facing paths (spec: /verif/spec/RefreshHold.tla, same trace format as the
// snapstate driver): whole gate-auto-refresh hook runs, i.e. the REAL hookstate gateAutoRefreshHookHandler
// (Before / Done / Error) around the REAL `snapctl refresh --hold` / `--proceed` (ctlcmd.Run), with the
// affecting snaps computed by the real AffectingSnapsForAffectedByRefreshCandidates.
//
// snapstate's clock cannot be mocked from this package, so the real clock is used and time is advanced by
// shifting every stored timestamp (snaps-hold, last-refresh-time) back by the tick; projected values are
// rounded to whole hours of "virtual" time. Ticks that would land exactly on a boundary are extended by
// one hour (at a boundary the few milliseconds of real time decide the comparison).

package ctlcmd_test

import (
	"bufio"
	"encoding/json"
	"fmt"
	"math"
	"math/rand"
	"os"
	"sort"
	"strconv"
	"strings"
	"testing"
	"time"

	. "gopkg.in/check.v1"

	"github.com/snapcore/snapd/dirs"
	"github.com/snapcore/snapd/interfaces"
	"github.com/snapcore/snapd/overlord/configstate/config"
	"github.com/snapcore/snapd/overlord/hookstate"
	"github.com/snapcore/snapd/overlord/hookstate/ctlcmd"
	"github.com/snapcore/snapd/overlord/hookstate/hooktest"
	"github.com/snapcore/snapd/overlord/ifacestate/ifacerepo"
	"github.com/snapcore/snapd/overlord/snapstate"
	"github.com/snapcore/snapd/overlord/state"
	"github.com/snapcore/snapd/release"
	"github.com/snapcore/snapd/snap"
	"github.com/snapcore/snapd/testutil"
)

var verifHoldCtlReal = map[string]string{"a": "snap1", "b": "snap1-base", "c": "snap2"}
var verifHoldCtlSpec = map[string]string{"snap1": "a", "snap1-base": "b", "snap2": "c", "system": "system"}
var verifHoldCtlSnaps = []string{"a", "b", "c"}

type verifHoldCtlRaw struct {
	FirstHeld time.Time `json:"first-held"`
	HoldUntil time.Time `json:"hold-until"`
	Level     int       `json:"level,omitempty"`
}

type verifHoldCtlEnt struct {
	First int64 `json:"first"`
	Until int64 `json:"until"`
	Level int   `json:"level"`
}

type verifHoldCtlSt struct {
	Now         int64                                 `json:"now"`
	LastRefresh map[string]int64                      `json:"lastRefresh"`
	Hold        map[string]map[string]verifHoldCtlEnt `json:"hold"`
	Reported    []map[string][]string                 `json:"reported"`
	Longest     map[string]int64                      `json:"longest"`
	SysHold     map[string]int64                      `json:"syshold"`
}

type verifHoldCtlSuite struct {
	testutil.BaseTest
	st    *state.State
	start time.Time
	shift int64 // hours
	w     *bufio.Writer
	caseN int

	runs, refused int
	distinct      map[string]bool
}

func (s *verifHoldCtlSuite) vhours(c *C, t time.Time) int64 {
	if t.IsZero() {
		return -1
	}
	h := t.Sub(s.start).Hours() + float64(s.shift)
	r := math.Round(h)
	if math.Abs(h-r) > 0.02 {
		c.Fatalf("timestamp %v is not within a minute of a whole virtual hour (%.4f)", t, h)
	}
	return int64(r)
}

func (s *verifHoldCtlSuite) gating(c *C) map[string]map[string]*verifHoldCtlRaw {
	var g map[string]map[string]*verifHoldCtlRaw
	err := s.st.Get("snaps-hold", &g)
	if err != nil && !strings.Contains(err.Error(), "no state entry") {
		c.Fatalf("cannot read snaps-hold: %v", err)
	}
	return g
}

func (s *verifHoldCtlSuite) project(c *C) verifHoldCtlSt {
	ps := verifHoldCtlSt{Now: s.shift, LastRefresh: map[string]int64{}, Hold: map[string]map[string]verifHoldCtlEnt{},
		Longest: map[string]int64{}, SysHold: map[string]int64{}}
	g := s.gating(c)
	for _, sn := range verifHoldCtlSnaps {
		var snapst snapstate.SnapState
		c.Assert(snapstate.Get(s.st, verifHoldCtlReal[sn], &snapst), IsNil)
		ps.LastRefresh[sn] = s.vhours(c, *snapst.LastRefreshTime)
		ps.Hold[sn] = map[string]verifHoldCtlEnt{}
		for _, h := range []string{"a", "b", "c", "system"} {
			rh := h
			if h != "system" {
				rh = verifHoldCtlReal[h]
			}
			e := verifHoldCtlEnt{-1, -1, -1}
			if raw := g[verifHoldCtlReal[sn]][rh]; raw != nil {
				e = verifHoldCtlEnt{s.vhours(c, raw.FirstHeld), s.vhours(c, raw.HoldUntil), raw.Level}
			}
			ps.Hold[sn][h] = e
		}
		lg, err := snapstate.LongestGatingHold(s.st, verifHoldCtlReal[sn])
		c.Assert(err, IsNil)
		ps.Longest[sn] = s.vhours(c, lg)
		sh, err := snapstate.SystemHold(s.st, verifHoldCtlReal[sn])
		c.Assert(err, IsNil)
		ps.SysHold[sn] = s.vhours(c, sh)
	}
	for _, lvl := range []snapstate.HoldLevel{snapstate.HoldAutoRefresh, snapstate.HoldGeneral} {
		held, err := snapstate.HeldSnaps(s.st, lvl)
		c.Assert(err, IsNil)
		m := map[string][]string{}
		for _, sn := range verifHoldCtlSnaps {
			l := []string{}
			for _, h := range held[verifHoldCtlReal[sn]] {
				l = append(l, verifHoldCtlSpec[h])
			}
			sort.Strings(l)
			m[sn] = l
		}
		ps.Reported = append(ps.Reported, m)
	}
	return ps
}

func (s *verifHoldCtlSuite) emit(c *C, ev string, args, res map[string]interface{}) {
	if res == nil {
		res = map[string]interface{}{"ok": true, "rem": 0}
	}
	ps := s.project(c)
	b, err := json.Marshal(map[string]interface{}{"ev": ev, "case": s.caseN, "args": args, "res": res, "st": ps})
	c.Assert(err, IsNil)
	s.w.Write(b)
	s.w.WriteByte('\n')
	hb, _ := json.Marshal(ps.Hold)
	s.distinct[string(hb)] = true
}

// shiftBack moves every stored timestamp d hours into the past (= the clock advances by d hours)
func (s *verifHoldCtlSuite) shiftBack(c *C, d int64) {
	dd := time.Duration(d) * time.Hour
	g := s.gating(c)
	for _, m := range g {
		for _, h := range m {
			h.FirstHeld = h.FirstHeld.Add(-dd)
			h.HoldUntil = h.HoldUntil.Add(-dd)
		}
	}
	if g != nil {
		s.st.Set("snaps-hold", g)
	}
	for _, sn := range verifHoldCtlSnaps {
		var snapst snapstate.SnapState
		c.Assert(snapstate.Get(s.st, verifHoldCtlReal[sn], &snapst), IsNil)
		t := snapst.LastRefreshTime.Add(-dd)
		snapst.LastRefreshTime = &t
		snapstate.Set(s.st, verifHoldCtlReal[sn], &snapst)
	}
	s.shift += d
}

func (s *verifHoldCtlSuite) onBoundary(c *C) bool {
	ps := s.project(c)
	for _, sn := range verifHoldCtlSnaps {
		lr := ps.LastRefresh[sn]
		if ps.Now == lr+2160 || ps.Now == lr+2280 {
			return true
		}
		for _, e := range ps.Hold[sn] {
			if e.First >= 0 && (ps.Now == e.Until || ps.Now == e.First+48 || ps.Now == e.First+2160) {
				return true
			}
		}
	}
	return false
}

func verifHoldCtlEnvInt(name string, def int) int {
	if v := os.Getenv(name); v != "" {
		if n, err := strconv.Atoi(v); err == nil {
			return n
		}
	}
	return def
}

func (s *verifHoldCtlSuite) TestVerifHoldCtlRun(c *C) {
	s.BaseTest.SetUpTest(c)
	defer s.BaseTest.TearDownTest(c)
	dirs.SetRootDir(c.MkDir())
	defer dirs.SetRootDir("/")
	defer release.MockOnClassic(true)()

	out := os.Getenv("VERIF_OUT")
	n := verifHoldCtlEnvInt("VERIF_N", 10)
	length := verifHoldCtlEnvInt("VERIF_LEN", 14)
	seed := verifHoldCtlEnvInt("VERIF_SEED", 1)
	f, err := os.Create(out)
	c.Assert(err, IsNil)
	defer f.Close()
	s.w = bufio.NewWriterSize(f, 1<<20)
	defer s.w.Flush()
	s.distinct = map[string]bool{}
	r := rand.New(rand.NewSource(int64(seed)*7331 + 15))
	// mostly steps around the 48h bound (there is no refresh in these histories: once past lastRefresh+90d every
	// hold is refused), a few long ones to reach the 90/95-day bounds
	smallTicks := []int64{1, 2, 23, 24, 46, 47, 47, 49}
	bigTicks := []int64{30 * 24, 89 * 24, 91 * 24, 96 * 24}

	newHistory := func(i int) {
		s.caseN = i
		dirs.SetRootDir(c.MkDir())
		s.st = state.New(nil)
		s.st.Lock()
		ifacerepo.Replace(s.st, interfaces.NewRepository())
		tr := config.NewTransaction(s.st)
		c.Assert(tr.Set("core", "experimental.refresh-app-awareness", false), IsNil)
		tr.Commit()
		mockInstalledSnap(c, s.st, "name: snap1\nbase: snap1-base\nversion: 1\nhooks:\n gate-auto-refresh:\n", "")
		mockInstalledSnap(c, s.st, "name: snap1-base\ntype: base\nversion: 1\n", "")
		mockInstalledSnap(c, s.st, "name: snap2\nbase: snap1-base\nversion: 1\nhooks:\n gate-auto-refresh:\n", "")
		s.start = time.Now()
		s.shift = 0
		for _, sn := range verifHoldCtlSnaps {
			var snapst snapstate.SnapState
			c.Assert(snapstate.Get(s.st, verifHoldCtlReal[sn], &snapst), IsNil)
			t := s.start
			snapst.LastRefreshTime = &t
			snapstate.Set(s.st, verifHoldCtlReal[sn], &snapst)
		}
		s.emit(c, "Reset", map[string]interface{}{}, nil)
	}
	// state locked
	tick := func(d int64) {
		s.shiftBack(c, d)
		for s.onBoundary(c) {
			s.shiftBack(c, 1)
			d++
		}
		s.emit(c, "Tick", map[string]interface{}{"d": d}, nil)
	}
	// one gate-auto-refresh hook run of gating snap g (spec name) with the given refresh candidates (real names);
	// how: hold | proceed | exit0 | fail. state locked on entry and exit.
	hookRun := func(g string, cands []string, how string) {
		gReal := verifHoldCtlReal[g]
		cm := map[string]interface{}{}
		for _, cn := range cands {
			cm[cn] = mockRefreshCandidate(cn, "edge", "v1", snap.Revision{N: 3})
		}
		s.st.Set("refresh-candidates", cm)
		affecting, err := snapstate.AffectingSnapsForAffectedByRefreshCandidates(s.st, gReal)
		c.Assert(err, IsNil)
		S := []string{}
		for _, a := range affecting {
			S = append(S, verifHoldCtlSpec[a])
		}
		sort.Strings(S)
		c.Assert(len(S) > 0, Equals, true)

		task := s.st.NewTask("test-task", "gate-auto-refresh hook of "+gReal)
		setup := &hookstate.HookSetup{Snap: gReal, Revision: snap.R(1), Hook: "gate-auto-refresh"}
		hctx, err := hookstate.NewContext(task, s.st, setup, hooktest.NewMockHandler(), "")
		c.Assert(err, IsNil)
		handler := hookstate.NewGateAutoRefreshHookHandler(hctx)
		s.st.Unlock()
		c.Assert(handler.Before(), IsNil)

		s.runs++
		switch how {
		case "hold":
			stdout, _, err := ctlcmd.Run(hctx, []string{"refresh", "--hold"}, 0)
			res := map[string]interface{}{"ok": true, "rem": 0}
			if err != nil {
				// snapctl failed: the hook script exits non-zero, the handler's Error path runs
				ignore, herr := handler.Error(fmt.Errorf("hook failed: %v", err))
				c.Assert(herr, IsNil)
				c.Assert(ignore, Equals, true)
				res = map[string]interface{}{"ok": false, "rem": 0}
				s.refused++
			} else {
				c.Assert(handler.Done(), IsNil)
				txt := strings.TrimSpace(strings.TrimPrefix(strings.TrimSpace(string(stdout)), "hold:"))
				dur, perr := time.ParseDuration(txt)
				c.Assert(perr, IsNil, Commentf("stdout %q", stdout))
				res["rem"] = int64(math.Round(dur.Hours()))
			}
			s.st.Lock()
			s.emit(c, "Hold", map[string]interface{}{"g": g, "S": S}, res)
		case "proceed":
			_, _, err := ctlcmd.Run(hctx, []string{"refresh", "--proceed"}, 0)
			c.Assert(err, IsNil)
			c.Assert(handler.Done(), IsNil)
			s.st.Lock()
			s.emit(c, "Proceed", map[string]interface{}{"g": g, "S": []string{}}, nil)
		case "exit0":
			// the hook exits 0 without calling snapctl: proceed
			c.Assert(handler.Done(), IsNil)
			s.st.Lock()
			s.emit(c, "Proceed", map[string]interface{}{"g": g, "S": []string{}}, nil)
		case "fail":
			// the hook fails without having called snapctl: the handler assumes hold (default duration)
			ignore, herr := handler.Error(fmt.Errorf("hook failed"))
			c.Assert(herr, IsNil)
			c.Assert(ignore, Equals, true)
			s.st.Lock()
			gat := s.gating(c)
			ok := true
			for _, a := range affecting {
				if gat[a][gReal] == nil {
					ok = false
				}
			}
			if !ok {
				s.refused++
			}
			// the remaining duration is not observable on this path
			s.emit(c, "Hold", map[string]interface{}{"g": g, "S": S}, map[string]interface{}{"ok": ok, "rem": -1})
		}
	}

	// directed histories, always run: snap1 holds its base, the clock passes 48h, the OTHER gating snap's hook
	// proceeds (exit 0 / --proceed), snap1 asks again (must be refused); two cycles; both ways of holding
	hist := 0
	for _, how := range []string{"hold", "fail"} {
		for _, other := range []string{"exit0", "proceed"} {
			for _, otherCands := range [][]string{{"snap1-base"}, {"snap2"}} {
				newHistory(hist)
				hist++
				base := []string{"snap1-base"}
				hookRun("a", base, how)
				tick(49)
				hookRun("c", otherCands, other)
				hookRun("a", base, how)
				tick(1)
				tick(45)
				tick(3)
				hookRun("c", otherCands, other)
				hookRun("a", base, how)
				tick(46)
				hookRun("a", base, how)
				tick(3)
				s.st.Unlock()
			}
		}
	}
	nd := hist

	for i := nd; i < n+nd; i++ {
		newHistory(i)
		for k := 0; k < length; k++ {
			if r.Intn(100) < 35 {
				d := smallTicks[r.Intn(len(smallTicks))]
				if r.Intn(6) == 0 {
					d = bigTicks[r.Intn(len(bigTicks))]
				}
				tick(d)
				continue
			}
			g := []string{"a", "c"}[r.Intn(2)]
			gReal := verifHoldCtlReal[g]
			// refresh candidates: the base and/or the gating snap itself
			var cands []string
			switch r.Intn(3) {
			case 0:
				cands = []string{"snap1-base"}
			case 1:
				cands = []string{gReal}
			default:
				cands = []string{"snap1-base", gReal}
			}
			hookRun(g, cands, []string{"hold", "hold", "hold", "proceed", "exit0", "fail"}[r.Intn(6)])
		}
		s.st.Unlock()
	}
	n += nd
	s.w.Flush()
	fmt.Printf("VERIF-STATS {\"traces\":%d,\"calls\":%d,\"refused\":%d,\"distinct_hold_states\":%d}\n", n, s.runs, s.refused, len(s.distinct))
}

func TestVerifHoldCtl(t *testing.T) {
	if os.Getenv("VERIF_OUT") == "" {
		t.Skip("VERIF_OUT not set")
	}
	res := Run(&verifHoldCtlSuite{}, &RunConf{Output: os.Stdout, Verbose: true, Filter: "TestVerifHoldCtlRun"})
	if !res.Passed() {
		t.Fatalf("verif hold ctl driver failed: %s", res.String())
	}
}
