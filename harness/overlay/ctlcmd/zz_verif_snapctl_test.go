// C25 driver (package ctlcmd, compiled in with `go test -overlay`, build tag verif).
//
// Binds /verif/spec/Snapctl.tla to the real ctlcmd.Run:
//
//	VERIF_MODE=sigs  discover every registered snapctl command (the real `commands` map), its
//	                 sub-commands, boolean / string-valued options and positional requirements (through
//	                 go-flags' own scanner + reflection) and write them with their abstract signatures.
//	VERIF_MODE=run   read the table TLC exported (every abstract argv within the bound, for every real
//	                 signature, with the spec's outcome for uid root / non-root), instantiate each abstract
//	                 argv for EVERY real command of that signature (several spellings per token), run the real
//	                 Run(nil, argv, uid), observe Executed(which)/Help/Error/Forbidden (the executed command is
//	                 seen through the `verif` CommandHandler hook) and
//	                   - evaluate the property directly on the real observation,
//	                   - compare the real outcome with the spec's.
//	                 Also records seeded random vectors beyond the bound for I->T validation (TraceSnapctl).
package ctlcmd

import (
	"encoding/json"
	"fmt"
	"math/rand"
	"os"
	"reflect"
	"sort"
	"strconv"
	"strings"
	"testing"

	"github.com/jessevdk/go-flags"
)

type verifSnapctlSig struct {
	Cls  string `json:"cls"`
	Min  int    `json:"min"`
	Sub  bool   `json:"sub"`
	HasB bool   `json:"hasB"`
	HasV bool   `json:"hasV"`
}

func (s verifSnapctlSig) key() string {
	return fmt.Sprintf("%s/%d/%v/%v/%v", s.Cls, s.Min, s.Sub, s.HasB, s.HasV)
}

type verifSnapctlCmd struct {
	Path        []string        `json:"path"`
	Sig         verifSnapctlSig `json:"sig"`
	BoolOpts    []string        `json:"bool_opts"`   // spellings: --long, -s
	ValOpts     []string        `json:"val_opts"`    // string-valued: --long, -s
	Unmodelled  []string        `json:"unmodelled"`  // options of other kinds (int, optional-argument, choices...)
	Positional  []string        `json:"positional"`  // name[*][!]
	Unsupported string          `json:"unsupported"` // reason this command cannot be modelled (then skipped)
	SubNames    []string        `json:"sub_names"`
	longVal     []string
	shortVal    []string
}

func (c *verifSnapctlCmd) name() string { return strings.Join(c.Path, " ") }

type verifSnapctlPos struct {
	name     string
	slice    bool
	required int
	reqMax   int
}

// positional arguments of a command struct, mirroring go-flags' scanSubcommandHandler
func verifSnapctlPositionals(t reflect.Type) (args []verifSnapctlPos, argsRequired bool) {
	for t.Kind() == reflect.Ptr {
		t = t.Elem()
	}
	if t.Kind() != reflect.Struct {
		return nil, false
	}
	for i := 0; i < t.NumField(); i++ {
		f := t.Field(i)
		if f.Tag.Get("positional-args") != "" {
			st := f.Type
			for st.Kind() == reflect.Ptr {
				st = st.Elem()
			}
			for j := 0; j < st.NumField(); j++ {
				pf := st.Field(j)
				p := verifSnapctlPos{name: pf.Name, slice: pf.Type.Kind() == reflect.Slice, required: -1, reqMax: -1}
				if sreq := pf.Tag.Get("required"); sreq != "" {
					p.required = 1
					rng := strings.SplitN(sreq, "-", 2)
					if len(rng) > 1 {
						if n, err := strconv.ParseInt(rng[0], 10, 32); err == nil {
							p.required = int(n)
						}
						if n, err := strconv.ParseInt(rng[1], 10, 32); err == nil {
							p.reqMax = int(n)
						}
					} else if n, err := strconv.ParseInt(sreq, 10, 32); err == nil {
						p.required = int(n)
					}
				}
				args = append(args, p)
			}
			if f.Tag.Get("required") != "" {
				argsRequired = true
			}
			continue
		}
		if f.Tag.Get("command") != "" {
			continue
		}
		if f.Anonymous && f.Type.Kind() == reflect.Struct {
			a, r := verifSnapctlPositionals(f.Type)
			args = append(args, a...)
			argsRequired = argsRequired || r
		}
	}
	return args, argsRequired
}

// would go-flags' checkRequired accept k positional words?
func verifSnapctlPosOK(args []verifSnapctlPos, argsRequired bool, k int) bool {
	idx, count := 0, 0
	for i := 0; i < k; i++ {
		if idx >= len(args) {
			break
		}
		if args[idx].slice {
			count++
		} else {
			idx++
		}
	}
	for _, a := range args[idx:] {
		req := (!a.slice && argsRequired) || a.required != -1 || a.reqMax != -1
		if !req {
			continue
		}
		if a.slice {
			if count < a.required {
				return false
			}
			if a.reqMax != -1 && count > a.reqMax {
				return false
			}
		} else {
			return false
		}
	}
	return true
}

func verifSnapctlSubType(t reflect.Type, sub string) reflect.Type {
	for t.Kind() == reflect.Ptr {
		t = t.Elem()
	}
	for i := 0; i < t.NumField(); i++ {
		if t.Field(i).Tag.Get("command") == sub {
			return t.Field(i).Type
		}
	}
	return nil
}

func verifSnapctlAllOptions(g *flags.Group) []*flags.Option {
	opts := append([]*flags.Option{}, g.Options()...)
	for _, sg := range g.Groups() {
		opts = append(opts, verifSnapctlAllOptions(sg)...)
	}
	return opts
}

func verifSnapctlDescribe(fc *flags.Command, t reflect.Type, path []string, readonly map[string]bool, out *[]*verifSnapctlCmd) {
	c := &verifSnapctlCmd{Path: append([]string{}, path...)}
	c.Sig.Cls = "F"
	if readonly[path[0]] {
		c.Sig.Cls = "A"
	}
	for _, o := range verifSnapctlAllOptions(fc.Group) {
		var sp []string
		if o.LongName != "" {
			sp = append(sp, "--"+o.LongName)
		}
		if o.ShortName != 0 {
			sp = append(sp, "-"+string(o.ShortName))
		}
		if o.LongName == "help" || o.ShortName == 'h' {
			c.Unsupported = "command defines its own -h/--help option"
		}
		kind := o.Field().Type.Kind()
		switch {
		case len(sp) == 0:
		case o.OptionalArgument || len(o.Choices) > 0:
			c.Unmodelled = append(c.Unmodelled, sp...)
		case kind == reflect.Bool:
			c.BoolOpts = append(c.BoolOpts, sp...)
		case kind == reflect.String:
			c.ValOpts = append(c.ValOpts, sp...)
			if o.LongName != "" {
				c.longVal = append(c.longVal, "--"+o.LongName)
			}
			if o.ShortName != 0 {
				c.shortVal = append(c.shortVal, "-"+string(o.ShortName))
			}
		default:
			c.Unmodelled = append(c.Unmodelled, sp...)
		}
	}
	c.Sig.HasB = len(c.BoolOpts) > 0
	c.Sig.HasV = len(c.ValOpts) > 0
	pos, argsReq := verifSnapctlPositionals(t)
	// cross-check our reading of the struct with go-flags' own
	fa := fc.Args()
	if len(fa) != len(pos) || fc.ArgsRequired != argsReq {
		c.Unsupported = fmt.Sprintf("positional scan disagrees with go-flags (%d vs %d args, required %v vs %v)", len(pos), len(fa), argsReq, fc.ArgsRequired)
	} else {
		for i := range fa {
			if fa[i].Required != pos[i].required || fa[i].RequiredMaximum != pos[i].reqMax {
				c.Unsupported = "positional scan disagrees with go-flags on " + fa[i].Name
			}
		}
	}
	for _, p := range pos {
		s := p.name
		if p.slice {
			s += "*"
		}
		if (!p.slice && argsReq) || p.required != -1 {
			s += "!"
		}
		c.Positional = append(c.Positional, s)
	}
	min := -1
	for k := 0; k <= 8; k++ {
		ok := verifSnapctlPosOK(pos, argsReq, k)
		if ok && min < 0 {
			min = k
		}
		if !ok && min >= 0 {
			c.Unsupported = "positional arguments have an upper bound"
		}
	}
	if min < 0 {
		c.Unsupported = "cannot satisfy positional requirements with <= 8 words"
		min = 0
	}
	c.Sig.Min = min
	subs := fc.Commands()
	if len(subs) > 0 {
		if fc.SubcommandsOptional {
			c.Unsupported = "optional sub-commands are not modelled"
		}
		if len(pos) > 0 || c.Sig.HasB || c.Sig.HasV {
			c.Unsupported = "a command with sub-commands AND own options/positionals is not modelled"
		}
		c.Sig.Sub = true
		c.Sig.Min = 0
		for _, s := range subs {
			c.SubNames = append(c.SubNames, s.Name)
		}
	}
	*out = append(*out, c)
	for _, s := range subs {
		st := verifSnapctlSubType(t, s.Name)
		if st == nil {
			c.Unsupported = "cannot find the struct of sub-command " + s.Name
			continue
		}
		verifSnapctlDescribe(s, st, append(append([]string{}, path...), s.Name), readonly, out)
	}
}

func verifSnapctlDiscover(t *testing.T, readonly map[string]bool) []*verifSnapctlCmd {
	var names []string
	for n := range commands {
		names = append(names, n)
	}
	sort.Strings(names)
	var out []*verifSnapctlCmd
	for _, n := range names {
		inst := commands[n].generator()
		p := flags.NewNamedParser("verif", flags.None)
		fc, err := p.AddCommand(n, "", "", inst)
		if err != nil {
			t.Fatalf("cannot scan command %q: %v", n, err)
		}
		verifSnapctlDescribe(fc, reflect.TypeOf(inst), []string{n}, readonly, &out)
	}
	return out
}

// ---------------------------------------------------------------------------------------------------
// observation of which command the real parser decided to execute

var (
	verifSnapctlCreated  map[string]command
	verifSnapctlExecuted []string
	verifSnapctlHandled  bool
)

func verifSnapctlIdentify(cmd flags.Commander) []string {
	if cmd == nil {
		return []string{"<nil>"}
	}
	for name, inst := range verifSnapctlCreated {
		if interface{}(inst) == interface{}(cmd) {
			return []string{name}
		}
		if p := verifSnapctlFindSub(reflect.ValueOf(inst), cmd); p != nil {
			return append([]string{name}, p...)
		}
	}
	return []string{fmt.Sprintf("<unknown %T>", cmd)}
}

func verifSnapctlFindSub(v reflect.Value, cmd flags.Commander) []string {
	for v.Kind() == reflect.Ptr {
		if v.IsNil() {
			return nil
		}
		v = v.Elem()
	}
	if v.Kind() != reflect.Struct {
		return nil
	}
	for i := 0; i < v.NumField(); i++ {
		sub := v.Type().Field(i).Tag.Get("command")
		if sub == "" {
			continue
		}
		f := v.Field(i)
		var ptr reflect.Value
		if f.Kind() == reflect.Ptr {
			ptr = f
		} else if f.CanAddr() {
			ptr = f.Addr()
		} else {
			continue
		}
		if ptr.CanInterface() && ptr.Interface() == interface{}(cmd) {
			return []string{sub}
		}
		if p := verifSnapctlFindSub(ptr, cmd); p != nil {
			return append([]string{sub}, p...)
		}
	}
	return nil
}

func verifSnapctlInstall() (restore func()) {
	orig := map[string]func() command{}
	for name, ci := range commands {
		name, ci := name, ci
		g := ci.generator
		orig[name] = g
		ci.generator = func() command {
			c := g()
			verifSnapctlCreated[name] = c
			return c
		}
	}
	SetVerifCommandHandler(func(cmd flags.Commander, args []string) error {
		verifSnapctlHandled = true
		verifSnapctlExecuted = verifSnapctlIdentify(cmd)
		return nil
	})
	return func() {
		SetVerifCommandHandler(nil)
		for name, g := range orig {
			commands[name].generator = g
		}
	}
}

// one real invocation -> (outcome, executed command path)
func verifSnapctlRun(argv []string, uid uint32) (string, []string) {
	verifSnapctlCreated = map[string]command{}
	verifSnapctlExecuted = nil
	verifSnapctlHandled = false
	_, _, err := Run(nil, argv, uid)
	if verifSnapctlHandled {
		if err != nil {
			return "exec+err:" + err.Error(), verifSnapctlExecuted
		}
		return "exec", verifSnapctlExecuted
	}
	switch e := err.(type) {
	case nil:
		return "nothing", nil
	case *ForbiddenCommandError:
		return "forbidden", nil
	case *flags.Error:
		switch e.Type {
		case flags.ErrHelp:
			return "help", nil
		case flags.ErrUnknownFlag:
			return "err:unknown-flag", nil
		case flags.ErrExpectedArgument:
			return "err:expected-argument", nil
		case flags.ErrUnknownCommand:
			return "err:unknown-command", nil
		case flags.ErrCommandRequired:
			return "err:command-required", nil
		case flags.ErrRequired:
			return "err:required", nil
		case flags.ErrNoArgumentForBool:
			return "err:no-argument-for-bool", nil
		case flags.ErrMarshal:
			return "err:marshal", nil
		}
		return fmt.Sprintf("err:other-%d", e.Type), nil
	}
	if strings.HasPrefix(err.Error(), "internal error") {
		return "err:internal", nil
	}
	return "err:nonflags:" + err.Error(), nil
}

// ---------------------------------------------------------------------------------------------------
// instantiation of abstract tokens

type verifSnapctlInst struct {
	cmd      *verifSnapctlCmd
	other    string
	unkShort string
}

func verifSnapctlPick(l []string, k int) string { return l[k%len(l)] }

func (in *verifSnapctlInst) argv(abs []string, variant int) []string {
	var out []string
	for pos, t := range abs {
		k := variant + pos
		switch t {
		case "C":
			out = append(out, in.cmd.Path...)
		case "O":
			out = append(out, in.other)
		case "H":
			out = append(out, "-h")
		case "HH":
			out = append(out, "--help")
		case "HC":
			out = append(out, verifSnapctlPick([]string{"-hh", "-h" + in.unkShort}, k))
		case "HJ":
			out = append(out, verifSnapctlPick([]string{"--help=false", "-h=1", "--help="}, k))
		case "DD":
			out = append(out, "--")
		case "B":
			out = append(out, verifSnapctlPick(in.cmd.BoolOpts, k))
		case "V":
			out = append(out, verifSnapctlPick(in.cmd.ValOpts, k))
		case "VJ":
			var sp []string
			for _, l := range in.cmd.longVal {
				sp = append(sp, l+"=x", l+"=-h", l+"=--help", l+"=")
			}
			for _, s := range in.cmd.shortVal {
				sp = append(sp, s+"x", s+"-h", s+"=x")
			}
			out = append(out, verifSnapctlPick(sp, k))
		case "A":
			out = append(out, verifSnapctlPick([]string{"foo", "-", "k=v"}, k))
		case "HW":
			out = append(out, "help")
		case "U":
			out = append(out, verifSnapctlPick([]string{"--verif-unknown", "-" + in.unkShort, "--verif-unknown=1"}, k))
		default:
			panic("unknown abstract token " + t)
		}
	}
	return out
}

type verifSnapctlRow struct {
	Argv []string `json:"argv"`
	User string   `json:"user"`
	Root string   `json:"root"`
}

type verifSnapctlTable struct {
	Readonly []string `json:"readonly"`
	Tokens   []string `json:"tokens"`
	MaxCore  int      `json:"maxcore"`
	Sigs     []struct {
		Sig  verifSnapctlSig   `json:"sig"`
		Rows []verifSnapctlRow `json:"rows"`
	} `json:"sigs"`
}

func verifSnapctlApplicable(s verifSnapctlSig, av []string, t string) bool {
	switch t {
	case "B":
		return s.HasB
	case "V", "VJ":
		return s.HasV
	case "O":
		for _, x := range av {
			if x == "C" {
				return true
			}
		}
		return false
	}
	return true
}

func TestVerifSnapctl(t *testing.T) {
	outPath := os.Getenv("VERIF_OUT")
	if outPath == "" {
		t.Skip("VERIF_OUT not set")
	}
	mode := os.Getenv("VERIF_MODE")
	of, err := os.Create(outPath)
	if err != nil {
		t.Fatal(err)
	}
	defer of.Close()
	enc := json.NewEncoder(of)

	// the statement's list: from the table when present (single source of truth = the spec), else default
	readonlyList := []string{"get", "services", "set-health", "is-connected", "system-mode", "model"}
	var table verifSnapctlTable
	if mode != "sigs" {
		b, err := os.ReadFile(os.Getenv("VERIF_TABLE"))
		if err != nil {
			t.Fatal(err)
		}
		if err := json.Unmarshal(b, &table); err != nil {
			t.Fatal(err)
		}
		readonlyList = table.Readonly
	}
	readonly := map[string]bool{}
	for _, n := range readonlyList {
		readonly[n] = true
	}
	cmds := verifSnapctlDiscover(t, readonly)

	if mode == "sigs" {
		enc.Encode(map[string]interface{}{"k": "commands", "commands": cmds})
		return
	}

	// things shared by all instantiations
	usedShort := map[string]bool{"h": true}
	topNames := map[string]bool{}
	for _, c := range cmds {
		topNames[c.Path[0]] = true
		for _, l := range [][]string{c.BoolOpts, c.ValOpts, c.Unmodelled} {
			for _, s := range l {
				if len(s) == 2 {
					usedShort[s[1:]] = true
				}
			}
		}
	}
	if topNames["help"] {
		t.Fatal("a snapctl command named `help' is registered: the token HW of Snapctl.tla (a plain word) no longer describes it")
	}
	unk := ""
	for _, r := range "ZQXYWJK" {
		if !usedShort[string(r)] {
			unk = string(r)
			break
		}
	}
	if unk == "" {
		t.Fatal("no unused short option letter")
	}
	pickOther := func(c *verifSnapctlCmd) string {
		want := "F"
		if c.Sig.Cls == "F" {
			want = "A"
		}
		pref := map[string][]string{"F": {"set", "unset", "stop"}, "A": {"get", "services", "model"}}[want]
		var cands []string
		cands = append(cands, pref...)
		for _, o := range cmds {
			cands = append(cands, o.Path[0])
		}
	next:
		for _, n := range cands {
			if !topNames[n] || (readonly[n] != (want == "A")) || n == c.Path[0] {
				continue
			}
			for _, o := range cmds { // must not be a sub-command name of c's family
				if o.Path[0] == c.Path[0] {
					for _, s := range o.SubNames {
						if s == n {
							continue next
						}
					}
				}
			}
			return n
		}
		return ""
	}

	restore := verifSnapctlInstall()
	defer restore()

	shard, nshard := 0, 1
	if s := os.Getenv("VERIF_SHARD"); s != "" {
		fmt.Sscanf(s, "%d/%d", &shard, &nshard)
	}
	nvar, _ := strconv.Atoi(os.Getenv("VERIF_VARIANTS"))
	if nvar <= 0 {
		nvar = 2
	}
	uids := map[string][]uint32{"root": {0}, "user": {1000}}
	if os.Getenv("VERIF_TIER") == "thorough" {
		uids["user"] = []uint32{1000, 4294967295}
	}

	bySig := map[string][]verifSnapctlRow{}
	for _, s := range table.Sigs {
		bySig[s.Sig.key()] = s.Rows
	}

	type rec map[string]interface{}
	counts := map[string]int{}
	runs, drift, viol := 0, 0, 0
	abstractSeen := map[string]bool{}
	rootExecuted := map[string]int{}
	samples := map[string]int{}
	skipped := map[string]string{}
	rowsDone := 0

	// property evaluated directly on a real observation
	check := func(c *verifSnapctlCmd, abs, argv []string, uidc string, uid uint32, expected, got string, executed []string, beyond bool) {
		runs++
		counts[uidc+":"+got]++
		bad := ""
		if uid != 0 && strings.HasPrefix(got, "exec") {
			if len(executed) == 0 || !readonly[executed[0]] {
				bad = "P1 non-root caller executed a command outside the read-only list"
			}
		}
		if uid == 0 && got == "forbidden" {
			bad = "P2 root was refused"
		}
		if uid == 0 && got == "exec" {
			rootExecuted[strings.Join(executed, " ")]++
		}
		gotCmp := got
		if got == "exec" && strings.Join(executed, " ") != c.name() {
			gotCmp = "exec-other:" + strings.Join(executed, " ")
		}
		if bad != "" {
			viol++
			if viol <= 400 {
				enc.Encode(rec{"k": "violation", "what": bad, "cmd": c.name(), "uid": uid, "argv": argv, "abs": abs,
					"sig": c.Sig, "got": got, "executed": strings.Join(executed, " "), "spec": expected, "beyond": beyond})
			}
		}
		if expected != "" && gotCmp != expected {
			drift++
			if drift <= 200 {
				enc.Encode(rec{"k": "drift", "cmd": c.name(), "uid": uid, "argv": argv, "abs": abs, "sig": c.Sig,
					"got": gotCmp, "spec": expected, "statement_violated": bad != ""})
			}
		}
		sk := uidc + ":" + got
		if samples[sk] < 2 && (rowsDone%97 == 3 || strings.HasPrefix(got, "exec")) {
			samples[sk]++
			enc.Encode(rec{"k": "sample", "cmd": c.name(), "uid": uid, "argv": argv, "abs": abs, "got": got,
				"executed": strings.Join(executed, " "), "spec": expected})
		}
	}

	for _, c := range cmds {
		if c.Unsupported != "" {
			skipped[c.name()] = c.Unsupported
			continue
		}
		rows, ok := bySig[c.Sig.key()]
		if !ok {
			t.Fatalf("table has no rows for signature %s of command %q", c.Sig.key(), c.name())
		}
		in := &verifSnapctlInst{cmd: c, other: pickOther(c), unkShort: unk}
		if in.other == "" {
			t.Fatalf("no partner command for %q", c.name())
		}
		for ri, row := range rows {
			if ri%nshard != shard {
				continue
			}
			rowsDone++
			seenArgv := map[string]bool{}
			for v := 0; v < nvar; v++ {
				argv := in.argv(row.Argv, v)
				k := strings.Join(argv, "\x00")
				if seenArgv[k] {
					continue
				}
				seenArgv[k] = true
				for _, uidc := range []string{"root", "user"} {
					expected := row.Root
					if uidc == "user" {
						expected = row.User
					}
					abstractSeen[c.Sig.key()+"|"+uidc+"|"+strings.Join(row.Argv, " ")] = true
					for ui, uid := range uids[uidc] {
						if ui > 0 && v > 0 {
							continue // the extra uids only with the first spelling
						}
						got, executed := verifSnapctlRun(argv, uid)
						check(c, row.Argv, argv, uidc, uid, expected, got, executed, false)
					}
				}
			}
		}
	}

	// seeded random vectors beyond the exhaustive bound, recorded for I->T validation by TraceSnapctl
	nrand, _ := strconv.Atoi(os.Getenv("VERIF_NRAND"))
	if obsPath := os.Getenv("VERIF_OBS"); obsPath != "" && nrand > 0 && shard == 0 {
		obf, err := os.Create(obsPath)
		if err != nil {
			t.Fatal(err)
		}
		defer obf.Close()
		oenc := json.NewEncoder(obf)
		seed, _ := strconv.ParseInt(os.Getenv("VERIF_SEED"), 10, 64)
		rng := rand.New(rand.NewSource(seed))
		var usable []*verifSnapctlCmd
		for _, c := range cmds {
			if c.Unsupported == "" {
				usable = append(usable, c)
			}
		}
		toks := table.Tokens
		sort.Strings(toks)
		for i := 0; i < nrand; i++ {
			c := usable[rng.Intn(len(usable))]
			in := &verifSnapctlInst{cmd: c, other: pickOther(c), unkShort: unk}
			n := table.MaxCore + 1 + rng.Intn(5)
			var abs []string
			for len(abs) < n {
				// bias towards vectors that get past the first token
				var tk string
				if r := rng.Intn(10); len(abs) == 0 && r < 5 {
					tk = "C"
				} else if len(abs) == 0 && r < 8 {
					tk = "HW" // the word `help' in front, then (mostly) a command
				} else if len(abs) == 1 && abs[0] == "HW" && r < 7 {
					tk = "C"
				} else if len(abs) >= 2 && r == 0 {
					tk = "DD"
				} else {
					tk = toks[rng.Intn(len(toks))]
				}
				if verifSnapctlApplicable(c.Sig, abs, tk) {
					abs = append(abs, tk)
				}
			}
			argv := in.argv(abs, rng.Intn(12))
			uidc, uid := "user", uint32(1000)
			if rng.Intn(3) == 0 {
				uidc, uid = "root", 0
			}
			got, executed := verifSnapctlRun(argv, uid)
			check(c, abs, argv, uidc, uid, "", got, executed, true)
			if got == "exec" && strings.Join(executed, " ") != c.name() {
				got = "exec-other:" + strings.Join(executed, " ")
			}
			oenc.Encode(rec{"ev": "Run", "case": i, "cmd": c.name(), "uid": uidc, "sig": c.Sig, "argv": abs, "real": argv, "out": got})
		}
	}

	var neverRoot []string
	for _, c := range cmds {
		if c.Unsupported == "" && !c.Sig.Sub && rootExecuted[c.name()] == 0 {
			neverRoot = append(neverRoot, c.name())
		}
	}
	enc.Encode(rec{"k": "summary", "runs": runs, "drift": drift, "violations": viol, "counts": counts,
		"abstract_states_covered": len(abstractSeen), "rows": rowsDone, "commands": len(cmds), "skipped": skipped,
		"root_never_executed": neverRoot, "root_executed": rootExecuted, "shard": fmt.Sprintf("%d/%d", shard, nshard)})
}
