#!/bin/sh
# MANIFEST.setup_cmd: build what can be built ahead of time, offline, from files on disk only.
# Everything a check needs is rebuilt by the check itself from /repo's working tree; this only warms caches.
set -u
cd "$(dirname "$0")"
export GOFLAGS=-mod=mod GOPROXY=off GOSUMDB=off GOTOOLCHAIN=local
python3 - <<'PY'
import sys
sys.path.insert(0, ".")
from lib import goharness
goharness.ensure_extmod()
print("ext module go.mod generated")
PY
# warm the Go build cache for the external harness module (best effort)
( cd harness/ext && ls -d */ >/dev/null 2>&1 && go test -tags verif -vet=off -count=1 -run '^$' ./... >/dev/null 2>&1 ) || true
# warm the heavy in-package test binaries used by overlay harnesses (best effort, parallel)
if [ -f tools/warm_overlays.py ]; then python3 tools/warm_overlays.py || true; fi
mkdir -p evidence replay
echo "setup done"
exit 0
