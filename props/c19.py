"""C19 -- stored assertions only move forward in revision (AssertDB.tla)."""
from props import _assertdb


def run(ctx):
    return _assertdb.run(ctx)
