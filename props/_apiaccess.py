"""C26 machinery: ApiAccess.tla + ApiAccessCodec.tla (design) bound to daemon.Command.ServeHTTP, the access
checkers and the ucrednet codec (conformance).

  1. in parallel: build the daemon test binary with the overlay driver; TLC on ApiAccessTable (root module,
     EXTENDS ApiAccess: statement clauses as invariants over every (access class, request) + JSON decision table);
     TLC on ApiAccessCodecTable (EXTENDS ApiAccessCodec: codec invariants + JSON case table)
  2. driver: every entry of the real `api` table x every method with a handler, classified by a type switch on the
     real checker value, every table row of its class -> real request -> real Command.ServeHTTP with the handlers
     stubbed; statement clauses evaluated on the real observation; decision / polkit consultation / attached
     interfaces compared with the spec.  Codec cases replayed on the real String/Parse/Attach.
  3. a seeded sample of the real observations is validated by TraceApiAccess (I->T).
  4. ApiAccessSession(Table): the logged-in user set as state; every login/logout history replayed with the real
     auth.NewUser and the real POST /v2/logout, every issued macaroon probed after every step.
"""
import json
import os
import threading

from lib import common, tlc, goharness
from lib.common import Result, Violation, InfraError

OVERLAY = [os.path.join(common.HARNESS, "overlay", "daemon", "zz_verif_access_test.go")]
PKG = "daemon"

CODEC_STATEMENT = ("String", "roundtrip", "String(nil)", "Parse(String(nil))", "no-credentials", "credentials")


def _par(jobs):
    """run callables in threads; re-raise the first exception"""
    res, errs = {}, {}

    def w(k, f):
        try:
            res[k] = f()
        except BaseException as e:  # noqa
            errs[k] = e
    ts = [threading.Thread(target=w, args=(k, f)) for k, f in jobs.items()]
    for t in ts:
        t.start()
    for t in ts:
        t.join()
    for k in jobs:
        if k in errs:
            raise errs[k]
    return res


def run(ctx):
    sfx = ctx.pick("", "_thorough")
    d = ctx.subdir("apiaccess")
    table = os.path.join(d, "table.json")
    codec = os.path.join(d, "codec.json")
    workers = ctx.pick(4, 8)
    notes = []

    # Dev knob for mutation runs only (the TLC side does not depend on the tree under test): reuse exported tables.
    cache = os.environ.get("VERIF_C26_CACHE")
    cached = cache and all(os.path.exists(os.path.join(cache, "%s_%s" % (ctx.tier, n))) for n in ("table.json", "codec.json", "stats.json"))
    jobs = {"build": lambda: goharness.overlay_test_build(ctx, PKG, OVERLAY)}
    if not cached:
        jobs["mc"] = lambda: tlc.run(ctx, "ApiAccessTable", "ApiAccess_mc%s.cfg" % sfx, workers=workers, coverage=True,
                                     env={"VERIF_OUT": table}, timeout=ctx.pick(900, 2400), heap=ctx.pick("6g", "12g"), name="mc_access")
        jobs["codec"] = lambda: tlc.run(ctx, "ApiAccessCodecTable", "ApiAccessCodec_mc%s.cfg" % sfx, workers=2, coverage=True,
                                        env={"VERIF_OUT": codec}, timeout=ctx.pick(900, 2400), name="mc_codec")
    sess = os.path.join(d, "sessions.json")
    jobs["sess"] = lambda: tlc.run(ctx, "ApiAccessSessionTable", "ApiAccessSession_mc%s.cfg" % sfx, workers=2, coverage=True,
                                   env={"VERIF_OUT": sess}, timeout=ctx.pick(900, 2400), name="mc_session")
    res = _par(jobs)
    tb = res["build"]
    mcs = res["sess"]
    if not mcs.ok:
        raise InfraError("spec-level counterexample in ApiAccessSession: %s %s" % (mcs.summary(), mcs.trace[-1:] if mcs.trace else ""))
    tlc.require_coverage(mcs, ["Login", "Logout"])
    if not os.path.exists(sess):
        raise InfraError("session table export missing")
    with open(sess) as f:
        sj = json.load(f)
    if sj["histories_total"] != mcs.distinct:     # one TLC state per history (h is a state variable)
        raise InfraError("session histories (%d) do not match the model-checked state count (%d)" % (sj["histories_total"], mcs.distinct))
    if cached:
        import shutil
        import types
        shutil.copy(os.path.join(cache, "%s_table.json" % ctx.tier), table)
        shutil.copy(os.path.join(cache, "%s_codec.json" % ctx.tier), codec)
        with open(os.path.join(cache, "%s_stats.json" % ctx.tier)) as f:
            stj = json.load(f)
        mc = types.SimpleNamespace(ok=True, coverage={k: tuple(v) for k, v in stj["mc"]["coverage"].items()}, **{k: stj["mc"][k] for k in ("distinct", "generated", "wall")})
        mcc = types.SimpleNamespace(ok=True, coverage={k: tuple(v) for k, v in stj["mcc"]["coverage"].items()}, **{k: stj["mcc"][k] for k in ("distinct", "generated", "wall")})
        notes.append("TLC results reused from VERIF_C26_CACHE (development/mutation run)")
    else:
        mc, mcc = res["mc"], res["codec"]
    for r, what in ((mc, "ApiAccess"), (mcc, "ApiAccessCodec")):
        if not r.ok:
            # the spec itself contradicts the statement: a spec/design problem, not a verdict about the code
            raise InfraError("spec-level counterexample in %s: %s %s" % (what, r.summary(), r.trace[-1:] if r.trace else ""))
    if not cached:
        tlc.require_coverage(mc, ["Init", "Serve"])
        tlc.require_coverage(mcc, ["Init", "DoAttach"])
        if cache and os.path.exists(table) and os.path.exists(codec):
            import shutil
            os.makedirs(cache, exist_ok=True)
            shutil.copy(table, os.path.join(cache, "%s_table.json" % ctx.tier))
            shutil.copy(codec, os.path.join(cache, "%s_codec.json" % ctx.tier))
            with open(os.path.join(cache, "%s_stats.json" % ctx.tier), "w") as f:
                json.dump({"mc": {"distinct": mc.distinct, "generated": mc.generated, "wall": mc.wall, "coverage": mc.coverage},
                           "mcc": {"distinct": mcc.distinct, "generated": mcc.generated, "wall": mcc.wall, "coverage": mcc.coverage}}, f)
    for p in (table, codec):
        if not os.path.exists(p):
            raise InfraError("table export missing: %s" % p)
    with open(table) as f:
        tj = json.load(f)
    nrows = sum(len(c["rows"]) for c in tj["classes"])
    # every tier must contain every credential and connection case (each selects a distinct branch of access.go /
    # ucrednet.go / ConnectionState.Active); a trimmed config must never drop one silently
    need = {0: {"valid", "missing", "garbage", "trailing", "leading", "nopid", "nouid"},
            5: {"none", "activeListed", "bothListed", "activeOther", "undesired", "hotplugGone", "otherSnap", "slotSide", "notSnap", "badRef"}}
    have = {0: set(), 5: set()}
    for row in tj["classes"][0]["rows"]:
        f = row["k"].split("|")
        have[0].add(f[0])
        have[5].add(f[5])
    for i in need:
        if need[i] - have[i]:
            raise InfraError("the %s config lacks request cases %s" % (ctx.tier, sorted(need[i] - have[i])))
    if nrows * 2 != mc.distinct:      # every (class, request) is one pending + one decided state
        raise InfraError("decision table rows (%d x2) do not match the model-checked state count (%d)" % (nrows, mc.distinct))
    if os.environ.get("VERIF_C26_CORRUPT_TABLE"):        # binding demo: corrupt one expected decision
        i = int(os.environ["VERIF_C26_CORRUPT_TABLE"])
        for c in tj["classes"]:
            if c["ac"]["kind"] == "open":
                row = c["rows"][i]
                row["d"] = "served" if row["d"] != "served" else "forbidden"
        with open(table, "w") as f:
            json.dump(tj, f)

    out = os.path.join(d, "run.ndjson")
    obs = os.path.join(d, "obs.ndjson")
    rc, o = goharness.run_test_bin(ctx, tb, "^TestVerifAccess$", cwd=os.path.join(common.REPO, PKG), timeout=ctx.pick(900, 2400),
                                   env={"VERIF_OUT": out, "VERIF_TABLE": table, "VERIF_CODEC_TABLE": codec, "VERIF_SAMPLE": 0, "VERIF_SESSION_TABLE": sess,
                                        "VERIF_OBS": obs, "VERIF_OBS_STRIDE": ctx.pick(160, 100)})
    goharness.check_driver(rc, o, "daemon access driver")
    recs = common.read_ndjson(out)
    summ = [r for r in recs if r["k"] == "summary"]
    csum = [r for r in recs if r["k"] == "codec-summary"]
    if len(summ) != 1 or len(csum) != 1:
        raise InfraError("driver wrote no summary\n%s" % common.tail(o, 20))
    summ, csum = summ[0], csum[0]
    if summ["unmodelled"]:
        raise InfraError("endpoints whose declared access checker is outside the model: %s" % json.dumps(summ["unmodelled"]))
    eps = summ["endpoints"]

    violations, seen = [], set()
    for v in [r for r in recs if r["k"] == "violation"]:
        key = "%s %s [%s] %s -> %s" % (v["method"], v["path"], v["class"]["kind"], v["req"], v["got"])
        if key in seen:
            continue
        seen.add(key)
        violations.append(Violation(
            key=key, desc="%s: %s %s (declared %s%s) RemoteAddr=%r request[%s]=%s -> handler ran (spec: %s)" % (
                v["what"], v["method"], v["path"], v["class"], v.get("interfaces") or "", v["remote_addr"],
                "|".join(tj["fields"]), v["req"], v["spec"]),
            replay={k: v[k] for k in v if k != "k"}))
    codec_bad = [r for r in recs if r["k"] == "codec-mismatch"]
    codec_drift = []
    for m in codec_bad:
        if m["what"] in CODEC_STATEMENT or (m["what"] == "parsed-value" and str(m["got"]).rsplit("/", 1)[0] != str(m["want"]).rsplit("/", 1)[0]):
            key = "ucrednet %s %s" % (m["what"], m["input"])
            if key not in seen:
                seen.add(key)
                violations.append(Violation(key=key, desc="peer credential codec: %s on %s: got %s, statement requires %s" % (
                    m["what"], m["input"], m["got"], m["want"]), replay=m))
        else:
            codec_drift.append(m)

    # login/logout histories (the user set as state)
    ssum = [r for r in recs if r["k"] == "session-summary"]
    if len(ssum) != 1:
        raise InfraError("driver wrote no session summary")
    ssum = ssum[0]
    for v in [r for r in recs if r["k"] == "session-violation"]:
        key = "session [%s] macaroon-of-user-%s GET %s -> served" % (v["history"], v["user"], v["path"])
        if key not in seen:
            seen.add(key)
            violations.append(Violation(
                key=key, desc="authenticated endpoint GET %s served a non-root, non-polkit caller presenting the macaroon of user %s, who is "
                "not logged in after the history [%s] (logged in per spec: %s)" % (v["path"], v["user"], v["history"], v["logged_in_per_spec"]),
                replay={k: v[k] for k in v if k != "k"}))
    codec_drift += [r for r in recs if r["k"] == "session-drift"]

    # real connections through the real ucrednetListener
    lsum = [r for r in recs if r["k"] == "listener-summary"]
    if len(lsum) != 1:
        raise InfraError("driver wrote no listener summary")
    lsum = lsum[0]
    for m in [r for r in recs if r["k"] == "listener" and r["why"]]:
        if m["got"] == "served" and m["spec"] != "served":
            key = "listener %s socket [%s] uid=%s -> served" % (m["socket"], m["class"]["kind"], m["uid"])
            if key not in seen:
                seen.add(key)
                violations.append(Violation(key=key, desc="a real connection over the %s socket (peer pid %s uid %s, RemoteAddr %r) was served by a %s "
                                            "endpoint; the declared level does not allow it" % (m["socket"], m["pid"], m["uid"], m["remote_addr"], m["class"]["kind"]), replay=m))
        else:
            codec_drift.append(m)

    if not violations:      # vacuity guards only when there is nothing to report
        if ssum["requests"] < 100 or ssum["logouts"] < 10:
            raise InfraError("vacuity: session replay too thin: %s" % ssum)
        if lsum["connections"] < 10:
            raise InfraError("vacuity: only %d real socket connections" % lsum["connections"])
        if len(eps) < 20:
            raise InfraError("vacuity: only %d endpoint x method pairs found in the real api table" % len(eps))
        for want in ("served", "forbidden", "unauthorized", "cancelled", "error500"):
            if not summ["counts"].get(want):
                raise InfraError("vacuity: no real request ended as %s" % want)
        kinds = sorted(set(e["class"]["kind"] for e in eps))
        for k in kinds:
            if not summ["per_class"].get(k + ":served") or not summ["per_class"].get(k + ":forbidden"):
                raise InfraError("vacuity: class %s never both served and refused" % k)


    drift_n = summ["drift"] + len(codec_drift)
    drifts = [r for r in recs if r["k"] == "drift"] + codec_drift
    if drift_n and not violations:
        raise InfraError("model drift: %d real outcomes differ from ApiAccess.tla without contradicting the statement, e.g. %s. "
                         "Triage per DESIGN 2.8." % (drift_n, json.dumps(drifts[0], sort_keys=True)[:900]))
    if drift_n:
        notes.append("%d real outcomes differ from the spec's (e.g. %s)" % (drift_n, json.dumps(drifts[0], sort_keys=True)[:600]))
    if summ["violations"] > len([r for r in recs if r["k"] == "violation"]):
        notes.append("%d violating requests in total (first 300 listed)" % summ["violations"])

    # I->T on a seeded sample of the real observations
    n_obs = 0
    if os.path.exists(obs):
        rows = common.read_ndjson(obs)
        n_obs = len(rows)
        if os.environ.get("VERIF_C26_CORRUPT_OBS"):       # binding demo: flip one recorded field of a real observation
            i = int(os.environ["VERIF_C26_CORRUPT_OBS"])
            rows[i]["out"] = "served" if rows[i]["out"] != "served" else "forbidden"
            common.write_ndjson(obs, rows)
        if n_obs:
            tv = tlc.validate_trace(ctx, "TraceApiAccess", "TraceApiAccess.cfg", obs, timeout=ctx.pick(600, 1800))
            if not tv["accepted"]:
                ev = common.read_ndjson(obs)[tv["stuck_line"] - 1]
                rqs = "|".join(str(ev["rq"][f]) if not isinstance(ev["rq"][f], bool) else ("T" if ev["rq"][f] else "F") for f in tj["fields"])
                key = "%s [%s] %s -> %s" % (ev["endpoint"], ev["ac"]["kind"], rqs, ev["out"])
                if tv["invariant"]:
                    if key not in seen:
                        violations.append(Violation(key=key, desc="real observation violates %s of ApiAccess.tla: %s" % (tv["invariant"], ev), replay=ev))
                elif not violations:
                    raise InfraError("model drift (trace validation, line %d): real outcome %s for %s; spec disagrees" % (
                        tv["stuck_line"], ev["out"], key))
                else:
                    notes.append("observation trace rejected at line %d: %s" % (tv["stuck_line"], key))
    if n_obs < 100 and not violations:
        raise InfraError("vacuity: only %d observations recorded for trace validation" % n_obs)

    samples = [{"endpoint": "%s %s" % (r["method"], r["path"]), "declared": r["class"], "remote_addr": r["remote_addr"],
                "request": r["req"], "observed": r["got"], "status": r["status"], "spec": r["spec"]}
               for r in recs if r["k"] == "sample"][:6]
    per_decl = {}
    for e in eps:
        k = "%s%s%s" % (e["class"]["kind"], "+polkit" if e["class"]["polkit"] else "", (":" + "&".join(e["interfaces"])) if e["interfaces"] else "")
        per_decl[k] = per_decl.get(k, 0) + 1
    cov = {
        "states": mc.distinct + mcc.distinct + mcs.distinct, "transitions": mc.generated + mcc.generated + mcs.generated,
        "traces_validated_against_impl": summ["runs"] + csum["cases"] + ssum["steps"],
        "session_histories": sj["histories_total"], "session_maximal_histories_replayed": ssum["histories"],
        "session_steps": ssum["steps"], "session_requests": ssum["requests"], "session_logouts_via_real_endpoint": ssum["logouts"],
        "samples": samples,
        "tlc_constants": {"access": "ApiAccess_mc%s.cfg" % sfx, "codec": "ApiAccessCodec_mc%s.cfg" % sfx, "session": "ApiAccessSession_mc%s.cfg" % sfx},
        "action_coverage": {"access": tlc.coverage_summary(mc), "codec": tlc.coverage_summary(mcc)},
        "tlc_wall_s": {"access": round(mc.wall, 1), "codec": round(mcc.wall, 1)},
        "decision_table_rows": nrows,
        "endpoint_method_pairs": len(eps),
        "declared_levels": per_decl,
        "real_requests": summ["runs"],
        "real_outcome_counts": summ["counts"],
        "real_outcomes_per_class": summ["per_class"],
        "abstract_states_covered_by_real_requests": summ["abstract_states_covered"],
        "codec_cases": csum["cases"], "codec_cases_with_credentials": csum["parsed_ok"],
        "observations_trace_validated": n_obs,
        "real_socket_connections": lsum["connections"], "real_socket_peer_uid": lsum["uid"],
        "violating_real_requests": summ["violations"], "drift": drift_n,
    }
    assumptions = [
        "the property is relative to the DECLARED access level of each endpoint/method (a changed declaration is not an alarm)",
        "polkit, the cgroup lookup of the calling snap and the peer credentials are injected at their seams "
        "(polkitCheckAuthorization, cgroupSnapNameFromPid, RemoteAddr); the real ucrednetListener (SO_PEERCRED) is exercised with a "
        "few real unix-socket connections, necessarily only for the uid the check runs as",
        "handlers are replaced by a recording stub: only dispatch + access control run for real",
        "pid 0 and uid 4294967295 are the codec's 'no process'/'nobody' sentinels: they decode to NO credentials (fail closed), "
        "so 'round-trips exactly' is claimed for real credentials only",
    ]
    return Result(level="model_checking", coverage=cov, assumptions=assumptions, violations=violations, notes=notes)
