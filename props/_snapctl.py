"""C25 machinery: Snapctl.tla (design) bound to the real ctlcmd.Run (conformance).

  1. build the ctlcmd test binary with the overlay driver (tag verif -> CommandHandler hook available)
  2. driver mode=sigs: discover the real registered commands and their abstract signatures
  3. TLC on Snapctl.tla with exactly those signatures; a spec-level counterexample is kept and must be
     reproduced on the real code to count (else exit 2: spec infidelity)
  4. TLC exports the table (every abstract argv in the bound x signature -> outcome for root / non-root)
  5. driver mode=run (sharded processes): every row instantiated for every real command of that signature,
     several spellings, real Run; property evaluated on real observations; real outcome compared with the spec's
  6. seeded random vectors beyond the bound recorded by the driver, validated by TraceSnapctl (I->T)
"""
import json
import os
import subprocess
import time

from lib import common, tlc, goharness
from lib.common import Result, Violation, InfraError

OVERLAY = [os.path.join(common.HARNESS, "overlay", "ctlcmd", "zz_verif_snapctl_test.go")]
PKG = "overlord/hookstate/ctlcmd"


def _sig_key(s):
    return "%s/%d/%s/%s/%s" % (s["cls"], s["min"], s["sub"], s["hasB"], s["hasV"])


def _run_shards(ctx, binary, table, outdir, nshard, nvar, nrand, obs):
    """run the driver in nshard parallel processes; returns list of (rc, output, outfile)"""
    procs = []
    for i in range(nshard):
        out = os.path.join(outdir, "run_%d.ndjson" % i)
        env = dict(os.environ)
        env.update(common.GOENV)
        env.update({"VERIF_SEED": str(ctx.seed), "VERIF_TIER": ctx.tier, "VERIF_MODE": "run", "VERIF_TABLE": table,
                    "VERIF_OUT": out, "VERIF_SHARD": "%d/%d" % (i, nshard), "VERIF_VARIANTS": str(nvar),
                    "VERIF_NRAND": str(nrand), "VERIF_OBS": obs})
        log = open(os.path.join(outdir, "run_%d.log" % i), "w")
        p = subprocess.Popen([binary, "-test.run", "^TestVerifSnapctl$", "-test.timeout", "3000s", "-test.v"],
                             cwd=os.path.join(common.REPO, PKG), env=env, stdout=log, stderr=subprocess.STDOUT)
        procs.append((p, log, out))
    res = []
    deadline = time.time() + 3100
    for p, log, out in procs:
        try:
            rc = p.wait(timeout=max(1, deadline - time.time()))
        except subprocess.TimeoutExpired:
            p.kill()
            rc = -9
        log.close()
        with open(log.name) as f:
            o = f.read()
        res.append((rc, o, out))
    return res


def vkey(v):
    return "uid=%s argv=%s executed=%s" % (v["uid"], json.dumps(v["argv"], separators=(",", ":")), v.get("executed") or v["got"])


def run(ctx):
    workers = ctx.pick(8, 16)
    sfx = ctx.pick("", "_thorough")
    notes = []

    # 1-2 ------------------------------------------------------------------------------------------
    tb = goharness.overlay_test_build(ctx, PKG, OVERLAY)
    d = ctx.subdir("snapctl")
    sigs_out = os.path.join(d, "commands.json")
    rc, o = goharness.run_test_bin(ctx, tb, "^TestVerifSnapctl$", env={"VERIF_OUT": sigs_out, "VERIF_MODE": "sigs"},
                                   cwd=os.path.join(common.REPO, PKG), timeout=300)
    goharness.check_driver(rc, o, "snapctl driver (sigs)")
    cmds = common.read_ndjson(sigs_out)[0]["commands"]
    usable = [c for c in cmds if not c["unsupported"]]
    unsupported = {" ".join(c["path"]): c["unsupported"] for c in cmds if c["unsupported"]}
    if unsupported:
        # a registered command the abstraction cannot express: no verdict for it -> infrastructure, not silence
        raise InfraError("snapctl commands outside the modelled fragment: %s" % unsupported)
    sigs = {}
    for c in usable:
        sigs.setdefault(_sig_key(c["sig"]), c["sig"])
    sigs_file = os.path.join(d, "sigs.json")
    with open(sigs_file, "w") as f:
        json.dump(list(sigs.values()), f)
    ctx.log("commands=%d distinct signatures=%d" % (len(cmds), len(sigs)))
    env = {"VERIF_SIGS": sigs_file}

    # 3+4 design and table export in one JVM (root module SnapctlTable EXTENDS Snapctl) --------------------------
    table = os.path.join(d, "table.json")
    env["VERIF_OUT"] = table
    mc = tlc.run(ctx, "SnapctlTable", "Snapctl_mc%s.cfg" % sfx, workers=workers, coverage=True, env=env,
                 timeout=ctx.pick(900, 2400), heap=ctx.pick("6g", "12g"), name="mc")
    design_cex = []
    mc_full = mc
    if not mc.ok:
        if mc.kind != "invariant":
            raise InfraError("Snapctl model checking ended unexpectedly: %s" % mc.summary())
        last = mc.trace[-1]["vars"] if mc.trace else {}
        design_cex.append({"invariant": mc.name, "uid": last.get("uid"), "sig": last.get("sig"), "argv": last.get("argv")})
        ctx.log("spec-level counterexample of %s: %s" % (mc.name, design_cex[-1]))
        # The spec transcribes the real gate and parser. A spec-level counterexample is a finding only if the real
        # code reproduces it (decided below on the real observations); otherwise the spec is wrong (exit 2).
        # TLC stops at the first counterexample: explore the rest of the bound with -continue so that the
        # table/state-count cross-check still covers the whole domain.
        mc_full = tlc.run(ctx, "SnapctlTable", "Snapctl_mc%s.cfg" % sfx, workers=workers, coverage=True, env=env,
                          timeout=ctx.pick(900, 2400), heap=ctx.pick("6g", "12g"), name="mc_continue",
                          extra_args=["-continue"])
    tlc.require_coverage(mc_full, ["Extend", "Pad"])
    if not os.path.exists(table):
        raise InfraError("table export failed: %s" % common.tail(mc_full.out, 20))
    with open(table) as f:
        tj = json.load(f)
    nrows = sum(len(s["rows"]) for s in tj["sigs"])
    # the exported domain is the domain TLC explored: (rows x 2 uid classes) = distinct states
    if nrows * 2 != mc_full.distinct:
        raise InfraError("table rows (%d x2) do not match the model-checked state count (%d)" % (nrows, mc_full.distinct))
    if os.environ.get("VERIF_C25_CORRUPT_TABLE"):      # binding demo: corrupt one expected outcome of the table
        i = int(os.environ["VERIF_C25_CORRUPT_TABLE"])
        row = tj["sigs"][0]["rows"][i]
        row["root"] = "help" if row["root"] != "help" else "exec"
        with open(table, "w") as f:
            json.dump(tj, f)

    # 5 conformance -----------------------------------------------------------------------------------
    nshard = ctx.pick(4, 12)
    nvar = ctx.pick(2, 4)
    nrand = ctx.pick(2000, 10000)
    obs = os.path.join(d, "obs.ndjson")
    t0 = time.time()
    shards = _run_shards(ctx, tb, table, d, nshard, nvar, nrand, obs)
    ctx.log("driver: %d shards in %.1fs" % (nshard, time.time() - t0))
    recs = []
    for rc, o, out in shards:
        goharness.check_driver(rc, o, "snapctl driver (run)")
        recs += common.read_ndjson(out)
    summaries = [r for r in recs if r["k"] == "summary"]
    if len(summaries) != nshard:
        raise InfraError("missing driver summaries (%d of %d)" % (len(summaries), nshard))
    runs = sum(s["runs"] for s in summaries)
    drift_n = sum(s["drift"] for s in summaries)
    viol_n = sum(s["violations"] for s in summaries)
    counts = {}
    root_exec = {}
    for s in summaries:
        for k, v in s["counts"].items():
            counts[k] = counts.get(k, 0) + v
        for k, v in s["root_executed"].items():
            root_exec[k] = root_exec.get(k, 0) + v
    covered = sum(s["abstract_states_covered"] for s in summaries)

    violations = []
    seen = set()
    vrecs = [r for r in recs if r["k"] == "violation"]
    for v in vrecs:
        k = vkey(v)
        if k in seen:
            continue
        seen.add(k)
        violations.append(Violation(
            key=k,
            desc="%s: Run(ctx, %s, uid=%s) -> %s %s (snapctl command %r; abstract argv %s)" % (
                v["what"], json.dumps(v["argv"]), v["uid"], v["got"], v.get("executed", ""), v["cmd"], " ".join(v["abs"])),
            replay={"argv": v["argv"], "uid": v["uid"], "cmd": v["cmd"], "abstract": v["abs"], "sig": v["sig"],
                    "observed": v["got"], "executed": v.get("executed"), "spec_outcome": v.get("spec"),
                    "how": "ctlcmd.Run(nil, argv, uid) with the verif CommandHandler installed (TestVerifSnapctl)"}))
    if viol_n > len(vrecs):
        notes.append("%d violating real executions in total (only the first 400 per shard are listed)" % viol_n)

    # vacuity guards (only when there is nothing to report: a violation is a verdict, a thin run is not)
    if not violations:
        never = [" ".join(c["path"]) for c in usable if not c["sig"]["sub"] and not root_exec.get(" ".join(c["path"]))]
        if never:
            raise InfraError("vacuity: root never got these commands executed within the bound: %s" % never)
        for want in ("root:exec", "user:exec", "user:forbidden", "user:help", "root:help"):
            if not counts.get(want):
                raise InfraError("vacuity: no real observation of class %s" % want)

    # spec-level counterexamples must be reproduced by the real code, else the spec is wrong
    for cex in design_cex:
        hit = [v for v in vrecs if v["abs"] == list(cex["argv"] or []) and _sig_key(v["sig"]) == _sig_key(cex["sig"])]
        cex["reproduced_on_real_code"] = len(hit)
        if not hit:
            raise InfraError("spec-level counterexample %s is NOT reproduced by the real code: spec infidelity" % cex)

    drifts = [r for r in recs if r["k"] == "drift"]
    if drift_n and not violations:
        ex = drifts[0]
        raise InfraError("model drift: %d real outcomes differ from Snapctl.tla without contradicting the statement, e.g. "
                         "Run(%s, uid=%s) -> %s, spec %s (abstract %s, command %s). Triage per DESIGN 2.8." % (
                             drift_n, json.dumps(ex["argv"]), ex["uid"], ex["got"], ex["spec"], " ".join(ex["abs"]), ex["cmd"]))
    if drift_n:
        notes.append("%d real outcomes differ from the spec's (e.g. %s)" % (drift_n, json.dumps(drifts[0], sort_keys=True)))

    # 6 I->T on random vectors beyond the bound ---------------------------------------------------------------
    n_obs = 0
    if os.path.exists(obs):
        n_obs = len(common.read_ndjson(obs))
        if os.environ.get("VERIF_C25_CORRUPT_OBS"):      # binding demo: flip one recorded field
            rows = common.read_ndjson(obs)
            i = int(os.environ["VERIF_C25_CORRUPT_OBS"])
            rows[i]["out"] = "help" if rows[i]["out"] != "help" else "exec"
            common.write_ndjson(obs, rows)
        tv = tlc.validate_trace(ctx, "TraceSnapctl", "TraceSnapctl.cfg", obs, env=env, timeout=ctx.pick(600, 1800))
        if not tv["accepted"]:
            ev = common.read_ndjson(obs)[tv["stuck_line"] - 1]
            k = "uid=%s argv=%s observed=%s" % (ev["uid"], json.dumps(ev["real"], separators=(",", ":")), ev["out"])
            already = any(json.dumps(ev["real"], separators=(",", ":")) in v.key for v in violations)
            if tv["invariant"]:
                if not already:
                    violations.append(Violation(key=k, desc="real observation violates %s of Snapctl.tla: %s" % (tv["invariant"], ev),
                                                replay=ev))
            elif not violations:
                raise InfraError("model drift on a random vector beyond the bound (line %d): real %s for %s, command %s, abstract %s" % (
                    tv["stuck_line"], ev["out"], ev["real"], ev["cmd"], ev["argv"]))
            else:
                notes.append("random-vector trace rejected at line %d: %s" % (tv["stuck_line"], ev))

    samples = [{"argv": r["argv"], "uid": r["uid"], "observed": r["got"], "executed": r.get("executed"), "spec": r["spec"],
                "abstract": " ".join(r["abs"])} for r in recs if r["k"] == "sample"][:6]
    cov = {
        "states": mc_full.distinct, "transitions": mc_full.generated,
        "traces_validated_against_impl": runs,
        "samples": samples,
        "tlc_constants": {"MaxCore": ctx.pick(3, 4), "MaxPad": 2, "Sigs": list(sigs.values())},
        "action_coverage": tlc.coverage_summary(mc_full),
        "tlc_wall_s": round(mc.wall + (mc_full.wall if mc_full is not mc else 0), 1),
        "strict_invariant_holds_on_spec": mc.ok,
        "design_counterexamples": design_cex,
        "table_rows": nrows,
        "real_commands": [" ".join(c["path"]) for c in cmds],
        "real_executions": runs,
        "real_outcome_counts": counts,
        "abstract_states_covered_by_real_runs": covered,
        "spellings_per_row": nvar,
        "random_vectors_beyond_bound_validated": n_obs,
        "violating_real_executions": viol_n,
        "drift": drift_n,
        "unmodelled_options": {" ".join(c["path"]): c["unmodelled"] for c in cmds if c["unmodelled"]},
    }
    assumptions = [
        "go-flags is the pinned v1.5.1-0.20210607101731-3927b71304df as configured by ctlcmd.Run (PassDoubleDash|HelpFlag); "
        "the abstract parser is checked against it on every vector, it is not trusted",
        "the executed command is observed through the verif-tagged CommandHandler hook (Execute itself is not run)",
        "option kinds modelled: boolean and string-valued; options of other kinds (e.g. is-connected --pid) are not instantiated",
        "argv bound: all vectors of <= MaxCore abstract tokens followed by <= MaxPad free words; random longer vectors are sampled",
    ]
    return Result(level="model_checking", coverage=cov, assumptions=assumptions, violations=violations, notes=notes)
