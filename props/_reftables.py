"""Shared plumbing for the reference-table properties C33, C34, C35, C37.

Pattern (DESIGN.md 11): TLC (a) checks the laws of the statement on the reference over a bounded
domain (a one-state-per-input spec with invariants), (b) tabulates the reference (T->I) in
chunks, several JVMs in parallel; the Go driver harness/ext/reftables evaluates the REAL function
on the same whole domain and reports every difference, checks the laws directly on the real
outputs, and records seeded random observations beyond the bound which TLC validates (I->T).
"""
import concurrent.futures
import json
import os

from lib import common, tlc, goharness
from lib.common import InfraError, Violation

PKG = "reftables"

# Many small single-worker JVMs run side by side: keep each one's GC/JIT thread pools small.
JVM_SMALL = {"JAVA_TOOL_OPTIONS": "-XX:ParallelGCThreads=2 -XX:CICompilerCount=2"}


def q(s):
    """Go %q-like quoting for ASCII keys."""
    return json.dumps(s, ensure_ascii=True)


def build(ctx):
    return goharness.ext_test_build(ctx, PKG)


def parallel(jobs, nproc):
    """Run callables concurrently (each typically one TLC JVM or one driver process)."""
    if not jobs:
        return []
    with concurrent.futures.ThreadPoolExecutor(max_workers=max(1, nproc)) as ex:
        futs = [ex.submit(j) for j in jobs]
        return [f.result() for f in futs]       # re-raises InfraError from a worker


def laws(ctx, module, cfg, env=None, min_states=2, timeout=900, workers=None, name=None, coverage=False):
    """Design step: TLC checks the law invariants on the reference. A failure is a spec problem."""
    env = dict(env or {})
    env.setdefault("JAVA_TOOL_OPTIONS", "-XX:ParallelGCThreads=4")
    mc = tlc.run(ctx, module, cfg, env=env, coverage=coverage, timeout=timeout,
                 workers=workers or ctx.pick(4, 8), name=name or ("laws_" + module))
    if not mc.ok:
        raise InfraError("spec-level counterexample in %s/%s (the reference violates a law: spec problem): %s\n%s"
                         % (module, cfg, mc.summary(), common.tail(mc.out, 15)))
    if mc.distinct < min_states:
        raise InfraError("vacuity guard: %s/%s explored only %d states (< %d)" % (module, cfg, mc.distinct, min_states))
    return mc


def table(ctx, module, cfg, out, env, timeout=900, heap="3g", name=None):
    """T->I export: one TLC run that writes `out` (JsonSerialize in an ASSUME)."""
    e = dict(JVM_SMALL)
    e.update(env)
    e["VERIF_OUT"] = out
    res = tlc.run(ctx, module, cfg, env={k: str(v) for k, v in e.items()}, workers=1, timeout=timeout,
                  heap=heap, name=name or ("tab_" + module))
    if not res.ok or not os.path.exists(out):
        raise InfraError("table export %s/%s failed: %s\n%s" % (module, cfg, res.summary(), common.tail(res.out, 20)))
    return res


def validate_obs(ctx, module, cfg, obs_path, verdict_path, timeout=900, name=None, env=None):
    """I->T: TLC evaluates the reference on recorded observations, writes per-case verdicts and
    ASSUMEs there is no bad case. Returns (verdict dict, accepted: bool)."""
    e = dict(JVM_SMALL)
    e.update({"VERIF_TRACE": obs_path, "VERIF_OUT": verdict_path})
    if env:
        e.update({k: str(v) for k, v in env.items()})
    res = tlc.run(ctx, module, cfg, env=e, workers=1, timeout=timeout, heap="3g", name=name or ("obs_" + module))
    if not os.path.exists(verdict_path):
        raise InfraError("observation validation %s produced no verdict: %s\n%s" % (module, res.summary(), common.tail(res.out, 20)))
    with open(verdict_path) as f:
        v = json.load(f)
    if res.ok != (len(v["bad"]) == 0):
        raise InfraError("observation validation %s: TLC verdict (%s) and verdict file (%d bad) disagree\n%s"
                         % (module, res.summary(), len(v["bad"]), common.tail(res.out, 20)))
    if not res.ok and res.kind != "assumption":
        raise InfraError("observation validation %s ended unexpectedly: %s\n%s" % (module, res.summary(), common.tail(res.out, 20)))
    return v, res.ok


def drive(ctx, binary, test, out, env=None, timeout=1200, what=None, cwd=None, args=None):
    """Run one driver entry point; returns the parsed NDJSON it wrote."""
    e = {"VERIF_OUT": out}
    if env:
        e.update(env)
    rc, o = goharness.run_test_bin(ctx, binary, "^%s$" % test, env=e, timeout=timeout, cwd=cwd, args=args)
    goharness.check_driver(rc, o, what or test)
    if "--- PASS: %s" % test not in o and "PASS: " not in o:
        raise InfraError("%s: driver entry point did not run\n%s" % (test, common.tail(o, 20)))
    return common.read_ndjson(out)


def split_ndjson(path, n, outdir, prefix="obs"):
    """Split an NDJSON file into n contiguous chunk files; returns their paths (non-empty ones)."""
    with open(path) as f:
        lines = [ln for ln in f if ln.strip()]
    per = (len(lines) + n - 1) // n if lines else 0
    out = []
    for i in range(n):
        part = lines[i * per:(i + 1) * per]
        if not part:
            continue
        p = os.path.join(outdir, "%s_%02d.ndjson" % (prefix, i))
        with open(p, "w") as f:
            f.writelines(part)
        out.append(p)
    return out, len(lines)


def stats_of(rows):
    st = [r for r in rows if r.get("kind") == "stats"]
    if len(st) != 1:
        raise InfraError("driver wrote %d stats records (expected 1)" % len(st))
    return st[0]
