"""C38 -- accepted gadget volumes lay out into disjoint structures (spec/GadgetLayout.tla, harness/ext/gadgetlayout).

Design : TLC enumerates volumes of <= 3/4 structures over scaled value sets (offset | unset, size, min-size, role,
         partial size; offset-write and raw content in a separate config) and checks, for every volume the
         reference accepts, NonNegative / Increasing / Disjoint / ContentInside on the reference layout.
Binding: T->I. Volumes chosen here (bytes, real constants) are (1) evaluated by TLC with the same operators at the
         real constants (TraceGadgetLayout) and (2) rendered as gadget.yaml and pushed through the real
         gadget.InfoFromGadgetYaml -> gadget.OnDiskStructsFromGadget -> gadget.LayoutVolume.
         Verdict: for every volume the REAL code accepts, the statement's invariants are checked DIRECTLY on the
         real laid-out structures (python integers: no wrap-around).  Additionally real = reference (order, implicit
         offsets, layout, content) wherever both accept; "reference-valid => real accepts" is not demanded.
"""
import json
import os
import random
import shutil

from lib import common, tlc, goharness, findings
from lib.common import Result, Violation, InfraError

M = 1 << 20
U = -1
MBR_MAX = 446
GUID = "0FC63DAF-8483-4772-8E79-3D69D8477DE4"
ROLES = ["none", "mbr", "system-boot", "system-data", "system-save", "system-seed"]


# ----------------------------------------------------------------------------------------------------------
# volumes

def S(off=U, size=M, mn=0, role="none", ow=U, owrel=False, content=()):
    return {"off": off, "size": size, "min": mn, "role": role, "ow": ow, "owrel": owrel,
            "content": [dict(c) for c in content]}


def C(img, off=U, decl=0):
    return {"off": off, "img": img, "decl": decl}


def q(n, rng=None):
    """Render a quantity: bytes, or with the M suffix when it is a whole number of MiB."""
    if n >= M and n % M == 0 and (rng is None or rng.random() < 0.5):
        return "%dM" % (n // M)
    return str(n)


def render_yaml(v, rng=None, schema="gpt", legacy_mbr=None):
    out = ["volumes:", "  vol0:", "    bootloader: grub", "    schema: %s" % schema]
    if v["partial"]:
        out.append("    partial: [size]")
    out.append("    structure:")
    images = {}
    for i, s in enumerate(v["structs"]):
        f = ["name: s%d" % i]
        role = s["role"]
        if role == "none":
            f.append("type: bare")
        elif role == "mbr":
            legacy = (i % 2 == 0) if legacy_mbr is None else legacy_mbr
            if legacy:
                f.append("type: mbr")
            else:
                f += ["type: bare", "role: mbr"]
        else:
            f.append("type: %s" % (GUID if schema == "gpt" else "83"))
            f.append("role: %s" % role)
            f.append("filesystem: %s" % ("vfat" if role in ("system-boot", "system-seed") else "ext4"))
        if s["off"] != U:
            f.append("offset: %s" % q(s["off"], rng))
        if s["size"] != 0:
            f.append("size: %s" % q(s["size"], rng))
        if s["min"] != 0:
            f.append("min-size: %s" % q(s["min"], rng))
        if s["ow"] != U:
            f.append("offset-write: %s" % (("s0+%d" % s["ow"]) if s["owrel"] else str(s["ow"])))
        out.append("      - " + f[0])
        out += ["        " + x for x in f[1:]]
        if s["content"] and role in ("none", "mbr"):
            out.append("        content:")
            for c in s["content"]:
                name = "img%d" % c["img"]
                images[name] = c["img"]
                out.append("          - image: %s" % name)
                if c["off"] != U:
                    out.append("            offset: %s" % q(c["off"], rng))
                if c["decl"] != 0:
                    out.append("            size: %s" % q(c["decl"], rng))
    return "\n".join(out) + "\n", images


def describe(v):
    def one(s):
        t = "off=%s size=%s" % ("-" if s["off"] == U else qq(s["off"]), qq(s["size"]))
        if s["min"]:
            t += " min=%s" % qq(s["min"])
        if s["role"] != "none":
            t += " role=%s" % s["role"]
        if s["ow"] != U:
            t += " ow=%s%d" % ("s0+" if s["owrel"] else "", s["ow"])
        if s["content"]:
            t += " content=[%s]" % ",".join(
                "img%s%s%s" % (qq(c["img"]), "" if c["off"] == U else "@" + qq(c["off"]),
                               "" if not c["decl"] else "/decl" + qq(c["decl"])) for c in s["content"])
        return t
    return ("partial-size " if v["partial"] else "") + "[" + "; ".join(one(s) for s in v["structs"]) + "]"


def qq(n):
    if n >= M and n % M == 0:
        return "%dM" % (n // M)
    if n > M and (n - 1) % M == 0:
        return "%dM+1" % (n // M)
    if n > M and (n + 1) % M == 0:
        return "%dM-1" % ((n + 1) // M)
    return str(n)


def gen_systematic():
    """Deterministic core: every single structure and every pair over a compact value set."""
    offs = [U, 0, 446, M, 2 * M, 3 * M]
    vols = []
    singles = []
    for role in ROLES:
        sizes = [440, 446, 447] if role == "mbr" else [0, M, 2 * M]
        for off in offs:
            for size in sizes:
                for mn in ([0] if role == "mbr" else [0, M, 2 * M]):
                    singles.append(S(off, size, mn, role))
    for partial in (False, True):
        for s in singles:
            if s["size"] == 0 and not partial and s["off"] not in (U, M):
                continue
            vols.append({"partial": partial, "structs": [s]})
    pair_a = [S(U, 446, 0, "mbr"), S(0, 440, 0, "mbr"), S(U, M), S(U, 2 * M, M), S(M, M), S(2 * M, 2 * M, M),
              S(3 * M, M), S(U, 2 * M, 0, "system-data"), S(0, M), S(U, 0), S(2 * M, 0)]
    pair_b = [S(U, M), S(U, 2 * M, M), S(0, 446, 0, "mbr"), S(U, 446, 0, "mbr"), S(M, M), S(2 * M, M), S(3 * M, M),
              S(4 * M, M, 0, "system-data"), S(3 * M - 1, M), S(3 * M + 1, 2 * M), S(U, M, 0, "system-boot"), S(U, 0)]
    for partial in (False, True):
        for a in pair_a:
            for b in pair_b:
                vols.append({"partial": partial, "structs": [dict(a), dict(b)]})
                for c in (S(U, M), S(5 * M, M), S(4 * M, M, 0, "system-save")):
                    vols.append({"partial": partial, "structs": [dict(a), dict(b), dict(c)]})
    # offset-write around its bounds (absolute: volume min size; relative: first structure's min size)
    for ow in (0, 436, 442, 443, 446, M - 4, M - 3, 2 * M - 4, 2 * M - 3, 3 * M):
        for owrel in (False, True):
            vols.append({"partial": False, "structs": [S(U, 446, 0, "mbr"), S(U, M, 0, "none", ow, owrel)]})
            vols.append({"partial": False, "structs": [S(0, 2 * M, M), S(U, M, 0, "none", ow, owrel)]})
            vols.append({"partial": False, "structs": [S(M, M), S(U, M, 0, "system-data", ow, owrel)]})
            vols.append({"partial": False, "structs": [S(2 * M, M, 0, "none", ow, owrel), S(0, 2 * M)]})
    # raw content around the end of its structure
    contents = [[C(1000)], [C(M)], [C(M + 1)], [C(1000, M - 1000)], [C(1000, M - 999)], [C(1000, U, 2000)],
                [C(2000, U, 1000)], [C(1000), C(2000)], [C(512 * 1024), C(512 * 1024)], [C(512 * 1024), C(512 * 1024 + 1)],
                [C(1000, 5000), C(1000, 0)], [C(1000, 0), C(1000, 999)], [C(1000, 0), C(1000, 1000)],
                [C(1000, 2000), C(1000)], [C(1000, M - 1000), C(1)], [C(100, U, M), C(1)], [C(446)], [C(447)],
                [C(440), C(6)], [C(440), C(7)]]
    for cs in contents:
        vols.append({"partial": False, "structs": [S(U, M, 0, "none", U, False, cs)]})
        vols.append({"partial": False, "structs": [S(2 * M, M, 0, "none", U, False, cs), S(U, M)]})
        vols.append({"partial": False, "structs": [S(U, 446, 0, "mbr", U, False, cs), S(U, 2 * M, M, "none", U, False, cs)]})
        vols.append({"partial": False, "structs": [S(U, 2 * M, M, "none", U, False, cs), S(U, M, 0, "none", U, False, cs)]})
    return vols


def gen_random(rng, n):
    vols = []
    for _ in range(n):
        partial = rng.random() < 0.15
        k = rng.choice([2, 3, 3, 4, 4, 4])
        structs = []
        running = 0
        if rng.random() < 0.4:
            structs.append(S(rng.choice([U, U, 0, 0, 446, M]), rng.choice([440, 446, 446, 447, M]), 0, "mbr"))
            running = 446
        while len(structs) < k:
            role = rng.choice(["none", "none", "none", "system-boot", "system-data", "system-save", "system-seed",
                               "mbr" if rng.random() < 0.1 else "none"])
            size = rng.choice([M, M, 2 * M, 3 * M, M + 1, 512, 4 * M]) if role != "mbr" else rng.choice([440, 446])
            if partial and rng.random() < 0.3:
                size = 0
            r = rng.random()
            if r < 0.55:
                mn = 0
            elif r < 0.85:
                mn = rng.choice([x for x in (512, M, 2 * M, size) if x <= size] or [0])
            else:
                mn = size + rng.choice([1, M])
            base = max(running, M)
            r = rng.random()
            if r < 0.6:
                off = U
            elif r < 0.9:
                off = max(0, base + rng.choice([-M, -1, 0, 0, 1, M, 2 * M]))
            else:
                off = rng.choice([0, 446, 512, M, 2 * M, 3 * M, 5 * M, 8 * M])
            ow, owrel = U, False
            if rng.random() < 0.12:
                owrel = rng.random() < 0.5
                ow = rng.choice([0, 92, 436, 442, 443, M - 4, M - 3, base, base + size, 40 * M])
            content = []
            if role in ("none", "mbr") and rng.random() < 0.3:
                for _c in range(rng.choice([1, 1, 2, 3])):
                    img = rng.choice([1, 440, 446, 1000, 512 * 1024, M, M + 1])
                    coff = U if rng.random() < 0.6 else rng.choice([0, 1000, 999, 512 * 1024, max(size - img, 0),
                                                                     max(size - img + 1, 0), M])
                    decl = 0 if rng.random() < 0.7 else rng.choice([img, img + 1000, max(img - 1, 1), M])
                    content.append(C(img, coff, decl))
            structs.append(S(off, size, mn, role, ow, owrel, content))
            running = (base if off == U else off) + size
        if rng.random() < 0.2:
            rng.shuffle(structs)
        vols.append({"partial": partial, "structs": structs})
    return vols


B63 = (1 << 63) - 1
HUGE = [   # beyond the reference's integer range (TLC ints are 32 bit): judged on the real layout only
    ("huge-minsize-chain", {"partial": False, "structs": [S(M, B63, 1), S(U, B63), S(U, 4 * M)]}),
    ("huge-fixed-chain", {"partial": False, "structs": [S(2 * M, B63), S(U, B63), S(U, 1)]}),
    ("huge-explicit", {"partial": False, "structs": [S(B63, B63), S(U, B63), S(U, M)]}),
    ("huge-minsize-two", {"partial": False, "structs": [S(M, B63, M), S(U, B63), S(U, B63), S(U, M)]}),
    ("huge-content", {"partial": False, "structs": [S(M, B63, 0, "none", U, False, [C(1000, B63 - 1000)])]}),
    ("huge-content-wrap", {"partial": False, "structs": [S(M, 2 * M, 0, "none", U, False, [C(1000, B63), C(1000, B63)])]}),
    ("huge-offset", {"partial": False, "structs": [S(B63 - M, 2 * M), S(U, M)]}),
    ("huge-partial", {"partial": True, "structs": [S(M, 0), S(U, B63), S(U, B63), S(U, M)]}),
]


# ----------------------------------------------------------------------------------------------------------
# the statement, directly on real laid-out structures (python integers: exact)

def check_layout(laid):
    """-> list of (invariant, detail)"""
    bad = []
    for i, a in enumerate(laid):
        if a["start"] < 0:
            bad.append(("NonNegative", "structure #%d starts at %d" % (a["yaml_index"], a["start"])))
        if i + 1 < len(laid) and laid[i + 1]["start"] < a["start"]:
            b = laid[i + 1]
            bad.append(("Increasing", "structure #%d at %d is laid out after #%d at %d" % (
                b["yaml_index"], b["start"], a["yaml_index"], a["start"])))
        for b in laid[i + 1:]:
            if a["start"] < b["start"] + b["size"] and b["start"] < a["start"] + a["size"]:
                bad.append(("Disjoint", "structures #%d [%d,%d) and #%d [%d,%d) overlap" % (
                    a["yaml_index"], a["start"], a["start"] + a["size"],
                    b["yaml_index"], b["start"], b["start"] + b["size"])))
        for c in a["content"]:
            if c["start"] < a["start"] or c["start"] + c["size"] > a["start"] + a["size"]:
                bad.append(("ContentInside", "content %s [%d,%d) is not inside structure #%d [%d,%d)" % (
                    c["image"], c["start"], c["start"] + c["size"], a["yaml_index"], a["start"],
                    a["start"] + a["size"])))
    return bad


# ----------------------------------------------------------------------------------------------------------

def tlc_table(ctx, vols, name, shards=1):
    if shards > 1 and len(vols) > 4000:
        import concurrent.futures
        import threading
        lock, orig = threading.Lock(), ctx.subdir

        def locked(n):
            with lock:
                return orig(n)
        ctx.subdir = locked
        try:
            step = (len(vols) + shards - 1) // shards
            parts = [vols[i:i + step] for i in range(0, len(vols), step)]
            with concurrent.futures.ThreadPoolExecutor(len(parts)) as ex:
                outs = list(ex.map(lambda a: tlc_table(ctx, a[1], "%s_%d" % (name, a[0])), enumerate(parts)))
        finally:
            ctx.subdir = orig
        return [r for o in outs for r in o]
    d = ctx.subdir("table_" + name)
    inp, outp = os.path.join(d, "cases.ndjson"), os.path.join(d, "out.json")
    common.write_ndjson(inp, vols)
    res = tlc.run(ctx, "TraceGadgetLayout", "TraceGadgetLayout.cfg", workers=1, timeout=2400,
                  env={"VERIF_TRACE": inp, "VERIF_OUT": outp}, name="tlc_table_" + name, heap="8g")
    if not res.ok:
        raise InfraError("TLC table evaluation failed: %s\n%s" % (res.summary(), common.tail(res.out, 25)))
    with open(outp) as f:
        table = json.load(f)
    if len(table) != len(vols):
        raise InfraError("TLC table has %d rows for %d cases" % (len(table), len(vols)))
    return table


def run_driver(ctx, tb, cases, name):
    d = ctx.subdir("drv_" + name)
    inp, outp = os.path.join(d, "in.ndjson"), os.path.join(d, "out.ndjson")
    with open(inp, "w") as f:
        for cid, yaml, images in cases:
            f.write(json.dumps({"case": cid, "yaml": yaml, "images": images}) + "\n")
    rc, o = goharness.run_test_bin(ctx, tb, "TestVerifGadgetLayout", env={"VERIF_IN": inp, "VERIF_OUT": outp},
                                   timeout=3000)
    goharness.check_driver(rc, o, "gadgetlayout driver")
    rows = common.read_ndjson(outp)
    if [r["case"] for r in rows] != [c[0] for c in cases]:
        raise InfraError("gadgetlayout driver returned %d rows for %d cases" % (len(rows), len(cases)))
    return rows


CORRUPT = os.environ.get("VERIF_C38_CORRUPT", "")     # selftest of the binding: corrupt one recorded observation


def _seq(x):
    return x if isinstance(x, list) else []


def run(ctx):
    rng = random.Random(ctx.seed)

    # ---- 1. design: TLC on the scaled instance
    mcs = {}

    def mc_run(cfg, workers, timeout, coverage=False, heap="6g"):
        r = tlc.run(ctx, "GadgetLayout", cfg, workers=workers, timeout=timeout, coverage=coverage, heap=heap,
                    name="tlc_" + cfg.replace(".cfg", ""))
        ctx.log("TLC %s: %s wall=%.1fs" % (cfg, r.summary(), r.wall))
        if not r.ok:
            raise InfraError("spec-level counterexample in %s: %s %s" % (cfg, r.summary(), r.trace[-1:] or ""))
        mcs[cfg] = r
        return r

    skip_design = os.environ.get("VERIF_SKIP_DESIGN") == "1"   # negative controls only: the spec is unchanged
    if skip_design:
        return _conformance(ctx, rng, {}, None, "design part skipped (VERIF_SKIP_DESIGN=1)")
    geo = mc_run("GadgetLayout_mc.cfg", ctx.pick(8, 16), 1500, coverage=True)
    tlc.require_coverage(geo, ["AddAccepted", "AddRejected"])
    for extra in ("GadgetLayout_mc_ow.cfg", "GadgetLayout_mc_content.cfg"):
        mc_run(extra, ctx.pick(8, 16), 1500, coverage=True)
        tlc.require_coverage(mcs[extra], ["AddAccepted", "AddRejected"])
    mc_run(ctx.pick("GadgetLayout_mc_prefix.cfg", "GadgetLayout_mc_prefix_thorough.cfg"), ctx.pick(8, 16), 1500)
    bound_note = None
    if not ctx.quick:
        est = geo.wall * 10        # measured: 19x / 49x the states of the quick geometry run, but no -coverage
        if est <= 1500:
            mc_run("GadgetLayout_mc_thorough.cfg", 16, 2400, heap="16g")
            mc_run("GadgetLayout_mc_rich.cfg", 16, 2400, heap="16g")
        else:
            bound_note = ("MaxStructs=4 / rich value sets skipped: estimated %.0fs on this (loaded) machine from the "
                          "MaxStructs=3 run" % est)
            ctx.log(bound_note)
    big = max(mcs.values(), key=lambda r: r.distinct)
    return _conformance(ctx, rng, mcs, big, bound_note)


def _conformance(ctx, rng, mcs, big, bound_note):
    # ---- 2. conformance
    vols = gen_systematic() + gen_random(rng, ctx.pick(4000, 40000))
    ctx.log("%d volumes in the reference's range, %d beyond" % (len(vols), len(HUGE)))
    table = tlc_table(ctx, vols, "vols", shards=ctx.pick(2, 6))
    ctx.log("TLC table done")
    cases = []
    for i, v in enumerate(vols):
        schema = "mbr" if i % 7 == 3 else "gpt"
        yaml, images = render_yaml(v, rng, schema)
        cases.append(("v%d" % i, yaml, images))
    for label, v in HUGE:
        yaml, images = render_yaml(v)
        cases.append((label, yaml, images))
    tb = goharness.ext_test_build(ctx, "gadgetlayout")
    tb2 = os.path.join(ctx.subdir("go-build"), "gadgetlayout.test")
    shutil.copy(tb, tb2)
    rows = run_driver(ctx, tb2, cases, "all")
    ctx.log("driver done")
    if CORRUPT and rows:
        k = next(i for i, r in enumerate(rows) if len(r["laid"]) >= 2 and not r["info_err"] and not r["layout_err"])
        if CORRUPT == "overlap":
            rows[k]["laid"][1]["start"] = rows[k]["laid"][0]["start"]
        else:
            rows[k]["laid"][-1]["start"] += 512

    viol = {}
    deviations = []
    st = {"real_accepted": 0, "real_rejected": 0, "real_layout_err": 0, "ref_valid": 0, "both_accept": 0,
          "ref_valid_real_rejects": 0, "layouts": set(), "with_content": 0, "with_unknown_offsets": 0,
          "reordered": 0, "ref_valid_real_rejects_example": None}
    allv = vols + [v for _, v in HUGE]
    for i, (v, row, case) in enumerate(zip(allv, rows, cases)):
        ref = table[i] if i < len(vols) else None
        real_acc = not row["info_err"]
        laid_ok = real_acc and not row["layout_err"]
        st["real_accepted" if real_acc else "real_rejected"] += 1
        if real_acc and row["layout_err"]:
            st["real_layout_err"] += 1
        # (the property) directly on the real layout
        hits = check_layout(row["laid"]) if laid_ok else []
        for inv, detail in hits:
            key = "C38 %s: %s%s" % (inv, ("huge-quantities(uint64 wrap-around) %s " % case[0]) if ref is None else "",
                                    describe(v))
            if key not in viol:
                viol[key] = Violation(
                    key=key, desc="real code accepts the volume but %s (%s)" % (detail, inv),
                    replay={"gadget_yaml": case[1], "images": case[2], "real": row, "invariant": inv,
                            "detail": detail})
        if laid_ok:
            st["layouts"].add(tuple((l["start"], l["size"]) for l in row["laid"]))
            st["with_content"] += any(l["content"] for l in row["laid"])
            st["with_unknown_offsets"] += any(x["offset"] is None for x in row["vol"])
            st["reordered"] += [x["yaml_index"] for x in row["vol"]] != sorted(x["yaml_index"] for x in row["vol"])
        if ref is None:
            continue
        # real vs reference
        problems = []
        st["ref_valid"] += bool(ref["valid"])
        if ref["valid"] and ref["layoutok"] and not ref["holds"]:
            problems.append("SPEC: reference accepts but the statement fails on the reference layout")
        if real_acc and not ref["valid"]:
            problems.append("real code accepts, reference validation rejects")
        elif not real_acc and ref["valid"]:
            st["ref_valid_real_rejects"] += 1
            if st["ref_valid_real_rejects_example"] is None:
                st["ref_valid_real_rejects_example"] = {"volume": describe(v), "error": row["info_err"]}
        elif real_acc and ref["valid"]:
            st["both_accept"] += 1
            want = [(o["idx"], None if o["off"] == U else o["off"], o["min"]) for o in _seq(ref["ordered"])]
            got = [(x["yaml_index"], x["offset"], x["min_size"]) for x in row["vol"]]
            if want != got:
                problems.append("order / implicit offsets / min-size differ: real %s, reference %s" % (got, want))
            if bool(row["layout_err"]) == bool(ref["layoutok"]):
                problems.append("layout error %r but reference LayoutOK=%s" % (row["layout_err"], ref["layoutok"]))
            elif laid_ok:
                wantl = [(l["idx"], l["start"], l["size"],
                          sorted((c["start"], c["size"]) for c in _seq(l["content"]))) for l in _seq(ref["layout"])]
                gotl = [(l["yaml_index"], l["start"], l["size"],
                         sorted((c["start"], c["size"]) for c in l["content"])) for l in row["laid"]]
                if wantl != gotl:
                    problems.append("layout differs: real %s, reference %s" % (gotl, wantl))
        if problems:
            deviations.append({"volume": describe(v), "gadget_yaml": case[1], "problems": problems,
                               "violates_statement": bool(hits)})

    violations = [viol[k] for k in sorted(viol)]
    pure = [d for d in deviations if not d["violates_statement"]]
    _, new_violations = findings.classify(ctx.prop, violations)
    if pure and not new_violations:
        raise InfraError("real code deviates from the reference without violating the statement (%d case(s)); "
                         "triage spec vs code. First: %s" % (len(pure), json.dumps(pure[0])[:1800]))
    if st["both_accept"] < 200 or st["real_rejected"] < 200 or st["with_content"] < 5 \
            or st["with_unknown_offsets"] < 5 or st["reordered"] < 5 or len(st["layouts"]) < 50:
        raise InfraError("vacuity guard: %s" % {k: (len(x) if isinstance(x, set) else x) for k, x in st.items()})

    samples = []
    for i in (3, len(vols) // 3, len(vols) // 2, len(vols) - 5):
        samples.append({"volume": describe(vols[i]), "real_error": rows[i]["info_err"] or rows[i]["layout_err"],
                        "real_layout": [(l["yaml_index"], l["start"], l["size"]) for l in rows[i]["laid"]]})
    cov = {
        "states": big.distinct if big else 1, "transitions": big.generated if big else 1,
        "tlc_runs": {c: {"states": r.distinct, "transitions": r.generated, "wall_s": round(r.wall, 1),
                         "actions": tlc.coverage_summary(r)} for c, r in mcs.items()},
        "tlc_constants": {"scaled": {"MinStart": 2, "MbrMax": 1, "PtrSize": 1},
                          "table": {"MinStart": M, "MbrMax": MBR_MAX, "PtrSize": 4}},
        "traces_validated_against_impl": len(cases),
        "real_executions": len(cases),
        "real_accepted": st["real_accepted"], "real_rejected": st["real_rejected"],
        "real_accepted_but_layout_error": st["real_layout_err"],
        "reference_valid": st["ref_valid"], "both_accept_and_compared": st["both_accept"],
        "reference_valid_but_real_rejects(not demanded)": st["ref_valid_real_rejects"],
        "reference_valid_but_real_rejects_example": st["ref_valid_real_rejects_example"],
        "distinct_real_layouts": len(st["layouts"]),
        "accepted_with_raw_content": st["with_content"], "accepted_with_unknown_offsets": st["with_unknown_offsets"],
        "accepted_reordered": st["reordered"],
        "beyond_reference_range_cases": [l for l, _ in HUGE],
        "deviations_from_reference": len(deviations),
        "samples": samples,
    }
    if bound_note:
        cov["bound_note"] = bound_note
    return Result(
        level="model_checking", coverage=cov, violations=violations,
        assumptions=[
            "validation = gadget.InfoFromGadgetYaml (model nil); gadget.Validate (role/label consistency) does not "
            "look at geometry and is only recorded",
            "layout = the image-build path gadget.LayoutVolume(vol, gadget.OnDiskStructsFromGadget(vol)): structures "
            "with min-size < size are laid out at their full size; layouts matched against a real disk "
            "(install/update) are not covered",
            "Increasing is non-strict and empty structures (size 0, only with partial: [size]) overlap nothing",
            "offsets and sizes are compared as mathematical integers: an end past 2^64 is not by itself a violation, "
            "a wrapped start offset is",
            "raw content only (bare/mbr structures); filesystem content is not laid out by the code",
        ])
