"""C13 -- see props/_snapseq.py (spec SnapSeq.tla / TraceSnapSeq.tla, harness overlay/snapstate/zz_verif_snapseq_test.go)"""
from props import _snapseq


def run(ctx):
    return _snapseq.run(ctx, "C13")
