"""C38 -- any gadget volume that passes validation lays out into structures at non-negative increasing offsets,
no overlap, content inside its structure. See props/_gadgetlayout.py."""
from props import _gadgetlayout


def run(ctx):
    return _gadgetlayout.run(ctx)
