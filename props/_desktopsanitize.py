"""C27 -- generated desktop files (spec/DesktopSanitize.tla, harness/ext/desktop).

Design : TLC enumerates every file of <= MaxLen line classes x instance key? x file-name variant and checks the
         four clauses of the statement as invariants on the spec's output.
Binding: T->I. The same abstract cases (class sequences) are instantiated with concrete spellings, run through
         the real wrappers.EnsureSnapDesktopFiles on a temp root, and the installed file is
           (a) compared line by line with the concretisation of the spec's expected output (TLC table), and
           (b) re-checked against the four clauses by an independent parser (check_clauses) that shares nothing
               with the spec: a wrong spec cannot mask a violating output.
         Verdicts come only from (b) on real output.  A pure (a) mismatch that does not violate the statement is a
         spec/implementation deviation to triage (exit 2), never a VIOLATION (FRAMEWORK soundness rule 1).
"""
import base64
import json
import os
import random
import re
import shutil

from lib import common, tlc, goharness, findings
from lib.common import Result, Violation, InfraError

MAXTOK = 65536            # bufio.MaxScanTokenSize

# ----------------------------------------------------------------------------------------------------------
# Facts about the mocked snap, computed here independently of the Go side (the driver reports what the real
# snap.Info says; a disagreement is an InfraError because every expectation below depends on them).
APPS = {"foo": b"foo", "app1": b"foo.app1"}         # app -> command name valid in a shipped desktop file


def facts_for(root):
    out = {}
    for variant, inst in (("plain", "foo"), ("keyed", "foo_inst")):
        prefix = "foo" if variant == "plain" else "foo+inst"
        out[variant] = {
            "instance_name": inst, "snap_name": "foo",
            "mount_dir": "%s/snap/%s/11" % (root, inst),
            "desktop_prefix": prefix,
            "wrappers": {"foo": "%s/snap/bin/%s" % (root, inst), "app1": "%s/snap/bin/%s.app1" % (root, inst)},
        }
    out["root"] = root
    out["desktop_dir"] = root + "/var/lib/snapd/desktop/applications"
    return out


FNAMES = {                 # fname variant of the spec -> concrete stems of the shipped file
    "app": ["app1"],
    "other": ["other", "x-y.z"],
    "space": ["sp ace", "a sh -c id #"],
}

# ----------------------------------------------------------------------------------------------------------
# Spellings. A spelling is bytes (the raw line), or a dict with extra structure used by the concretiser:
#   {"cmd": b"foo.app1", "rest": b" %U"}      Exec own command + args      (line = Exec= + cmd + rest)
#   {"suffix": b"icon"}                        Icon=snap.foo.<suffix>
#   {"line": ..., "lf": True}                  only meaningful with LF line ends (scanner boundary cases)
# "@MOUNT@" is replaced by the mount dir of the variant under test.


def _exec(cmd, rest=b""):
    return {"line": b"Exec=" + cmd + rest, "cmd": cmd, "rest": rest}


def _icon_inst(suffix):
    return {"line": b"Icon=snap.foo." + suffix, "suffix": suffix}


SPELLINGS = {
    "Blank": [b"", b"   ", b"\t", b" \t \x0c"],
    "Comment": [b"# a comment", b"   # indented", b"#", b"#Exec=/bin/sh"],
    "HdrEntry": [b"[Desktop Entry]"],
    "HdrAction": [b"[Desktop Action new-window]", b"[Desktop Action A1]"],
    "HdrShortcut": [b"[NewWindow Shortcut Group]", b"[a-1 Shortcut Group]"],
    "HdrNearMiss": [b"[Desktop Entry] ", b" [Desktop Entry]", b"[Desktop Action a b]", b"[desktop entry]",
                    b"[Desktop Entry]x", b"[Desktop Action ]", b"[ Shortcut Group]", b"[Desktop Entry"],
    "HdrOther": [b"[Foo]", b"[X-Custom Group]", b"[]"],
    "Junk": [b"Name", b"just some words", b"=value", b"Exec", b"  =x"],
    "KeyPlain": [b"Type=Application", b"Version=1.0", b"NoDisplay=true", b"Hidden=false", b"OnlyShowIn=GNOME;",
                 b"NotShowIn=KDE;", b"Terminal=false", b"Actions=new-window;", b"MimeType=text/plain;",
                 b"Categories=Utility;X;", b"StartupNotify=true", b"StartupWMClass=Foo",
                 b"PrefersNonDefaultGPU=true", b"SingleMainWindow=true", b"X-Ayatana-Desktop-Shortcuts=a;b",
                 b"TargetEnvironment=Unity", b"Type=", b"Type==x=y",
                 {"line": b"Categories=" + b"a" * (MAXTOK - 1 - len(b"Categories=")), "lf": True}],
    "KeyLoc": [b"Name=foo", b"GenericName=Foo Bar", b"Comment=hi there", b"Keywords=a;b;", b"Name=",
               b"Name=Exec=/bin/sh", b"Comment=" + b"x" * 60000],
    "KeyLocOk": [b"Name[de]=x", b"Comment[en_GB.UTF-8@euro]=y", b"Keywords[sr@latin]=k", b"GenericName[pt_BR]=g",
                 b"Name[zh_CN.GB2312]=n"],
    "KeyLocBad": [b"Name[DE]=x", b"Name[de_]=x", b"Name[]=x", b"Name[de=x", b"Name[de]x=y", b"Comment[de_de]=x",
                  b"Name[de][en]=x", b"Name[de@]=x"],
    "KeyVar": [b"Comment=${SNAP}/share", b"Name=${SNAP}", b"Keywords=${SNAP};${SNAP}x;"],
    "KeyCtl": [b"Name=a\rExec=/bin/sh", b"Name=a\x00b", b"Name=a\tb", b"Name=\xff\xfe\xc3", b"Comment=\x1b[31mred",
               b"Name=\xe6\x97\xa5\xe6\x9c\xac"],
    "KeyPlainLoc": [b"Type[de]=x", b"Categories[en_GB]=x", b"X-Ayatana-Desktop-Shortcuts[de]=x"],
    "ExecLoc": [b"Exec[de]=/bin/sh", b"Exec[en_GB]=bash"],
    "IconLoc": [b"Icon[de]=/etc/x"],
    "KeyOther": [b"TryExec=/bin/sh", b"DBusActivatable=true", b"Path=/tmp", b"URL=http://x", b"NameX=foo",
                 b"exec=/bin/sh", b"EXEC=/bin/sh", b"X-GNOME-Autostart-enabled=true", b"Exec2=/bin/sh",
                 b"XName=foo", b"Implements=x"],
    "KeyTagSpoof": [b"X-SnapInstanceName=evil", b"X-SnapInstanceName=foo", b"X-SnapInstanceName="],
    "KeyLeadSpace": [b" Name=foo", b"\tComment=x", b"Name =foo", b"Name\t=foo"],
    "ExecLeadSpace": [b" Exec=/bin/sh", b"\tExec=/bin/sh", b"  Exec=bash -c x"],
    "ExecSpaceEq": [b"Exec =/bin/sh", b"Exec\t=bash"],
    "ExecOwnLeadSpace": [b" Exec=foo.app1", b"\tExec=foo.app1"],
    "ExecOwnExactApp": [_exec(b"foo.app1")],
    "ExecOwnExactSnap": [_exec(b"foo")],
    "ExecOwnArgsApp": [_exec(b"foo.app1", b" %U"), _exec(b"foo.app1", b" --opt ${SNAP}/x ${SNAP}"),
                       _exec(b"foo.app1", b" "), _exec(b"foo.app1", b"  ; /bin/sh -c evil"),
                       _exec(b"foo.app1", b" \x00\t\r x")],
    "ExecOwnArgsSnap": [_exec(b"foo", b" %f"), _exec(b"foo", b" .app1"), _exec(b"foo", b" foo.app1 /bin/sh")],
    "ExecOwnPrefix": [b"Exec=foo.app1x", b"Exec=foo.app10 %U", b"Exec=foobar", b"Exec=foo.app1\t-x",
                      b"Exec=foo.app1\r-x", b"Exec=foo.app", b"Exec=foo.", b"Exec=foo.app1\x00 x", b"Exec=fo"],
    "ExecOther": [b"Exec=bash -c evil", b"Exec=other.app1 x", b"Exec=sh", b"Exec=app1", b"Exec=FOO.APP1"],
    "ExecAbs": [b"Exec=/bin/sh -c x", b"Exec=/snap/bin/foo.app1", b"Exec=@WRAPPER@", b"Exec=/snap/bin/foo.app1 %U"],
    "ExecVar": [b"Exec=${SNAP}/bin/app1", b"Exec=${SNAP}"],
    "ExecEmpty": [b"Exec="],
    "ExecInstKeyed": [b"Exec=foo_inst.app1", b"Exec=foo_inst", b"Exec=foo_inst.app1 %U", b"Exec=foo_other"],
    "ExecEnv": [b"Exec=env X=1 foo.app1", b"Exec= foo.app1", b"Exec=\"foo.app1\" %U", b"Exec='foo.app1'",
                b"Exec=env BAMF_DESKTOP_FILE_HINT=x /bin/sh"],
    "IconVarOk": [b"Icon=${SNAP}/meta/gui/icon.png", b"Icon=${SNAP}/a", b"Icon=${SNAP}/a${SNAP}",
                  b"Icon=${SNAP}/..a", b"Icon=${SNAP}/a b"],
    "IconVarDotDot": [b"Icon=${SNAP}/../x", b"Icon=${SNAP}/a/../../etc/passwd", b"Icon=${SNAP}/..",
                      b"Icon=${SNAP}/../../../../../../etc/passwd"],
    "IconVarNonCanon": [b"Icon=${SNAP}//a", b"Icon=${SNAP}/a/", b"Icon=${SNAP}/./a", b"Icon=${SNAP}/a/../b",
                        b"Icon=${SNAP}/"],
    "IconAbsOutside": [b"Icon=/usr/share/icons/x.png", b"Icon=/etc/passwd", b"Icon=/"],
    "IconRelPath": [b"Icon=a/b.png", b"Icon=../x", b"Icon=x/${SNAP}"],
    "IconLiteralMount": [b"Icon=@MOUNT@/icon.png", b"Icon=@MOUNT@/meta/gui/a.svg"],
    "IconTheme": [b"Icon=firefox", b"Icon=", b"Icon=my.icon", b"Icon=..", b"Icon=snapx.foo", b"Icon=\\etc\\x"],
    "IconSnapName": [_icon_inst(b"icon"), _icon_inst(b""), _icon_inst(b"a.b.c"), _icon_inst(b"..")],
    "IconSnapOther": [b"Icon=snap.other.x", b"Icon=snap.", b"Icon=snap.foo", b"Icon=snap.foox.y",
                      b"Icon=snap.foo_inst.x"],
    "IconVarBare": [b"Icon=${SNAP}"],
    "IconVarNoSep": [b"Icon=${SNAP}x", b"Icon=x${SNAP}", b"Icon=${SNAP}.."],
    "IconSnapNameVar": [_icon_inst(b"${SNAP}"), _icon_inst(b"a${SNAP}b")],
    "TooLong": [{"line": b"Name=" + b"a" * 70000},
                {"line": b"Name=" + b"a" * (MAXTOK - len(b"Name=")), "lf": True},
                {"line": b"Exec=foo.app1 " + b"a" * 70000, "cmd": b"foo.app1", "rest": b" " + b"a" * 70000},
                {"line": b"#" + b"c" * 70000}],
}


def sp_line(sp):
    return sp["line"] if isinstance(sp, dict) else sp


def sp_get(sp, k, default=None):
    return sp.get(k, default) if isinstance(sp, dict) else default


# ----------------------------------------------------------------------------------------------------------
# Small independent helpers (no code shared with the spec or the Go side)

def go_clean(p):
    """filepath.Clean for unix paths (bytes)."""
    if p == b"":
        return b"."
    rooted = p.startswith(b"/")
    out = []
    for comp in p.split(b"/"):
        if comp in (b"", b"."):
            continue
        if comp == b"..":
            if out and out[-1] != b"..":
                out.pop()
            elif not rooted:
                out.append(comp)
            continue
        out.append(comp)
    s = b"/".join(out)
    if rooted:
        return b"/" + s
    return s or b"."


WS = b" \t\r\n\x0b\x0c"
PLAIN_KEYS = {b"Type", b"Version", b"NoDisplay", b"Hidden", b"OnlyShowIn", b"NotShowIn", b"Terminal", b"Actions",
              b"MimeType", b"Categories", b"StartupNotify", b"StartupWMClass", b"PrefersNonDefaultGPU",
              b"SingleMainWindow", b"X-Ayatana-Desktop-Shortcuts", b"TargetEnvironment"}
LOC_KEYS = {b"Name", b"GenericName", b"Comment", b"Keywords"}
TAG_KEY = b"X-SnapInstanceName"
LOCALE_RE = re.compile(rb"[a-z]+(_[A-Z]+)?(\.[0-9A-Z-]+)?(@[a-z]+)?")
HDR_ACTION_RE = re.compile(rb"\[Desktop Action [0-9A-Za-z-]+\]")
HDR_SHORTCUT_RE = re.compile(rb"\[[A-Za-z0-9-]+ Shortcut Group\]")


def split_key(rawkey):
    """-> (base key, locale status none|ok|bad) of the text before '=' (blanks already trimmed)."""
    if b"[" not in rawkey:
        return rawkey, "none"
    base, loc = rawkey.split(b"[", 1)
    if loc.endswith(b"]") and LOCALE_RE.fullmatch(loc[:-1]):
        return base, "ok"
    return base, "bad"


def key_class(base):
    if base == b"Exec":
        return "Exec"
    if base == b"Icon":
        return "Icon"
    if base in LOC_KEYS:
        return "Loc"
    if base in PLAIN_KEYS:
        return "Plain"
    if base == TAG_KEY:
        return "Tag"
    return "Other"


def hdr_class(line):
    if line == b"[Desktop Entry]":
        return "entry"
    if HDR_ACTION_RE.fullmatch(line):
        return "action"
    if HDR_SHORTCUT_RE.fullmatch(line):
        return "shortcut"
    return "other"


def classify(line, mount):
    """Attributes of a raw input line, in the vocabulary of DesktopSanitize!Attr, derived independently."""
    a = {"kind": "junk", "hdr": "none", "key": "none", "loc": "none", "col0": True, "cmd": "none", "app": "none",
         "sep": False, "varslash": False, "clean": True, "snapname": False, "snapdot": False,
         "outpath": False, "outinside": True, "toolong": len(line) >= MAXTOK}
    st = line.strip(WS)
    if st == b"":
        a["kind"] = "blank"
    elif st.startswith(b"#"):
        a["kind"] = "comment"
    elif st.startswith(b"["):
        a["kind"] = "header"
        a["hdr"] = hdr_class(line)
    elif b"=" in line and line.split(b"=", 1)[0].strip(WS) != b"":
        rawkey, value = line.split(b"=", 1)
        a["kind"] = "key"
        a["col0"] = rawkey == rawkey.strip(WS)
        base, a["loc"] = split_key(rawkey.strip(WS))
        a["key"] = key_class(base)
        if a["key"] == "Exec":
            a["cmd"] = "notown"
            for app, cmd in APPS.items():
                if value == cmd:
                    a["cmd"], a["app"] = "exact", app
                elif value.startswith(cmd + b" "):
                    a["cmd"], a["app"] = "args", app
        if a["key"] == "Icon":
            a["sep"] = b"/" in value
            a["varslash"] = value.startswith(b"${SNAP}/")
            a["clean"] = (not a["sep"]) or go_clean(value) == value
            a["snapname"] = value.startswith(b"snap.foo.")
            a["snapdot"] = value.startswith(b"snap.")
            outv = value.replace(b"${SNAP}", mount)
            a["outpath"] = b"/" in outv
            if a["outpath"]:
                p = go_clean(outv)
                a["outinside"] = p == mount or p.startswith(mount + b"/")
    return a


def check_clauses(content, vf, installed_path):
    """The statement's four clauses on the bytes of an installed desktop file, with the reading of a consumer
    of desktop files. -> list of (clause, line index, line)."""
    bad = []
    lines = content.split(b"\n")
    if lines and lines[-1] == b"":
        lines.pop()
    mount = vf["mount_dir"].encode()
    inst = vf["instance_name"].encode()
    wrappers = {w.encode() for w in vf["wrappers"].values()}
    for i, ln in enumerate(lines):
        st = ln.strip(WS)
        if st == b"" or st.startswith(b"#"):
            continue
        if st.startswith(b"["):
            if hdr_class(st) == "other":
                bad.append(("OnlyAllowlisted", i, ln))
            if st == b"[Desktop Entry]":
                if i + 1 >= len(lines) or lines[i + 1] != TAG_KEY + b"=" + inst:
                    bad.append(("Tagged", i, ln))
            continue
        if b"=" not in ln:
            bad.append(("OnlyAllowlisted", i, ln))
            continue
        rawkey, value = ln.split(b"=", 1)
        base, loc = split_key(rawkey.strip(WS))
        kc = key_class(base)
        if kc == "Tag":
            if not (loc == "none" and value == inst and i > 0 and lines[i - 1].strip(WS) == b"[Desktop Entry]"):
                bad.append(("Tagged", i, ln))
            continue
        ok = (kc in ("Exec", "Icon", "Plain") and loc == "none") or (kc == "Loc" and loc in ("none", "ok"))
        if not ok:
            bad.append(("OnlyAllowlisted", i, ln))
        if kc == "Exec":
            toks = value.split()                      # arguments of an Exec value are separated by blanks
            k = 0
            if toks[:1] == [b"env"]:                  # what `env` runs: first word that is not VAR=value
                k = 1
                while k < len(toks) and b"=" in toks[k] and not toks[k].startswith(b"-"):
                    k += 1
            good = k < len(toks) and toks[k] in wrappers
            if not good or loc != "none":
                bad.append(("ExecIsOwnWrapper", i, ln))
        if kc == "Icon" and b"/" in value:
            p = go_clean(value)
            if not (p == mount or p.startswith(mount + b"/")):
                bad.append(("IconInsideSnap", i, ln))
    return bad


# ----------------------------------------------------------------------------------------------------------
# Cases

def variant_name(inst):
    return "keyed" if inst else "plain"


class Case:
    __slots__ = ("id", "lines", "spell", "inst", "fname", "stem", "eol", "finalnl")

    def __init__(self, cid, lines, spell, inst, fname, stem, eol=b"\n", finalnl=True):
        self.id, self.lines, self.spell, self.inst, self.fname, self.stem = cid, lines, spell, inst, fname, stem
        self.eol, self.finalnl = eol, finalnl

    def akey(self):
        return (tuple(self.lines), self.inst, self.fname)

    def fkey(self):
        return (self.fname, self.inst, tuple(self.lines))

    def spellings(self):
        return [SPELLINGS[c][k] for c, k in zip(self.lines, self.spell)]

    def describe(self):
        return {"classes": list(self.lines), "inst": self.inst, "file": self.stem + ".desktop",
                "lines": [repr(sp_line(s))[:120] for s in self.spellings()]}


def gkey(group):
    """Abstract identity of one install call: the shipped files in glob (= processing) order."""
    return tuple(c.fkey() for c in group)


def resolve(b, facts, inst):
    vf = facts[variant_name(inst)]
    return b.replace(b"@MOUNT@", vf["mount_dir"].encode()).replace(b"@WRAPPER@", vf["wrappers"]["app1"].encode())


def content_of(case, facts):
    sps = case.spellings()
    raw = [resolve(sp_line(s), facts, case.inst) for s in sps]
    eol, finalnl = case.eol, case.finalnl
    if any(sp_get(s, "lf") for s in sps):
        eol, finalnl = b"\n", True
    if raw and raw[-1] == b"":
        finalnl = True                         # an empty last line only exists if it is terminated
    return eol.join(raw) + (eol if (finalnl and raw) else b"")


def installed_name(case, facts):
    vf = facts[variant_name(case.inst)]
    return "%s_%s.desktop" % (vf["desktop_prefix"], case.stem)


def expected_bytes(case, out, facts):
    """Concretise the spec's abstract output for this case."""
    vf = facts[variant_name(case.inst)]
    mount = vf["mount_dir"].encode()
    hint = (facts["desktop_dir"] + "/" + installed_name(case, facts)).encode()
    sps = case.spellings()
    res, owners = [], []
    j = 0
    for r in out:
        if r["form"] == "tag":
            res.append(TAG_KEY + b"=" + r["name"].encode())
            owners.append("TAG")
            continue
        while j < len(case.lines) and case.lines[j] != r["cls"]:
            j += 1
        if j >= len(case.lines):
            raise InfraError("spec output is not a subsequence of the input: %r / %r" % (case.lines, out))
        sp = sps[j]
        j += 1
        if r["form"] == "keep":
            ln = resolve(sp_line(sp), facts, case.inst).replace(b"${SNAP}", mount)
        elif r["form"] == "exec":
            ln = b"Exec=env BAMF_DESKTOP_FILE_HINT=" + hint + b" " + vf["wrappers"][r["app"]].encode()
            if r["args"]:
                ln += sp_get(sp, "rest").replace(b"${SNAP}", mount)
        elif r["form"] == "icon_inst":
            ln = b"Icon=snap." + r["name"].encode() + b"." + sp_get(sp, "suffix").replace(b"${SNAP}", mount)
        else:
            raise InfraError("unknown output form %r" % (r,))
        res.append(ln)
        owners.append(r["cls"])
    return b"".join(x + b"\n" for x in res), owners


_LONG = {c: [k for k, sp in enumerate(sps) if len(sp_line(sp)) > 10000] for c, sps in SPELLINGS.items()}


def pick_spelling(rng, c):
    """Random spelling index; the 60-70 KB spellings are taken 10x less often (they dominate the I/O volume)."""
    k = rng.randrange(len(SPELLINGS[c]))
    if k in _LONG[c] and len(_LONG[c]) < len(SPELLINGS[c]) and rng.random() < 0.9:
        k = rng.choice([i for i in range(len(SPELLINGS[c])) if i not in _LONG[c]])
    return k


def build_cases(ctx, rng):
    classes = sorted(SPELLINGS)
    variants = [(inst, fn) for inst in (False, True) for fn in ("app", "other", "space")]
    cases = []

    def add(lines, spell, inst, fname, stem=None, eol=b"\n", finalnl=True):
        stem = stem or FNAMES[fname][0]
        cases.append(Case("c%d" % len(cases), list(lines), list(spell), inst, fname, stem, eol, finalnl))

    # 1. every class x every spelling x every variant x every file name spelling, alone (deterministic)
    for c in classes:
        for k in range(len(SPELLINGS[c])):
            for inst, fn in variants:
                for stem in FNAMES[fn]:
                    add([c], [k], inst, fn, stem)
    # the same once more behind a [Desktop Entry] header with CRLF line ends / no final newline
    for c in classes:
        for k in range(len(SPELLINGS[c])):
            add(["HdrEntry", c], [0, k], k % 2 == 0, "other", eol=b"\r\n", finalnl=(k % 3 != 0))
    n_single = len(cases)
    # 2. all ordered pairs (all 6 variants in thorough, a rotating one in quick), spellings by seed
    for i, c1 in enumerate(classes):
        for j, c2 in enumerate(classes):
            vs = variants if not ctx.quick else [variants[(i * 7 + j + ctx.seed) % 6]]
            for inst, fn in vs:
                add([c1, c2], [pick_spelling(rng, c1), pick_spelling(rng, c2)], inst, fn,
                    rng.choice(FNAMES[fn]), rng.choice([b"\n", b"\n", b"\r\n"]), rng.random() < 0.8)
    # 3. all ordered triples (thorough), rotating variant
    if not ctx.quick:
        for i, c1 in enumerate(classes):
            for j, c2 in enumerate(classes):
                for k, c3 in enumerate(classes):
                    inst, fn = variants[(i + 3 * j + 5 * k + ctx.seed) % 6]
                    ls = [c1, c2, c3]
                    add(ls, [pick_spelling(rng, c) for c in ls], inst, fn, rng.choice(FNAMES[fn]),
                        rng.choice([b"\n", b"\n", b"\r\n"]), rng.random() < 0.8)
    # 4. random longer files (beyond the exhaustive bound), realistic skeleton first
    for _ in range(ctx.pick(1500, 20000)):
        n = rng.randint(3, 9)
        ls = [rng.choice(classes) for _ in range(n)]
        if rng.random() < 0.6:
            ls[0] = "HdrEntry"
        inst, fn = rng.choice(variants)
        add(ls, [pick_spelling(rng, c) for c in ls], inst, fn, rng.choice(FNAMES[fn]),
            rng.choice([b"\n", b"\n", b"\r\n"]), rng.random() < 0.8)
    return cases, n_single


MULTI_STEMS = ["m1", "m2", "m3", "m4"]       # glob order = list order; all of the "other" file-name variant


def build_groups(ctx, rng, next_id):
    """Install calls with SEVERAL shipped files (one snap, sometimes both snaps): every file is sanitized before
    any is written, so results that share storage (or any other cross-file state) show up in what is installed.
    Lengths are mixed: earlier file longer than / equal to / shorter than the later ones."""
    classes = sorted(SPELLINGS)
    groups = []

    def mk(lines, spell, inst, stem, fname="other", eol=b"\n", finalnl=True):
        c = Case("c%d" % next_id[0], list(lines), list(spell), inst, fname, stem, eol, finalnl)
        next_id[0] += 1
        return c

    def first(cls):
        return [0] * len(cls)

    # long / medium / short / empty-output templates (first spellings unless given)
    T = [
        (["HdrEntry", "KeyLoc", "ExecOwnArgsApp", "IconVarOk"], [0, 6, 1, 0]),     # 60 KB Comment= line
        (["HdrEntry", "KeyLoc", "KeyLoc", "ExecOwnExactSnap"], [0, 5, 2, 0]),      # Name=Exec=/bin/sh as a VALUE
        (["HdrEntry", "KeyCtl", "KeyVar", "ExecOwnArgsSnap", "IconSnapName"], [0, 0, 0, 2, 0]),
        (["HdrEntry", "KeyPlain", "ExecOwnExactApp"], [0, 0, 0]),
        (["KeyPlain"], [1]),
        (["HdrEntry"], [0]),
        (["Blank"], [0]),
        (["ExecAbs", "KeyOther", "IconAbsOutside"], [0, 0, 0]),                     # everything dropped: empty output
        (["KeyLoc", "TooLong", "HdrEntry"], [0, 0, 0]),                             # truncated by the scanner
        (["HdrAction", "KeyLocOk", "IconTheme", "Comment"], [0, 0, 0, 3]),
    ]
    for inst in (False, True):
        for a in T:
            for b in T:
                groups.append([mk(a[0], a[1], inst, "m1"), mk(b[0], b[1], inst, "m2")])
    for i, a in enumerate(T):                   # three files, long -> short and short -> long, and the app-named file
        b, c = T[(i + 3) % len(T)], T[(i + 5) % len(T)]
        groups.append([mk(a[0], a[1], False, "app1", "app"), mk(b[0], b[1], False, "m2"), mk(c[0], c[1], False, "m3")])
        groups.append([mk(c[0], c[1], True, "m1"), mk(b[0], b[1], True, "m2"), mk(a[0], a[1], True, "m3")])
        # both snaps in one call
        groups.append([mk(a[0], a[1], False, "m1"), mk(b[0], b[1], True, "m1"), mk(c[0], c[1], True, "m2")])
    # random calls of 2..4 files
    for _ in range(ctx.pick(500, 12000)):
        k = rng.choice([2, 2, 3, 3, 4])
        inst = rng.random() < 0.5
        files = []
        for _f in range(k):
            n = rng.randint(0, 6)
            ls = [rng.choice(classes) for _ in range(n)]
            if ls and rng.random() < 0.6:
                ls[0] = "HdrEntry"
            files.append((ls, [pick_spelling(rng, c) for c in ls]))
        r = rng.random()
        size = lambda f: sum(len(sp_line(SPELLINGS[c][q])) + 1 for c, q in zip(f[0], f[1]))
        if r < 0.4:
            files.sort(key=size, reverse=True)      # earlier longer than later
        elif r < 0.55:
            files.sort(key=size)
        elif r < 0.7:
            files[1] = (list(files[0][0]), list(files[0][1]))      # equal
        both = rng.random() < 0.1
        g = []
        for j, (ls, sp) in enumerate(files):
            fi = (not inst) if (both and j == len(files) - 1) else inst
            g.append(mk(ls, sp, fi, MULTI_STEMS[j], "other", rng.choice([b"\n", b"\n", b"\r\n"]), rng.random() < 0.8))
        groups.append(g)
    return groups


# ----------------------------------------------------------------------------------------------------------
# TLC

def tlc_table(ctx, abstract_cases, name, shards=1):
    """Evaluate Install (Sanitize per shipped file) + the clauses in TLC on the given abstract install calls
    (tuples of (fname, inst, lines)) -> (list of per-call lists of per-file results, Attr table)."""
    if shards > 1 and len(abstract_cases) > 8000:
        import concurrent.futures
        import threading
        lock, orig = threading.Lock(), ctx.subdir

        def locked(n):
            with lock:
                return orig(n)
        ctx.subdir = locked
        try:
            step = (len(abstract_cases) + shards - 1) // shards
            parts = [abstract_cases[i:i + step] for i in range(0, len(abstract_cases), step)]
            with concurrent.futures.ThreadPoolExecutor(len(parts)) as ex:
                outs = list(ex.map(lambda a: tlc_table(ctx, a[1], "%s_%d" % (name, a[0])), enumerate(parts)))
        finally:
            ctx.subdir = orig
        return [r for o in outs for r in o[0]], outs[0][1]
    d = ctx.subdir("table_" + name)
    inp, outp, attrp = os.path.join(d, "cases.ndjson"), os.path.join(d, "out.json"), os.path.join(d, "attr.json")
    common.write_ndjson(inp, [{"files": [{"fname": f, "inst": i, "lines": list(l)} for (f, i, l) in call]}
                              for call in abstract_cases])
    res = tlc.run(ctx, "TraceDesktopSanitize", "TraceDesktopSanitize.cfg", workers=1, timeout=1800,
                  env={"VERIF_TRACE": inp, "VERIF_OUT": outp, "VERIF_ATTR": attrp}, name="tlc_table_" + name,
                  heap="8g")
    if not res.ok:
        raise InfraError("TLC table evaluation failed: %s\n%s" % (res.summary(), common.tail(res.out, 20)))
    with open(outp) as f:
        table = json.load(f)
    with open(attrp) as f:
        attr = json.load(f)
    if len(table) != len(abstract_cases):
        raise InfraError("TLC table has %d rows for %d cases" % (len(table), len(abstract_cases)))
    return table, attr


def _norm_out(out):
    # JsonSerialize writes an empty sequence as [] and records as objects
    return out if isinstance(out, list) else []


def check_spellings(attr, facts):
    """Every spelling must have, by an independent derivation, exactly the attributes of its class in the spec."""
    mount = facts["plain"]["mount_dir"].encode()
    if sorted(attr) != sorted(SPELLINGS):
        raise InfraError("class sets differ: spec-only %s, python-only %s" % (
            sorted(set(attr) - set(SPELLINGS)), sorted(set(SPELLINGS) - set(attr))))
    n = 0
    for c, sps in SPELLINGS.items():
        for sp in sps:
            line = resolve(sp_line(sp), facts, False)
            got = classify(line, mount)
            want = attr[c]
            if want["toolong"]:                # only the length matters: the scanner never delivers the line
                want = {"toolong": True}
            diff = {k: (got[k], want[k]) for k in want if got.get(k) != want[k]}
            if diff:
                raise InfraError("spelling %r filed under class %s but differs (derived, spec): %s" % (
                    line[:80], c, diff))
            n += 1
    return n


def run_driver(ctx, tb, groups, facts, root, name):
    d = ctx.subdir("drv_" + name)
    inp, outp = os.path.join(d, "in.ndjson"), os.path.join(d, "out.ndjson")
    with open(inp, "w") as f:
        for g in groups:
            f.write(json.dumps({"case": g[0].id, "files": [
                {"inst": cs.inst, "fname": cs.stem,
                 "content_b64": base64.b64encode(content_of(cs, facts)).decode()} for cs in g]}) + "\n")
    rc, o = goharness.run_test_bin(ctx, tb, "^Test$", args=["-check.f", "verifDesktopSuite"],
                                   env={"VERIF_IN": inp, "VERIF_OUT": outp, "VERIF_ROOT": root}, timeout=3000)
    goharness.check_driver(rc, o, "desktop driver")
    rows = common.read_ndjson(outp)
    if not rows or "facts" not in rows[0]:
        raise InfraError("desktop driver wrote no facts line")
    real_facts = rows[0]["facts"]
    for k in ("desktop_dir", "plain", "keyed"):
        if real_facts[k] != facts[k]:
            raise InfraError("snap facts differ from what the check assumes for %s: real %r, assumed %r" % (
                k, real_facts[k], facts[k]))
    rows = rows[1:]
    if [r["case"] for r in rows] != [g[0].id for g in groups]:
        raise InfraError("desktop driver returned %d rows for %d install calls" % (len(rows), len(groups)))
    return rows


CORRUPT = os.environ.get("VERIF_C27_CORRUPT", "")     # selftest of the binding: corrupt one recorded output


def judge(groups, rows, results, facts):
    """-> (violations by key, deviations, stats). One row per install call; every installed file is judged."""
    viol, deviations = {}, []
    stats = {"kept_classes": set(), "dropped_classes": set(), "rewritten": 0, "tagged": 0, "truncated": 0,
             "outputs": set()}
    flat = []
    for g, row in zip(groups, rows):
        allfiles = {k: base64.b64decode(v) for k, v in row["files"].items()}
        names = [installed_name(cs, facts) for cs in g]
        if len(set(names)) != len(names):
            raise InfraError("install call with colliding file names: %r" % names)
        specs = results[gkey(g)]
        unexpected = {k: v for k, v in allfiles.items() if k not in names}
        for pos, cs in enumerate(g):
            mine = {names[pos]: allfiles[names[pos]]} if names[pos] in allfiles else {}
            if pos == 0:
                mine.update(unexpected)
            flat.append((cs, row, specs[pos], mine, len(g), [c.stem + ".desktop" for c in g]))
    for idx, (cs, row, spec, files, gsize, gnames) in enumerate(flat):
        vf = facts[variant_name(cs.inst)]
        name = installed_name(cs, facts)
        installed_path = (facts["desktop_dir"] + "/" + name).encode()
        exp, owners = expected_bytes(cs, _norm_out(spec["out"]), facts)
        if CORRUPT and idx == 7 and name in files:
            if CORRUPT == "exec":
                files[name] = files[name] + b"Exec=/bin/sh\n"
            else:
                files[name] = files[name] + b"Name=corrupted\n"
        real = files.get(name)
        problems = []
        if row["err"]:
            problems.append("EnsureSnapDesktopFiles error: %s" % row["err"])
        if set(files) != {name}:
            problems.append("installed files %r, expected exactly %r" % (sorted(files), name))
        # (b) the statement, independently, on whatever was installed
        clause_hits = []
        for fn, content in files.items():
            ip = (facts["desktop_dir"] + "/" + fn).encode()
            clause_hits += [(cl, i, ln, fn) for (cl, i, ln) in check_clauses(content, vf, ip)]
        exp_lines = exp.split(b"\n")[:-1] if exp else []
        exp_lines = exp.split(b"\n")[:-1] if exp else []
        root = facts["root"].encode()
        hint_prefix = b"Exec=env BAMF_DESKTOP_FILE_HINT=" + installed_path + b" "
        # what every input line would look like if it were emitted verbatim / as the spec rewrites it
        cand = {}
        for j, (c, sp) in enumerate(zip(cs.lines, cs.spellings())):
            raw = resolve(sp_line(sp), facts, cs.inst).replace(b"${SNAP}", vf["mount_dir"].encode())
            cand.setdefault(raw, (c, sp))
        for r_i, own in enumerate(owners):
            if own != "TAG" and r_i < len(exp_lines):
                k = [j for j, c in enumerate(cs.lines) if c == own]
                if k:
                    cand.setdefault(exp_lines[r_i], (own, cs.spellings()[k[0]]))
        for cl, i, ln, fn in clause_hits:
            if cl == "ExecIsOwnWrapper" and cs.fname == "space" and ln.startswith(hint_prefix):
                culprit, what = "desktop-file-name-with-blank", "file name %r" % (cs.stem + ".desktop")
            elif ln in cand:
                culprit = cand[ln][0]
                what = "input line %r" % sp_line(cand[ln][1])[:100]
            elif gsize > 1 and real != exp:
                culprit = "multi-file-install"
                what = ("installed %s is not the sanitizer's output for that shipped file (one call installing %s)"
                        % (fn, gnames))
            else:
                culprit = "line:" + ln[:80].replace(root, b"<ROOT>").decode("latin-1")
                what = "output differs from the spec as well"
            key = "%s:%s" % (cl, culprit)
            ent = viol.setdefault(key, {"n": 0, "first": None})
            ent["n"] += 1
            if ent["first"] is None:
                ent["first"] = {"case": cs.describe(), "shipped_together": gnames, "what": what, "installed_file": fn,
                                "violating_output_line": repr(ln[:300]), "clause": cl,
                                "real_output": repr(files[fn][:1500]),
                                "input_b64": base64.b64encode(content_of(cs, facts)[:4000]).decode()}
        # (a) line by line against the spec
        if real is not None and real != exp:
            rl = real.split(b"\n")
            first = next((i for i in range(max(len(rl), len(exp_lines) + 1))
                          if i >= len(rl) or i >= len(exp_lines) or rl[i] != exp_lines[i]), 0)
            problems.append("line %d: real %r, spec %r" % (
                first, rl[first][:200] if first < len(rl) else None,
                exp_lines[first][:200] if first < len(exp_lines) else None))
        # spec predicts a clause violation => the independent checker must see it on the real output too
        predicted = sorted(k for k, v in spec["clauses"].items() if not v)
        seen = sorted({{"OnlyAllowlisted": "only", "ExecIsOwnWrapper": "exec", "IconInsideSnap": "icon",
                        "Tagged": "tagged"}[cl] for cl, _, _, _ in clause_hits})
        if real == exp and predicted != seen:
            problems.append("spec predicts violated clauses %s, independent checker sees %s" % (predicted, seen))
        if problems and not clause_hits:
            deviations.append({"case": cs.describe(), "shipped_together": gnames, "problems": problems})
        elif problems and real != exp:
            deviations.append({"case": cs.describe(), "shipped_together": gnames, "problems": problems,
                               "also_violates": True})
        # stats (vacuity)
        if real is not None:
            stats["outputs"].add(real if len(real) < 200 else hash(real))
        outcls = {r["cls"] for r in _norm_out(spec["out"]) if r["form"] != "tag"}
        stats["kept_classes"] |= outcls
        stats["dropped_classes"] |= set(cs.lines) - outcls
        stats["rewritten"] += sum(1 for r in _norm_out(spec["out"]) if r["form"] in ("exec", "icon_inst"))
        stats["tagged"] += sum(1 for r in _norm_out(spec["out"]) if r["form"] == "tag")
        stats["truncated"] += 1 if "TooLong" in cs.lines else 0
    return viol, deviations, stats


def run(ctx):
    rng = random.Random(ctx.seed)
    root = ctx.subdir("root")
    facts = facts_for(root)
    classes = sorted(SPELLINGS)

    # ---- 1. design, part 1: single lines. Which (class, file name) pairs break a clause in the SPEC?
    singles = [((c,), inst, fn) for c in classes for inst in (False, True) for fn in ("app", "other", "space")]
    table1, attr = tlc_table(ctx, [((fn, inst, l),) for (l, inst, fn) in singles], "singles")
    n_spellings = check_spellings(attr, facts)
    bad_pairs = sorted({"%s/%s" % (l[0], fn) for (l, inst, fn), r in zip(singles, table1)
                        if not all(r[0]["clauses"].values())})
    ctx.log("spec-level single-line counterexamples (class/fname): %s" % (bad_pairs or "none"))

    # ---- 2. design, part 2: exhaustive enumeration, the counterexample pairs removed (they are replayed on
    #         the real code below and reported from there)
    def run_mc(cfg_name, workers, timeout, coverage=False, heap="6g", module="DesktopSanitize"):
        with open(os.path.join(common.SPEC, cfg_name)) as f:
            cfg = f.read()
        gen = os.path.join(ctx.subdir("cfg"), module + "_run.cfg")
        with open(gen, "w") as f:
            f.write(cfg.replace("ExcludedPairs = {}",
                                "ExcludedPairs = {%s}" % ", ".join('"%s"' % p for p in bad_pairs)))
        r = tlc.run(ctx, module, module + "_run.cfg", extra_files=[gen], coverage=coverage,
                    workers=workers, timeout=timeout, heap=heap, name="tlc_" + cfg_name.replace(".cfg", ""))
        ctx.log("TLC %s: %s wall=%.1fs" % (cfg_name, r.summary(), r.wall))
        return r

    extra_cases = []

    def counterexample(r):
        if r.kind != "invariant" or not r.trace:
            raise InfraError("DesktopSanitize model checking did not finish: %s" % r.summary())
        # a multi-line counterexample: replay it on the real code (all spellings of its last line)
        st = r.trace[-1]["vars"]
        ctx.log("spec-level counterexample for %s: %s" % (r.name, st))
        ls = list(st["lines"])
        for k in range(len(SPELLINGS[ls[-1]])):
            extra_cases.append((ls, [0] * (len(ls) - 1) + [k], bool(st["inst"]), st["fname"]))

    mcs = []
    skip_design = os.environ.get("VERIF_SKIP_DESIGN") == "1"   # negative controls only: the spec is unchanged
    model = run_mc("DesktopSanitize_mc_model.cfg", 4, 600, coverage=True)     # loop = Sanitize, with coverage
    mcs.append(model)
    if model.ok:
        tlc.require_coverage(model, ["AppendLine"])
    mc = model if skip_design else run_mc("DesktopSanitize_mc.cfg", ctx.pick(8, 16), 1200)   # files of <= 3 lines
    mcs.append(mc)
    maxlen = 2 if skip_design else 3
    skipped_len4 = None
    if mc.ok and not ctx.quick and not skip_design:
        est = 8.0 * mc.wall                   # measured: 44x the states costs ~5.5x the wall time of MaxLen=3
        if est <= 1500:
            mc4 = run_mc("DesktopSanitize_mc_thorough.cfg", 16, 2400, heap="16g")
            mcs.append(mc4)
            if mc4.ok:
                mc, maxlen = mc4, 4
        else:
            skipped_len4 = "MaxLen=4 skipped: estimated %.0fs on this (loaded) machine from the MaxLen=3 run" % est
            ctx.log(skipped_len4)
    # the install step: one call sanitizes every shipped file, then writes them all
    inst_mc = model if skip_design else run_mc(
        ctx.pick("DesktopInstall_mc.cfg", "DesktopInstall_mc_thorough.cfg"), ctx.pick(8, 16), 1500,
        coverage=ctx.quick, module="DesktopInstall")
    if not inst_mc.ok:
        raise InfraError("spec-level counterexample in DesktopInstall: %s %s" % (inst_mc.summary(), inst_mc.trace[-1:]))
    if ctx.quick and not skip_design:
        tlc.require_coverage(inst_mc, ["Ship", "StartCall", "SanitizeNext", "WriteAll"])
    for r in mcs:
        if not r.ok:
            counterexample(r)
    mc_failed = [r for r in mcs if not r.ok]

    # ---- 3. conformance: the real code on concrete spellings of the abstract cases
    cases, n_single = build_cases(ctx, rng)
    for ls, spell, inst, fn in extra_cases:
        cases.append(Case("c%d" % len(cases), ls, spell, inst, fn, FNAMES[fn][0]))
    groups = [[c] for c in cases]                       # one shipped file per install call
    multi = build_groups(ctx, rng, [len(cases)])        # several shipped files per install call
    groups += multi
    n_files = sum(len(g) for g in groups)
    akeys = sorted({gkey(g) for g in groups})
    ctx.log("%d install calls (%d with several files), %d shipped files, %d abstract calls" % (
        len(groups), len(multi), n_files, len(akeys)))
    table, _ = tlc_table(ctx, akeys, "cases", shards=ctx.pick(1, 6))
    results = dict(zip(akeys, table))
    ctx.log("TLC table done")
    tb = goharness.ext_test_build(ctx, "desktop")
    # osutil skips fsync only for binaries whose path looks like a `go test` build (.../go-build.../x.test):
    # 2 fsyncs per case otherwise (x50 wall time). Same binary, different path.
    tb2 = os.path.join(ctx.subdir("go-build"), "desktop.test")
    shutil.copy(tb, tb2)
    tb = tb2
    ctx.log("driver built")
    rows = run_driver(ctx, tb, groups, facts, root, "all")
    ctx.log("driver done")
    viol, deviations, stats = judge(groups, rows, results, facts)
    ctx.log("judged")

    violations = []
    for key in sorted(viol):
        e = viol[key]
        f = e["first"]
        violations.append(Violation(
            key="C27 " + key,
            desc="%s violated on the real installed file (%d case(s)); %s; output line %s" % (
                f["clause"], e["n"], f["what"], f["violating_output_line"]),
            replay=f))
    if mc_failed and not violations:
        raise InfraError("spec-level counterexample (%s) not reproduced on the real code: %s" % (
            mc_failed[0].name, mc_failed[0].trace[-1]["vars"]))
    pure = [d for d in deviations if not d.get("also_violates")]
    _, new_violations = findings.classify(ctx.prop, violations)
    if pure and not new_violations:
        raise InfraError("real output deviates from the spec's expected output without violating the statement "
                         "(%d case(s)); triage spec vs code. First: %s" % (
                             len(pure), json.dumps(pure[0], default=str)[:1500]))
    never_kept = sorted(set(classes) - stats["kept_classes"])
    never_dropped = sorted(set(classes) - stats["dropped_classes"])
    if len(stats["kept_classes"]) < 10 or len(stats["dropped_classes"]) < 10 or stats["tagged"] == 0 \
            or stats["rewritten"] == 0 or stats["truncated"] == 0:
        raise InfraError("vacuity guard: %s" % {k: (len(v) if isinstance(v, set) else v) for k, v in stats.items()})

    samples = []
    for cs, row in list(zip(cases, rows))[n_single:n_single + 4000:1000]:
        name = installed_name(cs, facts)
        samples.append({"input": cs.describe(),
                        "installed": repr(base64.b64decode(row["files"].get(name, ""))[:400])})
    for g, row in list(zip(groups, rows))[len(cases):len(cases) + 2]:
        samples.append({"shipped_in_one_call": [cs.describe() for cs in g],
                        "installed": {k: repr(base64.b64decode(v)[:200]) for k, v in row["files"].items()}})
    cov = {
        "states": mc.distinct, "transitions": mc.generated, "tlc_wall_s": round(mc.wall, 1),
        "tlc_constants": {"MaxLen": maxlen, "classes": len(classes), "ExcludedPairs": bad_pairs},
        "tlc_runs": [{"states": r.distinct, "transitions": r.generated, "wall_s": round(r.wall, 1)} for r in mcs],
        "traces_validated_against_impl": len(groups),
        "real_executions": len(groups),
        "install_calls_with_several_files": len(multi),
        "installed_files_judged": n_files,
        "install_step_model": {"states": inst_mc.distinct, "transitions": inst_mc.generated,
                               "wall_s": round(inst_mc.wall, 1)},
        "abstract_cases_tabulated_by_tlc": len(akeys),
        "spellings_checked_against_class_attributes": n_spellings,
        "distinct_real_outputs": len(stats["outputs"]),
        "classes_kept_in_some_real_output": len(stats["kept_classes"]),
        "classes_dropped_in_some_real_case": len(stats["dropped_classes"]),
        "rewritten_lines": stats["rewritten"], "tag_lines": stats["tagged"], "truncated_files": stats["truncated"],
        "spec_level_counterexample_pairs": bad_pairs,
        "deviations_from_spec": len(deviations),
        "samples": samples,
        "invariants": ["InvOnlyAllowlisted", "InvExecIsOwnWrapper", "InvIconInsideSnap", "InvTagged",
                       "InvNoInvention", "InvLoopIsSanitize", "DesktopInstall!InvPendingStable",
                       "DesktopInstall!InvInstallIsFunctionOfFile", "DesktopInstall!InvInstalled*"],
    }
    cov["action_coverage"] = tlc.coverage_summary(model)
    if skip_design:
        cov["bound_note"] = "design part reduced to the MaxLen=2 model (VERIF_SKIP_DESIGN=1, negative controls only)"
    if skipped_len4:
        cov["bound_note"] = skipped_len4
    return Result(
        level="model_checking", coverage=cov, violations=violations,
        assumptions=[
            "lines are separated by LF only (bufio.ScanLines; a CR inside a value stays inside that value)",
            "Tagged is read as: every [Desktop Entry] header of the installed file is followed by "
            "X-SnapInstanceName=<instance> and no other line carries that key; a file without such a header "
            "has nothing to tag",
            "an Exec value is split on blanks (Desktop Entry spec); `env` runs the first word that is not VAR=value",
            "an icon value containing '/' (after ${SNAP} substitution) is a path; inside = lexically, after "
            "cleaning, equal to or below the snap's mount directory (symlinks inside the snap are not followed)",
            "the allow-list itself (which keys/headers) is taken from the code's table; the check is that nothing "
            "else is emitted",
        ],
        notes=["never kept: %s" % never_kept, "never dropped: %s" % never_dropped])
