"""C22 -- interface connections are transactional; persisted state matches the repository (IfaceConns.tla).

design      TLC, exhaustive: IfaceConns_mc*.cfg (entry faults; entry+Setup faults), invariants FailureRestores,
            FailureProfiles, ActiveMatch, ReloadMatch (+ProfilesMatch, RepoSane); two strict configs that are
            EXPECTED to fail (named deviations D1, D2) whose counterexamples are replayed on the real code (T->I).
conformance the real InterfaceManager + TaskRunner are driven through ifacestate.Connect/Disconnect/Forget and
            install/remove chains with a fault at every task / Setup call; every task status change is validated
            against TraceIfaceConns.tla (I->T) and the C22 statement is evaluated directly on the real projections.
"""
import concurrent.futures
import json
import os

from lib import common, tlc
from lib.common import InfraError, Result, Violation

from props import _ifaceconns as ic

ACTIONS = ["StartAny", "DoAny", "FailAny", "UndoAny", "Settle", "Restart"]


STRICT = (("IfaceConns_mc_strict_prof.cfg", "W3", "StrictFailureProfiles"),
          ("IfaceConns_mc_strict_setup.cfg", "W1", "StrictFailureRestores"),
          ("IfaceConns_mc_strict_forget.cfg", "W2", "StrictFailureRestores"))


def _design(ctx):
    """All TLC design runs concurrently. -> (exhaustive results by cfg, expected counterexample scenarios)"""
    cfgs = ctx.pick(["IfaceConns_mc1.cfg", "IfaceConns_mc1_setup.cfg"], ["IfaceConns_mc3.cfg", "IfaceConns_mc2_setup.cfg"])

    def mc(cfg):
        return tlc.run(ctx, "IfaceConns", cfg, coverage=True, workers=ctx.pick(4, 8), timeout=ctx.pick(900, 3000),
                       name="tlc_" + cfg.replace(".cfg", ""))

    def strict(cfg):
        return tlc.run(ctx, "IfaceConns", cfg, workers=2, timeout=900, name="tlc_" + cfg.replace(".cfg", ""))

    with concurrent.futures.ThreadPoolExecutor(max_workers=5) as ex:
        fm = {cfg: ex.submit(mc, cfg) for cfg in cfgs}
        fs = {cfg: ex.submit(strict, cfg) for cfg, _, _ in STRICT}
        mcs = {cfg: f.result() for cfg, f in fm.items()}
        strict_res = {cfg: f.result() for cfg, f in fs.items()}
    for cfg, res in mcs.items():
        if not res.ok:
            raise InfraError("spec-level counterexample in %s: %s (see %s/tlc.out)" % (cfg, res.summary(), res.dir))
        tlc.require_coverage(res, ACTIONS)
        ctx.log("TLC %s: %d generated, %d distinct, depth %d, %.0fs" % (cfg, res.generated, res.distinct, res.depth, res.wall))
    # the strict forms of the statement on the faithful model: TLC must find the named deviations
    scs = []
    for cfg, world, inv in STRICT:
        res = strict_res[cfg]
        if res.ok:
            # the model no longer contains the deviation (e.g. the code was fixed and the spec updated)
            ctx.log("TLC %s: no counterexample" % cfg)
            continue
        if res.kind != "invariant" or res.name != inv:
            raise InfraError("unexpected TLC outcome for %s: %s" % (cfg, res.summary()))
        sc = ic.cex_scenario(res, world)
        ctx.log("TLC %s: counterexample %s" % (cfg, ic.scenario_str(sc)))
        scs.append((cfg, inv, sc))
    return mcs, scs


def _validate(ctx, traces):
    """Validate every trace file against TraceIfaceConns (in parallel) together with the corrupted copy of a
    real prefix (negative control); -> (violations, lines, negative control record)."""
    violations, lines = [], 0
    bad_path, bad_line, bad_desc = _negative_control_prepare(ctx, traces[0])

    def one(ip):
        i, path = ip
        return path, tlc.validate_trace(ctx, "TraceIfaceConns", "TraceIfaceConns.cfg", path, timeout=3000,
                                        name="trace_%d" % i)
    with concurrent.futures.ThreadPoolExecutor(max_workers=9) as ex:
        results = list(ex.map(one, enumerate(traces + [bad_path])))
    _, b = results.pop()
    for path, tv in results:
        evs = common.read_ndjson(path)
        lines += len(evs)
        if tv["accepted"]:
            continue
        ev = evs[min(tv["stuck_line"], len(evs)) - 1]
        case = [e for e in evs if e["case"] == ev["case"]]
        start = [e for e in case if e["ev"] == "Start"]
        desc = "%s: %s" % (case[0]["args"].get("world", "?"),
                           " ; ".join("%s(%s)!%s" % (s["args"]["op"]["name"], s["args"]["op"]["c"] or s["args"]["op"]["s"],
                                                    ic.fault_str(s["args"]["fault"])) for s in start if s["opi"] <= ev["opi"]))
        what = ("invariant %s violated by the real state" % tv["invariant"]) if tv["invariant"] else \
            "real step not allowed by IfaceConns.tla"
        violations.append(Violation(
            key="trace-rejected [%s %s] %s" % (ev["ev"], json.dumps(ev["args"].get("t", ev["args"]), sort_keys=True), desc),
            desc="%s at event %s of case %s (%s)" % (what, ev["ev"], ev["case"], desc),
            replay={"case_events": case, "stuck_event": ev, "invariant": tv["invariant"]}))
    # the corrupted prefix must be rejected exactly at the corrupted line (unless the uncorrupted trace is
    # itself rejected earlier, which is already reported above)
    first_ok = results[0][1]["accepted"] or (results[0][1]["stuck_line"] or 0) > bad_line
    if first_ok and (b["accepted"] or b["stuck_line"] != bad_line):
        raise InfraError("negative control failed: corrupted trace accepted=%s stuck_line=%s (expected %d)" % (
            b["accepted"], b["stuck_line"], bad_line))
    return violations, lines, {"corrupted_field": bad_desc, "rejected_at_line": b["stuck_line"]}


def _negative_control_prepare(ctx, trace):
    """Binding is real: corrupting one recorded field of a real trace makes validation reject.
    Returns (path of corrupted prefix, 1-based corrupted line, description)."""
    evs = common.read_ndjson(trace)
    cut = None
    for i, e in enumerate(evs):
        if e["ev"] == "Do" and e["cmp"] and e["args"]["t"]["kind"] in ("connect", "disconnect"):
            cut = i
            break
    if cut is None:
        raise InfraError("negative control: no connect/disconnect Do event in %s" % trace)
    end = cut
    while end + 1 < len(evs) and evs[end + 1]["case"] == evs[cut]["case"]:
        end += 1
    bad = json.loads(json.dumps(evs[:end + 1]))
    repo = bad[cut]["st"]["repo"]
    c = bad[cut]["args"]["t"]["c"]
    bad[cut]["st"]["repo"] = [x for x in repo if x != c] if c in repo else sorted(repo + [c])
    bp = os.path.join(ctx.subdir("negctl"), "bad.ndjson")
    common.write_ndjson(bp, bad)
    return bp, cut + 1, "st.repo of event %d (%s %s)" % (cut + 1, bad[cut]["ev"], c)


def _merge(ctx, traces, n):
    """Concatenate trace files into at most n files (every case starts with a Reset event)."""
    if len(traces) <= n:
        return traces
    d = ctx.subdir("merged")
    outs = [os.path.join(d, "m%d.ndjson" % i) for i in range(n)]
    for i, o in enumerate(outs):
        with open(o, "w") as f:
            for t in traces[i::n]:
                with open(t) as g:
                    f.write(g.read())
    return outs


def run(ctx):
    # 1. design
    mcs, expected = _design(ctx)

    # 2. conformance
    binary = ic.build(ctx)
    nshards = ctx.pick(4, 8)
    shards = ic.run_shards(ctx, binary, nshards, n_per_shard=ctx.pick(110, 1300), depth=ctx.pick(2, 3),
                           exhaust_depth=ctx.pick(1, 2))
    traces = [s[0] for s in shards]
    opsfiles = [s[1] for s in shards]
    n_cases = sum(s[2] for s in shards)
    ctx.log("driver: %d cases, %d changes in %d shards" % (n_cases, sum(s[3] for s in shards), nshards))

    # 2a. T->I: replay TLC's counterexamples for the named deviations on the real code
    reproduced, unreproduced = [], []
    if expected:
        d = ctx.subdir("cex")
        scf = os.path.join(d, "scenarios.json")
        with open(scf, "w") as f:
            json.dump([sc for _, _, sc in expected], f)
        out = os.path.join(d, "cex.ndjson")
        ic.run_driver(ctx, binary, out, {"VERIF_SCENARIOS": scf})
        traces.append(out)
        opsfiles.append(out + ".ops")
        got = common.read_ndjson(out + ".ops")
        for (cfg, inv, sc), o in zip(expected, got):
            clauses, _ = ic.check_op(o)
            want = "stale-profile" if inv == "StrictFailureProfiles" else "not-restored"
            rec = {"cfg": cfg, "invariant": inv, "scenario": ic.scenario_str(sc), "real_clauses": clauses}
            (reproduced if want in clauses else unreproduced).append(rec)

    # 2b. I->T: every recorded step is a step of the spec, invariants hold on the real projections
    cex_trace = traces[-1] if expected else None
    traces = _merge(ctx, traces, ctx.pick(2, 8))
    violations, lines, negctl = _validate(ctx, traces)
    if unreproduced and not violations:
        # the real code did not show the deviation TLC predicts and yet every real step was accepted by the
        # trace spec: the two oracles contradict each other
        raise InfraError("TLC counterexample(s) did not reproduce on the real code although the trace was accepted: %s" % unreproduced)

    # 2c. the statement itself on the real projections
    direct, stats, samples = ic.evaluate_ops(opsfiles)
    violations = violations + direct
    if stats["failed_changes"] < 20 or stats["distinct_after_states"] < 10:
        raise InfraError("vacuity guard: too few failed changes / distinct real states: %s" % stats)

    main = mcs[ctx.pick("IfaceConns_mc1.cfg", "IfaceConns_mc3.cfg")]
    setup = mcs[ctx.pick("IfaceConns_mc1_setup.cfg", "IfaceConns_mc2_setup.cfg")]
    coverage = {
        "states": main.distinct + setup.distinct,
        "transitions": main.generated + setup.generated,
        "tlc_runs": {cfg: {"distinct": m.distinct, "generated": m.generated, "depth": m.depth, "wall_s": round(m.wall, 1)}
                     for cfg, m in mcs.items()},
        "tlc_constants": {"snaps": 3, "interfaces": 2, "connection_ids": 4, "initial_worlds": 4,
                          "MaxOps": ctx.pick("1 (entry) / 1 (entry+Setup faults)", "3 (entry) / 2 (entry+Setup faults)")},
        "action_coverage": tlc.coverage_summary(main),
        "expected_counterexamples_reproduced_on_real_code": reproduced,
        "expected_counterexamples_not_reproduced": unreproduced,
        "traces_validated_against_impl": n_cases + len(expected),
        "trace_events_validated": lines,
        "real_changes_executed": stats["changes"],
        "real_failed_changes": stats["failed_changes"],
        "real_changes_with_setup_fault": stats["setup_fault_changes"],
        "real_restarts_checked": stats["restarts"],
        "real_changes_by_op": stats["ops_by_name"],
        "distinct_real_states": stats["distinct_after_states"],
        "statement_violations_by_class": stats["by_class"],
        "negative_control": negctl,
        "samples": samples or [{"note": "no clean failed change sampled"}],
    }
    return Result(
        level="model_checking", coverage=coverage,
        assumptions=[
            "world: snaps cons/prod/third, interfaces verifa (auto-connects) / verifb, 4 possible connections, hooks on cons:pa and prod:sa",
            "link-snap/unlink-snap/discard-snap and the tail of the install chain are stand-ins for the snapstate handlers; "
            "setup-profiles, auto-connect, connect, disconnect, auto-disconnect, remove-profiles and the hook tasks are the real handlers",
            "one change at a time (conflict checks of the entry points); failures of undo handlers are not injected",
            "a failed backend Setup is assumed to leave the previous profile of that snap in place",
            "restart = a fresh InterfaceManager.StartUp on the same in-memory state object (not re-read from disk)",
            "hotplug disconnect/connect is not driven",
        ],
        violations=violations)
