"""C24 -- daemon, snap-confine and snap-update-ns agree on valid snap / instance / component names and tags.

design:       spec/Naming.tla defines the validity predicates on run-length encoded strings; TLC
              (spec/NamingTable.tla) checks the laws (NameLaws, TagLaws, GeneratedTagLaws) on the bounded
              domains and tabulates the expected verdict of every string / tag query of the domain, and of the
              seeded random inputs beyond the bound that this file supplies.
conformance:  every row is evaluated by (i) the Go validators of the daemon, (ii) the snap-confine C validators
              and the real sc_init_invocation, (iii) the snap-update-ns C validators, all built from the working
              tree.  A disagreement BETWEEN IMPLEMENTATIONS that the statement requires to agree is a VIOLATION
              (keyed by the offending string).  All implementations agreeing with each other but not with the
              spec is spec drift: exit 2, no verdict.
"""
import os
import random

from lib import common, tlc, goharness
from lib.common import Result, Violation, InfraError
from props import _naming as N
from props import _syncdir as S

SCOPE = 256   # SNAP_SECURITY_TAG_MAX_LEN: longer tags are exempt by the statement


def run(ctx):
    rnd = random.Random(ctx.seed)
    cfg = ctx.pick("Naming_quick.cfg", "Naming_thorough.cfg")
    consts = S.cfg_constants(cfg)
    sc_bin, sun_bin = N.build_c_drivers(ctx)
    go_bin = goharness.ext_test_build(ctx, "naming")

    # ---- 1. TLC: laws + expected verdicts -------------------------------------------------------
    xnames = N.extra_names(rnd, ctx.pick(3000, 20000))
    xtags = N.extra_tags(rnd, ctx.pick(1500, 15000))
    fd = ctx.subdir("naming_inputs")
    nfile = ctx.pick(1, 6)
    parts = [("plain", "plain", None)]
    if ctx.quick:
        parts += [("tags", "tags", None), ("rle", "rle", None)]
    else:
        parts += [("tagsA", "tags:app", None), ("tagsH", "tags:hook", None)]
        parts += [("rle%d" % i, "rle:" + ch, None) for i, ch in enumerate(sorted(consts["RleAlpha"]))]
    chunks = []
    for i in range(nfile):
        p = os.path.join(fd, "in%d.ndjson" % i)
        cn, ct = xnames[i::nfile], xtags[i::nfile]
        N.write_file_inputs(p, cn, ct)
        chunks.append((cn, ct))
        parts.append(("file%d" % i, "file", p))
    tabs = N.tlc_parts(ctx, cfg, parts, par=ctx.pick(4, 10), timeout=ctx.pick(900, 2400))

    names = {}   # bytes -> expected row
    tags = {}    # (tag, inst, comp|None) -> expected row
    tlc_wall = {}
    for pid, (j, wall) in tabs.items():
        tlc_wall[pid] = round(wall, 1)
        if pid.startswith("file"):
            cn, ct = chunks[int(pid[4:])]
            rows = j["rows"]
            if len(rows) != len(cn) + len(ct):
                raise InfraError("TLC returned %d rows for %d inputs" % (len(rows), len(cn) + len(ct)))
            for s, r in zip(cn, rows[:len(cn)]):
                if N.runs2bytes(r["s"]) != s:
                    raise InfraError("row misalignment in %s" % pid)
                names[s] = r
            for q, r in zip(ct, rows[len(cn):]):
                tags[q] = r
            continue
        if not j.get("gen", True):
            raise InfraError("spec-level counterexample: GeneratedTagLaws is FALSE")
        for rr in j["rows"]:
            if not rr["laws"]:
                raise InfraError("spec-level counterexample: laws FALSE for row %s" % rr["r"])
            r = rr["r"]
            if "t" in r:
                c = N.runs2bytes(r["comp"]["s"]) if r["comp"]["has"] else None
                tags[(N.runs2bytes(r["t"]), N.runs2bytes(r["inst"]), c)] = r
            else:
                names[N.runs2bytes(r["s"])] = r
    # C strings cannot carry NUL; the protocol is line based
    names = {s: r for s, r in names.items() if b"\0" not in s}
    ctx.log("TLC tables: %d name rows, %d tag queries (%s)" % (len(names), len(tags), tlc_wall))
    for s, r in names.items():
        if r["len"] != len(s):
            raise InfraError("length mismatch between spec and bytes for %s" % N.show(s))

    # ---- 2. the three implementations -----------------------------------------------------------
    nl = sorted(names)
    tl = sorted(tags, key=lambda q: (q[0], q[1], q[2] or b"", q[2] is None))
    sc_req, sun_req, go_req = [], [], []
    for s in nl:
        e = N.enc(s)
        sc_req += ["snap " + e, "inst " + e, "comp %s -" % e]
        sun_req += ["snap " + e, "inst " + e, "args " + e]
        go_req += ["snap " + e, "inst " + e, "comp " + e, "app =6162 " + e, "hook =6162 - " + e]
    for (t, i, c) in tl:
        snapcomp = None if c is None else i.split(b"_")[0] + b"+" + c
        sc_req += ["tag %s %s %s" % (N.enc(t), N.enc(i), N.enc(c)), "inv %s %s %s" % (N.enc(t), N.enc(i), N.enc(snapcomp))]
        go_req += ["tag %s %s %s" % (N.enc(t), N.enc(i), N.enc(c))]
    sc_out = N.run_c(ctx, sc_bin, sc_req, "snap-confine")
    sun_out = N.run_c(ctx, sun_bin, sun_req, "snap-update-ns")
    go_out = N.run_go(ctx, go_bin, go_req)
    for what, out in (("snap-confine", sc_out), ("snap-update-ns", sun_out), ("daemon", go_out)):
        bad = [o for o in out if o[:1] not in "01N"]
        if bad:
            raise InfraError("%s driver produced verdict %r (die()/crash/internal disagreement)" % (what, bad[0]))

    violations, drift = [], []
    cls = {"snap": [0, 0], "inst": [0, 0], "comp": [0, 0], "tag": [0, 0], "inv": [0, 0]}
    gen_names_app, gen_names_hook = [], []

    def judge(kind, key, verdicts, spec, replay):
        """verdicts: {impl: '0'|'1'}; all must be equal; then equal to spec"""
        vs = set(verdicts.values())
        if len(vs) > 1:
            odd = [k for k, v in verdicts.items() if (v == "1") != spec]
            violations.append(Violation(
                "%s %s: %s" % (kind, key, " ".join("%s=%s" % kv for kv in sorted(verdicts.items()))),
                "implementations disagree on %s %s (spec says %s; deviating: %s)" % (
                    kind, key, "valid" if spec else "invalid", ",".join(odd) or "?"), replay))
        elif (vs.pop() == "1") != spec:
            drift.append("%s %s: all implementations say %s, spec says %s" % (kind, key, not spec, spec))

    si = ui = gi = 0
    for s in nl:
        r = names[s]
        k = N.show(s)
        rep = {"string_hex": s.hex(), "expected": {x: r[x] for x in ("snap", "inst", "comp", "app", "hook")}}
        judge("snap-name", k, {"daemon": go_out[gi], "snap-confine": sc_out[si], "snap-update-ns": sun_out[ui]}, r["snap"], rep)
        v = {"daemon": go_out[gi + 1], "snap-confine": sc_out[si + 1], "snap-update-ns": sun_out[ui + 1]}
        if sun_out[ui + 2] != "N":
            v["snap-update-ns(args)"] = sun_out[ui + 2]
        judge("instance-name", k, v, r["inst"], rep)
        judge("component", k, {"daemon": go_out[gi + 2], "snap-confine": sc_out[si + 2]}, r["comp"], rep)
        for f in ("snap", "inst", "comp"):
            cls[f][1 if r[f] else 0] += 1
        # app / hook names: only the daemon validates them alone; remember the accepted ones for clause (e)
        for off, f, acc in ((3, "app", gen_names_app), (4, "hook", gen_names_hook)):
            got = go_out[gi + off][:1] == "1"
            if got != r[f]:
                drift.append("%s-name %s: daemon says %s, spec says %s" % (f, k, got, r[f]))
            if got:
                acc.append(s)
        si += 3
        ui += 3
        gi += 5
    lax = []
    for q in tl:
        (t, i, c) = q
        r = tags[q]
        k = "%s for instance %s component %s" % (N.show(t), N.show(i), N.show(c))
        rep = {"tag_hex": t.hex(), "instance_hex": i.hex(), "component_hex": None if c is None else c.hex(), "expected": r}
        if r["tlen"] != len(t):
            raise InfraError("tag length mismatch for %s" % k)
        g, raw, inv = go_out[gi], sc_out[si], sc_out[si + 1]
        gi += 1
        si += 2
        if len(t) > SCOPE:
            continue
        cls["tag"][1 if r["belongs"] else 0] += 1
        # program level: snap-confine's invocation check vs the daemon's parse
        if inv != "N":
            cls["inv"][1 if r["inv"] else 0] += 1
            judge("security-tag", k, {"daemon": g, "snap-confine(invocation)": inv}, r["belongs"], rep)
        # function level: only for owners that are valid names (snap-confine validates them first)
        if r["instok"] and r["compok"]:
            judge("security-tag", k, {"daemon": g, "snap-confine(sc_security_tag_validate)": raw}, r["belongs"], rep)
        elif raw == "1" and g == "0":
            lax.append(k)

    # ---- 3. clause (e): every app/hook tag of a snap the daemon accepts is accepted by snap-confine
    insts = [b"ab", b"a" * 40, b"a" * 40 + b"_" + b"0" * 10, b"a-b_k1", b"0a", b"x" * 41, b"ab_", b"12"]
    comps = [None, b"cd", b"c" * 40, b"0c", b"c", b"1"]
    fill = [b"x" * n for n in (150, 198, 199, 200, 201, 240, 246, 247, 248, 249, 250, 251, 252, 260)]
    greq = []
    for i in insts:
        for a in sorted(set(gen_names_app)) + fill:
            greq.append(("app", i, None, a))
        for c in comps:
            for h in sorted(set(gen_names_hook)) + fill:
                greq.append(("hook", i, c, h))
    if len(greq) > ctx.pick(20000, 400000):
        rnd.shuffle(greq)
        greq = greq[:ctx.pick(20000, 400000)]
    gout = N.run_go(ctx, go_bin, ["app %s %s" % (N.enc(i), N.enc(n)) if k == "app" else
                                  "hook %s %s %s" % (N.enc(i), N.enc(c), N.enc(n)) for (k, i, c, n) in greq], "go_gen")
    acc = []
    for (k, i, c, n), o in zip(greq, gout):
        if o.startswith("1 ="):
            acc.append((k, i, c, n, bytes.fromhex(o[3:])))
    creq = []
    for (k, i, c, n, tag) in acc:
        snapcomp = None if c is None else i.split(b"_")[0] + b"+" + c
        creq += ["tag %s %s %s" % (N.enc(tag), N.enc(i), N.enc(c)), "inv %s %s %s" % (N.enc(tag), N.enc(i), N.enc(snapcomp))]
    cout = N.run_c(ctx, sc_bin, creq, "snap-confine-gen") if creq else []
    gen_checked = gen_exempt = 0
    for j, (k, i, c, n, tag) in enumerate(acc):
        exp = b"snap." + i + (b"+" + c if c is not None else b"") + (b".hook." if k == "hook" else b".") + n
        if tag != exp:
            drift.append("SecurityTag() of %s %s gave %s, spec says %s" % (k, N.show(n), N.show(tag), N.show(exp)))
        if len(tag) > SCOPE:
            gen_exempt += 1
            continue
        gen_checked += 1
        raw, inv = cout[2 * j], cout[2 * j + 1]
        if raw != "1" or inv != "1":
            violations.append(Violation(
                "generated-tag %s for instance %s component %s: daemon=1 snap-confine(sc_security_tag_validate)=%s "
                "snap-confine(invocation)=%s" % (N.show(tag), N.show(i), N.show(c), raw, inv),
                "the daemon accepts %s %s of snap %s and generates a tag that snap-confine refuses" % (k, N.show(n), N.show(i)),
                {"tag_hex": tag.hex(), "instance_hex": i.hex(), "component_hex": None if c is None else c.hex()}))

    if not violations and drift:
        raise InfraError("spec drift: %d row(s) where the implementations agree with each other but not with "
                         "Naming.tla, e.g. %s" % (len(drift), drift[0]))
    for f, (neg, pos) in cls.items():
        if (neg == 0 or pos == 0) and not violations:
            raise InfraError("vacuity guard: class %s has %d invalid / %d valid rows" % (f, neg, pos))
    if gen_checked < 100 and not violations:
        raise InfraError("vacuity guard: only %d generated tags checked" % gen_checked)

    evals = len(sc_req) + len(sun_req) + len(go_req) + len(gout) + len(cout)
    samples = []
    for s in (b"a" * 40, b"a" * 41, b"a--b", b"ab_0123456789", b"ab_01234567890"):
        if s in names:
            samples.append({"string": N.show(s), "expected": {x: names[s][x] for x in ("snap", "inst", "comp")}})
    for q in tl[:: max(1, len(tl) // 3)][:3]:
        samples.append({"tag": N.show(q[0]), "instance": N.show(q[1]), "component": N.show(q[2]),
                        "expected_belongs": tags[q]["belongs"]})
    return Result(
        level="exploration",
        coverage={
            "evaluations": evals,
            "distinct_nontrivial": sum(min(v) for v in cls.values()),
            "rule": "plain strings <= %s chars over %s; RLE strings <= %s runs over %s with run lengths %s; tag queries "
                    "assembled from boundary parts incl. total length 255/256/257; + seeded random names/tags with "
                    "single-character edits and every byte value next to a letter" % (
                        consts["PlainMax"], "".join(sorted(consts["PlainAlpha"])), consts["RleMaxRuns"],
                        "".join(sorted(consts["RleAlpha"])), sorted(int(x) for x in _lens(cfg))),
            "name_rows": len(names), "tag_queries": len(tags),
            "class_counts_invalid_valid": cls,
            "generated_tags_checked": gen_checked, "generated_tags_exempt_longer_than_256": gen_exempt,
            "function_level_lax_acceptances_on_invalid_owner": len(lax),
            "function_level_lax_examples": lax[:3],
            "tlc_wall_s": tlc_wall, "tlc_config": cfg,
            "samples": samples,
        },
        assumptions=[
            "strings containing NUL are excluded (C strings); validators run in the C locale",
            "tags longer than SNAP_SECURITY_TAG_MAX_LEN (256) are exempt, per the statement",
            "'snap-confine accepts a tag for a given instance' is observed on the real sc_init_invocation (which validates "
            "the instance/component first); sc_security_tag_validate alone is compared only for owners that are valid names",
        ],
        violations=violations,
        notes=["sc_security_tag_validate alone accepts tags whose instance/component part is not a valid name when asked "
               "for that same invalid owner (e.g. snap.12.app for instance 12): %d such rows this run; masked by "
               "sc_instance_name_validate in snap-confine, not in snap-device-helper" % len(lax)] if lax else [])


def _lens(cfg):
    import re
    with open(os.path.join(common.SPEC, cfg)) as f:
        m = re.search(r'RleLens\s*=\s*\{([^}]*)\}', f.read())
    return [x.strip() for x in m.group(1).split(",")] if m else []
