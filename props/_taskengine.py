"""C01-C04 (and the engine half of C07): spec/TaskEngine.tla checked by TLC + conformance of the real
overlord/state engine (harness/ext/taskengine) against spec/TraceTaskEngine.tla.

Verdict per property P:
  design       TLC explores MCTaskEngine exhaustively for the configs of P (all forward DAGs x lane
               assignments x undo-handler presence, environment budgets per config); a spec-level
               counterexample is a design problem to triage (exit 2), not a VIOLATION.
  conformance  seeded random real executions (random graphs, schedules, faults, retries, waits, aborts,
               stop, crash+restart at random checkpoints, then a fair drain) are validated line by line:
               "precise" mode = every real critical section must be a step of the spec's action and lead
               to the logged real post-state; P's oracle A_<P> (evaluated by TLC on the REAL states) must
               hold. If the precise run rejects a line, the permissive run still evaluates A_<P> on the whole
               real trace: A_<P> false => VIOLATION; otherwise the divergence is not attributable to P
               => exit 2 (spec needs triage), never a VIOLATION.
"""
import concurrent.futures
import glob
import json
import os
import re

from lib import common, goharness, tlc
from lib.common import InfraError, Result, Violation

READY = {"Done", "Undone", "Hold", "Error"}

# name -> constants of MCTaskEngine
MC = {
    # quick tier
    "q_fail":    dict(N=3, fail=1, retry=0, wait=0, time=1, restart=0, abort=0, lanes="Lanes4", undo="BoolBoth"),
    "q_retry":   dict(N=3, fail=1, retry=1, wait=0, time=2, restart=0, abort=0, lanes="Lanes2", undo="BoolBoth"),
    "q_wait":    dict(N=3, fail=1, retry=0, wait=1, time=1, restart=0, abort=0, lanes="Lanes2", undo="BoolBoth"),
    "q_restart": dict(N=3, fail=1, retry=0, wait=0, time=1, restart=1, abort=0, lanes="Lanes2", undo="BoolBoth"),
    "q_abort":   dict(N=3, fail=1, retry=0, wait=0, time=1, restart=0, abort=1, lanes="Lanes2", undo="BoolBoth"),
    # thorough tier
    "t_fail2":   dict(N=3, fail=2, retry=0, wait=0, time=1, restart=0, abort=0, lanes="Lanes5", undo="BoolBoth"),
    "t_retry":   dict(N=3, fail=1, retry=1, wait=0, time=2, restart=0, abort=0, lanes="Lanes3", undo="BoolBoth"),
    "t_wait":    dict(N=3, fail=1, retry=0, wait=1, time=1, restart=0, abort=0, lanes="Lanes3", undo="BoolBoth"),
    "t_restart": dict(N=3, fail=1, retry=0, wait=0, time=1, restart=1, abort=0, lanes="Lanes3", undo="BoolBoth"),
    "t_abort":   dict(N=3, fail=1, retry=0, wait=0, time=1, restart=0, abort=1, lanes="Lanes3", undo="BoolBoth"),
    "t_mix":     dict(N=3, fail=1, retry=1, wait=1, time=2, restart=1, abort=0, lanes="Lanes2", undo="BoolTrue"),
    # N=4: 64 forward DAGs; either all lane assignments with undo handlers everywhere, or one lane with
    # every undo-handler assignment (the full product is 25 M transitions: too slow for the budget)
    "t_n4":      dict(N=4, fail=1, retry=0, wait=0, time=1, restart=0, abort=0, lanes="Lanes2", undo="BoolTrue"),
    "t_n4u":     dict(N=4, fail=1, retry=0, wait=0, time=1, restart=0, abort=0, lanes="Lanes1", undo="BoolBoth"),
    "t_live":    dict(N=3, fail=1, retry=1, wait=1, time=2, restart=0, abort=0, lanes="Lanes2", undo="BoolBoth", live=True),
    "q_kinds":   dict(N=4, NC=2, fail=0, retry=0, wait=0, time=1, restart=0, abort=0, kinds=True),
    "t_kinds":   dict(N=4, NC=2, fail=1, retry=0, wait=0, time=1, restart=0, abort=0, kinds=True),
    "q_live":    dict(N=3, fail=1, retry=0, wait=1, time=1, restart=0, abort=0, lanes="Lanes1", undo="BoolBoth", live=True),
    # any acyclic dependency relation (task order independent of dependency order); panicked states terminal
    "q_anyorder": dict(N=3, fail=1, retry=0, wait=0, time=1, restart=0, abort=1, lanes="Lanes1", undo="BoolBoth", anyorder=True),
    "t_anyorder": dict(N=3, fail=1, retry=0, wait=0, time=1, restart=1, abort=1, lanes="Lanes2", undo="BoolBoth", anyorder=True),
}

PLAN = {
    "C01": {"quick": ["q_fail", "q_abort"], "thorough": ["q_fail", "t_fail2", "t_abort", "t_n4", "t_n4u", "t_mix"]},
    "C02": {"quick": ["q_retry", "q_wait"], "thorough": ["t_retry", "t_wait", "t_n4", "t_mix"]},
    "C03": {"quick": ["q_wait", "q_abort", "q_anyorder", "q_live"],
            "thorough": ["t_wait", "t_abort", "t_fail2", "t_anyorder", "t_live", "t_mix"]},
    "C04": {"quick": ["q_restart"], "thorough": ["t_restart", "t_mix", "t_n4"]},
    "C07": {"quick": ["q_kinds"], "thorough": ["q_kinds", "t_kinds"]},
}

INV = {
    "C01": ["C01"],
    "C02": ["C02", "RunningSane"],
    "C03": ["C03"],
    "C04": ["C04_NoRedo"],
    "C07": ["C07"],
}


def write_cfg(d, name, p, pid):
    live = p.get("live")
    spec = "MCSpecKinds" if p.get("kinds") else ("MCLive" if live else "MCSpec")
    if p.get("anyorder"):
        spec = "MCSpecAnyOrder"
    lines = ["SPECIFICATION %s" % spec, "CONSTANTS",
             "  N = %d" % p["N"], "  NC = %d" % p.get("NC", 1),
             "  MaxFail = %d" % p["fail"], "  MaxRetry = %d" % p["retry"], "  MaxWaitRes = %d" % p["wait"],
             "  MaxTime = %d" % p["time"], "  MaxRestart = %d" % p["restart"], "  MaxAbort = %d" % p["abort"],
             "  LaneChoices <- %s" % p.get("lanes", "Lanes1"), "  UndoChoices <- %s" % p.get("undo", "BoolTrue"),
             "INVARIANTS TypeOK %s" % ("PanicOnlyByAbort AnyOrderOK" if p.get("anyorder") else " ".join(INV[pid]))]
    if live:
        lines.append("PROPERTY Settles")
    elif pid == "C04":
        lines.append("PROPERTY C04_RestartKeeps")
    lines.append("CHECK_DEADLOCK FALSE")
    path = os.path.join(d, "TaskEngine_gen_%s_%s.cfg" % (pid, name))
    with open(path, "w") as f:
        f.write("\n".join(lines) + "\n")
    return path


def design(ctx, pid):
    if os.environ.get("VERIF_DEV_SKIP_DESIGN"):   # development aid only
        return 1, 1, [], {}
    d = ctx.subdir("cfg")
    tot_states = tot_trans = 0
    runs = []
    cov = {}
    for i, name in enumerate(PLAN[pid][ctx.tier]):
        p = MC[name]
        cfg = write_cfg(d, name, p, pid)
        want_cov = (i == 0)
        res = tlc.run(ctx, "MCTaskEngine", os.path.basename(cfg), extra_files=[cfg], workers=ctx.pick(8, 16),
                      coverage=want_cov, timeout=ctx.pick(900, 3000), heap=ctx.pick("6g", "24g"),
                      name="mc_" + name)
        ctx.log("TLC %s: %s (%.0fs)" % (name, res.summary(), res.wall))
        if not res.ok:
            raise InfraError("spec-level counterexample in TaskEngine config %s (%s %s); last state: %s" % (
                name, res.kind, res.name, json.dumps(res.trace[-1] if res.trace else None, default=str)[:1500]))
        if want_cov:
            tlc.require_coverage(res, ["EnsurePass", "FinishEnv"])
            cov = tlc.coverage_summary(res)
        tot_states += res.distinct
        tot_trans += res.generated
        runs.append({"config": name, "constants": {k: v for k, v in p.items()}, "distinct": res.distinct,
                     "generated": res.generated, "depth": res.depth, "wall_s": round(res.wall, 1),
                     "liveness": bool(p.get("live"))})
    return tot_states, tot_trans, runs, cov


def record(ctx, pid):
    """Build the driver and record real executions. Returns (dir, n_cases, driver_problem)."""
    tb = goharness.ext_test_build(ctx, "taskengine")
    out = ctx.subdir("traces")
    cases = ctx.pick(30, 300)
    if pid == "C07":
        cases = ctx.pick(30, 120)   # every case checkpoints through the real overlord backend (slower)
    test = "^TestVerifSerialize$" if pid == "C07" else "^TestVerifEngine$"
    rc, o = goharness.run_test_bin(ctx, tb, test, env={"VERIF_OUT_DIR": out, "VERIF_CASES": cases},
                                   timeout=ctx.pick(600, 3000))
    n = sum(int(x) for x in re.findall(r'VERIF-CASES (\d+)', o))
    problem = None
    if rc != 0:
        problem = o
    elif pid == "C04":
        rc2, o2 = goharness.run_test_bin(ctx, tb, "^TestVerifSameOutcome$",
                                         env={"VERIF_OUT_DIR": out, "VERIF_CASES": ctx.pick(6, 60)},
                                         timeout=ctx.pick(600, 3000))
        n += sum(int(x) for x in re.findall(r'VERIF-CASES (\d+)', o2))
        if rc2 != 0:
            problem = o2
    return out, n, problem


def abort_order_probe(ctx, pid):
    """Known finding (C03): deterministic reproducer of the TLC counterexample on MCSpecAnyOrder."""
    if pid != "C03":
        return []
    tb = goharness.ext_test_build(ctx, "taskengine")
    rc, o = goharness.run_test_bin(ctx, tb, "^TestVerifAbortOrderProbe$", timeout=300)
    m = re.search(r'VERIF-PROBE abort-order (PANIC|OK) (.*)', o)
    if not m:
        raise InfraError("abort-order probe did not report:\n" + common.tail(o, 20))
    if m.group(1) == "PANIC":
        return [Violation(
            key="Change.Abort panics: change unexpectedly became unready (pending task precedes Done task in task order)",
            desc="tasks 1<-2<-3 (1 waits for 2, 2 for 3), 3 completes, Change.Abort() before the next Ensure: " + m.group(2),
            replay={"graph": {"waits": [[2], [3], []]}, "schedule": ["Ensure", "Finish(3,ok)", "Abort(1)"], "panic": m.group(2)})]
    return []


def write_trace_cfg(d, pid, precise):
    inv = "A_%s" % pid + (" SpecMon" if precise else "")
    path = os.path.join(d, "TraceTaskEngine_gen_%s_%s.cfg" % (pid, "p" if precise else "m"))
    with open(path, "w") as f:
        f.write("SPECIFICATION TSpec\nCONSTANTS\n  N <- TN\n  NC <- TNC\n  MaxFail = 0\n  MaxRetry = 0\n"
                "  MaxWaitRes = 0\n  MaxTime = 0\n  MaxRestart = 0\n  MaxAbort = 0\n"
                "INVARIANTS %s\nPOSTCONDITION Accepted\nCHECK_DEADLOCK FALSE\n" % inv)
    return path


def case_events(events, line):
    """events of the execution that contains 1-based `line`, up to that line"""
    i = line - 1
    j = i
    while j > 0 and events[j]["ev"] != "Init":
        j -= 1
    return events[j:i + 1]


def validate_file(ctx, pid, path, cfgdir):
    m = re.search(r'_n(\d+)_c(\d+)\.ndjson$', path)
    env = {"VERIF_TN": m.group(1), "VERIF_TNC": m.group(2)}
    events = common.read_ndjson(path)
    out = {"file": os.path.basename(path), "lines": len(events), "violations": [], "divergence": None,
           "states": 0, "generated": 0}
    if not events:
        return out
    pc = os.path.join(cfgdir, "TraceTaskEngine_gen_%s_p.cfg" % pid)   # written once by run() (threads share it)
    e1 = dict(env, VERIF_MODE="precise")
    tv = tlc.validate_trace(ctx, "TraceTaskEngine", os.path.basename(pc), path, env=e1, extra_files=[pc],
                            timeout=ctx.pick(900, 3000), name="tv_p_" + os.path.basename(path)[:-7])
    out["states"] += tv["res"].distinct
    out["generated"] += tv["res"].generated
    if tv["accepted"]:
        return out
    line = tv["stuck_line"]
    ev = events[line - 1] if line and line <= len(events) else {"case": "?", "ev": "?"}
    if tv["invariant"] and tv["invariant"].startswith("A_"):
        out["violations"].append(Violation(
            key="%s:%s:%s@%d" % (tv["invariant"], ev.get("case"), ev.get("ev"), line),
            desc="real execution %s violates %s at event %d (%s); state after: %s" % (
                ev.get("case"), tv["invariant"], line, ev.get("ev"), json.dumps(ev.get("st"))[:400]),
            replay={"trace": case_events(events, line), "mode": "precise"}))
        return out
    # precise conformance failed (or the spec's own monitors tripped): evaluate P's oracle on the full real trace
    mc = os.path.join(cfgdir, "TraceTaskEngine_gen_%s_m.cfg" % pid)
    e2 = dict(env, VERIF_MODE="permissive")
    tv2 = tlc.validate_trace(ctx, "TraceTaskEngine", os.path.basename(mc), path, env=e2, extra_files=[mc],
                             timeout=ctx.pick(900, 3000), name="tv_m_" + os.path.basename(path)[:-7])
    out["states"] += tv2["res"].distinct
    out["generated"] += tv2["res"].generated
    if tv2["invariant"]:
        l2 = tv2["stuck_line"]
        ev2 = events[l2 - 1]
        out["violations"].append(Violation(
            key="%s:%s:%s@%d" % (tv2["invariant"], ev2.get("case"), ev2.get("ev"), l2),
            desc="real execution %s violates %s at event %d (%s) [the same run also left the spec at event %d (%s)]" % (
                ev2.get("case"), tv2["invariant"], l2, ev2.get("ev"), line, ev.get("ev")),
            replay={"trace": case_events(events, l2), "mode": "permissive", "diverged_at": line}))
    elif not tv2["accepted"]:
        raise InfraError("permissive trace validation rejected %s at line %s" % (path, tv2["stuck_line"]))
    else:
        prev = events[line - 2] if line >= 2 else None
        out["divergence"] = {"file": os.path.basename(path), "line": line, "case": ev.get("case"), "event": ev,
                             "prev_state": prev.get("st") if prev else None,
                             "reason": tv["invariant"] or "step not allowed by TaskEngine"}
    return out


def py_oracles(pid, path):
    """Oracles that need strings/notification streams (evaluated on the real log)."""
    vs = []
    if pid != "C03":
        return vs
    events = common.read_ndjson(path)
    ready_seen = {}
    for i, ev in enumerate(events):
        case = ev["case"]
        if ev["ev"] == "Init":
            ready_seen = {}
            forced = set()
            g = ev["g"]
        if ev["ev"] == "Force":
            forced.add(ev["t"] - 1)
        st = ev["st"]
        # once reported ready, never reported in progress again
        for n in ev["notes"]:
            c = n["c"]
            if ready_seen.get(c) and n["new"] not in READY:
                vs.append(Violation(key="ready-then-%s:%s@%d" % (n["new"], case, i + 1),
                                    desc="change %d of %s was reported %s after having been reported ready" % (c, case, n["new"]),
                                    replay={"trace": case_events(events, i + 1)}))
            if n["new"] in READY:
                ready_seen[c] = True
        # the error names every failed task with the error it failed with
        for c in range(g["nc"]):
            if st["chgst"][c] != "Error":
                if ev["err"][c]:
                    vs.append(Violation(key="err-without-error-status:%s@%d" % (case, i + 1),
                                        desc="Change.Err() non-nil while status is %s" % st["chgst"][c],
                                        replay={"trace": case_events(events, i + 1)}))
                continue
            for t in range(g["n"]):
                if g["chg"][t] != c + 1 or st["status"][t] != "Error" or t in forced:
                    continue
                pat = "- task %d (fail-%d-" % (t + 1, t + 1)
                if pat not in ev["err"][c]:
                    vs.append(Violation(key="err-omits-task:%s@%d" % (case, i + 1),
                                        desc="Change.Err() %r does not name failed task %d with its error" % (ev["err"][c], t + 1),
                                        replay={"trace": case_events(events, i + 1)}))
    return vs


def driver_crash_violation(pid, text):
    """A panic inside overlord/state while a change runs means the daemon dies and the change does not settle."""
    m = re.search(r'panic: (.*)', text)
    if "HARNESS:" in text and not m:
        raise InfraError("driver reported a harness problem:\n" + common.tail(text, 15))
    real = re.search(r'REAL: (.*)', text)
    if real and pid == "C04":
        return Violation(key="restart:" + real.group(1)[:80], desc="restart from the checkpoint: " + real.group(1),
                         replay={"output": common.tail(text, 30)})
    if m and ("overlord/state" in text) and pid == "C03":
        return Violation(key="panic:" + m.group(1)[:80],
                         desc="the real engine panicked while running a change: " + m.group(1),
                         replay={"output": common.tail(text, 60)})
    raise InfraError("driver died:\n" + common.tail(text, 40))


def run(ctx, pid):
    states, trans, runs, cov = design(ctx, pid)
    out, ncases, problem = record(ctx, pid)
    violations = []
    if problem:
        violations.append(driver_crash_violation(pid, problem))
    violations.extend(abort_order_probe(ctx, pid))
    files = sorted(glob.glob(os.path.join(out, "trace_*.ndjson")))
    cfgdir = ctx.subdir("tcfg")
    write_trace_cfg(cfgdir, pid, True)
    write_trace_cfg(cfgdir, pid, False)
    results = []
    with concurrent.futures.ThreadPoolExecutor(max_workers=ctx.pick(4, 8)) as ex:
        for r in ex.map(lambda f: validate_file(ctx, pid, f, cfgdir), files):
            results.append(r)
    divergences = [r["divergence"] for r in results if r["divergence"]]
    for r in results:
        violations.extend(r["violations"])
        states += r["states"]
        trans += r["generated"]
    for f in files:
        violations.extend(py_oracles(pid, f))
    so = os.path.join(out, "sameoutcome.ndjson")
    n_same = 0
    if pid == "C04" and os.path.exists(so):
        for rec in common.read_ndjson(so):
            n_same += 1
            if not rec["same"]:
                violations.append(Violation(
                    key="sameoutcome:%s:crash@%d" % (rec["case"], rec["crash_at"]),
                    desc="crash+restart after action %d changes the outcome (%s): base %s, got %s" % (
                        rec["crash_at"], rec["why"], rec["base"], rec["got"]),
                    replay=rec))
    if divergences and not violations:
        d = divergences[0]
        raise InfraError("the real engine left the specification (file %s line %d, case %s, event %s: %s) but no "
                         "oracle of %s is violated on the observed executions; TaskEngine.tla needs triage.\nprev state: %s\nevent: %s" % (
                             d["file"], d["line"], d["case"], d["event"].get("ev"), d["reason"], pid,
                             json.dumps(d["prev_state"]), json.dumps(d["event"])[:1500]))
    # samples + distinct real abstract states
    samples = []
    distinct = set()
    nevents = 0
    for f in files:
        evs = common.read_ndjson(f)
        nevents += len(evs)
        for e in evs:
            distinct.add((f[-14:], json.dumps(e["st"], sort_keys=True)))
        if evs and len(samples) < 3:
            first = case_events(evs, min(len(evs), 12))
            samples.append([{k: e[k] for k in ("ev", "case", "t", "res", "st") if k in e} | ({"g": e["g"]} if "g" in e else {})
                            for e in first[:6]])
    coverage = {
        "states": states, "transitions": trans,
        "traces_validated_against_impl": ncases,
        "samples": samples,
        "tlc_runs": runs, "action_coverage_first_config": cov,
        "real_events_validated": nevents, "distinct_real_abstract_states": len(distinct),
        "sameoutcome_crash_points": n_same,
        "conformance": "precise (every real critical section is a TaskEngine step to the logged state)" if not divergences else "diverged",
    }
    return Result(level="model_checking", coverage=coverage, violations=violations,
                  assumptions=["handlers are gated by the driver and return scripted results (ok/err/Retry/Wait); "
                               "real handler side effects are out of scope (idempotent work assumed for C04)",
                               "graphs: forward DAGs; lanes joined in a fixed order per task",
                               "exhaustive TLC bounds: N<=3 (N=4 in one thorough config), one change; "
                               "real executions: N in 3..5, up to 2 changes"])
