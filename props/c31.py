"""C31 -- a downloaded snap is only kept if its digest matches (Download.tla, see props/_download.py)."""
from props import _download


def run(ctx):
    return _download.run(ctx)
