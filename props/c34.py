"""C34 -- channel names normalise consistently; pinned tracks cannot be switched.

design      : Channel.tla -- reference ParseVerbatim / Parse(=Clean) / Full / Resolve / ResolvePinned /
              ResolveChannel over channel strings seen as '/'-separated component lists. TLC checks the laws of
              the statement on the reference (Channel_mc.cfg): parse/print stable, Clean idempotent, full form
              names track and risk, risk-only request keeps the current track, pinned => in-track or refused,
              over all 2800 strings of <= 4 components from {"", latest, stable, edge, t1, 2.0, b1}
              (requests/current channels <= 3 components, pinned tracks <= 2).
conformance : T->I  tables parse (every string), resolve (399 x 399), pinned (56 x 399) evaluated on the real
                    snap/channel functions; snapstate.resolveChannel through an overlay driver with real model
                    assertions (kernel / gadget / unrelated snap; pinned t1, 2.0, latest, b1, none).
              laws  the same laws checked directly on the REAL outputs (same domain + seeded random strings
                    over a wider component set).
              I->T  seeded random strings over a wider component set validated by TraceChannel.
Named deviation: a current/requested track that is spelled like a risk ("stable/stable/b1") -- the statement's
quantifier includes "risk names as tracks" -- loses its track on a risk-only request; reported as violations
of class `risk-named-track:` (see notes/C34.md).
"""
import json
import os

from lib import common, goharness
from lib.common import Result, Violation, InfraError
from props import _reftables as rt

COMPS = ["", "latest", "stable", "edge", "t1", "2.0", "b1"]


def nof(l):
    return sum(len(COMPS) ** i for i in range(1, l + 1))


def _slices(n, per):
    return [(lo, min(n, lo + per - 1)) for lo in range(1, n + 1, per)]


def _join(p):
    return "/".join(p)


def run(ctx):
    violations = []
    par = ctx.pick(6, 8)
    maxcomps = ctx.pick(4, 5)
    binary = rt.build(ctx)

    # ---- I->T inputs: random channel strings recorded from the real code
    obsdir = ctx.subdir("obs")
    allobs = os.path.join(obsdir, "all.ndjson")
    nrand = ctx.pick(1500, 40000)
    rt.drive(ctx, binary, "TestVerifC34Random", allobs, env={"VERIF_N": nrand})
    chunks, nobs = rt.split_ndjson(allobs, ctx.pick(1, 8), obsdir)
    obs = {o["case"]: o for o in common.read_ndjson(allobs)}
    # binding canary riding in chunk 0: case 0 = case 1 with a corrupted Parse result
    corrupt = json.loads(json.dumps(obs[1]))
    corrupt["case"] = 0
    corrupt["parse"]["risk"] = "edge" if corrupt["parse"]["risk"] != "edge" else "beta"
    with open(chunks[0], "a") as f:
        f.write(json.dumps(corrupt) + "\n")

    # ---- TLC: laws, tables, observation validation side by side
    tabdir = ctx.subdir("tables")
    tables = []
    tjobs = []

    def mk(part, lo, hi, mc):
        out = os.path.join(tabdir, "t_%s_%d.json" % (part, lo))
        tables.append(out)
        return lambda: rt.table(ctx, "ChannelTable", "ChannelTable.cfg", out,
                                {"VERIF_PART": part, "VERIF_LO": lo, "VERIF_HI": hi, "VERIF_MAXCOMPS": mc},
                                name="tab_%s_%d" % (part, lo), timeout=ctx.pick(2400, 7200))

    n_all, n3, n2 = nof(maxcomps), nof(3), nof(2)
    tjobs.append(mk("pinned", 1, n2, 3))
    for lo, hi in _slices(n_all, ctx.pick(2800, 5000)):
        tjobs.append(mk("parse", lo, hi, maxcomps))
    for lo, hi in _slices(n3, ctx.pick(200, 100)):
        tjobs.append(mk("resolve", lo, hi, 3))
    ljob = lambda: rt.laws(ctx, "Channel", "Channel_mc.cfg", env={"VERIF_MAXCOMPS": str(maxcomps)}, min_states=n_all,
                           timeout=ctx.pick(2400, 7200), workers=ctx.pick(2, 4))
    vjobs = [(lambda i, p: lambda: rt.validate_obs(ctx, "TraceChannel", "TraceChannel.cfg", p,
                                                   os.path.join(obsdir, "verdict_%02d.json" % i),
                                                   name="obs_%02d" % i, timeout=ctx.pick(2400, 7200)))(i, p)
             for i, p in enumerate(chunks)]
    skip_overlay = bool(os.environ.get("VERIF_SKIP_OVERLAY"))   # development aid for mutation demos only
    # the snapstate overlay test binary (resolveChannel driver) is linked while TLC runs
    ojob = lambda: None if skip_overlay else goharness.overlay_test_build(
        ctx, "overlord/snapstate", [os.path.join(common.HARNESS, "overlay", "snapstate", "zz_verif_reftables_test.go")])
    res = rt.parallel([ojob, ljob] + vjobs + tjobs, par + 1)
    ov = res[0]
    res = res[1:]
    mc = res[0]
    vres = res[1:1 + len(vjobs)]
    ctx.log("TLC: laws hold on the reference for %d channel strings (%.0fs); %d table runs; %d observation runs"
            % (mc.distinct, mc.wall, len(tjobs), len(vjobs)))

    # ---- T->I: real functions on the tabulated domain
    outdir = ctx.subdir("real")
    rows = rt.drive(ctx, binary, "TestVerifC34Table", os.path.join(outdir, "table.ndjson"),
                    env={"VERIF_TABLES": ",".join(tables)}, timeout=1500)
    st = rt.stats_of(rows)
    for r in rows:
        if r.get("kind") == "mismatch":
            violations.append(Violation(
                key="table: " + r["key"],
                desc="channel.%s = %s but Channel.tla reference gives %s" % (r["key"], json.dumps(r["got"]), json.dumps(r["exp"])),
                replay=r))
    ctx.log("real snap/channel on %d tabulated evaluations: %d differences, %d distinct outcomes"
            % (st["evaluations"], st["mismatches"], st["distinct_outcomes"]))

    # binding canary (T->I): corrupt one entry of a copy of the pinned table
    with open(tables[0]) as f:
        pt = json.load(f)
    victim = None
    for ri, r in enumerate(pt["rows"]):
        for j, e in enumerate(r["res"]):
            if e["ok"] and len(e["out"]) >= 2:
                victim = (ri, j)
                break
        if victim:
            break
    ri, j = victim
    pt["rows"][ri]["res"][j]["out"][0] = "zz"
    vkey = "ResolvePinned(%s,%s)" % (rt.q(_join(pt["rows"][ri]["track"])), rt.q(_join(pt["news"][j])))
    badp = os.path.join(tabdir, "canary_corrupt.json")
    with open(badp, "w") as f:
        json.dump(pt, f)
    crow = rt.drive(ctx, binary, "TestVerifC34Table", os.path.join(outdir, "canary.ndjson"), env={"VERIF_TABLES": badp})
    canary_trouble = []      # fatal (exit 2) only when the run found no violation at all, see the end
    if vkey not in [r["key"] for r in crow if r.get("kind") == "mismatch"]:
        canary_trouble.append("corrupted table entry %s not among the differences reported by the driver" % vkey)

    # ---- snapstate.resolveChannel (overlay, real model assertions) against the `rc` part of the pinned table
    with open(tables[0]) as f:
        pt = json.load(f)
    news = [_join(n) for n in pt["news"]]
    by_pin = {_join(e["pinned"]): e for e in pt["rc"]}
    cases = []
    expect = {}

    def add(snap, old, new, kernel, gadget, exp):
        c = len(cases) + 1
        cases.append({"case": c, "snap": snap, "cur": old, "new": new, "kernel": kernel, "gadget": gadget})
        expect[c] = exp
    for pin, e in by_pin.items():
        for o in e["olds"]:
            old = _join(o["old"])
            for jn, exp in enumerate(o["res"]):
                if pin == "":
                    add("kernel", old, news[jn], "", "", exp)               # model without tracks
                    add("some-snap", old, news[jn], "t1", "", exp)          # pinned kernel, unrelated snap
                else:
                    add("kernel", old, news[jn], pin, "", exp)
                    add("brand-gadget", old, news[jn], "", pin, exp)
    if skip_overlay:
        ctx.log("WARNING: snapstate.resolveChannel overlay driver skipped (VERIF_SKIP_OVERLAY set) -- not a complete run")
        cases = []
    cfile = os.path.join(ctx.subdir("rc"), "cases.json")
    with open(cfile, "w") as f:
        json.dump(cases, f)
    rrows = []
    if not skip_overlay:
        rrows = rt.drive(ctx, ov, "TestVerifC34Resolve", os.path.join(os.path.dirname(cfile), "rc.ndjson"),
                         env={"VERIF_CASES": cfile}, cwd=os.path.join(common.REPO, "overlord/snapstate"), timeout=1500)
    n_rc = 0
    for r in rrows:
        if r.get("kind") != "resolve":
            continue
        n_rc += 1
        exp = expect[r["case"]]
        ok = (not r["err"]) == exp["ok"] and (not exp["ok"] or r["out"] == _join(exp["out"]))
        if not ok:
            pin = r["kernel"] or r["gadget"]
            violations.append(Violation(
                key="table: resolveChannel(%s,%s,%s,pinned=%s)" % (rt.q(r["snap"]), rt.q(r["cur"]), rt.q(r["new"]), rt.q(pin)),
                desc="snapstate.resolveChannel(%s, %s, %s) under %s track %s returned (%s, err=%s); reference: %s"
                     % (rt.q(r["snap"]), rt.q(r["cur"]), rt.q(r["new"]), "kernel" if r["kernel"] else "gadget",
                        rt.q(pin), rt.q(r["out"]), r.get("errmsg"), json.dumps(exp)), replay=r))
        elif not r["err"] and r["new"] != "" and (r["kernel"] or r["gadget"]) and r["snap"] != "some-snap":
            pin = r["kernel"] or r["gadget"]
            if not (r["out"] == pin or r["out"].startswith(pin + "/")):       # the law itself, on the real output
                violations.append(Violation(key="pinned: resolveChannel(%s,%s,%s,pinned=%s)" % (
                    rt.q(r["snap"]), rt.q(r["cur"]), rt.q(r["new"]), rt.q(pin)),
                    desc="resolved channel %s is outside the pinned track %s" % (rt.q(r["out"]), rt.q(pin)), replay=r))
    if n_rc != len(cases):
        raise InfraError("resolveChannel driver evaluated %d of %d cases" % (n_rc, len(cases)))
    ctx.log("snapstate.resolveChannel: %d cases against the reference" % n_rc)

    # ---- laws directly on the real outputs
    lrows = rt.drive(ctx, binary, "TestVerifC34Laws", os.path.join(outdir, "laws.ndjson"),
                     env={"VERIF_NRAND": ctx.pick(500, 6000)}, timeout=1500)
    lst = rt.stats_of(lrows)
    for r in lrows:
        if r.get("kind") == "law":
            violations.append(Violation(key=r["key"], desc="law '%s' fails on the real code: %s" % (r["law"], r["detail"]), replay=r))
    ctx.log("laws on real outputs: %d strings, %d evaluations, violations by class: %s"
            % (lst["strings"], lst["evaluations"], lst["by_class"]))

    # ---- I->T verdicts
    checked = 0
    canary_seen = False
    rand_bad = 0
    for v, _ok in vres:
        checked += v["checked"]
        for b in v["bad"]:
            if b["case"] == 0:
                canary_seen = "parse" in b["fns"]
                continue
            o = obs[b["case"]]
            rand_bad += 1
            violations.append(Violation(
                key="random: %s s=%s cur=%s new=%s pin=%s" % ("+".join(b["fns"]), rt.q(_join(o["s"])), rt.q(_join(o["cur"])),
                                                              rt.q(_join(o["new"])), rt.q(_join(o["pin"]))),
                desc="real snap/channel result differs from Channel.tla on %s (random case %d, seed %d)" % (b["fns"], b["case"], ctx.seed),
                replay=o))
    if not canary_seen:
        canary_trouble.append("corrupted observation (case 0, field parse) was not rejected by TraceChannel")
    if checked - 1 != nobs or nobs != nrand:
        raise InfraError("I->T: %d observations recorded, %d written, %d validated" % (nrand, nobs, checked - 1))
    ctx.log("I->T: %d random observations validated by TLC, %d differences" % (nobs, rand_bad))

    seen = set()
    uniq = []
    for v in violations:
        if v.key not in seen:
            seen.add(v.key)
            uniq.append(v)
    # the named deviation last, so that anything else is among the first violations printed
    uniq.sort(key=lambda v: (v.key.startswith("risk-named-track:"), v.key.split(":")[0], len(v.key), v.key))
    by_class = {}
    for v in uniq:
        c = v.key.split(":")[0]
        by_class[c] = by_class.get(c, 0) + 1
    ctx.log("violations by class: %s" % (by_class or "none"))

    if canary_trouble and not uniq:
        raise InfraError("binding canary: " + "; ".join(canary_trouble))

    samples = []
    for o in list(obs.values())[:3]:
        samples.append({"s": _join(o["s"]), "Parse": o["parse"], "Full": o["full"],
                        "Resolve(%s,%s)" % (_join(o["cur"]), _join(o["new"])): o["resolve"]})
    samples.append({"resolveChannel": [{k: r[k] for k in ("snap", "cur", "new", "kernel", "gadget", "out", "err")}
                                       for r in rrows[1:400:97] if r.get("kind") == "resolve"]})
    cov = {
        "evaluations": st["evaluations"] + n_rc + lst["evaluations"] + 6 * nobs,
        "distinct_nontrivial": st["distinct_outcomes"],
        "rule": "real snap/channel ParseVerbatim/Parse/Full/Channel.Full/Resolve/ResolvePinned and snapstate.resolveChannel == "
                "Channel.tla reference on every tabulated input; laws of the statement hold on the reference (TLC) and on real outputs",
        "samples": samples,
        "table_evaluations": st["evaluations"],
        "table_differences": st["mismatches"],
        "resolveChannel_cases": n_rc if not skip_overlay else "SKIPPED (VERIF_SKIP_OVERLAY)",
        "law_check_on_real": {k: lst[k] for k in ("strings", "evaluations", "law_violations", "by_class")},
        "random_observations_validated_by_tlc": nobs,
        "random_differences": rand_bad,
        "tlc_law_states": mc.distinct,
        "tlc_constants": {"Comps": COMPS, "MaxComps": maxcomps, "requests<=": 3, "pinned<=": 2},
        "tlc_table_runs": len(tjobs),
        "violations_by_class": by_class,
        "binding_canaries": ("corrupted table entry and corrupted observation both rejected" if not canary_trouble
                             else "TROUBLE (run has violations): " + "; ".join(canary_trouble)),
    }
    return Result(level="exploration", coverage=cov,
                  assumptions=[
                      "channel strings are exchanged as '/'-separated component lists; components are opaque strings (no '/' inside)",
                      "architecture is fixed to amd64 (not part of the statement)",
                      "pinned tracks for snapstate.resolveChannel are those a model assertion can express (one component, not a risk name)",
                  ],
                  violations=uniq)
