"""C25 -- non-root callers can only run snapctl's read-only commands (Snapctl.tla)."""
from props import _snapctl


def run(ctx):
    return _snapctl.run(ctx)
