"""Shared by C14/C15: two-pass trace validation and binding self-check.

Pass 1 (strict): the recorded real steps must be exactly the spec's actions (TLC `validate_trace`).
Pass 2 (only when pass 1 rejects; VERIF_STRICT=0): the same trace spec with the "step equals the spec action"
conjunct dropped -- the real post-states are taken as they are, the spec's history variables are computed from
them and every invariant of the property is evaluated.  This classifies a rejection:

  * an invariant fails on the real states            -> the property STATEMENT is violated (Violation)
  * the lenient pass is also stuck (a logged value
    contradicts what the driver itself did)          -> harness problem (InfraError)
  * no invariant fails                               -> the code deviates from the model without breaking the
                                                        statement: reported as "divergence" (the caller decides)
"""
import json
import os
import random

from lib import common, tlc
from lib.common import InfraError


def load(path):
    return common.read_ndjson(path)


def case_events(rows, line):
    """events of the case that owns 1-based `line`, up to and including that line"""
    idx = line - 1
    case = rows[idx].get("case")
    out = []
    for r in rows[:idx + 1]:
        if r.get("case") == case:
            out.append(r)
    return out


def two_pass(ctx, module, cfg, trace_path, name, timeout=1800):
    tv = tlc.validate_trace(ctx, module, cfg, trace_path, timeout=timeout, name="strict_" + name)
    out = {"accepted": tv["accepted"], "line": tv["stuck_line"], "invariant": tv["invariant"],
           "states": tv["res"].distinct, "kind": None}
    if tv["accepted"]:
        return out
    if tv["invariant"]:
        out["kind"] = "violation"
        return out
    lv = tlc.validate_trace(ctx, module, cfg, trace_path, timeout=timeout, name="lenient_" + name,
                            env={"VERIF_STRICT": "0"})
    if lv["accepted"]:
        out["kind"] = "divergence"
    elif lv["invariant"]:
        out["kind"] = "violation"
        out["invariant"] = lv["invariant"]
        out["line"] = lv["stuck_line"]
        out["strict_line"] = tv["stuck_line"]
    else:
        out["kind"] = "stuck"
        out["lenient_line"] = lv["stuck_line"]
    return out


def corruption_check(ctx, module, cfg, trace_path, mutate, name, limit=400):
    """Binding self-check: corrupt one recorded field of a real trace (first `limit` lines) and require
    strict validation to reject it. `mutate(rows, rng)` edits rows in place and returns a description, or
    None if it found nothing to corrupt."""
    rows = load(trace_path)[:limit]
    # keep whole cases only
    rng = random.Random(ctx.seed)
    what = mutate(rows, rng)
    if what is None:
        raise InfraError("corruption check: nothing to corrupt in %s" % trace_path)
    p = os.path.join(ctx.subdir("corrupt_" + name), "bad.ndjson")
    common.write_ndjson(p, rows)
    tv = tlc.validate_trace(ctx, module, cfg, p, timeout=1200, name="corrupt_" + name)
    if tv["accepted"]:
        raise InfraError("binding self-check failed: corrupted trace (%s) was accepted by %s" % (what, module))
    return {"corrupted": what, "rejected_at_line": tv["stuck_line"], "by": tv["invariant"] or "step"}


def stats_line(out, tag="VERIF-STATS"):
    for ln in out.split("\n"):
        if ln.startswith(tag + " "):
            return json.loads(ln[len(tag) + 1:])
    raise InfraError("driver printed no %s line" % tag)
